//go:build verif
// +build verif

package inmem

import "sync"

// Verification hooks (build tag "verif").

// VerifNewFresh returns a new, empty, private instance (not the shared singleton).
func VerifNewFresh() *Handler {
	return &Handler{data: make(map[string]entry), mutex: new(sync.RWMutex)}
}

// VerifDump returns a copy of the raw contents: key -> (exptime, flags, data).
func VerifDump(h *Handler) map[string][3]interface{} {
	h.mutex.RLock()
	defer h.mutex.RUnlock()
	r := make(map[string][3]interface{}, len(h.data))
	for k, e := range h.data {
		r[k] = [3]interface{}{e.exptime, e.flags, append([]byte(nil), e.data...)}
	}
	return r
}
