//go:build verif
// +build verif

package chunked

// Verification hooks (build tag "verif"): read-only exports of package internals.

const (
	VerifChunkMaxSize     = chunkMaxSize
	VerifChunkOverhead    = chunkOverhead
	VerifTokenSize        = tokenSize
	VerifMetadataSize     = metadataSize
	VerifRealTimeMaxDelta = realTimeMaxDelta
)

func VerifChunkSize(keylen int) (dataSize, fullSize uint32) { return chunkSize(keylen) }
func VerifMetaKey(key []byte) []byte                        { return metaKey(key) }
func VerifChunkKey(key []byte, chunk int) []byte            { return chunkKey(key, chunk) }
func VerifChunkSliceIndices(chunkSize, chunkNum, totalLength int) (int, int) {
	return chunkSliceIndices(chunkSize, chunkNum, totalLength)
}
func VerifExptime(ttl uint32) (uint32, bool) { return exptime(ttl) }
