//go:build verif
// +build verif

package batched

// Verification hooks (build tag "verif").

// VerifAddConn adds one pooled connection to the relay of sock (which must exist).
func VerifAddConn(sock string) {
	relayLock.RLock()
	r := relays[sock]
	relayLock.RUnlock()
	r.addConn()
}

// VerifPoolSize returns the number of pooled connections of the relay of sock.
func VerifPoolSize(sock string) int {
	relayLock.RLock()
	r := relays[sock]
	relayLock.RUnlock()
	if r == nil {
		return 0
	}
	return len(r.conns.Load().([]*conn))
}
