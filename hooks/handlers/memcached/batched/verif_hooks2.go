//go:build verif
// +build verif

package batched

import (
	"math/rand"

	"github.com/netflix/rend/common"
)

// Verification hooks (build tag "verif"): function-level access to the batching step.

// VerifReq is one queued request; Chan identifies the caller's response channel.
type VerifReq struct {
	Type common.RequestType
	Req  common.Request
	Chan int
}

// VerifHandle is what the reader will use to route one reply.
type VerifHandle struct {
	Key    []byte
	Opaque uint32
	Quiet  bool
	Chan   int
}

// VerifBatchIntoBuffer runs conn.batchIntoBuffer on the given requests with a connection whose
// random source is seeded with seed, and returns the bytes that would be written to the
// backend, the opaque -> handle table and the per-channel expected reply counts.
func VerifBatchIntoBuffer(seed int64, reqs []VerifReq) ([]byte, map[uint32]VerifHandle, map[int]int) {
	c := &conn{rand: rand.New(rand.NewSource(seed))}
	chans := map[int]chan response{}
	back := map[chan response]int{}
	rs := make([]request, len(reqs))
	for i, r := range reqs {
		ch, ok := chans[r.Chan]
		if !ok {
			ch = make(chan response)
			chans[r.Chan] = ch
			back[ch] = r.Chan
		}
		rs[i] = request{reqtype: r.Type, req: r.Req, reschan: ch}
	}
	buf, responses, channels := c.batchIntoBuffer(rs)
	wire := append([]byte(nil), buf.Bytes()...)
	batcherPool.Put(buf)
	hs := make(map[uint32]VerifHandle, len(responses))
	for o, h := range responses {
		hs[o] = VerifHandle{Key: h.key, Opaque: h.opaque, Quiet: h.quiet, Chan: back[h.reschan]}
	}
	cs := make(map[int]int, len(channels))
	for ch, n := range channels {
		cs[back[ch]] = n
	}
	return wire, hs, cs
}

// VerifTrackerRetry runs the retry bookkeeping of the batched Get: the tracker map of cmd, the
// responses served so far removed from it, and the request that would be re-submitted.
func VerifTrackerRetry(cmd common.GetRequest, served []common.GetEResponse) common.GetRequest {
	tm := getRequestToTrackerMap(cmd)
	for _, gr := range served {
		key := keyAttrs{key: string(gr.Key), opaque: gr.Opaque, quiet: gr.Quiet}
		if count, ok := tm[key]; ok {
			if count == 1 {
				delete(tm, key)
			} else {
				tm[key] = count - 1
			}
		}
	}
	return trackerMapToGetRequest(tm)
}
