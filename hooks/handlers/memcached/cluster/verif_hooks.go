//go:build verif
// +build verif

package cluster

// Verification hooks (build tag "verif").

type VerifPoint struct {
	Point uint32
	Label string
}

// VerifRing returns the continuum's ring in ring order.
func VerifRing(c *Continuum) []VerifPoint {
	r := make([]VerifPoint, len(c.ring))
	for i, p := range c.ring {
		r[i] = VerifPoint{p.point, p.bucket.Label()}
	}
	return r
}
