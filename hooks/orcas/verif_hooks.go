//go:build verif
// +build verif

package orcas

import "sync"

// Verification hooks (build tag "verif").

// VerifLockSetSize returns the number of lockers in lock set slot.
func VerifLockSetSize(slot uint32) int { return len(locks[slot]) }

// VerifSetLockers replaces locker idx of lock set slot (write and read side) in place, so
// that every LockedOrca created from that slot, before or after, uses the new lockers.
func VerifSetLockers(slot uint32, idx int, w, r sync.Locker) {
	locks[slot][idx] = w
	rlocks[slot][idx] = r
}

// VerifGetLockers returns the current lockers idx of lock set slot.
func VerifGetLockers(slot uint32, idx int) (w, r sync.Locker) {
	return locks[slot][idx], rlocks[slot][idx]
}
