//go:build verif
// +build verif

package metrics

// Verification hooks (build tag "verif"): read-only exports of package internals.

const (
	VerifBuflen          = buflen
	VerifNumAtlasBuckets = numAtlasBuckets
)

func VerifGetBucket(n uint64) uint64 { return getBucket(n) }
func VerifLzcnt(x uint64) uint64     { return lzcnt(x) }

func VerifBucketValues() []int64 {
	r := make([]int64, len(bucketValues))
	copy(r, bucketValues[:])
	return r
}

func VerifPowerOf4Index() []int {
	r := make([]int, len(powerOf4Index))
	copy(r, powerOf4Index[:])
	return r
}

// VerifHistReport is what one reporting period of a histogram yields.
type VerifHistReport struct {
	Count, Kept, Total, Min, Max uint64
	Pctls                        [23]uint64
}

// VerifExtractHist ends the current reporting period of histogram id exactly as the
// /metrics endpoint does (extractHist + hdatPercentiles) and returns what it would report.
func VerifExtractHist(id uint32) VerifHistReport {
	dat := extractHist(&hists[id])
	r := VerifHistReport{Count: dat.count, Kept: dat.kept, Total: dat.total, Min: dat.min, Max: dat.max}
	if dat.count != 0 {
		r.Pctls = hdatPercentiles(dat)
	}
	return r
}

// VerifBucketCounts returns the bucketized counters of histogram id.
func VerifBucketCounts(id uint32) []uint64 {
	a := extractBHist(&bhists[id])
	r := make([]uint64, len(a))
	copy(r, a[:])
	return r
}
