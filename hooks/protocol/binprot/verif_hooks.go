//go:build verif
// +build verif

package binprot

import "github.com/netflix/rend/common"

// Verification hooks (build tag "verif"): read-only exports of package internals.

func VerifErrorToCode(err error) uint16 { return errorToCode(err) }
func VerifReqTypeToOpcode(rt common.RequestType, quiet bool) uint8 {
	return reqTypeToOpcode(rt, quiet)
}
