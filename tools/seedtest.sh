#!/bin/bash
# usage: seedtest.sh <patch.diff> <tier> <ID> [<ID>...] — applies a seeded change to /repo, runs the checks, reverts.
P=$1; T=$2; shift 2
git -C /repo apply $P || { echo "patch does not apply"; exit 9; }
for id in "$@"; do
  /usr/bin/time -f "  ($id %es)" /verif/check $id $T 2>&1 | grep -E "VIOLATION|KNOWN|\(C|rror" | cut -c1-200
done
git -C /repo checkout -- . 
