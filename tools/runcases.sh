#!/bin/bash
# usage: runcases.sh <harness-binary> <subcmd> <tier> <outdir> [extra args] — runs a harness sub-command and
# evaluates its case files; prints Go-side failures and the bad lists.
B=$1; C=$2; T=$3; O=$4; shift 4
rm -rf $O; mkdir -p $O
(cd $O && timeout 1800 $B $C -tier $T -seed 1 -out $O "$@" > harness.log 2>&1); echo "harness rc=$?"
python3 - $O <<'PY'
import json,sys
d=json.load(open(sys.argv[1]+'/result.json'))
fs=d.get('go_failures') or []
print(len(d.get('cases') or []),'cases;',len(fs),'go failures')
seen=set()
for f in fs:
    k=(f['kind'],f['what'][:160])
    if k not in seen: seen.add(k); print('  ',k)
PY
cd $O; for f in cases*.v; do [ -f $f ] && (coqc -noglob -R /verif/coq Rend $f > $f.out 2>&1 &) ; done
while pgrep -f "coqc -noglob -R /verif/coq Rend cases" >/dev/null; do sleep 1; done
python3 - <<'PY'
import glob,re
for f in sorted(glob.glob('cases*.v.out')):
    t=open(f).read()
    if 'bad =' not in t: print(f,'NO RESULT:',t[-300:].replace('\n',' ')); continue
    ps=re.findall(r'\(\s*(\d+),\s*(\d+)\)', t[t.rindex('bad ='):])
    if ps: print(f, 'bad:', ' '.join('(%s,%s)'%p for p in ps[:12]), '... %d in all'%len(ps))
PY
grep -l "Error" cases*.v.out 2>/dev/null | head -3
echo "evaluated"
