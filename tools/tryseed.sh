#!/bin/bash
# usage: tryseed.sh <ID> <worktree-with-seeded-change> — runs every harness sub-command of the property's
# check against the worktree (not /repo) with the model as currently built. A first look only: the
# generated Coq files (constants, translated functions) are NOT regenerated from the worktree.
ID=$1; WT=$2
B=/tmp/rh-try-$ID
/verif/tools/seedbin.sh $WT $B || exit 9
for c in $(python3 -c "
import json;d=json.load(open('/verif/conf/$ID.json'));c=d['cmd'];print(' '.join(c if isinstance(c,list) else [c]))"); do
  echo "== $c"; /verif/tools/runcases.sh $B $c quick /tmp/o-try-$ID-$c 2>&1 | tail -8
done
rm -f $B
