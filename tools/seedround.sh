#!/bin/bash
# usage: seedround.sh <Lnn> <tier> <ID> [<ID>...] — takes a sub-agent's out-directory /tmp/seed<Lnn>-out, stores it as
# /verif/seeded/<Lnn>, confirms it (tools/confirm_seed.sh) and runs the named checks against it (tools/seedtest_wt.sh).
# Output: /tmp/seedlogs/<Lnn>.log
S=$1; T=$2; shift 2
mkdir -p /tmp/seedlogs
L=/tmp/seedlogs/$S.log
if [ -d /tmp/seed$S-out ] && [ ! -d /verif/seeded/$S ]; then mkdir -p /verif/seeded/$S; cp -r /tmp/seed$S-out/. /verif/seeded/$S/; fi
{ echo "##### confirm $S"; /verif/tools/confirm_seed.sh /verif/seeded/$S; echo "##### checks $S: $*"; /verif/tools/seedtest_wt.sh /verif/seeded/$S/patch.diff $T "$@"; echo "##### done"; } > $L 2>&1
