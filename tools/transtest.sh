#!/bin/bash
# sensitivity of ONE source translator against ONE seeded patch, without running a whole check: scratch worktree of /repo
# with the patch, scratch copy of coq/, translator run with VERIF_REPO/VERIF_ROOT pointing there, generated file and link
# file compiled there. usage: transtest.sh <seed> <translator> <genfile> <linkfile>
export GOFLAGS=-mod=mod GOPROXY=off GOSUMDB=off GOTOOLCHAIN=local
S=$1; T=$2; G=$3; L=$4
WT=/tmp/tt-wt-$S-$T; X=/tmp/tt-$S-$T
git -C /repo worktree add --detach $WT HEAD >/dev/null 2>&1
(cd $WT && git apply /verif/seeded/$S/patch.diff) || { echo "$S $T: patch fails"; exit 1; }
mkdir -p $X; rsync -a /verif/coq/ $X/coq/
VERIF_REPO=$WT VERIF_ROOT=$X VERIF_CHILD=1 /verif/.work/bin/rendharness $T -out $X/coq/gen > $X/out.log 2>&1
if cmp -s $X/coq/gen/$G /verif/coq/gen/$G; then echo "$S $T: generated file identical (silent)"; else
  cd $X/coq && timeout 900 coqc -R . Rend -w -notation-overridden gen/$G > $X/c1.log 2>&1; r1=$?
  timeout 900 coqc -R . Rend -w -notation-overridden gen/$L > $X/c2.log 2>&1; r2=$?
  echo "$S $T: generated file differs; gen rc=$r1 link rc=$r2: $(grep -m1 -A3 'Error' $X/c2.log $X/c1.log | tr '\n' ' ' | cut -c1-250)"
fi
cd /; git -C /repo worktree remove --force $WT; rm -rf $X
