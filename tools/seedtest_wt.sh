#!/bin/bash
# usage: seedtest_wt.sh <patch.diff> <tier> <ID> [<ID>...] — like seedtest.sh (the whole pipeline: harness build,
# translators, Coq build, cases) but against a scratch worktree of /repo with the seeded change, from a scratch
# copy of /verif: /repo itself is not touched (for use while a long run is reading /repo). Prints the
# VIOLATION lines; the replay paths are inside the scratch copy, which is removed at the end.
P=$1; T=$2; shift 2
TAG=$$
WT=/tmp/swt-repo-$TAG; VC=/tmp/swt-verif-$TAG
git -C /repo worktree add --detach $WT HEAD >/dev/null 2>&1 || exit 9
(cd $WT && git apply $P) || { echo "patch does not apply"; git -C /repo worktree remove --force $WT; exit 9; }
SRC=/verif; [ -d /tmp/verif-snap ] && SRC=/tmp/verif-snap   # a consistent snapshot, if one was taken (the working tree may be mid-edit)
mkdir -p $VC; rsync -a --exclude .git --exclude .work --exclude replays $SRC/ $VC/   # compiled .vo files come along (same mtimes): only what the change touches is rebuilt
sed -i "s|=> /repo|=> $WT|" $VC/harness/go.mod
for id in "$@"; do
  VERIF_REPO=$WT /usr/bin/time -f "  ($id %es)" $VC/check $id $T 2>&1 | grep -E "VIOLATION|KNOWN|\(C|rror" | cut -c1-200
  for r in $(ls $VC/replays 2>/dev/null); do [ -e /verif/replays/$r ] || { echo "  --- $r:"; head -c 700 $VC/replays/$r | tr '\n' ' '; echo; }; done
done
git -C /repo worktree remove --force $WT; rm -rf $VC
