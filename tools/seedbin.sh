#!/bin/bash
# usage: seedbin.sh <worktree-of-repo-with-change> <out-binary>
# Builds the harness against a scratch worktree instead of /repo (for trying a harness change
# against a seeded change without touching /repo; the registered checks always use /repo).
set -e
WT=$1; OUT=$2
export GOFLAGS=-mod=mod GOPROXY=off GOSUMDB=off GOTOOLCHAIN=local
D=$(mktemp -d /tmp/hb.XXXXXX)
cp -r /verif/harness/. $D/
sed -i "s|=> /repo|=> $WT|" $D/go.mod
(cd $D && go build -tags verif -o $OUT ./cmd/rendharness)
rm -rf $D
