#!/bin/bash
# usage: confirm_seed.sh <seed-out-dir>   — confirms a seeded change in a scratch worktree:
# applies, builds, runs the existing suite, runs the demo with and without the change.
set -u
D=$1
export GOFLAGS=-mod=mod GOPROXY=off GOSUMDB=off GOTOOLCHAIN=local
WT=/tmp/confirm-$$
git -C /repo worktree add --detach $WT HEAD >/dev/null 2>&1 || exit 9
cd $WT
CMD=$(python3 -c "import json,html;print(html.unescape(json.load(open('$D/meta.json'))['demo_cmd']))")
echo "== demo WITHOUT change"; bash -c "$CMD" 2>&1 | tail -4
git apply $D/patch.diff || { echo "PATCH DOES NOT APPLY"; git -C /repo worktree remove --force $WT; exit 8; }
echo "== build"; go build ./common/... ./handlers/... ./metrics/... ./orcas/... ./protocol/... ./server/... ./timer/... 2>&1 | tail -3
echo "== existing tests"; go test -vet=off -count=1 ./... 2>&1 | grep -v "no test files" | grep -v "^ok" | grep -v "app" | tail -5
echo "== demo WITH change"; bash -c "$CMD" 2>&1 | tail -6
cd /; git -C /repo worktree remove --force $WT
