// Package gal prints Gallina terms for harness-generated case files.
package gal

import (
	"encoding/hex"
	"fmt"
	"strings"
)

// N prints a natural number as an N literal.
func N(v uint64) string { return fmt.Sprintf("%d", v) }

// Bytes prints a byte string as (hx "..") — decoded inside Coq by base/Bytes.v.
func Bytes(b []byte) string {
	if len(b) == 0 {
		return "[]"
	}
	return `(hx "` + hex.EncodeToString(b) + `")`
}

// Str prints an ASCII byte string as (asc "...") when it is printable, else as hex.
func Str(b []byte) string {
	for _, c := range b {
		if c < 0x20 || c > 0x7e || c == '"' {
			return Bytes(b)
		}
	}
	if len(b) == 0 {
		return "[]"
	}
	return `(asc "` + string(b) + `")`
}

func Bool(b bool) string {
	if b {
		return "true"
	}
	return "false"
}

func List(items []string) string {
	if len(items) == 0 {
		return "[]"
	}
	return "[" + strings.Join(items, "; ") + "]"
}

func Ns(vs []uint64) string {
	it := make([]string, len(vs))
	for i, v := range vs {
		it[i] = N(v)
	}
	return List(it)
}

func Pair(a, b string) string { return "(" + a + ", " + b + ")" }

func Tuple(xs ...string) string { return "(" + strings.Join(xs, ", ") + ")" }

// App prints a constructor/function application.
func App(f string, args ...string) string {
	if len(args) == 0 {
		return f
	}
	return "(" + f + " " + strings.Join(args, " ") + ")"
}

func Opt(s string, some bool) string {
	if !some {
		return "None"
	}
	return "(Some " + s + ")"
}
