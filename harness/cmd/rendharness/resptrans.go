package main

// resptrans: translates the reply renderers of /repo — protocol/binprot/respond.go,
// protocol/textprot/respond.go and writeResponseHeader (+ the pools and the ResponseHeader struct) of
// protocol/binprot/headers.go — from their SOURCE (go/parser) into Gallina programs over the writer
// monad of coq/proto/WriterSem.v, and writes coq/gen/Resp_gen.v. coq/gen/RespSrcLink.v proves that
// running the generated program of every Responder call yields exactly the bytes of proto/Resp.v
// render_bin / render_text (the functions properties C01 and C08 are about).
//
// The translation goes by AST structure, statement by statement:
//   return nil / return err / return <call>             ret None / ret err / the call's program
//   if [init;] cond { A } [else { B }] ; rest           if cond then [A; rest] else [B; rest]
//   x := e, x = e (pure e)                              let x := e in
//   a, b := <writer call>                               bind (call) (fun '(a, b) => ...)
//   h.Field = e   (h a pooled struct, not a parameter)  let h := fset h "Field" e in
//   buf[i] = e                                          bind (buf_set buf i e) (fun buf => ...)
//   binary.BigEndian.PutUintNN(buf[lo:hi], v)           bind (buf_put w buf lo hi v) (fun buf => ...)
//   for i := lo; i < hi; i++ { buf[i] = v }             bind (buf_fill buf lo hi v) (fun buf => ...)
//   x := pool.Get().([]byte) / .(*T)                    bind (pool_get_buf <len from the pool's New>) / pool_get_struct
//   w.Write(x) w.WriteString(x) w.Flush()               w_write / w_write_string / w_flush   (w = THE writer: recv.writer or a *bufio.Writer / io.Writer parameter)
//   fmt.Fprintf(w, f, args...)                          w_fprintf f [FBytes.. / FNum..]
//   binary.Write(w, binary.BigEndian, v)                w_binary_write <size of v's type> v
//   panic(..)                                           w_panic
//   switch err { case common.ErrX: .. fallthrough ..}   if err_is err EX then .. (fallthrough = the next clause's program)
//   err.Error()                                         bind (w_err_Error err)
//   f(..) / recv.M(..) of the same file                 the translated program of f / M
//   errorToCode(e), reqTypeToOpcode(rt, q)              err_code e, req_type_to_opcode rt q (the COMPILED tables of constgen)
// Dropped by rule (listed in the generated file): expression statements calling metrics.* or log.*
// whose operands contain no call other than conversions and len, and <sync.Pool var>.Put(x).
// Anything else becomes `w_untrans "<source text>"`, which makes the program end outside the
// modelled fragment (WOutside) so that the link lemmas stop compiling.

import (
	"bytes"
	"fmt"
	"go/ast"
	"go/parser"
	"go/printer"
	"go/token"
	"os"
	"path/filepath"
	"regexp"
	"sort"
	"strconv"
	"strings"
)

func init() { commands["resptrans"] = resptrans }

type rspKindT int

const (
	rspUnknown rspKindT = iota
	rspInt
	rspBool
	rspBytes
	rspErr
	rspStruct
	rspGres
	rspWriter
)

type rspKind struct {
	k     rspKindT
	width int // bytes, for integers (0 = untyped constant)
}

func (k rspKind) coqType() string {
	switch k.k {
	case rspInt:
		return "N"
	case rspBool:
		return "bool"
	case rspBytes:
		return "bytes"
	case rspErr:
		return "gerr"
	case rspStruct:
		return "gstruct"
	case rspGres:
		return "gres"
	}
	return "?"
}

type rspVar struct {
	coq  string
	kind rspKind
}

type rspEnv map[string]rspVar

func (e rspEnv) with(name string, v rspVar) rspEnv {
	n := rspEnv{}
	for k, x := range e {
		n[k] = x
	}
	n[name] = v
	return n
}

type rspFunc struct {
	proto   string // "bin" or "text"
	goName  string
	coq     string
	decl    *ast.FuncDecl
	recv    string // receiver variable ("" for plain functions)
	params  []rspVar
	pnames  []string
	pkinds  []rspKind // all parameters including writers
	ok      bool      // signature understood
	why     string
	emitted bool
	busy    bool
	text    string
}

type rspPkg struct {
	proto     string
	fs        *token.FileSet
	funcs     map[string]*rspFunc // plain functions
	methods   map[string]*rspFunc // methods of the responder type
	order     []string            // emission order (coq definitions)
	defs      []string
	respType  string
	pools     map[string]string // pool var -> "buf:<len>" or "struct:<T>"
	structs   map[string]map[string]int
	dropped   []string
	untrans   []string
	consts    map[string]bool
	gresField map[string]map[string]string // Go struct name -> field -> Go type
}

type rspCtx struct {
	p     *rspPkg
	f     *rspFunc
	pre   []string
	fresh int
}

func rspSrc(fs *token.FileSet, n ast.Node) string {
	var b bytes.Buffer
	printer.Fprint(&b, fs, n)
	return strings.Join(strings.Fields(b.String()), " ")
}

func rspComment(s string) string {
	s = strings.ReplaceAll(s, "\"", "'")
	s = strings.ReplaceAll(s, "(*", "( *")
	s = strings.ReplaceAll(s, "*)", "* )")
	return s
}

func rspCoqStr(s string) string { return "\"" + strings.ReplaceAll(s, "\"", "\"\"") + "\"" }

func rspIndent(s string) string {
	lines := strings.Split(s, "\n")
	for i, l := range lines {
		if l != "" {
			lines[i] = "  " + l
		}
	}
	return strings.Join(lines, "\n")
}

// rspBytesLit renders a Go string value as a Gallina byte list.
func rspBytesLit(s string) string {
	plain := true
	for i := 0; i < len(s); i++ {
		if s[i] < 32 || s[i] > 126 || s[i] == '"' {
			plain = false
		}
	}
	if plain && s != "" {
		return "(asc " + rspCoqStr(s) + ")"
	}
	var parts []string
	for i := 0; i < len(s); i++ {
		parts = append(parts, strconv.Itoa(int(s[i])))
	}
	return "[" + strings.Join(parts, "; ") + "]"
}

func rspTypeKind(e ast.Expr) rspKind {
	switch typeString(e) {
	case "uint8", "byte":
		return rspKind{rspInt, 1}
	case "uint16":
		return rspKind{rspInt, 2}
	case "uint32":
		return rspKind{rspInt, 4}
	case "uint64", "int", "int64", "uint":
		return rspKind{rspInt, 8}
	case "common.RequestType":
		return rspKind{rspInt, 8}
	case "bool":
		return rspKind{rspBool, 0}
	case "string":
		return rspKind{rspBytes, 0}
	case "error":
		return rspKind{rspErr, 0}
	case "*bufio.Writer", "io.Writer":
		return rspKind{rspWriter, 0}
	case "common.GetResponse", "common.GetEResponse":
		return rspKind{rspGres, 0}
	case "*ResponseHeader":
		return rspKind{rspStruct, 0}
	}
	if a, ok := e.(*ast.ArrayType); ok && a.Len == nil && typeString(a.Elt) == "byte" {
		return rspKind{rspBytes, 0}
	}
	return rspKind{rspUnknown, 0}
}

// the fields of common.GetResponse / common.GetEResponse and the projections of orca/Types.v gres
var rspGresProj = map[string]struct {
	proj string
	typ  string
	kind rspKind
}{
	"Key": {"g_key", "[]byte", rspKind{rspBytes, 0}}, "Data": {"g_data", "[]byte", rspKind{rspBytes, 0}},
	"Opaque": {"g_opaque", "uint32", rspKind{rspInt, 4}}, "Flags": {"g_flags", "uint32", rspKind{rspInt, 4}},
	"Exptime": {"g_exp", "uint32", rspKind{rspInt, 4}},
	"Miss":    {"g_miss", "bool", rspKind{rspBool, 0}}, "Quiet": {"g_quiet", "bool", rspKind{rspBool, 0}},
}

func rspFieldType(e ast.Expr) string {
	if a, ok := e.(*ast.ArrayType); ok && a.Len == nil {
		return "[]" + typeString(a.Elt)
	}
	return typeString(e)
}

type rspFail struct{ msg string }

func (c *rspCtx) fail(n ast.Node, why string) {
	panic(rspFail{why + ": " + rspSrc(c.p.fs, n)})
}

// rspName: a Gallina name for a Go variable that does not capture a name of WriterSem.v / Bytes.v
func rspName(n string) string {
	switch n {
	case "ret", "bind", "len", "dec", "asc", "zeros", "fget", "fset", "upd", "upds", "W", "gerr", "live", "tick", "take", "drop", "byte", "bytes":
		return n + "_v"
	}
	return coqName(n)
}

func (c *rspCtx) newName(base string) string {
	c.fresh++
	return fmt.Sprintf("%s_%d", base, c.fresh)
}

// constant renaming rules; the result must exist in gen/Consts_gen.v
func (c *rspCtx) constant(n ast.Node, pkg, name string) (string, rspKind) {
	var coq string
	kind := rspKind{rspInt, 0}
	switch {
	case pkg == "" && strings.HasPrefix(name, "Opcode"):
		coq = "op" + name[len("Opcode"):]
		kind = rspKind{rspInt, 1}
	case pkg == "" && strings.HasPrefix(name, "Status"):
		coq = "status" + name[len("Status"):]
		kind = rspKind{rspInt, 2}
	case pkg == "" && strings.HasPrefix(name, "Magic"):
		coq = "magic" + name[len("Magic"):]
		kind = rspKind{rspInt, 1}
	case pkg == "common" && strings.HasPrefix(name, "Request"):
		coq = "Rt" + name[len("Request"):]
		kind = rspKind{rspInt, 8}
	case pkg == "common" && strings.HasPrefix(name, "Err"):
		coq = "E" + name[len("Err"):]
		kind = rspKind{rspErr, 0}
	case pkg == "common" && name == "VersionString":
		coq, kind = "versionString", rspKind{rspBytes, 0}
	case pkg == "common" && name == "Version":
		coq, kind = "versionNum", rspKind{rspBytes, 0}
	default:
		c.fail(n, "identifier is neither a variable nor a constant covered by the renaming rules")
	}
	if !c.p.consts[coq] {
		c.fail(n, "constant "+coq+" is not in gen/Consts_gen.v")
	}
	return coq, kind
}

func (c *rspCtx) isWriter(e ast.Expr, env rspEnv) bool {
	switch x := e.(type) {
	case *ast.Ident:
		v, ok := env[x.Name]
		return ok && v.kind.k == rspWriter
	case *ast.SelectorExpr:
		if id, ok := x.X.(*ast.Ident); ok && c.f.recv != "" && id.Name == c.f.recv && x.Sel.Name == "writer" {
			return true
		}
	}
	return false
}

func rspIntLit(e ast.Expr) (int, bool) {
	if b, ok := e.(*ast.BasicLit); ok && b.Kind == token.INT {
		v, err := strconv.ParseInt(b.Value, 0, 64)
		if err == nil {
			return int(v), true
		}
	}
	return 0, false
}

// expr translates a pure expression (hoisting err.Error() into c.pre).
func (c *rspCtx) expr(e ast.Expr, env rspEnv) (string, rspKind) {
	switch x := e.(type) {
	case *ast.ParenExpr:
		return c.expr(x.X, env)
	case *ast.BasicLit:
		switch x.Kind {
		case token.INT:
			v, err := strconv.ParseUint(x.Value, 0, 64)
			if err != nil {
				c.fail(e, "integer literal")
			}
			return strconv.FormatUint(v, 10), rspKind{rspInt, 0}
		case token.STRING:
			s, err := strconv.Unquote(x.Value)
			if err != nil {
				c.fail(e, "string literal")
			}
			return rspBytesLit(s), rspKind{rspBytes, 0}
		}
		c.fail(e, "literal")
	case *ast.Ident:
		if v, ok := env[x.Name]; ok {
			if v.kind.k == rspWriter {
				c.fail(e, "the writer used as a value")
			}
			return v.coq, v.kind
		}
		switch x.Name {
		case "true", "false":
			return x.Name, rspKind{rspBool, 0}
		case "nil":
			return "None", rspKind{rspErr, 0}
		}
		n, k := c.constant(e, "", x.Name)
		return n, k
	case *ast.SelectorExpr:
		if id, ok := x.X.(*ast.Ident); ok {
			if v, ok := env[id.Name]; ok {
				switch v.kind.k {
				case rspGres:
					p, ok := rspGresProj[x.Sel.Name]
					if !ok {
						c.fail(e, "field of a get response without a projection in orca/Types.v gres")
					}
					return "(" + p.proj + " " + v.coq + ")", p.kind
				case rspStruct:
					w, ok := c.p.structs["ResponseHeader"][x.Sel.Name]
					if !ok {
						c.fail(e, "unknown field of ResponseHeader")
					}
					return "(fget " + v.coq + " " + rspCoqStr(x.Sel.Name) + ")", rspKind{rspInt, w}
				}
				c.fail(e, "selector on a variable that is neither a get response nor a header")
			}
			if _, isLocal := env[id.Name]; !isLocal && id.Name == "common" {
				n, k := c.constant(e, "common", x.Sel.Name)
				if k.k == rspErr {
					return "(Some " + n + ")", k
				}
				return n, k
			}
		}
		c.fail(e, "selector")
	case *ast.UnaryExpr:
		if x.Op == token.NOT {
			s, k := c.expr(x.X, env)
			if k.k != rspBool {
				c.fail(e, "! of a non-boolean")
			}
			return "(negb " + s + ")", k
		}
		c.fail(e, "unary operator")
	case *ast.BinaryExpr:
		// comparisons with nil
		if x.Op == token.NEQ || x.Op == token.EQL {
			var other ast.Expr
			if id, ok := x.Y.(*ast.Ident); ok && id.Name == "nil" {
				other = x.X
			} else if id, ok := x.X.(*ast.Ident); ok && id.Name == "nil" {
				other = x.Y
			}
			if other != nil {
				s, k := c.expr(other, env)
				if k.k != rspErr {
					c.fail(e, "comparison of a non-error with nil")
				}
				if x.Op == token.NEQ {
					return "(err_nonnil " + s + ")", rspKind{rspBool, 0}
				}
				return "(negb (err_nonnil " + s + "))", rspKind{rspBool, 0}
			}
		}
		a, ka := c.expr(x.X, env)
		b, kb := c.expr(x.Y, env)
		switch x.Op {
		case token.ADD:
			if ka.k == rspBytes && kb.k == rspBytes {
				return "(" + a + " ++ " + b + ")", ka
			}
			if ka.k == rspInt && kb.k == rspInt {
				w := ka.width
				if w == 0 {
					w = kb.width
				}
				switch w {
				case 0:
					return "(" + a + " + " + b + ")", rspKind{rspInt, 0}
				case 8:
					return "(add64 " + a + " " + b + ")", rspKind{rspInt, 8}
				case 4:
					return "(add32 " + a + " " + b + ")", rspKind{rspInt, 4}
				case 2:
					return "(add16 " + a + " " + b + ")", rspKind{rspInt, 2}
				case 1:
					return "(add8 " + a + " " + b + ")", rspKind{rspInt, 1}
				}
			}
		case token.LAND:
			if ka.k == rspBool && kb.k == rspBool {
				return "(" + a + " && " + b + ")", ka
			}
		case token.LOR:
			if ka.k == rspBool && kb.k == rspBool {
				return "(" + a + " || " + b + ")", ka
			}
		case token.EQL:
			if ka.k == rspInt && kb.k == rspInt {
				return "(" + a + " =? " + b + ")", rspKind{rspBool, 0}
			}
		case token.NEQ:
			if ka.k == rspInt && kb.k == rspInt {
				return "(negb (" + a + " =? " + b + "))", rspKind{rspBool, 0}
			}
		}
		c.fail(e, "binary operator")
	case *ast.CallExpr:
		if id, ok := x.Fun.(*ast.Ident); ok {
			if _, shadow := env[id.Name]; !shadow {
				switch id.Name {
				case "len":
					if len(x.Args) == 1 {
						s, k := c.expr(x.Args[0], env)
						if k.k == rspBytes {
							return "(len " + s + ")", rspKind{rspInt, 8}
						}
					}
					c.fail(e, "len")
				case "uint8", "byte", "uint16", "uint32", "uint64", "int", "int64":
					if len(x.Args) == 1 {
						s, k := c.expr(x.Args[0], env)
						if k.k == rspInt {
							w := map[string]int{"uint8": 1, "byte": 1, "uint16": 2, "uint32": 4, "uint64": 8, "int": 8, "int64": 8}[id.Name]
							return fmt.Sprintf("(conv%d %s)", w*8, s), rspKind{rspInt, w}
						}
					}
					c.fail(e, "conversion")
				case "string":
					if len(x.Args) == 1 {
						s, k := c.expr(x.Args[0], env)
						if k.k == rspBytes {
							return s, k
						}
					}
					c.fail(e, "conversion to string")
				case "make":
					if len(x.Args) == 2 || (len(x.Args) == 3 && rspSrc(c.p.fs, x.Args[1]) == rspSrc(c.p.fs, x.Args[2])) {
						if rspTypeKind(x.Args[0]).k == rspBytes && typeString(x.Args[0]) != "string" {
							s, k := c.expr(x.Args[1], env)
							if k.k == rspInt {
								return "(zeros " + s + ")", rspKind{rspBytes, 0}
							}
						}
					}
					c.fail(e, "make")
				case "errorToCode":
					if c.p.proto == "bin" && len(x.Args) == 1 {
						s, k := c.expr(x.Args[0], env)
						if k.k == rspErr {
							return "(err_code " + s + ")", rspKind{rspInt, 2}
						}
					}
					c.fail(e, "errorToCode")
				case "reqTypeToOpcode":
					if c.p.proto == "bin" && len(x.Args) == 2 {
						a, ka := c.expr(x.Args[0], env)
						b, kb := c.expr(x.Args[1], env)
						if ka.k == rspInt && kb.k == rspBool {
							return "(req_type_to_opcode " + a + " " + b + ")", rspKind{rspInt, 1}
						}
					}
					c.fail(e, "reqTypeToOpcode")
				}
			}
		}
		if sel, ok := x.Fun.(*ast.SelectorExpr); ok && sel.Sel.Name == "Error" && len(x.Args) == 0 {
			if id, ok := sel.X.(*ast.Ident); ok {
				if v, ok := env[id.Name]; ok && v.kind.k == rspErr {
					n := c.newName("msg")
					c.pre = append(c.pre, "bind (w_err_Error "+v.coq+") (fun "+n+" =>")
					return n, rspKind{rspBytes, 0}
				}
			}
		}
		c.fail(e, "call in a pure expression")
	}
	c.fail(e, "expression")
	return "", rspKind{}
}

// coerce checks an operand against a parameter kind
func (c *rspCtx) arg(e ast.Expr, env rspEnv, want rspKind) string {
	s, k := c.expr(e, env)
	if k.k != want.k {
		c.fail(e, "operand kind does not match the parameter")
	}
	if k.k == rspInt && k.width != 0 && want.width != 0 && k.width != want.width {
		c.fail(e, "integer width does not match the parameter")
	}
	return s
}

func rspPkgSel(e ast.Expr) (string, string, bool) {
	s, ok := e.(*ast.SelectorExpr)
	if !ok {
		return "", "", false
	}
	id, ok := s.X.(*ast.Ident)
	if !ok {
		return "", "", false
	}
	return id.Name, s.Sel.Name, true
}

// mcall translates a call that acts on the writer / pools; returns the program and its result arity.
// ok=false: not a monadic call.
func (c *rspCtx) mcall(e ast.Expr, env rspEnv) (term string, arity int, kinds []rspKind, ok bool) {
	// pool.Get().(T)
	if ta, isTA := e.(*ast.TypeAssertExpr); isTA {
		if call, isCall := ta.X.(*ast.CallExpr); isCall && len(call.Args) == 0 {
			if p, m, isSel := rspPkgSel(call.Fun); isSel && m == "Get" {
				if _, local := env[p]; !local {
					if desc, isPool := c.p.pools[p]; isPool {
						want := rspFieldType(ta.Type)
						if strings.HasPrefix(desc, "buf:") && want == "[]byte" {
							return "pool_get_buf " + desc[4:], 1, []rspKind{{rspBytes, 0}}, true
						}
						if strings.HasPrefix(desc, "struct:") && want == "*"+desc[7:] && desc[7:] == "ResponseHeader" {
							return "pool_get_struct", 1, []rspKind{{rspStruct, 0}}, true
						}
						c.fail(e, "pool Get with a type assertion that does not match the pool's New")
					}
				}
			}
		}
		return "", 0, nil, false
	}
	call, isCall := e.(*ast.CallExpr)
	if !isCall {
		return "", 0, nil, false
	}
	pairK := []rspKind{{rspInt, 8}, {rspErr, 0}}
	errK := []rspKind{{rspErr, 0}}
	// plain function of the same package
	if id, isId := call.Fun.(*ast.Ident); isId {
		if _, shadow := env[id.Name]; !shadow {
			if f, isF := c.p.funcs[id.Name]; isF {
				return c.localCall(call, f, env), 1, errK, true
			}
		}
		return "", 0, nil, false
	}
	sel, isSel := call.Fun.(*ast.SelectorExpr)
	if !isSel {
		return "", 0, nil, false
	}
	// method of the responder
	if id, isId := sel.X.(*ast.Ident); isId && c.f.recv != "" && id.Name == c.f.recv {
		if f, isM := c.p.methods[sel.Sel.Name]; isM {
			return c.localCall(call, f, env), 1, errK, true
		}
	}
	// methods of the writer
	if c.isWriter(sel.X, env) {
		switch sel.Sel.Name {
		case "Write":
			if len(call.Args) == 1 {
				return "w_write " + c.arg(call.Args[0], env, rspKind{rspBytes, 0}), 2, pairK, true
			}
		case "WriteString":
			if len(call.Args) == 1 {
				return "w_write_string " + c.arg(call.Args[0], env, rspKind{rspBytes, 0}), 2, pairK, true
			}
		case "Flush":
			if len(call.Args) == 0 {
				return "w_flush", 1, errK, true
			}
		}
		c.fail(e, "method of the writer")
	}
	if p, m, isPS := rspPkgSel(call.Fun); isPS {
		if _, local := env[p]; !local {
			if p == "fmt" && m == "Fprintf" && len(call.Args) >= 2 && c.isWriter(call.Args[0], env) {
				f := c.arg(call.Args[1], env, rspKind{rspBytes, 0})
				var as []string
				for _, a := range call.Args[2:] {
					s, k := c.expr(a, env)
					switch k.k {
					case rspBytes:
						as = append(as, "FBytes "+s)
					case rspInt:
						as = append(as, "FNum "+s)
					default:
						c.fail(a, "Fprintf operand")
					}
				}
				return "w_fprintf " + f + " [" + strings.Join(as, "; ") + "]", 2, pairK, true
			}
			if p == "binary" && m == "Write" && len(call.Args) == 3 && c.isWriter(call.Args[0], env) &&
				rspSrc(c.p.fs, call.Args[1]) == "binary.BigEndian" {
				s, k := c.expr(call.Args[2], env)
				if k.k == rspInt && k.width > 0 {
					return fmt.Sprintf("w_binary_write %d %s", k.width, s), 1, errK, true
				}
				c.fail(e, "binary.Write of a value that is not a fixed-size unsigned integer")
			}
		}
	}
	return "", 0, nil, false
}

func (c *rspCtx) localCall(call *ast.CallExpr, f *rspFunc, env rspEnv) string {
	if !f.ok {
		c.fail(call, "call of "+f.goName+" whose signature is outside the fragment ("+f.why+")")
	}
	if len(call.Args) != len(f.pkinds) || call.Ellipsis.IsValid() {
		c.fail(call, "operand count")
	}
	c.p.need(f)
	parts := []string{f.coq}
	for i, a := range call.Args {
		if f.pkinds[i].k == rspWriter {
			if !c.isWriter(a, env) {
				c.fail(a, "a writer parameter receives something else than the connection's writer")
			}
			continue
		}
		parts = append(parts, c.arg(a, env, f.pkinds[i]))
	}
	return strings.Join(parts, " ")
}

func (c *rspCtx) takePre() []string {
	p := c.pre
	c.pre = nil
	return p
}

func rspWrap(pre []string, body string) string {
	for i := len(pre) - 1; i >= 0; i-- {
		body = pre[i] + "\n" + body + ")"
	}
	return body
}

// pureCallArgs: operands of a dropped statement may only contain conversions and len
func (c *rspCtx) pureOperands(call *ast.CallExpr) bool {
	pure := true
	for _, a := range call.Args {
		ast.Inspect(a, func(n ast.Node) bool {
			if cc, ok := n.(*ast.CallExpr); ok {
				id, isId := cc.Fun.(*ast.Ident)
				if !isId {
					pure = false
					return false
				}
				switch id.Name {
				case "len", "uint8", "uint16", "uint32", "uint64", "int", "int64", "byte":
				default:
					pure = false
				}
			}
			return true
		})
	}
	return pure
}

func (c *rspCtx) droppedStmt(s ast.Stmt, env rspEnv) bool {
	es, ok := s.(*ast.ExprStmt)
	if !ok {
		return false
	}
	call, ok := es.X.(*ast.CallExpr)
	if !ok {
		return false
	}
	p, m, ok := rspPkgSel(call.Fun)
	if !ok {
		return false
	}
	if _, local := env[p]; local {
		return false
	}
	if (p == "metrics" || p == "log") && c.pureOperands(call) {
		return true
	}
	if _, isPool := c.p.pools[p]; isPool && m == "Put" && len(call.Args) == 1 {
		if _, isId := call.Args[0].(*ast.Ident); isId {
			return true
		}
	}
	return false
}

func (c *rspCtx) untrans(n ast.Node, why string, rest string) string {
	txt := rspSrc(c.p.fs, n)
	if len(txt) > 160 {
		txt = txt[:160] + "..."
	}
	c.p.untrans = append(c.p.untrans, c.f.goName+": "+why+": "+txt)
	_ = rest
	return "w_untrans " + rspCoqStr(c.f.goName+": "+why+": "+txt) + " None"
}

// bindPat renders the binder of a monadic call's results
func (c *rspCtx) bindLhs(s *ast.AssignStmt, kinds []rspKind, env rspEnv) (string, rspEnv) {
	var names []string
	for i, l := range s.Lhs {
		id, ok := l.(*ast.Ident)
		if !ok {
			c.fail(s, "assignment target")
		}
		if id.Name == "_" {
			names = append(names, "_")
			continue
		}
		v, exists := env[id.Name]
		if s.Tok == token.DEFINE || !exists {
			if s.Tok != token.DEFINE {
				c.fail(s, "assignment to an unknown variable")
			}
			coq := rspName(id.Name)
			if exists { // an inner := shadows: fresh Gallina name
				coq = c.newName(rspName(id.Name))
			}
			v = rspVar{coq, kinds[i]}
		} else if v.kind.k != kinds[i].k {
			c.fail(s, "assignment changes the kind of a variable")
		}
		env = env.with(id.Name, v)
		names = append(names, v.coq)
	}
	if len(names) == 1 {
		return names[0], env
	}
	return "'(" + strings.Join(names, ", ") + ")", env
}

func (c *rspCtx) terminates(list []ast.Stmt) bool {
	if len(list) == 0 {
		return false
	}
	switch s := list[len(list)-1].(type) {
	case *ast.ReturnStmt:
		return true
	case *ast.ExprStmt:
		if call, ok := s.X.(*ast.CallExpr); ok {
			if id, ok := call.Fun.(*ast.Ident); ok && id.Name == "panic" {
				return true
			}
		}
	case *ast.IfStmt:
		if s.Else == nil {
			return false
		}
		eb, ok := s.Else.(*ast.BlockStmt)
		return ok && c.terminates(s.Body.List) && c.terminates(eb.List)
	}
	return false
}

// block translates a statement list; k() is the program of whatever follows the list.
func (c *rspCtx) block(list []ast.Stmt, env rspEnv, k func() string) (out string) {
	if len(list) == 0 {
		return k()
	}
	s, rest := list[0], list[1:]
	defer func() {
		if r := recover(); r != nil {
			f, ok := r.(rspFail)
			if !ok {
				panic(r)
			}
			c.pre = nil
			out = c.untrans(s, strings.SplitN(f.msg, ": ", 2)[0], "")
		}
	}()
	next := func(e rspEnv) string { return c.block(rest, e, k) }
	if c.droppedStmt(s, env) {
		c.p.dropped = append(c.p.dropped, c.f.goName+": "+rspSrc(c.p.fs, s))
		return "(* dropped: " + rspComment(rspSrc(c.p.fs, s)) + " *)\n" + next(env)
	}
	switch x := s.(type) {
	case *ast.ReturnStmt:
		if len(x.Results) != 1 {
			c.fail(s, "return with other than one result")
		}
		if t, ar, _, ok := c.mcall(x.Results[0], env); ok {
			if ar != 1 {
				c.fail(s, "return of a call with several results")
			}
			return rspWrap(c.takePre(), t)
		}
		v, kd := c.expr(x.Results[0], env)
		if kd.k != rspErr {
			c.fail(s, "return of a non-error")
		}
		return rspWrap(c.takePre(), "ret "+v)
	case *ast.ExprStmt:
		if call, ok := x.X.(*ast.CallExpr); ok {
			if id, ok := call.Fun.(*ast.Ident); ok && id.Name == "panic" {
				if _, shadow := env["panic"]; !shadow {
					return "w_panic None"
				}
			}
			// binary.BigEndian.PutUintNN(dst, v)
			if sel, ok := call.Fun.(*ast.SelectorExpr); ok && rspSrc(c.p.fs, sel.X) == "binary.BigEndian" &&
				strings.HasPrefix(sel.Sel.Name, "PutUint") && len(call.Args) == 2 {
				bits, err := strconv.Atoi(sel.Sel.Name[len("PutUint"):])
				if err != nil || (bits != 16 && bits != 32 && bits != 64) {
					c.fail(s, "PutUint width")
				}
				var bufId *ast.Ident
				lo, hi := "0", ""
				switch d := call.Args[0].(type) {
				case *ast.Ident:
					bufId = d
				case *ast.SliceExpr:
					id, ok := d.X.(*ast.Ident)
					if !ok || d.Slice3 {
						c.fail(s, "PutUint destination")
					}
					bufId = id
					if d.Low != nil {
						lo = c.arg(d.Low, env, rspKind{rspInt, 0})
					}
					if d.High != nil {
						hi = c.arg(d.High, env, rspKind{rspInt, 0})
					}
				default:
					c.fail(s, "PutUint destination")
				}
				bv, ok := env[bufId.Name]
				if !ok || bv.kind.k != rspBytes {
					c.fail(s, "PutUint destination is not a local byte slice")
				}
				if hi == "" {
					hi = "(len " + bv.coq + ")"
				}
				val := c.arg(call.Args[1], env, rspKind{rspInt, bits / 8})
				return rspWrap(c.takePre(), fmt.Sprintf("bind (buf_put %d %s %s %s %s) (fun %s =>\n%s)", bits/8, bv.coq, lo, hi, val, bv.coq, next(env)))
			}
		}
		if t, _, _, ok := c.mcall(x.X, env); ok {
			return rspWrap(c.takePre(), "bind ("+t+") (fun _ =>\n"+next(env)+")")
		}
		c.fail(s, "expression statement")
	case *ast.DeclStmt:
		gd, ok := x.Decl.(*ast.GenDecl)
		if ok && gd.Tok == token.VAR && len(gd.Specs) == 1 {
			vs := gd.Specs[0].(*ast.ValueSpec)
			if len(vs.Names) == 1 && len(vs.Values) == 0 && vs.Type != nil {
				kd := rspTypeKind(vs.Type)
				zero := map[rspKindT]string{rspInt: "0", rspBool: "false", rspBytes: "[]", rspErr: "None"}[kd.k]
				if zero != "" {
					coq := rspName(vs.Names[0].Name)
					if _, exists := env[vs.Names[0].Name]; exists {
						coq = c.newName(coq)
					}
					return "let " + coq + " := " + zero + " in\n" + next(env.with(vs.Names[0].Name, rspVar{coq, kd}))
				}
			}
		}
		c.fail(s, "declaration")
	case *ast.AssignStmt:
		if len(x.Rhs) != 1 {
			c.fail(s, "assignment with several right-hand sides")
		}
		if x.Tok != token.DEFINE && x.Tok != token.ASSIGN {
			c.fail(s, "assignment operator")
		}
		// h.Field = e
		if sel, ok := x.Lhs[0].(*ast.SelectorExpr); ok && len(x.Lhs) == 1 && x.Tok == token.ASSIGN {
			if id, ok := sel.X.(*ast.Ident); ok {
				if v, ok := env[id.Name]; ok && v.kind.k == rspStruct {
					for _, pn := range c.f.pnames {
						if pn == id.Name { // the caller would see the store: not a local rebinding
							c.fail(s, "store through a pointer parameter")
						}
					}
					w, ok := c.p.structs["ResponseHeader"][sel.Sel.Name]
					if !ok {
						c.fail(s, "unknown field of ResponseHeader")
					}
					val := c.arg(x.Rhs[0], env, rspKind{rspInt, w})
					return rspWrap(c.takePre(), "let "+v.coq+" := fset "+v.coq+" "+rspCoqStr(sel.Sel.Name)+" "+val+" in\n"+next(env))
				}
			}
			c.fail(s, "assignment to a field")
		}
		// buf[i] = e
		if ix, ok := x.Lhs[0].(*ast.IndexExpr); ok && len(x.Lhs) == 1 && x.Tok == token.ASSIGN {
			if id, ok := ix.X.(*ast.Ident); ok {
				if v, ok := env[id.Name]; ok && v.kind.k == rspBytes {
					i := c.arg(ix.Index, env, rspKind{rspInt, 0})
					val := c.arg(x.Rhs[0], env, rspKind{rspInt, 1})
					return rspWrap(c.takePre(), "bind (buf_set "+v.coq+" "+i+" "+val+") (fun "+v.coq+" =>\n"+next(env)+")")
				}
			}
			c.fail(s, "assignment to an element")
		}
		if t, ar, kinds, ok := c.mcall(x.Rhs[0], env); ok {
			if ar != len(x.Lhs) {
				c.fail(s, "number of results")
			}
			pre := c.takePre()
			pat, env2 := c.bindLhs(x, kinds, env)
			return rspWrap(pre, "bind ("+t+") (fun "+pat+" =>\n"+next(env2)+")")
		}
		if len(x.Lhs) != 1 {
			c.fail(s, "assignment with several targets")
		}
		val, kd := c.expr(x.Rhs[0], env)
		if kd.k == rspInt && kd.width == 0 {
			kd.width = 8 // an untyped integer constant defaults to int
		}
		pre := c.takePre()
		pat, env2 := c.bindLhs(x, []rspKind{kd}, env)
		return rspWrap(pre, "let "+pat+" := "+val+" in\n"+next(env2))
	case *ast.IfStmt:
		envI := env
		open, close := "", ""
		if x.Init != nil {
			as, ok := x.Init.(*ast.AssignStmt)
			if !ok || as.Tok != token.DEFINE || len(as.Rhs) != 1 {
				c.fail(s, "if-initialiser")
			}
			t, ar, kinds, ok := c.mcall(as.Rhs[0], env)
			if !ok || ar != len(as.Lhs) {
				c.fail(s, "if-initialiser is not a call of the fragment")
			}
			pre := c.takePre()
			if len(pre) != 0 {
				c.fail(s, "if-initialiser with err.Error()")
			}
			var pat string
			pat, envI = c.bindLhs(as, kinds, env)
			open, close = "bind ("+t+") (fun "+pat+" =>\n", ")"
		}
		cond, kd := c.expr(x.Cond, envI)
		if kd.k != rspBool {
			c.fail(s, "condition")
		}
		if len(c.takePre()) != 0 {
			c.fail(s, "condition with err.Error()")
		}
		// variables declared by the initialiser are out of scope after the if
		thenT := c.block(x.Body.List, envI, func() string { return next(env) })
		var elseT string
		switch e := x.Else.(type) {
		case nil:
			elseT = next(env)
		case *ast.BlockStmt:
			elseT = c.block(e.List, envI, func() string { return next(env) })
		case *ast.IfStmt:
			elseT = c.block([]ast.Stmt{e}, envI, func() string { return next(env) })
		}
		return open + "if " + cond + " then (\n" + rspIndent(thenT) + ")\nelse (\n" + rspIndent(elseT) + ")" + close
	case *ast.ForStmt:
		// for i := lo; i < hi; i++ { buf[i] = v }
		if as, ok := x.Init.(*ast.AssignStmt); ok && as.Tok == token.DEFINE && len(as.Lhs) == 1 && len(as.Rhs) == 1 {
			iv, ok1 := as.Lhs[0].(*ast.Ident)
			cond, ok2 := x.Cond.(*ast.BinaryExpr)
			post, ok3 := x.Post.(*ast.IncDecStmt)
			if ok1 && ok2 && ok3 && cond.Op == token.LSS && post.Tok == token.INC && len(x.Body.List) == 1 {
				ci, ok4 := cond.X.(*ast.Ident)
				pi, ok5 := post.X.(*ast.Ident)
				body, ok6 := x.Body.List[0].(*ast.AssignStmt)
				if ok4 && ok5 && ok6 && ci.Name == iv.Name && pi.Name == iv.Name && body.Tok == token.ASSIGN && len(body.Lhs) == 1 && len(body.Rhs) == 1 {
					if ix, ok := body.Lhs[0].(*ast.IndexExpr); ok {
						bid, ok7 := ix.X.(*ast.Ident)
						iid, ok8 := ix.Index.(*ast.Ident)
						_, loOK := rspIntLit(as.Rhs[0])
						_, hiOK := rspIntLit(cond.Y)
						_, vOK := rspIntLit(body.Rhs[0])
						if ok7 && ok8 && iid.Name == iv.Name && bid.Name != iv.Name && loOK && hiOK && vOK {
							if bv, ok := env[bid.Name]; ok && bv.kind.k == rspBytes {
								lo, _ := c.expr(as.Rhs[0], env)
								hi, _ := c.expr(cond.Y, env)
								v, _ := c.expr(body.Rhs[0], env)
								return "bind (buf_fill " + bv.coq + " " + lo + " " + hi + " " + v + ") (fun " + bv.coq + " =>\n" + next(env) + ")"
							}
						}
					}
				}
			}
		}
		c.fail(s, "loop other than `for i := lo; i < hi; i++ { buf[i] = v }` with literal lo, hi, v")
	case *ast.SwitchStmt:
		if x.Init != nil || x.Tag == nil {
			c.fail(s, "switch without a tag or with an initialiser")
		}
		tag, kd := c.expr(x.Tag, env)
		if kd.k != rspErr || len(c.takePre()) != 0 {
			c.fail(s, "switch on something else than an error variable")
		}
		clauses := x.Body.List
		n := len(clauses)
		progs := make([]string, n)
		guards := make([]string, n)
		def := -1
		for i := n - 1; i >= 0; i-- {
			cc := clauses[i].(*ast.CaseClause)
			body := cc.Body
			ft := false
			if len(body) > 0 {
				if br, ok := body[len(body)-1].(*ast.BranchStmt); ok && br.Tok == token.FALLTHROUGH {
					ft = true
					body = body[:len(body)-1]
				}
			}
			for _, b := range body {
				ast.Inspect(b, func(nd ast.Node) bool {
					if br, ok := nd.(*ast.BranchStmt); ok {
						c.fail(br, "break/continue/goto inside a switch")
					}
					return true
				})
			}
			idx := i
			progs[i] = c.block(body, env, func() string {
				if ft {
					if idx+1 >= n {
						c.fail(cc, "fallthrough in the last clause")
					}
					return progs[idx+1]
				}
				return next(env)
			})
			if cc.List == nil {
				def = i
				continue
			}
			var gs []string
			for _, ce := range cc.List {
				p, m, ok := rspPkgSel(ce)
				if !ok || p != "common" {
					c.fail(ce, "case that is not a common.ErrX constant")
				}
				if _, local := env["common"]; local {
					c.fail(ce, "case that is not a common.ErrX constant")
				}
				name, k := c.constant(ce, "common", m)
				if k.k != rspErr {
					c.fail(ce, "case that is not a common.ErrX constant")
				}
				gs = append(gs, "err_is "+tag+" "+name)
			}
			guards[i] = strings.Join(gs, " || ")
		}
		var res string
		if def >= 0 {
			res = progs[def]
		} else {
			res = next(env)
		}
		for i := n - 1; i >= 0; i-- {
			if i == def {
				continue
			}
			res = "if " + guards[i] + " then (\n" + rspIndent(progs[i]) + ")\nelse (\n" + rspIndent(res) + ")"
		}
		return res
	}
	c.fail(s, "statement")
	return ""
}

func (p *rspPkg) need(f *rspFunc) {
	if f.emitted {
		return
	}
	if f.busy {
		panic(rspFail{"recursion through " + f.goName})
	}
	f.busy = true
	c := &rspCtx{p: p, f: f}
	env := rspEnv{}
	var binders []string
	for i, n := range f.pnames {
		v := rspVar{rspName(n), f.pkinds[i]}
		env[n] = v
		if f.pkinds[i].k != rspWriter && n != "_" {
			binders = append(binders, "("+v.coq+" : "+v.kind.coqType()+")")
		} else if f.pkinds[i].k != rspWriter {
			binders = append(binders, "(_ : "+v.kind.coqType()+")")
		}
	}
	body := c.block(f.decl.Body.List, env, func() string {
		return c.untrans(f.decl.Name, "the function body ends without a return", "")
	})
	pos := p.fs.Position(f.decl.Pos())
	recv := ""
	if f.recv != "" {
		recv = p.respType + "."
	}
	f.text = fmt.Sprintf("(* %s: func %s%s *)\nDefinition %s %s: W gerr :=\n%s.\n", filepath.Base(pos.Filename), recv, f.goName, f.coq,
		strings.Join(binders, " ")+map[bool]string{true: " ", false: ""}[len(binders) > 0], rspIndent(body))
	f.busy = false
	f.emitted = true
	p.defs = append(p.defs, f.text)
}

func rspSignature(f *rspFunc) {
	f.ok = true
	ft := f.decl.Type
	if ft.Results == nil || len(ft.Results.List) != 1 || len(ft.Results.List[0].Names) > 0 || typeString(ft.Results.List[0].Type) != "error" {
		f.ok, f.why = false, "result is not a single unnamed error"
	}
	for _, fl := range ft.Params.List {
		k := rspTypeKind(fl.Type)
		if k.k == rspUnknown {
			f.ok, f.why = false, "parameter type "+rspFieldType(fl.Type)
		}
		names := fl.Names
		if len(names) == 0 {
			names = []*ast.Ident{ast.NewIdent("_")}
		}
		for _, n := range names {
			f.pnames = append(f.pnames, n.Name)
			f.pkinds = append(f.pkinds, k)
		}
	}
}

// the Responder interface methods and the rcall constructor each one renders (orca/Types.v; the same
// table as orctrans uses for the Emit calls)
var rspCalls = []struct {
	method string
	sig    []rspKindT
	call   string // operands handed to the translated method
}{
	{"Set", []rspKindT{rspInt, rspBool}, "o q"}, {"Add", []rspKindT{rspInt, rspBool}, "o q"}, {"Replace", []rspKindT{rspInt, rspBool}, "o q"},
	{"Append", []rspKindT{rspInt, rspBool}, "o q"}, {"Prepend", []rspKindT{rspInt, rspBool}, "o q"},
	{"Get", []rspKindT{rspGres}, "g"}, {"GetEnd", []rspKindT{rspInt, rspBool}, "o ne"}, {"GetE", []rspKindT{rspGres}, "g"},
	{"GAT", []rspKindT{rspGres}, "g"}, {"Delete", []rspKindT{rspInt}, "o"}, {"Touch", []rspKindT{rspInt}, "o"}, {"Noop", []rspKindT{rspInt}, "o"},
	{"Quit", []rspKindT{rspInt, rspBool}, "o q"}, {"Version", []rspKindT{rspInt}, "o"}, {"Stat", []rspKindT{rspInt}, "o"},
	{"Error", []rspKindT{rspInt, rspInt, rspErr, rspBool}, "o rt (Some e) q"},
}

func rspLoad(repo, proto, dir, respType string, files []string, consts map[string]bool, fs *token.FileSet) (*rspPkg, []string) {
	p := &rspPkg{proto: proto, fs: fs, funcs: map[string]*rspFunc{}, methods: map[string]*rspFunc{}, respType: respType,
		pools: map[string]string{}, structs: map[string]map[string]int{}, consts: consts}
	var errs []string
	for _, fn := range files {
		af, err := parser.ParseFile(fs, filepath.Join(repo, dir, fn), nil, 0)
		if err != nil {
			errs = append(errs, err.Error())
			continue
		}
		for _, d := range af.Decls {
			switch x := d.(type) {
			case *ast.FuncDecl:
				if x.Body == nil {
					continue
				}
				f := &rspFunc{proto: proto, goName: x.Name.Name, decl: x}
				if x.Recv == nil {
					f.coq = proto + "_" + x.Name.Name + "_src"
					rspSignature(f)
					p.funcs[x.Name.Name] = f
				} else if len(x.Recv.List) == 1 && typeString(x.Recv.List[0].Type) == respType {
					f.coq = proto + "_" + x.Name.Name + "_src"
					if len(x.Recv.List[0].Names) == 1 {
						f.recv = x.Recv.List[0].Names[0].Name
					}
					rspSignature(f)
					p.methods[x.Name.Name] = f
				}
			case *ast.GenDecl:
				for _, sp := range x.Specs {
					switch s := sp.(type) {
					case *ast.TypeSpec:
						if st, ok := s.Type.(*ast.StructType); ok {
							m := map[string]int{}
							for _, fl := range st.Fields.List {
								k := rspTypeKind(fl.Type)
								for _, n := range fl.Names {
									if k.k == rspInt {
										m[n.Name] = k.width
									}
								}
							}
							p.structs[s.Name.Name] = m
						}
					case *ast.ValueSpec:
						// var X = &sync.Pool{New: func() interface{} { return make([]byte, n, n) | new(T) }}
						if x.Tok != token.VAR || len(s.Names) != 1 || len(s.Values) != 1 {
							continue
						}
						u, ok := s.Values[0].(*ast.UnaryExpr)
						if !ok || u.Op != token.AND {
							continue
						}
						cl, ok := u.X.(*ast.CompositeLit)
						if !ok || typeString(cl.Type) != "sync.Pool" {
							continue
						}
						desc := "other"
						if len(cl.Elts) == 1 {
							if kv, ok := cl.Elts[0].(*ast.KeyValueExpr); ok && rspSrc(fs, kv.Key) == "New" {
								if fl, ok := kv.Value.(*ast.FuncLit); ok && len(fl.Body.List) == 1 {
									if r, ok := fl.Body.List[0].(*ast.ReturnStmt); ok && len(r.Results) == 1 {
										if call, ok := r.Results[0].(*ast.CallExpr); ok {
											if id, ok := call.Fun.(*ast.Ident); ok {
												if id.Name == "make" && len(call.Args) == 3 && rspFieldType(call.Args[0]) == "[]byte" {
													a, ok1 := rspIntLit(call.Args[1])
													b, ok2 := rspIntLit(call.Args[2])
													if ok1 && ok2 && a == b {
														desc = fmt.Sprintf("buf:%d", a)
													}
												}
												if id.Name == "new" && len(call.Args) == 1 {
													desc = "struct:" + typeString(call.Args[0])
												}
											}
										}
									}
								}
							}
						}
						p.pools[s.Names[0].Name] = desc
					}
				}
			}
		}
	}
	return p, errs
}

func resptrans(e *env) {
	repo := "/repo"
	if v := os.Getenv("VERIF_REPO"); v != "" {
		repo = v
	}
	root := os.Getenv("VERIF_ROOT")
	if root == "" {
		root = "/verif"
	}
	outDir := filepath.Join(root, "coq", "gen")
	if e.out != "" && e.out != "." {
		outDir = e.out
	}
	consts := map[string]bool{}
	if b, err := os.ReadFile(filepath.Join(root, "coq", "gen", "Consts_gen.v")); err == nil {
		for _, m := range regexp.MustCompile(`(?m)^Definition (\w+) `).FindAllStringSubmatch(string(b), -1) {
			consts[m[1]] = true
		}
	} else {
		fmt.Fprintln(os.Stderr, "resptrans:", err)
		os.Exit(3)
	}
	fs := token.NewFileSet()
	var problems []string

	// the Responder interface
	var ifaceMethods []string
	ifaceSig := map[string][]rspKindT{}
	if af, err := parser.ParseFile(fs, filepath.Join(repo, "protocol/types.go"), nil, 0); err == nil {
		ast.Inspect(af, func(n ast.Node) bool {
			ts, ok := n.(*ast.TypeSpec)
			if !ok || ts.Name.Name != "Responder" {
				return true
			}
			it, ok := ts.Type.(*ast.InterfaceType)
			if !ok {
				return true
			}
			for _, m := range it.Methods.List {
				ft, ok := m.Type.(*ast.FuncType)
				if !ok || len(m.Names) != 1 {
					ifaceMethods = append(ifaceMethods, "?"+rspSrc(fs, m))
					continue
				}
				var sig []rspKindT
				for _, fl := range ft.Params.List {
					k := rspTypeKind(fl.Type)
					cnt := len(fl.Names)
					if cnt == 0 {
						cnt = 1
					}
					for i := 0; i < cnt; i++ {
						sig = append(sig, k.k)
					}
				}
				ifaceMethods = append(ifaceMethods, m.Names[0].Name)
				ifaceSig[m.Names[0].Name] = sig
			}
			return false
		})
	} else {
		problems = append(problems, err.Error())
	}

	// the get response structs must have the fields the gres projections stand for
	if af, err := parser.ParseFile(fs, filepath.Join(repo, "common/datatypes.go"), nil, 0); err == nil {
		for _, want := range []struct {
			name   string
			fields []string
		}{{"GetResponse", []string{"Key", "Data", "Opaque", "Flags", "Miss", "Quiet"}},
			{"GetEResponse", []string{"Key", "Data", "Opaque", "Flags", "Exptime", "Miss", "Quiet"}}} {
			got := map[string]string{}
			ast.Inspect(af, func(n ast.Node) bool {
				ts, ok := n.(*ast.TypeSpec)
				if ok && ts.Name.Name == want.name {
					if st, ok := ts.Type.(*ast.StructType); ok {
						for _, fl := range st.Fields.List {
							for _, nm := range fl.Names {
								got[nm.Name] = rspFieldType(fl.Type)
							}
						}
					}
				}
				return true
			})
			if len(got) != len(want.fields) {
				problems = append(problems, "common."+want.name+": field set differs from orca/Types.v gres")
			}
			for _, f := range want.fields {
				if got[f] != rspGresProj[f].typ {
					problems = append(problems, "common."+want.name+"."+f+": type "+got[f]+", expected "+rspGresProj[f].typ)
				}
			}
		}
	} else {
		problems = append(problems, err.Error())
	}

	type pk struct {
		proto, dir, typ string
		files           []string
	}
	var sb strings.Builder
	sb.WriteString("(* GENERATED by harness resptrans from the SOURCE of /repo/protocol/binprot/respond.go,\n" +
		"   /repo/protocol/binprot/headers.go, /repo/protocol/textprot/respond.go and the Responder interface of\n" +
		"   /repo/protocol/types.go — do not edit. One Gallina program (writer monad of proto/WriterSem.v) per Go\n" +
		"   function, translated statement by statement (rules: harness/cmd/rendharness/resptrans.go);\n" +
		"   gen/RespSrcLink.v proves the program of every Responder call equal to proto/Resp.v render_bin / render_text. *)\n" +
		"From Coq Require Import String.\n" +
		"From Rend Require Import base.Bytes gen.Consts_gen gen.GoSem spec.MapSpec orca.Types proto.Resp proto.WriterSem.\n" +
		"Open Scope N_scope.\n\n")
	var allDropped, allUntrans, notTranslated []string
	for _, q := range []pk{{"bin", "protocol/binprot", "BinaryResponder", []string{"respond.go", "headers.go"}},
		{"text", "protocol/textprot", "TextResponder", []string{"respond.go"}}} {
		p, errs := rspLoad(repo, q.proto, q.dir, q.typ, q.files, consts, fs)
		problems = append(problems, errs...)
		fmt.Fprintf(&sb, "(* ================= %s: %s ================= *)\n", q.dir, q.typ)
		var poolNames []string
		for n := range p.pools {
			poolNames = append(poolNames, n)
		}
		sort.Strings(poolNames)
		for _, n := range poolNames {
			fmt.Fprintf(&sb, "(* pool %s: %s *)\n", n, p.pools[n])
		}
		// translate every Responder method (callees first)
		for _, m := range ifaceMethods {
			if f, ok := p.methods[m]; ok && f.ok {
				func() {
					defer func() {
						if r := recover(); r != nil {
							if ff, ok := r.(rspFail); ok {
								problems = append(problems, q.typ+"."+m+": "+ff.msg)
								return
							}
							panic(r)
						}
					}()
					p.need(f)
				}()
			}
		}
		for _, d := range p.defs {
			sb.WriteString(d + "\n")
		}
		// dispatch
		fmt.Fprintf(&sb, "(* the program of a Responder call, method by method (interface protocol.Responder) *)\nDefinition %s_call_src (c : rcall) : W gerr :=\n  match c with\n", q.proto)
		known := map[string]bool{}
		callOf := func(name string) string {
			for _, rc := range rspCalls {
				if rc.method != name {
					continue
				}
				f, ok := p.methods[name]
				inIface := false
				for _, m := range ifaceMethods {
					if m == name {
						inIface = true
					}
				}
				if !ok || !f.ok || !f.emitted || !inIface {
					return "w_untrans " + rspCoqStr(q.typ+"."+name+": method missing, not in protocol.Responder, or outside the fragment") + " None"
				}
				var ks []rspKindT
				for _, k := range f.pkinds {
					ks = append(ks, k.k)
				}
				if fmt.Sprint(ks) != fmt.Sprint(rc.sig) || fmt.Sprint(ifaceSig[name]) != fmt.Sprint(rc.sig) {
					return "w_untrans " + rspCoqStr(q.typ+"."+name+": unexpected signature") + " None"
				}
				return f.coq + " " + rc.call
			}
			return "w_untrans \"?\" None"
		}
		for _, rc := range rspCalls {
			known[rc.method] = true
		}
		fmt.Fprintf(&sb, "  | PStored rt o q =>\n      if rt =? RtSet then %s else if rt =? RtAdd then %s else if rt =? RtReplace then %s\n      else if rt =? RtAppend then %s else %s\n",
			callOf("Set"), callOf("Add"), callOf("Replace"), callOf("Append"), callOf("Prepend"))
		for _, l := range [][2]string{{"PGet g", "Get"}, {"PGetE g", "GetE"}, {"PGat g", "GAT"}, {"PGetEnd o ne", "GetEnd"}, {"PDelete o", "Delete"},
			{"PTouch o", "Touch"}, {"PNoop o", "Noop"}, {"PQuit o q", "Quit"}, {"PVersion o", "Version"}, {"PStat o", "Stat"}, {"PError o rt e q", "Error"}} {
			fmt.Fprintf(&sb, "  | %s => %s\n", l[0], callOf(l[1]))
		}
		sb.WriteString("  end.\n")
		for _, m := range ifaceMethods {
			if !known[m] {
				problems = append(problems, "protocol.Responder has a method without an rcall constructor: "+m)
			}
		}
		fmt.Fprintf(&sb, "Definition render_%s_src (oh : N -> gstruct) (ob : N -> nat -> N) (c : rcall) : wres := w_run (%s_call_src c) oh ob.\n", q.proto, q.proto)
		fmt.Fprintf(&sb, "Definition flushed_%s_src (oh : N -> gstruct) (ob : N -> nat -> N) (c : rcall) : bool := w_run_flushed (%s_call_src c) oh ob.\n\n", q.proto, q.proto)
		allDropped = append(allDropped, rspPrefixAll(q.dir+": ", p.dropped)...)
		allUntrans = append(allUntrans, rspPrefixAll(q.dir+": ", p.untrans)...)
		var nt []string
		for n, f := range p.funcs {
			if !f.emitted && (q.proto != "bin" || fs.Position(f.decl.Pos()).Filename == filepath.Join(repo, q.dir, "respond.go")) {
				nt = append(nt, q.dir+": func "+n)
			}
		}
		for n, f := range p.methods {
			if !f.emitted {
				nt = append(nt, q.dir+": func "+q.typ+"."+n)
			}
		}
		sort.Strings(nt)
		notTranslated = append(notTranslated, nt...)
	}
	sb.WriteString("(* statements dropped by rule (metrics / log / pool Put) *)\nDefinition resp_dropped : list string := [\n")
	for i, d := range allDropped {
		sep := ";"
		if i == len(allDropped)-1 {
			sep = ""
		}
		sb.WriteString("  " + rspCoqStr(d) + sep + "\n")
	}
	sb.WriteString("]%string.\n")
	sb.WriteString("(* statements outside the translated fragment (each one is a w_untrans above) *)\nDefinition resp_untranslated : list string := [")
	for i, d := range allUntrans {
		if i > 0 {
			sb.WriteString(";")
		}
		sb.WriteString("\n  " + rspCoqStr(d))
	}
	sb.WriteString("]%string.\n")
	sb.WriteString("(* problems found while reading the source *)\nDefinition resp_problems : list string := [")
	for i, d := range problems {
		if i > 0 {
			sb.WriteString(";")
		}
		sb.WriteString("\n  " + rspCoqStr(d))
	}
	sb.WriteString("]%string.\n")
	sb.WriteString("(* functions of respond.go that no Responder method reaches (not translated):\n")
	for _, n := range notTranslated {
		sb.WriteString("   " + rspComment(n) + "\n")
	}
	sb.WriteString("   reqTypeToOpcode and errorToCode are used through the compiled tables of constgen. *)\n")
	writeIfChanged(filepath.Join(outDir, "Resp_gen.v"), []byte(sb.String()))
	if len(problems) > 0 || len(allUntrans) > 0 {
		for _, p := range problems {
			fmt.Fprintln(os.Stderr, "resptrans: problem:", p)
		}
		for _, p := range allUntrans {
			fmt.Fprintln(os.Stderr, "resptrans: untranslatable:", p)
		}
	}
}

func rspPrefixAll(pre string, l []string) []string {
	var out []string
	for _, s := range l {
		out = append(out, pre+s)
	}
	return out
}
