package main

// apptrans: a source-level translator for the WIRING of the deployment, app/memproxy.go func main
// (package main cannot be imported, and what it decides - which orchestrator serves which port,
// whether and how each is wrapped by the locking wrapper, and whether the batch port reuses the
// main port's lock set - is an assumption of the C03/C12 theorems: one lock table for both ports).
//
// It evaluates the statements of main symbolically over the variables that hold orchestrators and
// lock-set ids: assignments, := in nested blocks, if/else on flag expressions (merged as
// conditionals), the calls orcas.Locked / orcas.LockedWithExisting, and records every
// `go server.ListenAndServe(l, ..., o, h1, h2)` with the listener expression and the symbolic
// orchestrator. Anything it does not recognise on those variables becomes OOther and breaks the
// link lemma (gen/AppLink.v). Output: coq/gen/App_gen.v (types: server/AppWiring.v).

import (
	"fmt"
	"go/ast"
	"go/parser"
	"go/token"
	"os"
	"path/filepath"
	"strings"
)

func init() { commands["apptrans"] = apptrans }

type apVal struct {
	kind string // "orc" | "lset" | "lst"
	g    string // Gallina term
}

type apCtx struct {
	fs     *token.FileSet
	scopes []map[string]apVal
	cond   []string // path condition (Gallina bexp), innermost last
	serves []string
	site   int
}

func (c *apCtx) src(n ast.Node) string { return ltPrint(c.fs, n) }

func (c *apCtx) lookup(name string) (apVal, bool) {
	for i := len(c.scopes) - 1; i >= 0; i-- {
		if v, ok := c.scopes[i][name]; ok {
			return v, true
		}
	}
	return apVal{}, false
}

// assign to the innermost scope that declares the name
func (c *apCtx) assign(name string, v apVal) {
	for i := len(c.scopes) - 1; i >= 0; i-- {
		if _, ok := c.scopes[i][name]; ok {
			c.scopes[i][name] = v
			return
		}
	}
}

func (c *apCtx) bexp(e ast.Expr) string {
	switch x := e.(type) {
	case *ast.Ident:
		if x.Name == "true" {
			return "BTrue"
		}
		if x.Name == "false" {
			return "BFalse"
		}
		return fmt.Sprintf("(BVar %s)", coqStr(x.Name))
	case *ast.ParenExpr:
		return c.bexp(x.X)
	case *ast.UnaryExpr:
		if x.Op == token.NOT {
			return fmt.Sprintf("(BNot %s)", c.bexp(x.X))
		}
	case *ast.BinaryExpr:
		if x.Op == token.LOR {
			return fmt.Sprintf("(BOr %s %s)", c.bexp(x.X), c.bexp(x.Y))
		}
		if x.Op == token.LAND {
			return fmt.Sprintf("(BAnd %s %s)", c.bexp(x.X), c.bexp(x.Y))
		}
	}
	return fmt.Sprintf("(BOther %s)", coqStr(ltSquash(c.src(e))))
}

// value of an expression that may denote an orchestrator constructor, a lock-set id or a listener
func (c *apCtx) expr(e ast.Expr) apVal {
	switch x := e.(type) {
	case *ast.Ident:
		if v, ok := c.lookup(x.Name); ok {
			return v
		}
	case *ast.SelectorExpr:
		if isIdent(x.X, "orcas") {
			return apVal{"orc", fmt.Sprintf("(OBase %s)", coqStr(x.Sel.Name))}
		}
		if (isIdent(x.X, "inmem") && x.Sel.Name == "New") || (isIdent(x.X, "handlers") && x.Sel.Name == "NilHandler") {
			return apVal{"hnd", fmt.Sprintf("(HCall %s [])", coqStr(ltSquash(c.src(x))))}
		}
		if (isIdent(x.X, "binprot") || isIdent(x.X, "textprot")) && x.Sel.Name == "Components" {
			return apVal{"proto", coqStr(x.X.(*ast.Ident).Name)}
		}
	case *ast.CompositeLit:
		if ltSquash(c.src(x.Type)) == "[]protocol.Components" {
			var ps []string
			for _, el := range x.Elts {
				v := c.expr(el)
				if v.kind != "proto" {
					return apVal{"protos", fmt.Sprintf("(PsOther %s)", coqStr(ltSquash(c.src(x))))}
				}
				ps = append(ps, v.g)
			}
			return apVal{"protos", fmt.Sprintf("(PsList [%s])", strings.Join(ps, "; "))}
		}
	case *ast.CallExpr:
		if se, ok := x.Fun.(*ast.SelectorExpr); ok {
			if isIdent(se.X, "orcas") && se.Sel.Name == "LockedWithExisting" && len(x.Args) == 2 {
				in, ls := c.expr(x.Args[0]), c.expr(x.Args[1])
				if in.kind == "orc" && ls.kind == "lset" {
					return apVal{"orc", fmt.Sprintf("(OExisting %s %s)", in.g, ls.g)}
				}
			}
			if isIdent(se.X, "memcached") && (se.Sel.Name == "Chunked" || se.Sel.Name == "Batched" || se.Sel.Name == "Regular") && len(x.Args) >= 1 {
				var as []string
				for _, a := range x.Args {
					as = append(as, coqStr(ltSquash(c.src(a))))
				}
				return apVal{"hnd", fmt.Sprintf("(HCall %s [%s])", coqStr("memcached."+se.Sel.Name), strings.Join(as, "; "))}
			}
			if isIdent(se.X, "server") && (se.Sel.Name == "TCPListener" || se.Sel.Name == "UnixListener") && len(x.Args) == 1 {
				return apVal{"lst", fmt.Sprintf("(%s %s)", map[string]string{"TCPListener": "LTcp", "UnixListener": "LUnix"}[se.Sel.Name], coqStr(ltSquash(c.src(x.Args[0]))))}
			}
		}
	}
	return apVal{"other", coqStr(ltSquash(c.src(e)))}
}

// orcas.Locked(o, multi, conc) -> (orc, lset) of a fresh call site
func (c *apCtx) lockedCall(e ast.Expr) (apVal, apVal, bool) {
	call, ok := e.(*ast.CallExpr)
	if !ok {
		return apVal{}, apVal{}, false
	}
	se, ok := call.Fun.(*ast.SelectorExpr)
	if !ok || !isIdent(se.X, "orcas") || se.Sel.Name != "Locked" || len(call.Args) != 3 {
		return apVal{}, apVal{}, false
	}
	in := c.expr(call.Args[0])
	if in.kind != "orc" {
		return apVal{}, apVal{}, false
	}
	c.site++
	conc := coqStr(ltSquash(c.src(call.Args[2])))
	return apVal{"orc", fmt.Sprintf("(OLocked %d %s %s %s)", c.site, in.g, c.bexp(call.Args[1]), conc)}, apVal{"lset", fmt.Sprintf("(LFrom %d)", c.site)}, true
}

func (c *apCtx) other(kind, text string) apVal {
	if kind == "lset" {
		return apVal{"lset", fmt.Sprintf("(LOther %s)", coqStr(text))}
	}
	if kind == "lst" {
		return apVal{"lst", fmt.Sprintf("(LsOther %s)", coqStr(text))}
	}
	if kind == "hnd" {
		return apVal{"hnd", fmt.Sprintf("(HOther %s)", coqStr(text))}
	}
	if kind == "protos" {
		return apVal{"protos", fmt.Sprintf("(PsOther %s)", coqStr(text))}
	}
	return apVal{"orc", fmt.Sprintf("(OOther %s)", coqStr(text))}
}

func apTracked(k string) bool {
	return k == "orc" || k == "lset" || k == "lst" || k == "hnd" || k == "protos"
}

func (c *apCtx) tracked(name string) (apVal, bool) {
	v, ok := c.lookup(name)
	return v, ok && apTracked(v.kind)
}

func (c *apCtx) stmt(s ast.Stmt) {
	switch x := s.(type) {
	case *ast.DeclStmt:
		gd, ok := x.Decl.(*ast.GenDecl)
		if !ok || gd.Tok != token.VAR {
			return
		}
		for _, sp := range gd.Specs {
			vs := sp.(*ast.ValueSpec)
			t := ltSquash(c.src(vs.Type))
			for _, n := range vs.Names {
				switch t {
				case "orcas.OrcaConst":
					c.scopes[len(c.scopes)-1][n.Name] = apVal{"orc", "OUnset"}
				case "uint32":
					c.scopes[len(c.scopes)-1][n.Name] = apVal{"lset", "LZero"}
				case "server.ListenConst":
					c.scopes[len(c.scopes)-1][n.Name] = apVal{"lst", "LsUnset"}
				case "handlers.HandlerConst":
					c.scopes[len(c.scopes)-1][n.Name] = apVal{"hnd", "HUnset"}
				}
			}
		}
	case *ast.AssignStmt:
		// o, lockset = orcas.Locked(...)
		if len(x.Lhs) == 2 && len(x.Rhs) == 1 {
			if ov, lv, ok := c.lockedCall(x.Rhs[0]); ok {
				for i, v := range []apVal{ov, lv} {
					if id, ok := x.Lhs[i].(*ast.Ident); ok && id.Name != "_" {
						if x.Tok == token.DEFINE {
							c.scopes[len(c.scopes)-1][id.Name] = v
						} else {
							c.assign(id.Name, v)
						}
					}
				}
				return
			}
		}
		for i, l := range x.Lhs {
			id, ok := l.(*ast.Ident)
			if !ok {
				continue
			}
			var v apVal
			if len(x.Rhs) == len(x.Lhs) {
				v = c.expr(x.Rhs[i])
			} else {
				v = apVal{"other", coqStr(ltSquash(c.src(x)))}
			}
			if x.Tok == token.DEFINE {
				if apTracked(v.kind) {
					c.scopes[len(c.scopes)-1][id.Name] = v
				} else if old, was := c.tracked(id.Name); was {
					// shadowing a tracked name with something unrecognised
					c.scopes[len(c.scopes)-1][id.Name] = c.other(old.kind, ltSquash(c.src(x)))
				}
				continue
			}
			if old, was := c.tracked(id.Name); was {
				if v.kind == old.kind {
					c.assign(id.Name, v)
				} else {
					c.assign(id.Name, c.other(old.kind, ltSquash(c.src(x))))
				}
			}
		}
	case *ast.IfStmt:
		if x.Init != nil {
			c.stmt(x.Init)
		}
		cond := c.bexp(x.Cond)
		snap := c.snapshot()
		c.cond = append(c.cond, cond)
		c.block(x.Body)
		c.cond = c.cond[:len(c.cond)-1]
		thenSt := c.snapshot()
		c.restore(snap)
		if x.Else != nil {
			c.cond = append(c.cond, fmt.Sprintf("(BNot %s)", cond))
			switch el := x.Else.(type) {
			case *ast.BlockStmt:
				c.block(el)
			default:
				c.stmt(el)
			}
			c.cond = c.cond[:len(c.cond)-1]
		}
		elseSt := c.snapshot()
		// merge
		for i := range c.scopes {
			for n, tv := range thenSt[i] {
				ev := elseSt[i][n]
				if tv.g == ev.g {
					c.scopes[i][n] = tv
					continue
				}
				ctor := map[string]string{"orc": "OIf", "lset": "LIf", "lst": "LsIf", "hnd": "HIf", "protos": "PsIf"}[tv.kind]
				c.scopes[i][n] = apVal{tv.kind, fmt.Sprintf("(%s %s %s %s)", ctor, cond, tv.g, ev.g)}
			}
		}
	case *ast.BlockStmt:
		c.block(x)
	case *ast.GoStmt:
		c.call(x.Call)
	case *ast.ExprStmt:
		if call, ok := x.X.(*ast.CallExpr); ok {
			c.call(call)
		}
	}
}

func (c *apCtx) call(call *ast.CallExpr) {
	se, ok := call.Fun.(*ast.SelectorExpr)
	if !ok || !isIdent(se.X, "server") || se.Sel.Name != "ListenAndServe" || len(call.Args) != 6 {
		return
	}
	cond := "BTrue"
	for _, p := range c.cond {
		if cond == "BTrue" {
			cond = p
		} else {
			cond = fmt.Sprintf("(BAnd %s %s)", cond, p)
		}
	}
	l, o := c.expr(call.Args[0]), c.expr(call.Args[3])
	if l.kind != "lst" {
		l = c.other("lst", l.g)
	}
	if o.kind != "orc" {
		o = c.other("orc", o.g)
	}
	ps, h1, h2 := c.expr(call.Args[1]), c.expr(call.Args[4]), c.expr(call.Args[5])
	if ps.kind != "protos" {
		ps = c.other("protos", ps.g)
	}
	if h1.kind != "hnd" {
		h1 = c.other("hnd", h1.g)
	}
	if h2.kind != "hnd" {
		h2 = c.other("hnd", h2.g)
	}
	c.serves = append(c.serves, fmt.Sprintf("mkServe %s %s %s %s %s %s %s", cond, l.g, ps.g, coqStr(ltSquash(c.src(call.Args[2]))), o.g, h1.g, h2.g))
}

func (c *apCtx) block(b *ast.BlockStmt) {
	c.scopes = append(c.scopes, map[string]apVal{})
	for _, s := range b.List {
		c.stmt(s)
	}
	c.scopes = c.scopes[:len(c.scopes)-1]
}

func (c *apCtx) snapshot() []map[string]apVal {
	out := make([]map[string]apVal, len(c.scopes))
	for i, s := range c.scopes {
		out[i] = map[string]apVal{}
		for k, v := range s {
			out[i][k] = v
		}
	}
	return out
}

func (c *apCtx) restore(s []map[string]apVal) {
	for i := range c.scopes {
		c.scopes[i] = map[string]apVal{}
		for k, v := range s[i] {
			c.scopes[i][k] = v
		}
	}
}

func apptrans(e *env) {
	repo := "/repo"
	if v := os.Getenv("VERIF_REPO"); v != "" {
		repo = v
	}
	var sb strings.Builder
	sb.WriteString("(* GENERATED by harness apptrans from the SOURCE of /repo/app/memproxy.go (func main) — do not edit.\n" +
		"   Every `go server.ListenAndServe(...)` of main with the condition under which it is reached, its listener\n" +
		"   and its orchestrator as a symbolic value (types and evaluation: server/AppWiring.v; extraction rules:\n" +
		"   harness/cmd/rendharness/apptrans.go); gen/AppLink.v proves what the theorems assume about it. *)\n")
	sb.WriteString("From Coq Require Import String List.\nImport ListNotations.\nFrom Rend Require Import server.AppWiring.\nOpen Scope string_scope.\n\n")
	fs := token.NewFileSet()
	af, err := parser.ParseFile(fs, filepath.Join(repo, "app", "memproxy.go"), nil, 0)
	var serves []string
	if err != nil {
		serves = []string{fmt.Sprintf("mkServe BTrue (LsOther %s) (PsOther \"\") \"\" (OOther %s) HUnset HUnset", coqStr("app/memproxy.go does not parse"), coqStr(err.Error()))}
	} else {
		var fd *ast.FuncDecl
		for _, d := range af.Decls {
			if f, ok := d.(*ast.FuncDecl); ok && f.Recv == nil && f.Name.Name == "main" {
				fd = f
			}
		}
		if fd == nil || fd.Body == nil {
			serves = []string{"mkServe BTrue (LsOther \"no func main\") (PsOther \"\") \"\" (OOther \"no func main\") HUnset HUnset"}
		} else {
			c := &apCtx{fs: fs}
			c.block(fd.Body)
			serves = c.serves
		}
	}
	sb.WriteString("Definition app_serves_src : list serve :=\n  [ " + strings.Join(serves, ";\n    ") + " ].\n")
	root := os.Getenv("VERIF_ROOT")
	if root == "" {
		root = "/verif"
	}
	writeIfChanged(filepath.Join(root, "coq", "gen", "App_gen.v"), []byte(sb.String()))
	if strings.Contains(sb.String(), "Other ") {
		fmt.Fprintf(os.Stderr, "apptrans: unrecognised parts in the wiring of main\n")
	}
}
