package main

import (
	"encoding/json"
	"fmt"
	"os"

	"verifharness/gal"
	"verifharness/rig"
	"verifharness/sched"
	"verifharness/stack"
)

func init() {
	commands["c03"] = func(e *env) { concurrent(e, "C03", 3) }
	commands["c12"] = func(e *env) { concurrent(e, "C12", 12) }
	commands["c14"] = func(e *env) { concurrent(e, "C14", 14) }
}

type cThread struct {
	Orca   string      `json:"orca"`
	Reqs   []stack.Req `json:"reqs"`
	FailAt int         `json:"fail_at"` // handler-call index at which a panic is injected, -1 never
	// "" or "panic": the handler call panics; "error": it returns an I/O error instead (for Get/GetE
	// on the error channel). Programs with an "error" thread are judged by the Go-side oracles only
	// (locks released, no deadlock, every connection ends closed): the lock LTS models panics.
	FailKind string `json:"fail_kind,omitempty"`
}

type cProgram struct {
	Locking bool      `json:"locking"`
	Multi   bool      `json:"multi_reader"`
	Threads []cThread `json:"threads"`
	Sched   []int     `json:"schedule,omitempty"` // scheduler choices (thread ids); empty = explore
}

const cNow = 1700000000

func newRig(p cProgram) *sched.Rig {
	ths := make([]*sched.Thread, len(p.Threads))
	for i, t := range p.Threads {
		kind := t.FailKind
		if kind == "" {
			kind = "panic"
		}
		ths[i] = &sched.Thread{Orca: t.Orca, Reqs: t.Reqs, FailAt: t.FailAt, FailKind: kind}
	}
	r := sched.New(ths, p.Locking, p.Multi)
	r.B.L1.SetNow(cNow)
	r.B.L2.SetNow(cNow)
	return r
}

// runSchedule drives one run: follows prefix, then always the lowest enabled thread.
// Returns the choices made and, per position, the enabled sets.
func runSchedule(p cProgram, prefix []int) (r *sched.Rig, choices []int, enabled [][]int, problem string) {
	r = newRig(p)
	for i := 0; r.Unfinished(); i++ {
		en := r.Enabled()
		if len(en) == 0 {
			return r, choices, enabled, "deadlock: threads unfinished but none enabled"
		}
		pick := en[0]
		if i < len(prefix) {
			ok := false
			for _, x := range en {
				if x == prefix[i] {
					ok = true
				}
			}
			if !ok {
				return r, choices, enabled, fmt.Sprintf("schedule not followable at step %d", i)
			}
			pick = prefix[i]
		}
		enabled = append(enabled, en)
		choices = append(choices, pick)
		if !r.Step(pick) {
			return r, choices, enabled, r.Err
		}
		if i > 5000 {
			return r, choices, enabled, "run did not finish within 5000 steps"
		}
	}
	return r, choices, enabled, ""
}

func kindGallina(o string) string {
	return map[string]string{"l1only": "KL1Only", "l1l2": "KL1L2", "l1l2batch": "KL1L2Batch"}[o]
}

func caseGallina(p cProgram, r *sched.Rig, keys []string) string {
	var ths []string
	for i, t := range p.Threads {
		var reqs, reps []string
		for _, q := range t.Reqs {
			reqs = append(reqs, q.Gallina())
		}
		th := r.Threads[i]
		for _, b := range th.Replies {
			reps = append(reps, gal.Bytes(b))
		}
		// replies of COMPLETED commands only: a command cut short by the injected panic is not complete
		if th.Failed() && len(reps) >= th.FailedAtReq && th.FailedAtReq > 0 {
			reps = reps[:th.FailedAtReq-1]
		}
		ths = append(ths, gal.App("mkT3", kindGallina(t.Orca), gal.List(reqs), gal.List(reps), gal.Bool(th.Failed())))
	}
	var sc []string
	for _, e := range r.ModelSched {
		sc = append(sc, gal.Pair(fmt.Sprint(e[0])+"%nat", gal.Bool(e[1] == 1)))
	}
	var gr []string
	for _, g := range r.Events {
		gr = append(gr, gal.Tuple(gal.N(uint64(g.Thread)), gal.N(uint64(g.Slot)), gal.Bool(g.Excl), gal.Bool(g.Release)))
	}
	var ks []string
	for _, k := range keys {
		ks = append(ks, gal.Bytes([]byte(k)))
	}
	return gal.App("mkC3", gal.Bool(p.Multi), gal.Bool(p.Locking), "4", gal.N(cNow), gal.List(ks), gal.List(ths), gal.List(sc), gal.List(gr),
		stack.DumpGallina(r.B.L1), stack.DumpGallina(r.B.L2))
}

var cKeys = []string{"a", "bb"}

func genCReq(r *rig.Rand, key string, kinds []string) stack.Req {
	k := kinds[r.Intn(len(kinds))]
	q := stack.Req{Kind: k, Key: []byte(key), Opaque: uint32(1 + r.Intn(1000))}
	switch k {
	case "set", "add", "replace":
		q.Data = []byte(fmt.Sprintf("v%d", r.Intn(100)))
		q.Flags = uint32(r.Intn(4))
		q.TTL = []uint32{0, 0, 100, 5000}[r.Intn(4)]
	case "append", "prepend":
		q.Data = []byte(fmt.Sprintf("+%d", r.Intn(10)))
	case "touch", "gat":
		q.TTL = []uint32{0, 100, 5000}[r.Intn(3)]
	case "get":
		q = stack.Req{Kind: "get", Items: []stack.GItem{{Key: []byte(key), Opaque: q.Opaque}}}
	case "mget":
		q = stack.Req{Kind: "get", Items: []stack.GItem{{Key: []byte(cKeys[0]), Opaque: 1, Quiet: true}, {Key: []byte(cKeys[1]), Opaque: 2, Quiet: true}}, NoopEnd: true, NoopOpq: 9}
		switch r.Intn(3) {
		case 0:
			q.Items[0], q.Items[1] = q.Items[1], q.Items[0] // overlapping keys in the opposite order
		case 1:
			q.Items[1].Key = q.Items[0].Key // the same key (hence the same lock) twice
		}
	}
	return q
}

var allKinds = []string{"set", "set", "add", "replace", "append", "prepend", "delete", "touch", "gat", "get", "get", "mget"}

func concurrent(e *env, prop string, mode int) {
	w := rig.NewWriter(e.out, prop, e.tier, e.seed)
	w.Shards = 16
	r := rig.NewRand(e.seed + uint64(mode)*104729)
	thorough := e.tier == "thorough"
	var progs []cProgram
	if rp := replayArg(e); rp != "" {
		var p cProgram
		b, err := os.ReadFile(rp)
		if err != nil || json.Unmarshal(b, &p) != nil {
			rig.Die("cannot read replay input %s", rp)
		}
		progs = append(progs, p)
	} else {
		nprogs := 60
		if thorough {
			nprogs = 600
		}
		for i := 0; i < nprogs; i++ {
			p := cProgram{Locking: true, Multi: r.Bool()}
			nth := 2
			if r.Chance(25) {
				nth = 3
			}
			if mode == 14 {
				p.Locking = r.Bool()
				nth = 2 + r.Intn(3)
			}
			for t := 0; t < nth; t++ {
				th := cThread{Orca: []string{"l1l2", "l1l2batch", "l1l2", "l1only"}[r.Intn(3)], FailAt: -1}
				if i%7 == 0 {
					th.Orca = "l1only" // one-tier deployment: all threads l1only
				}
				ncmd := 1 + r.Intn(2)
				if nth == 3 {
					ncmd = 1
				}
				for c := 0; c < ncmd; c++ {
					key := cKeys[r.Intn(len(cKeys))]
					kinds := allKinds
					if mode == 14 {
						key = fmt.Sprintf("t%d-%d", t, r.Intn(2)) // private keys
						kinds = allKinds[:len(allKinds)-1]
					} else if r.Chance(70) {
						key = cKeys[0] // make commands collide on one key
					}
					th.Reqs = append(th.Reqs, genCReq(r, key, kinds))
				}
				p.Threads = append(p.Threads, th)
			}
			if i%7 == 0 {
				for t := range p.Threads {
					p.Threads[t].Orca = "l1only"
					// the GetE extension exists for one-tier deployments only: turn gets into getes there
					for j := range p.Threads[t].Reqs {
						if q := &p.Threads[t].Reqs[j]; q.Kind == "get" && (i%14 == 0 || r.Bool()) {
							q.Kind = "gete"
						}
					}
				}
			}
			if mode == 12 && i%3 == 0 {
				// two connections doing multi-key gets over the same keys (opposite orders / duplicates)
				for t := range p.Threads {
					p.Threads[t].Reqs[0] = genCReq(r, cKeys[0], []string{"mget"})
				}
			}
			if mode == 12 && r.Chance(70) {
				// a panic at some handler call of thread 0; another thread works on the same keys afterwards
				p.Threads[0].FailAt = r.Intn(4)
				// a last command that needs no lock and no backend: it is parsed only if the
				// connection survived the failure
				p.Threads[0].Reqs = append(p.Threads[0].Reqs, stack.Req{Kind: "noop", Opaque: 4242})
			}
			progs = append(progs, p)
		}
		if mode == 12 {
			// the same failure positions with an I/O error returned instead of a panic: the wrapped
			// orchestrator then comes back with an error, the path on which a lock release is
			// easiest to forget
			n := len(progs)
			for i := 0; i < n; i++ {
				if progs[i].Threads[0].FailAt < 0 || i%2 != 0 {
					continue
				}
				q := progs[i]
				q.Threads = append([]cThread(nil), q.Threads...)
				q.Threads[0].FailKind = "error"
				progs = append(progs, q)
			}
		}
	}
	maxRuns := 40
	if thorough {
		maxRuns = 2000
	}
	totalRuns := 0
	for _, p := range progs {
		goOnly := false
		for _, t := range p.Threads {
			if t.FailKind == "error" {
				goOnly = true
			}
		}
		keys := map[string]bool{}
		for _, t := range p.Threads {
			for _, q := range t.Reqs {
				if q.Key != nil {
					keys[string(q.Key)] = true
				}
				for _, it := range q.Items {
					keys[string(it.Key)] = true
				}
			}
		}
		var ks []string
		for k := range keys {
			ks = append(ks, k)
		}
		// stateless exploration of the schedules of this program
		stack := [][]int{p.Sched}
		exhausted := true
		runs := 0
		for len(stack) > 0 {
			if runs >= maxRuns {
				exhausted = false
				break
			}
			prefix := stack[len(stack)-1]
			stack = stack[:len(stack)-1]
			rg, choices, enabled, problem := runSchedule(p, prefix)
			runs++
			totalRuns++
			pp := p
			pp.Sched = choices
			if problem != "" {
				w.Fail(rig.GoFailure{Kind: "counterexample", What: problem, Input: pp, Detail: fmt.Sprintf("after %d steps", len(choices))})
				continue
			}
			// Go-side oracles of C12
			if rg.MultiHeld != "" {
				w.Fail(rig.GoFailure{Kind: "counterexample", What: "a connection held more than one key lock at a time: " + rg.MultiHeld, Input: pp})
			}
			if rg.SplitKey != "" {
				w.Fail(rig.GoFailure{Kind: "counterexample", What: "key locking: " + rg.SplitKey, Input: pp})
			}
			if rg.LocksHeld() != 0 {
				w.Fail(rig.GoFailure{Kind: "counterexample", What: "a key lock is still held after all connections finished", Input: pp, Detail: fmt.Sprint(rg.LocksHeld())})
			}
			for ti, th := range rg.Threads {
				if !th.Closed() {
					what := "the server loop of a connection ended without closing the connection and its handlers"
					if th.Failed() {
						what = "a failure underneath a command ended the server loop without closing the connection and its handlers"
					}
					w.Fail(rig.GoFailure{Kind: "counterexample", What: what, Input: pp,
						Detail: fmt.Sprintf("thread %d: failed=%v at request %d, %d requests parsed", ti, th.Failed(), th.FailedAtReq, th.Parsed())})
				}
				if th.Failed() && th.Parsed() != th.FailedAtReq && !goOnly {
					w.Fail(rig.GoFailure{Kind: "counterexample", What: "a panic underneath a command did not close the connection: the server loop went on to parse further requests",
						Input: pp, Detail: fmt.Sprintf("thread %d: panic during request %d, %d requests parsed in the end", ti, th.FailedAtReq, th.Parsed()),
						Tags: []string{"locked-get-swallows-panic"}})
				}
			}
			overlap := len(p.Threads) > 1
			w.Count(fmt.Sprintf("threads=%d", len(p.Threads)))
			w.Count(fmt.Sprintf("locking=%v/multi=%v", p.Locking, p.Multi))
			if goOnly {
				w.Count("injected-error-runs(go-oracles-only)")
			} else {
				w.Add(rig.Case{Desc: pp, Coq: caseGallina(p, rg, ks), Nontrivial: overlap && len(choices) > 4})
			}
			if len(p.Sched) > 0 {
				continue // a replay runs exactly one schedule
			}
			for i := len(prefix); i < len(choices); i++ {
				for _, alt := range enabled[i] {
					if alt > choices[i] {
						np := append(append([]int(nil), choices[:i]...), alt)
						stack = append(stack, np)
					}
				}
			}
		}
		if exhausted {
			w.Count("programs-with-all-schedules-enumerated")
		} else {
			w.Count("programs-with-schedule-budget-exhausted")
		}
	}
	w.Res.Stats["schedules_run"] = totalRuns
	w.Res.Rule = "small client programs (2-3 connections x 1-2 commands over 1-2 keys, every command kind, main-port and batch-port orchestrators sharing one lock set, single- and multi-reader) run through the real server loop + orchestrators under a controlled scheduler; schedules enumerated depth-first at the granularity of lock acquisitions and single backend calls (per-program budget in quick); non-trivial = >= 2 connections and more than 4 scheduling steps; distinct = different (program, schedule, observations)"
	if err := w.Finish([]string{"base.Bytes", "base.Harness", "spec.MapSpec", "orca.Types", "orca.OrcaSpec", "checks.Check03"}, "case03",
		fmt.Sprintf("check03 %d", mode)); err != nil {
		rig.Die("%v", err)
	}
}
