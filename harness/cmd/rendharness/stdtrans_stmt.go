package main

// stdtrans, statements. block translates a statement list into one Gallina term: every statement
// wraps the translation of the statements after it (continuation style), so assignments are
// re-bindings and effects are sequenced by m_bind.

import (
	"fmt"
	"go/ast"
	"go/token"
	"go/types"
	"strings"
)

type sxMode struct {
	ret      func(vals []string) string // `return vals`; nil: return not allowed here
	fall     string                     // the end of the block ("": falling off the end is an error)
	cont     string                     // `continue` ("": not allowed)
	resTypes []string
	chanRes  bool
}

func sxTerminates(list []ast.Stmt) bool {
	if len(list) == 0 {
		return false
	}
	switch x := list[len(list)-1].(type) {
	case *ast.ReturnStmt:
		return true
	case *ast.BranchStmt:
		return x.Tok == token.CONTINUE
	case *ast.IfStmt:
		if x.Else == nil {
			return false
		}
		eb, ok := x.Else.(*ast.BlockStmt)
		if !ok {
			return sxTerminates([]ast.Stmt{x.Else}) && sxTerminates(x.Body.List)
		}
		return sxTerminates(x.Body.List) && sxTerminates(eb.List)
	case *ast.BlockStmt:
		return sxTerminates(x.List)
	}
	return false
}

// assignedOuter: the variables visible in env that the statements assign or mutate, in order of
// first appearance (a `:=` inside a nested block declares, it does not assign)
func (c *sxCtx) assignedOuter(list []ast.Stmt, env *sxEnv) []string {
	var out []string
	seen := map[string]bool{}
	declared := map[string]bool{}
	add := func(e ast.Expr) {
		for {
			switch x := e.(type) {
			case *ast.IndexExpr:
				e = x.X
				continue
			case *ast.SliceExpr:
				e = x.X
				continue
			case *ast.SelectorExpr:
				e = x.X
				continue
			case *ast.UnaryExpr:
				e = x.X
				continue
			}
			break
		}
		if id, ok := e.(*ast.Ident); ok && !declared[id.Name] && !seen[id.Name] {
			if v := env.lookup(id.Name); v != nil && sxCoqType(v.typ) != "" {
				seen[id.Name] = true
				out = append(out, id.Name)
			}
		}
	}
	var walk func(n ast.Node)
	walk = func(n ast.Node) {
		ast.Inspect(n, func(m ast.Node) bool {
			switch x := m.(type) {
			case *ast.FuncLit:
				return false
			case *ast.AssignStmt:
				if x.Tok == token.DEFINE {
					for _, l := range x.Lhs {
						if id, ok := l.(*ast.Ident); ok {
							declared[id.Name] = true
						}
					}
				} else {
					for _, l := range x.Lhs {
						add(l)
					}
				}
			case *ast.IncDecStmt:
				add(x.X)
			case *ast.CallExpr:
				name := types.ExprString(x.Fun)
				switch {
				case strings.HasPrefix(name, "binary.BigEndian.Put") || name == "copy":
					if len(x.Args) > 0 {
						add(x.Args[0])
					}
				case name == "binary.Read" && len(x.Args) == 3:
					add(x.Args[2])
				case (name == "io.ReadAtLeast" || name == "io.ReadFull") && len(x.Args) >= 2:
					add(x.Args[1])
				}
			}
			return true
		})
	}
	for _, s := range list {
		walk(s)
	}
	return out
}

func (c *sxCtx) tupleOf(names []string, env *sxEnv) (pat, val, typ string) {
	if len(names) == 0 {
		return "_", "tt", "unit"
	}
	var ps, ts []string
	for _, n := range names {
		v := env.lookup(n)
		ps = append(ps, v.coq)
		ts = append(ts, sxCoqType(v.typ))
	}
	if len(ps) == 1 {
		return ps[0], ps[0], ts[0]
	}
	return "'(" + strings.Join(ps, ", ") + ")", "(" + strings.Join(ps, ", ") + ")", "(" + strings.Join(ts, " * ") + ")"
}

// closeGuards wraps body in the guards opened since mark
func (c *sxCtx) closeGuards(mark int, ind, body string) string {
	gs := c.pre[mark:]
	c.pre = c.pre[:mark]
	if len(gs) == 0 {
		return body
	}
	var sb strings.Builder
	for _, g := range gs {
		sb.WriteString(ind + g + "\n")
	}
	sb.WriteString(body + strings.Repeat(")", len(gs)))
	return sb.String()
}

func (c *sxCtx) block(list []ast.Stmt, env *sxEnv, mode *sxMode, ind string) string {
	if len(list) == 0 {
		if mode.fall == "" {
			return ind + sxMarker("the function ends without a return ("+c.cur.key+")")
		}
		return ind + mode.fall
	}
	s, rest := list[0], list[1:]
	c.failMsg = ""
	mark := len(c.pre)
	out, handled := c.stmt(s, rest, env, mode, ind)
	if c.failMsg != "" || !handled {
		c.pre = c.pre[:mark]
		msg := c.failMsg
		if msg == "" {
			msg = fmt.Sprintf("statement %T (%s)", s, c.at(s.Pos()))
		}
		c.failMsg = ""
		return ind + sxMarker(msg)
	}
	return out
}

// bind renders `m_bind (m) (fun pat => rest)`
func sxBind(ind, m, pat, rest string) string {
	return fmt.Sprintf("%sm_bind (%s) (fun %s =>\n%s)", ind, m, pat, rest)
}

// stmt translates s followed by rest
func (c *sxCtx) stmt(s ast.Stmt, rest []ast.Stmt, env *sxEnv, mode *sxMode, ind string) (string, bool) {
	mark := len(c.pre)
	next := func() string { return c.block(rest, env, mode, ind) }
	switch x := s.(type) {
	case *ast.EmptyStmt:
		if c.popMarks[x] {
			inner := env.scopes[len(env.scopes)-1]
			env.scopes = env.scopes[:len(env.scopes)-1]
			out := next()
			env.scopes = append(env.scopes, inner)
			return out, true
		}
		return next(), true
	case *ast.ExprStmt:
		if c.dropped(x.X, env) {
			return next(), true
		}
		call, ok := x.X.(*ast.CallExpr)
		if !ok {
			return "", false
		}
		return c.callStmt(call, nil, false, rest, env, mode, ind)
	case *ast.DeferStmt:
		if c.dropped(x.Call, env) {
			return next(), true
		}
		if lpIsIdent(x.Call.Fun, "close") && len(x.Call.Args) == 1 {
			if id, ok := x.Call.Args[0].(*ast.Ident); ok {
				if v := env.lookup(id.Name); v != nil && strings.HasPrefix(v.typ, "chan:") {
					return next(), true // the end of the channel's list (StdSem.v, THE CHANNEL CONTRACT)
				}
			}
		}
		c.fail(x.Pos(), "defer %s", types.ExprString(x.Call.Fun))
		return "", true
	case *ast.DeclStmt:
		gd, ok := x.Decl.(*ast.GenDecl)
		if !ok || gd.Tok != token.VAR {
			return "", false
		}
		var lets string
		for _, sp := range gd.Specs {
			vs := sp.(*ast.ValueSpec)
			if len(vs.Values) != 0 || vs.Type == nil {
				c.fail(x.Pos(), "var declaration with values")
				return "", true
			}
			t := c.goType(vs.Type)
			if sxZero(t) == "" {
				c.fail(x.Pos(), "var of type %s", types.ExprString(vs.Type))
				return "", true
			}
			for _, n := range vs.Names {
				lets += fmt.Sprintf("%slet %s : %s := %s in\n", ind, c.declare(env, n.Name, t), sxCoqType(t), sxZero(t))
			}
		}
		return lets + next(), true
	case *ast.ReturnStmt:
		if mode.ret == nil {
			c.fail(x.Pos(), "return inside a counted loop")
			return "", true
		}
		if mode.chanRes {
			// return dataOut, errorOut: the two channels made above, response channel first
			if len(x.Results) == 2 {
				a, aok := x.Results[0].(*ast.Ident)
				b, bok := x.Results[1].(*ast.Ident)
				if aok && bok {
					va, vb := env.lookup(a.Name), env.lookup(b.Name)
					if va != nil && vb != nil && va.typ == "chan:data" && vb.typ == "chan:err" {
						return ind + mode.ret(nil), true
					}
				}
			}
			c.fail(x.Pos(), "return of something else than the two channels")
			return "", true
		}
		if len(x.Results) == 1 && len(mode.resTypes) >= 1 {
			// return f(...): a tail call of a translated function or a connection primitive
			if call, ok := x.Results[0].(*ast.CallExpr); ok {
				if m, rs, ok := c.effectCall(call, env); ok {
					if strings.Join(rs, ",") != strings.Join(mode.resTypes, ",") {
						c.fail(x.Pos(), "return of a call with results (%s)", strings.Join(rs, ","))
						return "", true
					}
					return c.closeGuards(mark, ind, ind+m), true
				}
			}
		}
		if len(x.Results) != len(mode.resTypes) {
			c.fail(x.Pos(), "return with %d values", len(x.Results))
			return "", true
		}
		var vals []string
		for i, r := range x.Results {
			t, _ := c.valueOf(r, env, mode.resTypes[i])
			vals = append(vals, t)
		}
		return c.closeGuards(mark, ind, ind+mode.ret(vals)), true
	case *ast.BranchStmt:
		if x.Tok == token.CONTINUE && x.Label == nil && mode.cont != "" {
			return ind + mode.cont, true
		}
		c.fail(x.Pos(), "%s", x.Tok)
		return "", true
	case *ast.SendStmt:
		id, ok := x.Chan.(*ast.Ident)
		if !ok {
			return "", false
		}
		v := env.lookup(id.Name)
		if v == nil {
			return "", false
		}
		switch v.typ {
		case "chan:data":
			t, _ := c.valueOf(x.Value, env, "gres")
			return c.closeGuards(mark, ind, sxBind(ind, "m_emit "+t, "_", next())), true
		case "chan:err":
			t, _ := c.valueOf(x.Value, env, "error")
			return c.closeGuards(mark, ind, sxBind(ind, "m_fail "+t, "_", next())), true
		}
		return "", false
	case *ast.GoStmt:
		// go f(args): by THE CHANNEL CONTRACT f runs to completion before the next call
		g := c.callee(c.cur, x.Call)
		if g == nil || !g.ok || len(g.res) != 0 {
			c.fail(x.Pos(), "go %s", types.ExprString(x.Call.Fun))
			return "", true
		}
		hasData, hasErr := false, false
		for _, p := range g.allPar {
			hasData = hasData || p.typ == "chan:data"
			hasErr = hasErr || p.typ == "chan:err"
		}
		if !hasData || !hasErr {
			c.fail(x.Pos(), "go %s: no response and error channel", types.ExprString(x.Call.Fun))
			return "", true
		}
		m := c.callArgs(g, x.Call.Args, env, x.Pos())
		return c.closeGuards(mark, ind, sxBind(ind, m, "_", next())), true
	case *ast.AssignStmt:
		return c.assign(x, rest, env, mode, ind)
	case *ast.IfStmt:
		return c.ifStmt(x, rest, env, mode, ind)
	case *ast.ForStmt:
		return c.forStmt(x, rest, env, mode, ind)
	case *ast.RangeStmt:
		return c.rangeStmt(x, rest, env, mode, ind)
	case *ast.BlockStmt:
		if len(rest) == 0 {
			env.push()
			defer env.pop()
			return c.block(x.List, env, mode, ind), true
		}
	}
	return "", false
}

// effectCall: a call with an effect on the connection, or of a translated function. Returns the
// monadic term and the Go types of its results ("count" for byte counts).
func (c *sxCtx) effectCall(call *ast.CallExpr, env *sxEnv) (string, []string, bool) {
	if g := c.callee(c.cur, call); g != nil {
		if c.putOnly[g.key] {
			return "", nil, false
		}
		if !g.ok {
			c.fail(call.Pos(), "call of %s, which is not translated", g.key)
			return "m_undef", g.res, true
		}
		if len(g.res) > 0 && strings.HasPrefix(g.res[0], "chan:") {
			c.fail(call.Pos(), "call of %s, which returns channels", g.key)
			return "m_undef", g.res, true
		}
		return c.callArgs(g, call.Args, env, call.Pos()), g.res, true
	}
	name := types.ExprString(call.Fun)
	if sel, ok := call.Fun.(*ast.SelectorExpr); ok && c.isConn(sel.X, env) {
		switch sel.Sel.Name {
		case "Write":
			if len(call.Args) == 1 {
				t, _ := c.valueOf(call.Args[0], env, "bytes")
				return "m_write " + t, []string{"count", "error"}, true
			}
		case "Flush":
			if len(call.Args) == 0 {
				return "m_flush E", []string{"error"}, true
			}
		case "Discard":
			if len(call.Args) == 1 {
				t, _ := c.valueOf(call.Args[0], env, "int")
				return "m_discard " + t, []string{"count", "error"}, true
			}
		}
	}
	if std := c.cur.pkg == "std"; (std && name == "binprot.DecodeError") || (!std && name == "DecodeError") {
		if len(call.Args) == 1 {
			t, ty := c.expr(call.Args[0], env, "ptr:rhdr")
			if ty == "ptr:rhdr" {
				c.seq++
				v := fmt.Sprintf("hdr_%d", c.seq)
				return fmt.Sprintf("m_deref %s (fun %s => m_ret (decode_error (rh_status %s)))", t, v, v), []string{"error"}, true
			}
		}
	}
	if (name == "io.ReadAtLeast" && len(call.Args) == 3) || (name == "io.ReadFull" && len(call.Args) == 2) {
		if c.isConn(call.Args[0], env) {
			if id, ok := call.Args[1].(*ast.Ident); ok {
				if v := env.lookup(id.Name); v != nil && v.typ == "bytes" {
					n := "(len " + v.coq + ")"
					if len(call.Args) == 3 {
						n, _ = c.valueOf(call.Args[2], env, "int")
					}
					// results: (count, error); the buffer is re-bound by the caller (sxBufOf)
					return fmt.Sprintf("m_read_at_least %s %s", v.coq, n), []string{"buf:" + id.Name, "error"}, true
				}
			}
		}
	}
	return "", nil, false
}

// callStmt: a call as a statement, or as the right-hand side of lhs (define: `:=`)
func (c *sxCtx) callStmt(call *ast.CallExpr, lhs []ast.Expr, define bool, rest []ast.Stmt, env *sxEnv, mode *sxMode, ind string) (string, bool) {
	mark := len(c.pre)
	name := types.ExprString(call.Fun)
	next := func() string { return c.block(rest, env, mode, ind) }
	// in-place operations on byte slices
	if len(lhs) == 0 {
		switch {
		case (name == "binary.BigEndian.PutUint16" || name == "binary.BigEndian.PutUint32") && len(call.Args) == 2:
			buf, lo, hi, ok := c.sliceBounds(call.Args[0], env)
			if !ok {
				c.fail(call.Pos(), "%s: the destination is not b[lo:hi] of a byte-slice variable", name)
				return "", true
			}
			w, ty := "16", "u16"
			if strings.HasSuffix(name, "32") {
				w, ty = "32", "u32"
			}
			v, _ := c.valueOf(call.Args[1], env, ty)
			return c.closeGuards(mark, ind, fmt.Sprintf("%ssl_put%s %s %s %s %s (fun %s =>\n%s)", ind, w, buf.coq, lo, hi, v, buf.coq, next())), true
		case name == "copy" && len(call.Args) == 2:
			buf, lo, hi, ok := c.sliceBounds(call.Args[0], env)
			if !ok {
				c.fail(call.Pos(), "copy: the destination is not b[lo:hi] of a byte-slice variable")
				return "", true
			}
			v, _ := c.valueOf(call.Args[1], env, "bytes")
			return c.closeGuards(mark, ind, fmt.Sprintf("%ssl_copy %s %s %s %s (fun %s =>\n%s)", ind, buf.coq, lo, hi, v, buf.coq, next())), true
		case name == "binary.Read" && len(call.Args) == 3 && c.isConn(call.Args[0], env) && types.ExprString(call.Args[1]) == "binary.BigEndian":
			if u, ok := call.Args[2].(*ast.UnaryExpr); ok && u.Op == token.AND {
				if id, ok := u.X.(*ast.Ident); ok {
					if v := env.lookup(id.Name); v != nil && v.typ == "u32" {
						return sxBind(ind, "m_u32 "+v.coq, v.coq, next()), true
					}
				}
			}
			c.fail(call.Pos(), "binary.Read into something else than a uint32 variable")
			return "", true
		}
	}
	m, res, ok := c.effectCall(call, env)
	if !ok {
		c.fail(call.Pos(), "call %s", name)
		return "", true
	}
	if len(lhs) != 0 && len(lhs) != len(res) {
		c.fail(call.Pos(), "%d variables for the %d results of %s", len(lhs), len(res), name)
		return "", true
	}
	var pats []string
	for i, r := range res {
		p := "_"
		switch {
		case strings.HasPrefix(r, "buf:"):
			// the buffer read into is re-bound; the count result is not kept
			p = env.lookup(r[4:]).coq
			if len(lhs) != 0 {
				if id, ok := lhs[i].(*ast.Ident); ok && id.Name != "_" {
					c.declare(env, id.Name, "count")
				}
			}
		case len(lhs) == 0:
		default:
			id, ok := lhs[i].(*ast.Ident)
			if !ok {
				c.fail(lhs[i].Pos(), "assignment of a call result to %s", types.ExprString(lhs[i]))
				return "", true
			}
			if id.Name == "_" {
				break
			}
			if r == "count" {
				c.declare(env, id.Name, "count") // feeds metrics only; unusable as a value
				break
			}
			if define {
				p = c.declare(env, id.Name, r)
			} else {
				v := env.lookup(id.Name)
				if v == nil || v.typ != r {
					c.fail(lhs[i].Pos(), "assignment of a %s to %s", r, id.Name)
					return "", true
				}
				p = v.coq
			}
		}
		pats = append(pats, p)
	}
	pat := "_"
	if len(pats) == 1 {
		pat = pats[0]
	} else if len(pats) > 1 {
		pat = "'(" + strings.Join(pats, ", ") + ")"
	}
	return c.closeGuards(mark, ind, sxBind(ind, m, pat, next())), true
}

func (c *sxCtx) assign(x *ast.AssignStmt, rest []ast.Stmt, env *sxEnv, mode *sxMode, ind string) (string, bool) {
	mark := len(c.pre)
	next := func() string { return c.block(rest, env, mode, ind) }
	define := x.Tok == token.DEFINE
	if x.Tok != token.DEFINE && x.Tok != token.ASSIGN {
		return "", false
	}
	if len(x.Rhs) != 1 {
		return "", false
	}
	rhs := x.Rhs[0]
	if call, ok := rhs.(*ast.CallExpr); ok {
		// make
		if lpIsIdent(call.Fun, "make") && env.lookup("make") == nil && len(x.Lhs) == 1 && define {
			id, ok := x.Lhs[0].(*ast.Ident)
			if !ok {
				return "", false
			}
			t := c.goType(call.Args[0])
			switch {
			case strings.HasPrefix(t, "chan:") && len(call.Args) == 1:
				c.declare(env, id.Name, t) // an unbuffered channel: one of the two output lists
				return next(), true
			case t == "bytes" && len(call.Args) == 2:
				var n string
				nt, ty := c.expr(call.Args[1], env, "int")
				switch ty {
				case "int", "lit", "u32", "u16", "u8":
					n = nt
				default:
					c.fail(call.Pos(), "make([]byte, n) with n of type %s", ty)
					return "", true
				}
				name := c.declare(env, id.Name, "bytes")
				return c.closeGuards(mark, ind, fmt.Sprintf("%slet %s := sl_make %s in\n%s", ind, name, n, next())), true
			}
			c.fail(call.Pos(), "make(%s)", types.ExprString(call.Args[0]))
			return "", true
		}
		if _, isConv := call.Fun.(*ast.Ident); !(isConv && c.callee(c.cur, call) == nil) {
			if _, _, eff := c.effectCall(call, env); eff || c.failMsg != "" {
				c.pre = c.pre[:mark]
				c.failMsg = ""
				return c.callStmt(call, x.Lhs, define, rest, env, mode, ind)
			}
		}
	}
	if len(x.Lhs) != 1 {
		return "", false
	}
	// pool Get with a type assertion
	if ta, ok := rhs.(*ast.TypeAssertExpr); ok && define {
		if pool, args, ok := c.poolCall(ta.X, "Get"); ok && len(args) == 0 {
			id, ok := x.Lhs[0].(*ast.Ident)
			if !ok {
				return "", false
			}
			t := c.goType(ta.Type)
			switch {
			case c.pools[pool] == "reqhdr" && t == "ptr:reqhdr":
				return fmt.Sprintf("%slet %s := Some (ge_stale_reqhdr E) in\n%s", ind, c.declare(env, id.Name, t), next()), true
			case c.pools[pool] == "rhdr" && t == "ptr:rhdr":
				return fmt.Sprintf("%slet %s := Some (ge_stale_rhdr E) in\n%s", ind, c.declare(env, id.Name, t), next()), true
			case strings.HasPrefix(c.pools[pool], "bytes:") && t == "bytes":
				return fmt.Sprintf("%slet %s := pool_get_bytes %s_new (ge_stale_buf E) in\n%s", ind, c.declare(env, id.Name, t), pool, next()), true
			}
			c.fail(x.Pos(), "Get from pool %s asserted to %s", pool, types.ExprString(ta.Type))
			return "", true
		}
	}
	switch l := x.Lhs[0].(type) {
	case *ast.Ident:
		if l.Name == "_" {
			return "", false
		}
		want := ""
		if !define {
			v := env.lookup(l.Name)
			if v == nil {
				c.fail(l.Pos(), "assignment to unknown %s", l.Name)
				return "", true
			}
			want = v.typ
		}
		t, ty := c.expr(rhs, env, want)
		if ty == "lit" {
			ty = "int"
			if want != "" {
				ty = want
			}
		}
		if sxCoqType(ty) == "" || (want != "" && ty != want) {
			c.fail(x.Pos(), "assignment of %s (%s) to %s", types.ExprString(rhs), ty, l.Name)
			return "", true
		}
		var name string
		if define {
			name = c.declare(env, l.Name, ty)
		} else {
			name = env.lookup(l.Name).coq
		}
		return c.closeGuards(mark, ind, fmt.Sprintf("%slet %s : %s := %s in\n%s", ind, name, sxCoqType(ty), t, next())), true
	case *ast.SelectorExpr:
		// p.Field = v
		id, ok := l.X.(*ast.Ident)
		if !ok || define {
			return "", false
		}
		v := env.lookup(id.Name)
		if v == nil || (v.typ != "ptr:reqhdr" && v.typ != "ptr:rhdr") {
			return "", false
		}
		kind := v.typ[4:]
		short, ft, ok := c.hdrField(kind, l.Sel.Name)
		if !ok {
			c.fail(l.Pos(), "field %s", l.Sel.Name)
			return "", true
		}
		val, _ := c.valueOf(rhs, env, ft)
		setter := "qh_set_" + short
		if kind == "rhdr" {
			setter = "rh_set_" + short
			if !sxRhdrKept[short] {
				setter = "rh_set_ignored"
			}
		}
		return c.closeGuards(mark, ind, fmt.Sprintf("%sm_deref %s (fun %s_v => let %s := Some (%s %s %s_v) in\n%s)", ind, v.coq, v.coq, v.coq, setter, val, v.coq, next())), true
	case *ast.IndexExpr:
		// b[i] = v
		id, ok := l.X.(*ast.Ident)
		if !ok || define {
			return "", false
		}
		v := env.lookup(id.Name)
		if v == nil || v.typ != "bytes" {
			return "", false
		}
		i, it := c.expr(l.Index, env, "int")
		if it != "int" && it != "lit" {
			c.fail(l.Pos(), "index of type %s", it)
			return "", true
		}
		val, _ := c.valueOf(rhs, env, "u8")
		return c.closeGuards(mark, ind, fmt.Sprintf("%ssl_set %s %s %s (fun %s =>\n%s)", ind, v.coq, i, val, v.coq, next())), true
	}
	return "", false
}

func (c *sxCtx) onlyMarks(rest []ast.Stmt) bool {
	for _, r := range rest {
		if e, ok := r.(*ast.EmptyStmt); !ok || !c.popMarks[e] {
			return false
		}
	}
	return true
}

func (c *sxCtx) ifStmt(x *ast.IfStmt, rest []ast.Stmt, env *sxEnv, mode *sxMode, ind string) (string, bool) {
	if x.Init != nil {
		// the variables of the init statement live in a scope around the if only: the statements
		// after the if are translated with that scope removed again (popMarks)
		env.push()
		y := *x
		y.Init = nil
		mk := &ast.EmptyStmt{Semicolon: x.End(), Implicit: true}
		c.popMarks[mk] = true
		out, ok := c.stmt(x.Init, append([]ast.Stmt{&y, mk}, rest...), env, mode, ind)
		env.pop()
		return out, ok
	}
	mark := len(c.pre)
	cond := c.cond(x.Cond, env)
	var elseList []ast.Stmt
	hasElse := x.Else != nil
	if hasElse {
		if eb, ok := x.Else.(*ast.BlockStmt); ok {
			elseList = eb.List
		} else {
			elseList = []ast.Stmt{x.Else}
		}
	}
	thenT := sxTerminates(x.Body.List)
	elseT := hasElse && sxTerminates(elseList)
	branch := func(list []ast.Stmt, m *sxMode) string {
		env.push()
		defer env.pop()
		return c.block(list, env, m, ind+"  ")
	}
	switch {
	case thenT && !hasElse:
		th := branch(x.Body.List, mode)
		el := c.block(rest, env, mode, ind)
		return c.closeGuards(mark, ind, fmt.Sprintf("%sif %s then\n%s\n%selse\n%s", ind, cond, th, ind, el)), true
	case thenT && elseT:
		if !c.onlyMarks(rest) {
			c.fail(rest[0].Pos(), "unreachable statement")
			return "", true
		}
		th := branch(x.Body.List, mode)
		el := branch(elseList, mode)
		return c.closeGuards(mark, ind, fmt.Sprintf("%sif %s then\n%s\n%selse\n%s", ind, cond, th, ind, el)), true
	}
	// a branch can fall through: the rest becomes a local continuation of the variables the branches assign
	names := c.assignedOuter(append(append([]ast.Stmt{}, x.Body.List...), elseList...), env)
	c.seq++
	k := fmt.Sprintf("kont_%d", c.seq)
	pat, val, _ := c.tupleOf(names, env)
	m2 := *mode
	m2.fall = k + " " + val
	th := branch(x.Body.List, &m2)
	el := ind + "  " + m2.fall
	if hasElse {
		el = branch(elseList, &m2)
	}
	restT := c.block(rest, env, mode, ind+"  ")
	return c.closeGuards(mark, ind, fmt.Sprintf("%s(let %s := fun %s =>\n%s in\n%sif %s then\n%s\n%selse\n%s)", ind, k, pat, restT, ind, cond, th, ind, el)), true
}

// for i := lo; i < hi; i++ { body }
func (c *sxCtx) forStmt(x *ast.ForStmt, rest []ast.Stmt, env *sxEnv, mode *sxMode, ind string) (string, bool) {
	mark := len(c.pre)
	init, ok := x.Init.(*ast.AssignStmt)
	if !ok || init.Tok != token.DEFINE || len(init.Lhs) != 1 || len(init.Rhs) != 1 {
		c.fail(x.Pos(), "for loop that is not `for i := lo; i < hi; i++`")
		return "", true
	}
	iv, ok := init.Lhs[0].(*ast.Ident)
	cond, ok2 := x.Cond.(*ast.BinaryExpr)
	post, ok3 := x.Post.(*ast.IncDecStmt)
	if !ok || !ok2 || !ok3 || cond.Op != token.LSS || !lpIsIdent(cond.X, iv.Name) || post.Tok != token.INC || !lpIsIdent(post.X, iv.Name) {
		c.fail(x.Pos(), "for loop that is not `for i := lo; i < hi; i++`")
		return "", true
	}
	lo, lt := c.expr(init.Rhs[0], env, "int")
	hi, ht := c.expr(cond.Y, env, "int")
	if (lt != "int" && lt != "lit") || (ht != "int" && ht != "lit") {
		c.fail(x.Pos(), "loop bounds of types %s, %s", lt, ht)
		return "", true
	}
	names := c.assignedOuter(x.Body.List, env)
	for _, n := range names {
		if n == iv.Name {
			c.fail(x.Pos(), "the loop variable is assigned in the body")
			return "", true
		}
	}
	bad := false
	ast.Inspect(x.Body, func(n ast.Node) bool {
		switch n.(type) {
		case *ast.ReturnStmt, *ast.BranchStmt, *ast.GoStmt, *ast.DeferStmt:
			bad = true
		}
		return true
	})
	if bad {
		c.fail(x.Pos(), "return / break / continue inside a counted loop")
		return "", true
	}
	pat, val, _ := c.tupleOf(names, env)
	env.push()
	i := c.declare(env, iv.Name, "int")
	bm := &sxMode{fall: "m_ret " + val, resTypes: nil}
	body := c.block(x.Body.List, env, bm, ind+"  ")
	env.pop()
	return c.closeGuards(mark, ind, fmt.Sprintf("%sm_bind (m_for %s %s (fun %s %s =>\n%s) %s) (fun %s =>\n%s)", ind, lo, hi, i, pat, body, val, pat, c.block(rest, env, mode, ind))), true
}

// for idx, x := range l { body } in a function without results
func (c *sxCtx) rangeStmt(x *ast.RangeStmt, rest []ast.Stmt, env *sxEnv, mode *sxMode, ind string) (string, bool) {
	mark := len(c.pre)
	if x.Tok != token.DEFINE || len(mode.resTypes) != 0 || mode.ret == nil || mode.chanRes {
		c.fail(x.Pos(), "range loop outside a function without results")
		return "", true
	}
	l, lt := c.expr(x.X, env, "")
	el := map[string]string{"lbytes": "bytes", "lu32": "u32", "lbool": "bool"}[lt]
	if el == "" {
		c.fail(x.Pos(), "range over %s", lt)
		return "", true
	}
	if names := c.assignedOuter(x.Body.List, env); len(names) != 0 {
		c.fail(x.Pos(), "the range body assigns %s, declared outside", strings.Join(names, ", "))
		return "", true
	}
	bad := false
	ast.Inspect(x.Body, func(n ast.Node) bool {
		switch y := n.(type) {
		case *ast.BranchStmt:
			bad = bad || y.Tok != token.CONTINUE || y.Label != nil
		case *ast.ForStmt, *ast.RangeStmt, *ast.DeferStmt:
			bad = true
		}
		return true
	})
	if bad {
		c.fail(x.Pos(), "break / goto / nested loop / defer inside the range body")
		return "", true
	}
	env.push()
	iname, vname := "_", "_"
	if id, ok := x.Key.(*ast.Ident); ok && id.Name != "_" {
		iname = c.declare(env, id.Name, "int")
	}
	if x.Value != nil {
		if id, ok := x.Value.(*ast.Ident); ok && id.Name != "_" {
			vname = c.declare(env, id.Name, el)
		}
	}
	bm := &sxMode{ret: func([]string) string { return "m_ret false" }, fall: "m_ret true", cont: "m_ret true"}
	body := c.block(x.Body.List, env, bm, ind+"  ")
	env.pop()
	after := c.block(rest, env, mode, ind+"  ")
	return c.closeGuards(mark, ind, fmt.Sprintf("%sm_bind (m_range %s (fun %s %s =>\n%s)) (fun go =>\n%sif go then\n%s\n%selse\n%s  %s)",
		ind, l, iname, vname, body, ind, after, ind, ind, mode.ret(nil))), true
}
