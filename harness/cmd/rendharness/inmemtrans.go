package main

// inmemtrans: translates /repo/handlers/inmem/inmem.go from its SOURCE (go/parser, on every run)
// into coq/gen/Inmem_gen.v: entry.isExpired as a Gallina function, every method of *Handler (Set,
// Add, Replace, Append, Prepend, Get, GetE, GAT, Delete, Touch, Close) as a program in the state
// monad of coq/handlers/InmemSem.v (which gives every recognised statement its meaning and states
// the channel contract relied on), and the declarations (entry, Handler, the package-level handler
// value, New) as a value. coq/gen/InmemLink.v proves each translated method equal to the `step` of
// the model handlers/Inmem.v and the lock discipline on the translated terms.
//
// The translation is by AST structure, statement by statement; it decides nothing. What is not
// recognised becomes `m_untranslatable "<text> (file:line)"` IN PLACE OF the statement and of
// everything after it in its block, so the link lemma of that method stops compiling. Rules:
//
// Signature. func (h *Handler) M(cmd common.T) R: the fields of T (read from /repo/common by
// go/parser) become the parameters cmd_<Field>, after the parameter `now` (the value of
// time.Now().Unix() during the call). R: error -> M (option N); (common.GetResponse, error) ->
// M (gres * option N); (<-chan common.Get[E]Response, <-chan error) -> M (chan * chan).
//
// Statements.
//   h.mutex.Lock() / Unlock() / RLock() / RUnlock()     m_lock / m_unlock / m_rlock / m_runlock
//   defer h.mutex.Unlock() / RUnlock()                  the unlock is emitted before every later return
//   e, ok := h.data[string(K)]                          m_map_get K  (e : raw, ok : bool)
//   h.data[string(K)] = V                               m_map_put K V
//   delete(h.data, string(K))                           m_map_del K
//   x := make(chan common.Get[E]Response, N)            m_make_data N
//   x := make(chan error)                               m_make_err
//   ch <- V   (V a Get[E]Response)                      m_send ch V
//   close(ch)                                           m_close ch
//   var x T / x := E / x = E                            let x := E in   (T: uint32, int, bool, []byte)
//   x := make([]byte, N, C)                             let x := sl_make N C in
//   x = append(x, Y...)                                 let x := x ++ Y in
//   e.f = V   (e a local entry)                         let e := raw_set_f V e in
//   if C { A }, A ending in return/continue             if C then A else <rest>
//   if C { A } [else { B }], neither ending so          the variables declared outside and assigned in
//                                                       A/B are joined: pure bodies -> let '(vs) := if C
//                                                       then .. else .. in; otherwise m_bind (if C then ..
//                                                       m_ret vs else .. m_ret vs) (fun '(vs) => <rest>)
//   for i, x := range L { B }   (B without return/break, assigning nothing declared outside)
//                                                       m_range L (fun i x => B); continue = end of B
//   return ...                                          deferred unlocks, then m_ret
//   metrics.* / log.* expression statements             dropped
// Expressions: parameters, locals, integer literals, true/false/nil, cmd.F, e.exptime/.flags/.data,
// common.ErrXxx (-> Some EXxx), uint32(E) (conv32), time.Now().Unix() (now), len(E), e.isExpired()
// (the translated method), + (add32 at uint32, + at int), - (sub32 at uint32), < > <= >= == != at
// integer types, && || !, L[i] (m_index, hoisted in evaluation order; not under && / ||),
// entry{..} (mkRaw), common.GetResponse{..} / common.GetEResponse{..} (mkGR). Anything else makes
// the statement untranslatable.

import (
	"fmt"
	"go/ast"
	"go/parser"
	"go/token"
	"go/types"
	"os"
	"path/filepath"
	"sort"
	"strings"
)

func init() { commands["inmemtrans"] = inmemtrans }

type imField struct{ name, typ string }

type imCtx struct {
	fs       *token.FileSet
	structs  map[string][]imField // "common.SetRequest" / "entry" -> fields (Go type text)
	hasIsExp bool
	scopes   []map[string]string // Go name -> type
	hoists   []string
	nElem    int
	fail     string
	defers   []string
	recv     string
	cmd      string
	cmdT     string
	resKind  string // err | gat | get
	loop     int
	noHoist  int
	nBad     int
}

var imKeywords = map[string]bool{"end": true, "in": true, "at": true, "as": true, "fun": true, "let": true,
	"match": true, "with": true, "return": true, "then": true, "else": true, "if": true, "type": true,
	"forall": true, "exists": true, "fix": true, "cofix": true, "using": true, "where": true, "len": true,
	"map": true, "fst": true, "snd": true, "take": true, "drop": true, "now": true, "step": true, "raw": true,
	"chan": true, "ev": true, "res": true, "M": true, "N": true, "Some": true, "None": true, "bytes": true}

func imName(s string) string {
	if imKeywords[s] {
		return s + "_"
	}
	return s
}

func imStr(s string) string {
	s = strings.Join(strings.Fields(s), " ")
	if len(s) > 160 {
		s = s[:160] + "..."
	}
	return "\"" + strings.ReplaceAll(s, "\"", "'") + "\""
}

func (c *imCtx) at(n ast.Node) string {
	p := c.fs.Position(n.Pos())
	return fmt.Sprintf("%s:%d", filepath.Base(p.Filename), p.Line)
}

func (c *imCtx) stmtText(s ast.Stmt) string {
	switch x := s.(type) {
	case *ast.ExprStmt:
		return types.ExprString(x.X)
	case *ast.AssignStmt:
		var l, r []string
		for _, e := range x.Lhs {
			l = append(l, types.ExprString(e))
		}
		for _, e := range x.Rhs {
			r = append(r, types.ExprString(e))
		}
		return strings.Join(l, ", ") + " " + x.Tok.String() + " " + strings.Join(r, ", ")
	case *ast.ReturnStmt:
		var r []string
		for _, e := range x.Results {
			r = append(r, types.ExprString(e))
		}
		return "return " + strings.Join(r, ", ")
	case *ast.IfStmt:
		return "if " + types.ExprString(x.Cond) + " {...}"
	case *ast.DeferStmt:
		return "defer " + types.ExprString(x.Call)
	case *ast.GoStmt:
		return "go " + types.ExprString(x.Call)
	case *ast.SendStmt:
		return types.ExprString(x.Chan) + " <- " + types.ExprString(x.Value)
	case *ast.BranchStmt:
		return x.Tok.String()
	case *ast.RangeStmt:
		return "for ... range " + types.ExprString(x.X)
	case *ast.ForStmt:
		return "for ..."
	case *ast.DeclStmt:
		return "declaration"
	}
	return fmt.Sprintf("%T", s)
}

func (c *imCtx) untrans(s ast.Stmt, why string) string {
	c.nBad++
	t := c.stmtText(s)
	if why != "" {
		t += " [" + why + "]"
	}
	return "m_untranslatable " + imStr(fmt.Sprintf("%s (%s)", t, c.at(s)))
}

// ---- scopes ----
func (c *imCtx) push()               { c.scopes = append(c.scopes, map[string]string{}) }
func (c *imCtx) pop()                { c.scopes = c.scopes[:len(c.scopes)-1] }
func (c *imCtx) declare(n, t string) { c.scopes[len(c.scopes)-1][n] = t }
func (c *imCtx) lookup(n string) (string, int) {
	for i := len(c.scopes) - 1; i >= 0; i-- {
		if t, ok := c.scopes[i][n]; ok {
			return t, i
		}
	}
	return "", -1
}

// ---- types ----
func imGoType(t string) string {
	switch t {
	case "uint32":
		return "u32"
	case "int":
		return "int"
	case "int64":
		return "i64"
	case "bool":
		return "bool"
	case "[]byte":
		return "bytes"
	case "[][]byte":
		return "list bytes"
	case "[]uint32":
		return "list u32"
	case "[]bool":
		return "list bool"
	case "entry":
		return "raw"
	case "error":
		return "err"
	}
	return ""
}

func imCoqType(t string) string {
	switch t {
	case "u32", "int", "i64":
		return "N"
	case "bool":
		return "bool"
	case "bytes":
		return "bytes"
	case "list bytes":
		return "list bytes"
	case "list u32":
		return "list N"
	case "list bool":
		return "list bool"
	case "raw":
		return "raw"
	case "err":
		return "option N"
	case "chan":
		return "chan"
	case "gres":
		return "gres"
	}
	return ""
}

func imZero(t string) string {
	switch t {
	case "u32", "int", "i64":
		return "0"
	case "bool":
		return "false"
	case "bytes":
		return "[]"
	case "raw":
		return "raw_zero"
	case "err":
		return "None"
	}
	return ""
}

func imIsInt(t string) bool { return t == "u32" || t == "int" || t == "i64" || t == "lit" }

// unify the types of two integer operands ("lit" adapts)
func imUnify(a, b string) string {
	if a == "lit" {
		return b
	}
	if b == "lit" || a == b {
		return a
	}
	return ""
}

func imAssignable(dst, src string) bool {
	if dst == src {
		return true
	}
	return src == "lit" && (dst == "u32" || dst == "int" || dst == "i64")
}

// ---- expressions ----
func (c *imCtx) bad(e ast.Expr, why string) (string, string) {
	if c.fail == "" {
		c.fail = types.ExprString(e)
		if why != "" {
			c.fail += ": " + why
		}
	}
	return "0", ""
}

func (c *imCtx) isRecvField(e ast.Expr, f string) bool {
	s, ok := e.(*ast.SelectorExpr)
	if !ok || s.Sel.Name != f {
		return false
	}
	id, ok := s.X.(*ast.Ident)
	if !ok || id.Name != c.recv || c.recv == "" {
		return false
	}
	_, lvl := c.lookup(id.Name)
	return lvl == 0
}

// string(K) as a map key
func (c *imCtx) mapKey(e ast.Expr) string {
	call, ok := e.(*ast.CallExpr)
	if !ok || len(call.Args) != 1 {
		c.bad(e, "map key is not string(K)")
		return "[]"
	}
	if id, ok := call.Fun.(*ast.Ident); !ok || id.Name != "string" {
		c.bad(e, "map key is not string(K)")
		return "[]"
	}
	t, ty := c.expr(call.Args[0])
	if ty != "bytes" {
		c.bad(e, "map key is not a []byte")
	}
	return t
}

func imIsTimeNowUnix(e ast.Expr) bool {
	call, ok := e.(*ast.CallExpr)
	if !ok || len(call.Args) != 0 {
		return false
	}
	sel, ok := call.Fun.(*ast.SelectorExpr)
	if !ok || sel.Sel.Name != "Unix" {
		return false
	}
	inner, ok := sel.X.(*ast.CallExpr)
	if !ok || len(inner.Args) != 0 {
		return false
	}
	s2, ok := inner.Fun.(*ast.SelectorExpr)
	if !ok || s2.Sel.Name != "Now" {
		return false
	}
	id, ok := s2.X.(*ast.Ident)
	return ok && id.Name == "time"
}

func (c *imCtx) expr(e ast.Expr) (string, string) {
	switch x := e.(type) {
	case *ast.ParenExpr:
		return c.expr(x.X)
	case *ast.BasicLit:
		if x.Kind == token.INT {
			return x.Value, "lit"
		}
		return c.bad(e, "literal")
	case *ast.Ident:
		switch x.Name {
		case "true", "false":
			if _, lvl := c.lookup(x.Name); lvl < 0 {
				return x.Name, "bool"
			}
		case "nil":
			if _, lvl := c.lookup(x.Name); lvl < 0 {
				return "None", "err"
			}
		}
		if t, lvl := c.lookup(x.Name); lvl >= 0 && t != "" && t != "recv" && t != "cmd" {
			return imName(x.Name), t
		}
		return c.bad(e, "unknown identifier")
	case *ast.SelectorExpr:
		if id, ok := x.X.(*ast.Ident); ok {
			t, lvl := c.lookup(id.Name)
			if lvl >= 0 && t == "cmd" {
				for _, f := range c.structs[c.cmdT] {
					if f.name == x.Sel.Name {
						if ft := imGoType(f.typ); ft != "" {
							return "cmd_" + f.name, ft
						}
					}
				}
				return c.bad(e, "unknown request field")
			}
			if lvl >= 0 && t == "raw" {
				switch x.Sel.Name {
				case "exptime":
					return "(r_exp " + imName(id.Name) + ")", "u32"
				case "flags":
					return "(r_flags " + imName(id.Name) + ")", "u32"
				case "data":
					return "(r_data " + imName(id.Name) + ")", "bytes"
				}
				return c.bad(e, "unknown entry field")
			}
			if lvl < 0 && id.Name == "common" && strings.HasPrefix(x.Sel.Name, "Err") {
				return "(Some E" + strings.TrimPrefix(x.Sel.Name, "Err") + ")", "err"
			}
		}
		return c.bad(e, "selector")
	case *ast.UnaryExpr:
		if x.Op == token.NOT {
			t, ty := c.expr(x.X)
			if ty != "bool" {
				return c.bad(e, "! of a non-bool")
			}
			return "(negb " + t + ")", "bool"
		}
		return c.bad(e, "unary operator")
	case *ast.BinaryExpr:
		switch x.Op {
		case token.LAND, token.LOR:
			a, ta := c.expr(x.X)
			c.noHoist++
			b, tb := c.expr(x.Y)
			c.noHoist--
			if ta != "bool" || tb != "bool" {
				return c.bad(e, "&&/|| of non-bools")
			}
			if x.Op == token.LAND {
				return "(" + a + " && " + b + ")", "bool"
			}
			return "(" + a + " || " + b + ")", "bool"
		}
		a, ta := c.expr(x.X)
		b, tb := c.expr(x.Y)
		if !imIsInt(ta) || !imIsInt(tb) {
			return c.bad(e, "operator on non-integers")
		}
		u := imUnify(ta, tb)
		if u == "" {
			return c.bad(e, "mixed integer types")
		}
		switch x.Op {
		case token.ADD:
			switch u {
			case "u32":
				return "(add32 " + a + " " + b + ")", "u32"
			case "int", "lit":
				return "(" + a + " + " + b + ")", u
			}
			return c.bad(e, "+ at this type")
		case token.SUB:
			if u == "u32" {
				return "(sub32 " + a + " " + b + ")", "u32"
			}
			return c.bad(e, "- at this type")
		case token.LSS:
			return "(" + a + " <? " + b + ")", "bool"
		case token.GTR:
			return "(" + b + " <? " + a + ")", "bool"
		case token.LEQ:
			return "(" + a + " <=? " + b + ")", "bool"
		case token.GEQ:
			return "(" + b + " <=? " + a + ")", "bool"
		case token.EQL:
			return "(" + a + " =? " + b + ")", "bool"
		case token.NEQ:
			return "(negb (" + a + " =? " + b + "))", "bool"
		}
		return c.bad(e, "binary operator")
	case *ast.IndexExpr:
		l, tl := c.expr(x.X)
		i, ti := c.expr(x.Index)
		if !strings.HasPrefix(tl, "list ") || !(ti == "int" || ti == "lit") {
			return c.bad(e, "index")
		}
		if c.noHoist > 0 {
			return c.bad(e, "index under && / ||")
		}
		c.nElem++
		nm := fmt.Sprintf("elem_%d", c.nElem)
		c.hoists = append(c.hoists, fmt.Sprintf("m_index %s %s (fun %s =>", l, i, nm))
		return nm, strings.TrimPrefix(tl, "list ")
	case *ast.CallExpr:
		if imIsTimeNowUnix(e) {
			return "now", "i64"
		}
		if id, ok := x.Fun.(*ast.Ident); ok && len(x.Args) == 1 && x.Ellipsis == token.NoPos {
			if _, lvl := c.lookup(id.Name); lvl < 0 {
				switch id.Name {
				case "uint32":
					a, ta := c.expr(x.Args[0])
					if !imIsInt(ta) {
						return c.bad(e, "uint32() of a non-integer")
					}
					return "(conv32 " + a + ")", "u32"
				case "len":
					a, ta := c.expr(x.Args[0])
					if ta != "bytes" && !strings.HasPrefix(ta, "list ") {
						return c.bad(e, "len of a non-slice")
					}
					return "(len " + a + ")", "int"
				}
			}
		}
		if sel, ok := x.Fun.(*ast.SelectorExpr); ok && len(x.Args) == 0 && sel.Sel.Name == "isExpired" && c.hasIsExp {
			a, ta := c.expr(sel.X)
			if ta == "raw" {
				return "(entry_isExpired_src now " + a + ")", "bool"
			}
		}
		return c.bad(e, "call")
	case *ast.CompositeLit:
		return c.composite(x)
	}
	return c.bad(e, "expression")
}

func (c *imCtx) composite(x *ast.CompositeLit) (string, string) {
	tn := types.ExprString(x.Type)
	var fields []imField
	kind := ""
	switch tn {
	case "entry":
		if _, lvl := c.lookup("entry"); lvl >= 0 {
			return c.bad(x, "entry is shadowed")
		}
		fields, kind = c.structs["entry"], "raw"
	case "common.GetResponse", "common.GetEResponse":
		fields, kind = c.structs[tn], "gres"
	default:
		return c.bad(x, "composite literal")
	}
	vals := map[string]string{}
	for _, el := range x.Elts {
		kv, ok := el.(*ast.KeyValueExpr)
		if !ok {
			return c.bad(x, "positional composite literal")
		}
		k, ok := kv.Key.(*ast.Ident)
		if !ok {
			return c.bad(x, "composite literal key")
		}
		ft := ""
		for _, f := range fields {
			if f.name == k.Name {
				ft = imGoType(f.typ)
			}
		}
		if ft == "" {
			return c.bad(x, "unknown field "+k.Name)
		}
		if _, dup := vals[k.Name]; dup {
			return c.bad(x, "duplicate field")
		}
		v, tv := c.expr(kv.Value)
		if !imAssignable(ft, tv) {
			return c.bad(kv.Value, "field type")
		}
		vals[k.Name] = v
	}
	get := func(n, zero string) string {
		if v, ok := vals[n]; ok {
			return v
		}
		return zero
	}
	if kind == "raw" {
		return "(mkRaw " + get("exptime", "0") + " " + get("flags", "0") + " " + get("data", "[]") + ")", "raw"
	}
	return "(mkGR " + get("Key", "[]") + " " + get("Data", "[]") + " " + get("Flags", "0") + " " + get("Exptime", "0") +
		" " + get("Opaque", "0") + " " + get("Quiet", "false") + " " + get("Miss", "false") + ")", "gres"
}

// ---- statements ----

// wrap prefixes the pending hoisted index reads; returns the text and the number of parentheses to close
func (c *imCtx) takeHoists() (string, string) {
	var sb strings.Builder
	closeP := ""
	for _, h := range c.hoists {
		sb.WriteString(h + "\n")
		closeP += ")"
	}
	c.hoists = nil
	return sb.String(), closeP
}

func imTerminates(list []ast.Stmt) bool {
	if len(list) == 0 {
		return false
	}
	switch x := list[len(list)-1].(type) {
	case *ast.ReturnStmt:
		return true
	case *ast.BranchStmt:
		return x.Tok == token.CONTINUE && x.Label == nil
	case *ast.IfStmt:
		if x.Else == nil {
			return false
		}
		eb, ok := x.Else.(*ast.BlockStmt)
		return ok && imTerminates(x.Body.List) && imTerminates(eb.List)
	}
	return false
}

// the variables declared outside `list` that it assigns, in order of first assignment; ok=false if
// something other than simple assignments / declarations / nested ifs is in there (for purity)
func (c *imCtx) assigned(list []ast.Stmt, local map[string]bool, out *[]string, pure *bool) {
	add := func(n string) {
		if local[n] {
			return
		}
		for _, o := range *out {
			if o == n {
				return
			}
		}
		*out = append(*out, n)
	}
	for _, s := range list {
		switch x := s.(type) {
		case *ast.AssignStmt:
			if len(x.Lhs) != 1 || len(x.Rhs) != 1 {
				*pure = false
			}
			for _, l := range x.Lhs {
				switch lx := l.(type) {
				case *ast.Ident:
					if x.Tok == token.DEFINE {
						local[lx.Name] = true
					} else {
						add(lx.Name)
					}
				case *ast.SelectorExpr:
					if id, ok := lx.X.(*ast.Ident); ok {
						if t, _ := c.lookup(id.Name); t == "raw" && !local[id.Name] {
							add(id.Name)
						} else {
							*pure = false
						}
					} else {
						*pure = false
					}
				default:
					*pure = false
				}
			}
			for _, r := range x.Rhs {
				ast.Inspect(r, func(n ast.Node) bool {
					if _, ok := n.(*ast.IndexExpr); ok {
						*pure = false
					}
					return true
				})
			}
		case *ast.DeclStmt:
			if gd, ok := x.Decl.(*ast.GenDecl); ok {
				for _, sp := range gd.Specs {
					if vs, ok := sp.(*ast.ValueSpec); ok {
						for _, n := range vs.Names {
							local[n.Name] = true
						}
					}
				}
			}
		case *ast.IfStmt:
			*pure = false
			l2 := map[string]bool{}
			for k := range local {
				l2[k] = true
			}
			c.assigned(x.Body.List, l2, out, pure)
			if eb, ok := x.Else.(*ast.BlockStmt); ok {
				l3 := map[string]bool{}
				for k := range local {
					l3[k] = true
				}
				c.assigned(eb.List, l3, out, pure)
			}
		default:
			*pure = false
		}
	}
}

func imDeclares(list []ast.Stmt) bool {
	for _, s := range list {
		switch x := s.(type) {
		case *ast.AssignStmt:
			if x.Tok == token.DEFINE {
				return true
			}
		case *ast.DeclStmt:
			return true
		}
	}
	return false
}

func imTuple(vs []string) string {
	if len(vs) == 0 {
		return "tt"
	}
	if len(vs) == 1 {
		return imName(vs[0])
	}
	var n []string
	for _, v := range vs {
		n = append(n, imName(v))
	}
	return "(" + strings.Join(n, ", ") + ")"
}

func imPat(vs []string) string {
	if len(vs) == 0 {
		return "_"
	}
	if len(vs) == 1 {
		return imName(vs[0])
	}
	return "'" + imTuple(vs)
}

func (c *imCtx) mutexCall(call *ast.CallExpr) string {
	sel, ok := call.Fun.(*ast.SelectorExpr)
	if !ok || len(call.Args) != 0 || !c.isRecvField(sel.X, "mutex") {
		return ""
	}
	switch sel.Sel.Name {
	case "Lock":
		return "m_lock"
	case "Unlock":
		return "m_unlock"
	case "RLock":
		return "m_rlock"
	case "RUnlock":
		return "m_runlock"
	}
	return ""
}

func imDropped(call *ast.CallExpr) bool {
	sel, ok := call.Fun.(*ast.SelectorExpr)
	if !ok {
		return false
	}
	id, ok := sel.X.(*ast.Ident)
	return ok && (id.Name == "metrics" || id.Name == "log")
}

// stmts translates a statement list; k gives the term for falling off its end
func (c *imCtx) stmts(list []ast.Stmt, k func() string) string {
	if len(list) == 0 {
		return k()
	}
	s, rest := list[0], list[1:]
	c.fail = ""
	c.hoists = nil
	next := func() string { return c.stmts(rest, k) }
	// a monadic operation followed by the rest
	bind := func(op, pat string) string {
		if c.fail != "" {
			return c.untrans(s, c.fail)
		}
		pre, cl := c.takeHoists()
		return pre + "m_bind (" + op + ") (fun " + pat + " =>\n" + next() + ")" + cl
	}
	let := func(name, ty, val string) string {
		if c.fail != "" {
			return c.untrans(s, c.fail)
		}
		pre, cl := c.takeHoists()
		tyS := ""
		if ty != "" {
			tyS = " : " + ty
		}
		return pre + "let " + name + tyS + " := " + val + " in\n" + next() + cl
	}
	switch x := s.(type) {
	case *ast.ExprStmt:
		call, ok := x.X.(*ast.CallExpr)
		if !ok {
			return c.untrans(s, "")
		}
		if op := c.mutexCall(call); op != "" {
			return bind(op, "_")
		}
		if imDropped(call) {
			return next()
		}
		if id, ok := call.Fun.(*ast.Ident); ok {
			if _, lvl := c.lookup(id.Name); lvl < 0 {
				switch {
				case id.Name == "delete" && len(call.Args) == 2 && c.isRecvField(call.Args[0], "data"):
					key := c.mapKey(call.Args[1])
					return bind("m_map_del "+key, "_")
				case id.Name == "close" && len(call.Args) == 1:
					ch, t := c.expr(call.Args[0])
					if t != "chan" {
						return c.untrans(s, "close of a non-channel")
					}
					return bind("m_close "+ch, "_")
				}
			}
		}
		return c.untrans(s, "")
	case *ast.SendStmt:
		ch, t := c.expr(x.Chan)
		v, tv := c.expr(x.Value)
		if t != "chan" || tv != "gres" {
			return c.untrans(s, "send")
		}
		return bind("m_send "+ch+" "+v, "_")
	case *ast.DeferStmt:
		if op := c.mutexCall(x.Call); op == "m_unlock" || op == "m_runlock" {
			if c.loop > 0 || len(c.scopes) != 2 {
				return c.untrans(s, "defer not at the top level of the function")
			}
			c.defers = append([]string{op}, c.defers...)
			return next()
		}
		return c.untrans(s, "")
	case *ast.DeclStmt:
		gd, ok := x.Decl.(*ast.GenDecl)
		if !ok || gd.Tok != token.VAR || len(gd.Specs) != 1 {
			return c.untrans(s, "")
		}
		vs, ok := gd.Specs[0].(*ast.ValueSpec)
		if !ok || len(vs.Names) != 1 || len(vs.Values) != 0 || vs.Type == nil {
			return c.untrans(s, "")
		}
		t := imGoType(types.ExprString(vs.Type))
		if imZero(t) == "" {
			return c.untrans(s, "type")
		}
		c.declare(vs.Names[0].Name, t)
		return let(imName(vs.Names[0].Name), imCoqType(t), imZero(t))
	case *ast.AssignStmt:
		return c.assign(x, s, bind, let)
	case *ast.ReturnStmt:
		if c.loop > 0 {
			return c.untrans(s, "return inside a loop")
		}
		if len(rest) != 0 {
			return c.untrans(s, "statements after return")
		}
		val := ""
		switch c.resKind {
		case "err":
			if len(x.Results) != 1 {
				return c.untrans(s, "")
			}
			v, t := c.expr(x.Results[0])
			if t != "err" {
				c.bad(x.Results[0], "not an error value")
			}
			val = v
		case "gat":
			if len(x.Results) != 2 {
				return c.untrans(s, "")
			}
			v, t := c.expr(x.Results[0])
			e, te := c.expr(x.Results[1])
			if t != "gres" || te != "err" {
				c.bad(x.Results[0], "result types")
			}
			val = "(" + v + ", " + e + ")"
		case "get":
			if len(x.Results) != 2 {
				return c.untrans(s, "")
			}
			v, t := c.expr(x.Results[0])
			e, te := c.expr(x.Results[1])
			if t != "chan" || te != "chan" {
				c.bad(x.Results[0], "result types")
			}
			val = "(" + v + ", " + e + ")"
		default:
			return c.untrans(s, "")
		}
		if c.fail != "" {
			return c.untrans(s, c.fail)
		}
		pre, cl := c.takeHoists()
		out := "m_ret " + val
		// deferred calls run in reverse order of their defer statements (c.defers is kept reversed)
		closeD := ""
		head := ""
		for _, d := range c.defers {
			head += "m_bind " + d + " (fun _ =>\n"
			closeD += ")"
		}
		return pre + head + out + closeD + cl
	case *ast.BranchStmt:
		if x.Tok == token.CONTINUE && x.Label == nil && c.loop > 0 && len(rest) == 0 {
			return "m_ret tt"
		}
		return c.untrans(s, "")
	case *ast.IfStmt:
		return c.ifStmt(x, rest, k)
	case *ast.RangeStmt:
		return c.rangeStmt(x, s, next)
	}
	return c.untrans(s, "")
}

func (c *imCtx) assign(x *ast.AssignStmt, s ast.Stmt, bind func(op, pat string) string, let func(name, ty, val string) string) string {
	// e, ok := h.data[string(K)]
	if len(x.Lhs) == 2 && len(x.Rhs) == 1 {
		ix, ok := x.Rhs[0].(*ast.IndexExpr)
		a, ok1 := x.Lhs[0].(*ast.Ident)
		b, ok2 := x.Lhs[1].(*ast.Ident)
		if ok && ok1 && ok2 && x.Tok == token.DEFINE && c.isRecvField(ix.X, "data") && a.Name != "_" && b.Name != "_" && a.Name != b.Name {
			key := c.mapKey(ix.Index)
			c.declare(a.Name, "raw")
			c.declare(b.Name, "bool")
			return bind("m_map_get "+key, "'("+imName(a.Name)+", "+imName(b.Name)+")")
		}
		return c.untrans(s, "")
	}
	if len(x.Lhs) != 1 || len(x.Rhs) != 1 {
		return c.untrans(s, "")
	}
	lhs, rhs := x.Lhs[0], x.Rhs[0]
	// h.data[string(K)] = V
	if ix, ok := lhs.(*ast.IndexExpr); ok {
		if x.Tok == token.ASSIGN && c.isRecvField(ix.X, "data") {
			key := c.mapKey(ix.Index)
			v, t := c.expr(rhs)
			if t != "raw" {
				c.bad(rhs, "not an entry")
			}
			return bind("m_map_put "+key+" "+v, "_")
		}
		return c.untrans(s, "")
	}
	// e.f = V
	if sel, ok := lhs.(*ast.SelectorExpr); ok {
		id, ok := sel.X.(*ast.Ident)
		if !ok || x.Tok != token.ASSIGN {
			return c.untrans(s, "")
		}
		if t, _ := c.lookup(id.Name); t != "raw" {
			return c.untrans(s, "assignment to a field of something that is not a local entry")
		}
		ft := map[string]string{"exptime": "u32", "flags": "u32", "data": "bytes"}[sel.Sel.Name]
		if ft == "" {
			return c.untrans(s, "unknown entry field")
		}
		v, t := c.expr(rhs)
		if !imAssignable(ft, t) {
			c.bad(rhs, "field type")
		}
		return let(imName(id.Name), "", "raw_set_"+sel.Sel.Name+" "+v+" "+imName(id.Name))
	}
	id, ok := lhs.(*ast.Ident)
	if !ok || id.Name == "_" {
		return c.untrans(s, "")
	}
	// make(...) and append(...)
	if call, ok := rhs.(*ast.CallExpr); ok {
		if f, ok := call.Fun.(*ast.Ident); ok {
			if _, lvl := c.lookup(f.Name); lvl < 0 {
				switch f.Name {
				case "make":
					if x.Tok != token.DEFINE || len(call.Args) < 1 {
						return c.untrans(s, "")
					}
					tn := types.ExprString(call.Args[0])
					switch {
					case (tn == "chan common.GetResponse" || tn == "chan common.GetEResponse") && len(call.Args) == 2:
						n, t := c.expr(call.Args[1])
						if !(t == "int" || t == "lit") {
							c.bad(call.Args[1], "capacity")
						}
						c.declare(id.Name, "chan")
						return bind("m_make_data "+n, imName(id.Name))
					case tn == "chan error" && len(call.Args) == 1:
						c.declare(id.Name, "chan")
						return bind("m_make_err", imName(id.Name))
					case tn == "[]byte" && (len(call.Args) == 2 || len(call.Args) == 3):
						n, t := c.expr(call.Args[1])
						cp, tc := n, t
						if len(call.Args) == 3 {
							cp, tc = c.expr(call.Args[2])
						}
						if !(t == "int" || t == "lit") || !(tc == "int" || tc == "lit") {
							c.bad(rhs, "length / capacity")
						}
						c.declare(id.Name, "bytes")
						return let(imName(id.Name), "bytes", "sl_make "+n+" "+cp)
					}
					return c.untrans(s, "make of this type")
				case "append":
					if x.Tok != token.ASSIGN || len(call.Args) != 2 || call.Ellipsis == token.NoPos {
						return c.untrans(s, "append not of the form x = append(x, y...)")
					}
					a0, ok := call.Args[0].(*ast.Ident)
					if !ok || a0.Name != id.Name {
						return c.untrans(s, "append not of the form x = append(x, y...)")
					}
					a, ta := c.expr(call.Args[0])
					b, tb := c.expr(call.Args[1])
					if ta != "bytes" || tb != "bytes" {
						c.bad(rhs, "append of non-[]byte")
					}
					return let(imName(id.Name), "", "("+a+" ++ "+b+")")
				}
			}
		}
	}
	v, t := c.expr(rhs)
	if x.Tok == token.DEFINE {
		if t == "lit" {
			t = "int"
		}
		if imCoqType(t) == "" || t == "chan" {
			c.bad(rhs, "type of the new variable")
		}
		c.declare(id.Name, t)
		return let(imName(id.Name), imCoqType(t), v)
	}
	if x.Tok != token.ASSIGN {
		return c.untrans(s, "assignment operator")
	}
	vt, lvl := c.lookup(id.Name)
	if lvl < 1 || !imAssignable(vt, t) || vt == "chan" {
		c.bad(lhs, "assignment target")
	}
	return let(imName(id.Name), "", v)
}

func (c *imCtx) block(list []ast.Stmt, k func() string) string {
	c.push()
	saveD := c.defers
	r := c.stmts(list, k)
	c.defers = saveD
	c.pop()
	return r
}

func (c *imCtx) ifStmt(x *ast.IfStmt, rest []ast.Stmt, k func() string) string {
	if x.Init != nil {
		return c.untrans(x, "if with an init statement")
	}
	cond, tc := c.expr(x.Cond)
	if tc != "bool" {
		c.bad(x.Cond, "condition")
	}
	if c.fail != "" {
		return c.untrans(x, c.fail)
	}
	pre, cl := c.takeHoists()
	never := func() string {
		c.nBad++
		return "m_untranslatable " + imStr("end of a block that should not be reached ("+c.at(x)+")")
	}
	var elseList []ast.Stmt
	hasElse := false
	if x.Else != nil {
		eb, ok := x.Else.(*ast.BlockStmt)
		if !ok {
			return c.untrans(x, "else if")
		}
		elseList, hasElse = eb.List, true
	}
	thenT := imTerminates(x.Body.List)
	elseT := hasElse && imTerminates(elseList)
	switch {
	case thenT && !hasElse:
		a := c.block(x.Body.List, never)
		return pre + "if " + cond + " then\n" + a + "\nelse\n" + c.stmts(rest, k) + cl
	case thenT && elseT:
		if len(rest) != 0 {
			return c.untrans(x, "statements after an if whose branches both end the function")
		}
		a := c.block(x.Body.List, never)
		b := c.block(elseList, never)
		return pre + "if " + cond + " then\n" + a + "\nelse\n" + b + cl
	case thenT || elseT:
		// one branch ends, the other goes on: the other branch is followed by the rest
		other := elseList
		if elseT {
			other = x.Body.List
		}
		if imDeclares(other) {
			return c.untrans(x, "declaration in a branch that continues into the rest")
		}
		if thenT {
			a := c.block(x.Body.List, never)
			return pre + "if " + cond + " then\n" + a + "\nelse\n" + c.stmts(append(append([]ast.Stmt{}, other...), rest...), k) + cl
		}
		b := c.block(elseList, never)
		return pre + "if " + cond + " then\n" + c.stmts(append(append([]ast.Stmt{}, other...), rest...), k) + "\nelse\n" + b + cl
	}
	// join
	var vs []string
	pure := true
	c.assigned(x.Body.List, map[string]bool{}, &vs, &pure)
	if hasElse {
		c.assigned(elseList, map[string]bool{}, &vs, &pure)
	}
	for _, v := range vs {
		if t, lvl := c.lookup(v); lvl < 1 || imCoqType(t) == "" {
			return c.untrans(x, "assignment to "+v)
		}
	}
	if pure {
		saveBad := c.nBad
		pk := func() string { return imTuple(vs) }
		a := c.block(x.Body.List, pk)
		b := imTuple(vs)
		if hasElse {
			b = c.block(elseList, pk)
		}
		if c.nBad == saveBad {
			return pre + "let " + imPat(vs) + " :=\n  if " + cond + " then\n" + a + "\n  else\n" + b + " in\n" + c.stmts(rest, k) + cl
		}
		c.nBad = saveBad
	}
	mk := func() string { return "m_ret " + imTuple(vs) }
	a := c.block(x.Body.List, mk)
	b := mk()
	if hasElse {
		b = c.block(elseList, mk)
	}
	return pre + "m_bind (if " + cond + " then\n" + a + "\nelse\n" + b + ") (fun " + imPat(vs) + " =>\n" + c.stmts(rest, k) + ")" + cl
}

func (c *imCtx) rangeStmt(x *ast.RangeStmt, s ast.Stmt, next func() string) string {
	if x.Tok != token.DEFINE || x.Key == nil || x.Value == nil {
		return c.untrans(s, "range form")
	}
	ki, ok1 := x.Key.(*ast.Ident)
	vi, ok2 := x.Value.(*ast.Ident)
	if !ok1 || !ok2 {
		return c.untrans(s, "range variables")
	}
	l, tl := c.expr(x.X)
	if !strings.HasPrefix(tl, "list ") {
		c.bad(x.X, "range over a non-slice")
	}
	if c.fail != "" || len(c.hoists) != 0 {
		c.hoists = nil
		return c.untrans(s, c.fail)
	}
	// the body must not assign a variable declared outside, nor return / break / goto / defer
	var vs []string
	pure := true
	c.assigned(x.Body.List, map[string]bool{}, &vs, &pure)
	badCtl := false
	ast.Inspect(x.Body, func(n ast.Node) bool {
		switch y := n.(type) {
		case *ast.BranchStmt:
			if y.Tok != token.CONTINUE || y.Label != nil {
				badCtl = true
			}
		case *ast.ReturnStmt, *ast.DeferStmt, *ast.GoStmt, *ast.FuncLit:
			badCtl = true
		case *ast.RangeStmt:
			if y != x {
				badCtl = true
			}
		case *ast.ForStmt:
			badCtl = true
		}
		return true
	})
	if len(vs) != 0 || badCtl {
		return c.untrans(s, "loop body assigns an outer variable or leaves the loop")
	}
	c.push()
	kn, vn := "_", "_"
	if ki.Name != "_" {
		c.declare(ki.Name, "int")
		kn = imName(ki.Name)
	}
	if vi.Name != "_" {
		c.declare(vi.Name, strings.TrimPrefix(tl, "list "))
		vn = imName(vi.Name)
	}
	c.loop++
	c.push()
	body := c.stmts(x.Body.List, func() string { return "m_ret tt" })
	c.pop()
	c.loop--
	c.pop()
	return "m_bind (m_range " + l + " (fun " + kn + " " + vn + " =>\n" + body + ")) (fun _ =>\n" + next() + ")"
}

// ---- formatting: indent by parenthesis depth is not attempted; two spaces per line ----
func imIndent(s string) string {
	lines := strings.Split(s, "\n")
	for i, l := range lines {
		lines[i] = "  " + l
	}
	return strings.Join(lines, "\n")
}

// ---- declarations ----
func imStructFields(st *ast.StructType) []imField {
	var out []imField
	for _, f := range st.Fields.List {
		t := types.ExprString(f.Type)
		for _, n := range f.Names {
			out = append(out, imField{n.Name, t})
		}
	}
	return out
}

func imPairList(fs []imField) string {
	var p []string
	for _, f := range fs {
		p = append(p, "("+imStr(f.name)+", "+imStr(f.typ)+")")
	}
	return "[" + strings.Join(p, "; ") + "]"
}

var imMethodOrder = []string{"Set", "Add", "Replace", "Append", "Prepend", "Get", "GetE", "GAT", "Delete", "Touch", "Close"}

func inmemtrans(e *env) {
	repo := "/repo"
	if v := os.Getenv("VERIF_REPO"); v != "" {
		repo = v
	}
	fs := token.NewFileSet()
	c := &imCtx{fs: fs, structs: map[string][]imField{}}
	var notes []string

	// request / response structs of package common
	matches, _ := filepath.Glob(filepath.Join(repo, "common", "*.go"))
	sort.Strings(matches)
	for _, m := range matches {
		if strings.HasSuffix(m, "_test.go") {
			continue
		}
		af, err := parser.ParseFile(fs, m, nil, 0)
		if err != nil {
			notes = append(notes, err.Error())
			continue
		}
		for _, d := range af.Decls {
			gd, ok := d.(*ast.GenDecl)
			if !ok || gd.Tok != token.TYPE {
				continue
			}
			for _, sp := range gd.Specs {
				ts := sp.(*ast.TypeSpec)
				if st, ok := ts.Type.(*ast.StructType); ok {
					c.structs["common."+ts.Name.Name] = imStructFields(st)
				}
			}
		}
	}

	src := "handlers/inmem/inmem.go"
	af, err := parser.ParseFile(fs, filepath.Join(repo, src), nil, 0)
	methods := map[string]*ast.FuncDecl{}
	var isExp, newFn *ast.FuncDecl
	var handlerFields []imField
	pkgVars := map[string]*ast.ValueSpec{}
	var otherFuncs []string
	if err != nil {
		notes = append(notes, err.Error())
	} else {
		for _, d := range af.Decls {
			switch x := d.(type) {
			case *ast.GenDecl:
				for _, sp := range x.Specs {
					switch y := sp.(type) {
					case *ast.TypeSpec:
						if st, ok := y.Type.(*ast.StructType); ok {
							switch y.Name.Name {
							case "entry":
								c.structs["entry"] = imStructFields(st)
							case "Handler":
								handlerFields = imStructFields(st)
							}
						}
					case *ast.ValueSpec:
						if x.Tok == token.VAR {
							for _, n := range y.Names {
								pkgVars[n.Name] = y
							}
						}
					}
				}
			case *ast.FuncDecl:
				if x.Body == nil {
					continue
				}
				if x.Recv == nil {
					if x.Name.Name == "New" {
						newFn = x
					} else {
						otherFuncs = append(otherFuncs, x.Name.Name)
					}
					continue
				}
				rt := types.ExprString(x.Recv.List[0].Type)
				switch {
				case rt == "entry" && x.Name.Name == "isExpired":
					isExp = x
				case rt == "*Handler":
					methods[x.Name.Name] = x
				default:
					otherFuncs = append(otherFuncs, rt+"."+x.Name.Name)
				}
			}
		}
	}

	var sb strings.Builder
	sb.WriteString("(* GENERATED by harness inmemtrans from the SOURCE of /repo/handlers/inmem/inmem.go (request and\n" +
		"   response structs: /repo/common) — do not edit. entry.isExpired as a function, every method of *Handler\n" +
		"   as a program in the monad of handlers/InmemSem.v, the declarations as a value (rules:\n" +
		"   harness/cmd/rendharness/inmemtrans.go; meaning of every recognised statement, what is dropped, and THE\n" +
		"   CHANNEL CONTRACT relied on for Get/GetE — the values sent inline on the buffered response channel, in\n" +
		"   order, are the result, provided both returned channels are closed; the caller drains them, as in\n" +
		"   orca/OrcaSem.v [drain] —: handlers/InmemSem.v). `now` is the value of time.Now().Unix() during the call.\n" +
		"   gen/InmemLink.v proves each method equal to the step of the model handlers/Inmem.v. *)\n")
	sb.WriteString("From Coq Require Import String.\nFrom Rend Require Import base.Bytes gen.Consts_gen spec.MapSpec orca.Types handlers.Std gen.GoSem\n  handlers.Inmem handlers.InmemSem.\n" +
		"Open Scope string_scope.\nOpen Scope list_scope.\nOpen Scope N_scope.\nOpen Scope bool_scope.\n\n")

	// the entry struct must be the one mkRaw stands for
	entryOK := len(c.structs["entry"]) == 3
	if entryOK {
		want := []imField{{"exptime", "uint32"}, {"flags", "uint32"}, {"data", "[]byte"}}
		have := map[string]string{}
		for _, f := range c.structs["entry"] {
			have[f.name] = f.typ
		}
		for _, w := range want {
			if have[w.name] != w.typ {
				entryOK = false
			}
		}
	}
	if !entryOK {
		notes = append(notes, "type entry is not {exptime uint32; flags uint32; data []byte}: nothing that uses it is translated")
		delete(c.structs, "entry")
	}

	translated, total := 0, 0

	// isExpired
	total++
	if isExp != nil && entryOK {
		c.scopes = nil
		c.push()
		c.push()
		rn := "e"
		if len(isExp.Recv.List[0].Names) == 1 {
			rn = isExp.Recv.List[0].Names[0].Name
		}
		c.declare(rn, "raw")
		ok := false
		if len(isExp.Body.List) == 1 && (isExp.Type.Params == nil || len(isExp.Type.Params.List) == 0) {
			if r, isR := isExp.Body.List[0].(*ast.ReturnStmt); isR && len(r.Results) == 1 {
				c.fail, c.hoists = "", nil
				t, ty := c.expr(r.Results[0])
				if c.fail == "" && ty == "bool" && len(c.hoists) == 0 {
					fmt.Fprintf(&sb, "(* %s: func (entry) isExpired *)\nDefinition entry_isExpired_src (now : N) (%s : raw) : bool :=\n  %s.\n\n", src, imName(rn), t)
					ok = true
				} else {
					notes = append(notes, "entry.isExpired: "+c.fail)
				}
			}
		}
		if ok {
			c.hasIsExp = true
			translated++
		} else {
			sb.WriteString("(* UNTRANSLATABLE: entry.isExpired is not a single `return <bool expression>`; entry_isExpired_src is\n   not defined and every call of it is untranslatable *)\n\n")
		}
	} else {
		sb.WriteString("(* UNTRANSLATABLE: no method entry.isExpired; entry_isExpired_src is not defined *)\n\n")
	}

	// methods
	type sig struct {
		name   string
		fields []imField
		res    string
	}
	sigs := map[string]sig{}
	for _, mn := range imMethodOrder {
		total++
		fd := methods[mn]
		if fd == nil {
			fmt.Fprintf(&sb, "(* UNTRANSLATABLE: no method Handler.%s; Handler_%s_src is not defined *)\n\n", mn, mn)
			continue
		}
		c.scopes = nil
		c.push() // level 0: receiver, parameter
		c.recv, c.cmd, c.cmdT, c.defers, c.loop, c.nElem = "", "", "", nil, 0, 0
		if len(fd.Recv.List[0].Names) == 1 {
			c.recv = fd.Recv.List[0].Names[0].Name
			c.declare(c.recv, "recv")
		}
		var fields []imField
		sigOK := true
		if fd.Type.Params != nil {
			np := 0
			for _, p := range fd.Type.Params.List {
				np += len(p.Names)
				if len(p.Names) == 0 {
					np++
				}
			}
			if np > 1 {
				sigOK = false
			}
			if np == 1 {
				p := fd.Type.Params.List[0]
				c.cmdT = types.ExprString(p.Type)
				fs, ok := c.structs[c.cmdT]
				if !ok || !strings.HasPrefix(c.cmdT, "common.") {
					sigOK = false
				}
				fields = fs
				for _, f := range fs {
					if imGoType(f.typ) == "" {
						sigOK = false
					}
				}
				if len(p.Names) == 1 {
					c.cmd = p.Names[0].Name
					c.declare(c.cmd, "cmd")
				}
			}
		}
		c.resKind = ""
		var resT string
		if fd.Type.Results != nil {
			var rts []string
			for _, r := range fd.Type.Results.List {
				if len(r.Names) != 0 {
					sigOK = false
				}
				rts = append(rts, types.ExprString(r.Type))
			}
			switch strings.Join(rts, ", ") {
			case "error":
				c.resKind, resT = "err", "M (option N)"
			case "common.GetResponse, error":
				c.resKind, resT = "gat", "M (gres * option N)"
			case "<-chan common.GetResponse, <-chan error", "<-chan common.GetEResponse, <-chan error":
				c.resKind, resT = "get", "M (chan * chan)"
			}
		}
		if c.resKind == "" {
			sigOK = false
		}
		if !sigOK {
			fmt.Fprintf(&sb, "(* UNTRANSLATABLE: signature of Handler.%s; Handler_%s_src is not defined *)\n\n", mn, mn)
			continue
		}
		params := "(now : N)"
		for _, f := range fields {
			params += fmt.Sprintf(" (cmd_%s : %s)", f.name, imCoqType(imGoType(f.typ)))
		}
		c.nBad = 0
		c.push() // level 1: the body
		body := c.stmts(fd.Body.List, func() string {
			c.nBad++
			return "m_untranslatable " + imStr("end of the function body without return ("+c.at(fd)+")")
		})
		c.pop()
		mark := ""
		if c.nBad > 0 {
			mark = fmt.Sprintf(" — %d UNTRANSLATABLE statement(s)", c.nBad)
			notes = append(notes, fmt.Sprintf("Handler.%s: %d untranslatable statement(s)", mn, c.nBad))
		} else {
			translated++
		}
		fmt.Fprintf(&sb, "(* %s: func Handler.%s%s *)\nDefinition Handler_%s_src %s : %s :=\n%s.\n\n", src, mn, mark, mn, params, resT, imIndent(body))
		sigs[mn] = sig{mn, fields, c.resKind}
	}

	// declarations
	total++
	newShape := "NewOther " + imStr("no function New")
	varName, varInit := "", "[]"
	if newFn != nil {
		newShape = "NewOther " + imStr("New is not `return <package-level variable>, nil`")
		if len(newFn.Body.List) == 1 && (newFn.Type.Params == nil || len(newFn.Type.Params.List) == 0) {
			if r, ok := newFn.Body.List[0].(*ast.ReturnStmt); ok && len(r.Results) == 2 {
				id, ok1 := r.Results[0].(*ast.Ident)
				nl, ok2 := r.Results[1].(*ast.Ident)
				if ok1 && ok2 && nl.Name == "nil" {
					if vs, ok := pkgVars[id.Name]; ok && len(vs.Names) == 1 && len(vs.Values) == 1 {
						newShape = "NewReturnsVar " + imStr(id.Name)
						varName = id.Name
						varInit = "[(" + imStr("?") + ", " + imStr(types.ExprString(vs.Values[0])) + ")]"
						if u, ok := vs.Values[0].(*ast.UnaryExpr); ok && u.Op == token.AND {
							if cl, ok := u.X.(*ast.CompositeLit); ok && types.ExprString(cl.Type) == "Handler" {
								var fl []imField
								okAll := true
								for _, el := range cl.Elts {
									kv, ok := el.(*ast.KeyValueExpr)
									if !ok {
										okAll = false
										break
									}
									fl = append(fl, imField{types.ExprString(kv.Key), types.ExprString(kv.Value)})
								}
								if okAll {
									varInit = imPairList(fl)
								}
							}
						}
					} else {
						newShape = "NewOther " + imStr("New returns "+types.ExprString(r.Results[0])+", which is not a package-level variable with one initialiser")
					}
				} else {
					newShape = "NewOther " + imStr("return "+types.ExprString(r.Results[0])+", "+types.ExprString(r.Results[1]))
				}
			}
		}
	}
	if strings.HasPrefix(newShape, "NewReturnsVar") {
		translated++
	}
	fmt.Fprintf(&sb, "(* %s: type entry, type Handler, the package-level handler value, func New *)\nDefinition inmem_decl_src : handler_decl :=\n  mkHD %s\n       %s\n       %s %s\n       (%s).\n\n",
		src, imPairList(c.structs["entry"]), imPairList(handlerFields), imStr(varName), varInit, newShape)

	// the handler interface
	arg := func(mn string, f imField) string {
		cat := mn == "Append" || mn == "Prepend"
		switch f.name + ":" + f.typ {
		case "Key:[]byte":
			return "k"
		case "Data:[]byte":
			return "d"
		case "Flags:uint32":
			if cat {
				return "xf"
			}
			return "f"
		case "Exptime:uint32":
			if cat {
				return "xt"
			}
			return "ttl"
		case "Opaque:uint32":
			if mn == "GAT" {
				return "opq"
			}
			return "xo"
		case "Quiet:bool", "NoopEnd:bool":
			return "xq"
		case "NoopOpaque:uint32":
			return "xo"
		case "Keys:[][]byte":
			return "(List.map gi_key items)"
		case "Opaques:[]uint32":
			return "(List.map gi_opaque items)"
		case "Quiet:[]bool":
			return "(List.map gi_quiet items)"
		}
		return "UNKNOWN_FIELD_" + f.name
	}
	call := func(mn string) string {
		s, ok := sigs[mn]
		if !ok {
			return "None"
		}
		run := map[string]string{"err": "run_err", "gat": "run_gat", "get": "run_get"}[s.res]
		t := run + " (Handler_" + mn + "_src now"
		for _, f := range s.fields {
			t += " " + arg(mn, f)
		}
		return t + ") st"
	}
	sb.WriteString("(* the handler interface (handlers/types.go): the model's request [hreq] is the call of the method of the\n" +
		"   same name; [xo xq xf xt] stand for the request-struct fields the model's request does not carry (Opaque,\n" +
		"   Quiet, NoopOpaque, NoopEnd; Flags and Exptime of Append/Prepend): gen/InmemLink.v proves the result equal\n" +
		"   to the model for every value of them *)\n")
	sb.WriteString("Definition inmem_src_gen (xo : N) (xq : bool) (xf xt : N) (st : cstate) (now : N) (q : hreq) : option (step * cstate * list ev) :=\n  match q with\n")
	fmt.Fprintf(&sb, "  | HSet MSet k d f ttl => %s\n", call("Set"))
	fmt.Fprintf(&sb, "  | HSet MAdd k d f ttl => %s\n", call("Add"))
	fmt.Fprintf(&sb, "  | HSet MReplace k d f ttl => %s\n", call("Replace"))
	fmt.Fprintf(&sb, "  | HCat false k d => %s\n", call("Append"))
	fmt.Fprintf(&sb, "  | HCat true k d => %s\n", call("Prepend"))
	fmt.Fprintf(&sb, "  | HDelete k => %s\n", call("Delete"))
	fmt.Fprintf(&sb, "  | HTouch k ttl => %s\n", call("Touch"))
	fmt.Fprintf(&sb, "  | HGat k ttl opq => %s\n", call("GAT"))
	fmt.Fprintf(&sb, "  | HGet items => %s\n", call("Get"))
	fmt.Fprintf(&sb, "  | HGetE items => %s\n", call("GetE"))
	sb.WriteString("  end.\nDefinition inmem_src (st : cstate) (now : N) (q : hreq) : option (step * cstate * list ev) :=\n  inmem_src_gen 0 false 0 0 st now q.\n\n")

	sort.Strings(otherFuncs)
	if len(otherFuncs) > 0 {
		fmt.Fprintf(&sb, "(* not translated (not part of the handler interface): %s *)\n", strings.Join(otherFuncs, ", "))
	}
	for _, n := range notes {
		fmt.Fprintf(&sb, "(* NOTE: %s *)\n", strings.ReplaceAll(strings.ReplaceAll(n, "(*", "( *"), "*)", "* )"))
	}
	fmt.Fprintf(&sb, "(* translated %d of %d items *)\n", translated, total)

	dir := e.out
	if dir == "" || dir == "." {
		root := os.Getenv("VERIF_ROOT")
		if root == "" {
			root = "/verif"
		}
		dir = filepath.Join(root, "coq", "gen")
	}
	writeIfChanged(filepath.Join(dir, "Inmem_gen.v"), []byte(sb.String()))
	fmt.Printf("inmemtrans: translated %d of %d items -> %s\n", translated, total, filepath.Join(dir, "Inmem_gen.v"))
}
