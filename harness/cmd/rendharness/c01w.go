package main

import (
	"bufio"
	"bytes"
	"encoding/binary"
	"encoding/json"
	"errors"
	"fmt"
	"io"
	"net"
	"os"
	"sort"
	"time"

	"github.com/netflix/rend/handlers/memcached/std"
	"verifharness/fakemc"
	"verifharness/gal"
	"verifharness/rig"
	"verifharness/stack"
)

func init() { commands["c01w"] = c01w }

// c01w: the direct backend handler (handlers/memcached/std over protocol/binprot) at the level
// of the bytes on its backend connection. The REAL handler is driven call by call over a
// recording connection to the fake memcached; per call the exact bytes it wrote, the exact bytes
// the fake answered, its result, and what it left unread are written into the case. The Coq side
// (checks/Check01w.v) recomputes the written bytes with the model encoder, the answer with the
// model server (which validates the fake as well), the result and the leftover with the model
// consumer (handlers/StdWire.v), and judges the observation by the abstract handler
// (handlers/Std.v, orca/Faults.v for injected statuses): result, store, connection in sync, CAS 0.

// w01Fault: the fake answers request number Index of the call with Status and Body, without
// applying it.
type w01Fault struct {
	Index  int    `json:"index"`
	Status uint16 `json:"status"`
	Body   []byte `json:"body"`
}
type w01Step struct {
	Now    int64      `json:"now"`
	Call   hCall      `json:"call"`
	Faults []w01Fault `json:"faults,omitempty"`
}
type w01Case struct {
	Name  string    `json:"name"`
	Steps []w01Step `json:"steps"`
}

// wireTap sits between the handler and the fake. It frames what the handler writes, hands every
// complete request frame to the fake and fetches the fake's reply frame at once, so that after a
// Write returned everything the backend will ever say about it is queued for the handler. A Read
// that finds the queue empty fails instead of blocking: the handler wanted more than was sent.
type wireTap struct {
	fake     net.Conn
	frd      *bufio.Reader
	wbuf     []byte // written by the handler, not yet a complete frame
	inq      []byte // sent by the fake, not yet read by the handler
	written  []byte
	received []byte
	cas      []uint64 // CAS field of each reply frame, in order
	starved  bool
	broken   string // the fake did not behave (harness failure)
	quietPen bool
}

var errStarved = errors.New("verif: read beyond what the backend sent")

func isQuietOp(op byte) bool { return op == fakemc.OpGetQ || op == fakemc.OpGatQ || op == fakemc.OpGetEQ }

func (t *wireTap) readReply() (op byte, ok bool) {
	t.fake.SetReadDeadline(time.Now().Add(10 * time.Second))
	hdr := make([]byte, 24)
	if _, err := io.ReadFull(t.frd, hdr); err != nil {
		t.broken = "no reply header from the fake: " + err.Error()
		return 0, false
	}
	total := int(binary.BigEndian.Uint32(hdr[8:12]))
	body := make([]byte, total)
	if _, err := io.ReadFull(t.frd, body); err != nil {
		t.broken = "short reply body from the fake: " + err.Error()
		return 0, false
	}
	t.cas = append(t.cas, binary.BigEndian.Uint64(hdr[16:24]))
	t.inq = append(append(t.inq, hdr...), body...)
	t.received = append(append(t.received, hdr...), body...)
	return hdr[1], true
}

func (t *wireTap) Write(p []byte) (int, error) {
	t.written = append(t.written, p...)
	t.wbuf = append(t.wbuf, p...)
	for t.broken == "" && len(t.wbuf) >= 24 {
		if t.wbuf[0] != 0x80 {
			return len(p), nil // the fake would close; the bytes stay pending
		}
		keylen := int(binary.BigEndian.Uint16(t.wbuf[2:4]))
		extlen := int(t.wbuf[4])
		total := int(binary.BigEndian.Uint32(t.wbuf[8:12]))
		if total < keylen+extlen || len(t.wbuf) < 24+total {
			break
		}
		op := t.wbuf[1]
		if _, err := t.fake.Write(t.wbuf[:24+total]); err != nil {
			t.broken = "write to the fake: " + err.Error()
			break
		}
		t.wbuf = t.wbuf[24+total:]
		if isQuietOp(op) {
			t.quietPen = true // its reply, if any, comes in front of the next loud one
			continue
		}
		for {
			rop, ok := t.readReply()
			if !ok || rop == op {
				break
			}
		}
		t.quietPen = false
	}
	return len(p), nil
}

func (t *wireTap) Read(p []byte) (int, error) {
	if len(t.inq) == 0 {
		t.starved = true
		return 0, errStarved
	}
	n := copy(p, t.inq)
	t.inq = t.inq[n:]
	return n, nil
}
func (t *wireTap) Close() error { return t.fake.Close() }

var w01Statuses = []uint16{0x01, 0x02, 0x03, 0x04, 0x05, 0x06, 0x20, 0x81, 0x82, 0x83, 0x84, 0x85, 0x86}

func w01Bodies() [][]byte {
	hdrLike := make([]byte, 24) // looks like a reply header if it is ever parsed as one
	hdrLike[0] = 0x81
	hdrLike[11] = 3
	return [][]byte{{}, []byte("x"), []byte("injected error"), hdrLike, bytes.Repeat([]byte("e"), 300)}
}

func w01Directed() []w01Case {
	k := "key"
	long := string(bytes.Repeat([]byte("L"), 249)) + "k" // 250 bytes
	gi := func(key string, op uint32, q bool) stack.GItem { return stack.GItem{Key: []byte(key), Opaque: op, Quiet: q} }
	set := func(kind, key string, d []byte, f, ttl uint32) hCall {
		return hCall{Kind: kind, Key: key, Data: d, Flags: f, TTL: ttl}
	}
	st := func(now int64, c hCall, fs ...w01Fault) w01Step { return w01Step{Now: now, Call: c, Faults: fs} }
	t0 := int64(1000000)
	return []w01Case{
		{"refused add / replace / append then reads (error reply with a body)", []w01Step{
			st(t0, set("set", k, []byte("v1"), 0xabcd, 0)),
			st(t0, set("add", k, []byte("v2"), 1, 0)),
			st(t0, hCall{Kind: "get", Items: []stack.GItem{gi(k, 1, false)}}),
			st(t0, set("replace", "nokey", []byte("v3"), 1, 0)),
			st(t0, set("append", "nokey", []byte("v3"), 0, 0)),
			st(t0, set("prepend", "nokey", []byte("v3"), 0, 0)),
			st(t0, hCall{Kind: "gete", Items: []stack.GItem{gi(k, 2, true), gi("nokey", 3, false)}}),
		}},
		{"touch hit (reply with 4 bytes of extras, flags starting with the reply magic) then reads", []w01Step{
			st(t0, set("set", k, []byte("value"), 0x81000000, 100)),
			st(t0+1, hCall{Kind: "touch", Key: k, TTL: 0}),
			st(t0+2, hCall{Kind: "get", Items: []stack.GItem{gi(k, 1, false)}}),
			st(t0+3, hCall{Kind: "touch", Key: "nokey", TTL: 5}),
			st(t0+4, hCall{Kind: "gat", Key: k, TTL: 50}),
			st(t0+5, hCall{Kind: "gat", Key: "nokey", TTL: 50}),
			st(t0+6, hCall{Kind: "gete", Items: []stack.GItem{gi(k, 9, false)}}),
			st(t0+7, hCall{Kind: "delete", Key: k}),
			st(t0+8, hCall{Kind: "delete", Key: k}),
		}},
		{"overwrite and delete after replies that carried a CAS", []w01Step{
			st(t0, set("set", k, []byte("one"), 1, 0)),
			st(t0, hCall{Kind: "get", Items: []stack.GItem{gi(k, 1, false)}}),
			st(t0, set("set", k, []byte("two"), 2, 0)),
			st(t0, set("replace", k, []byte("three"), 3, 0)),
			st(t0, set("append", k, []byte("+"), 0, 0)),
			st(t0, set("prepend", k, []byte("-"), 0, 0)),
			st(t0, hCall{Kind: "delete", Key: k}),
			st(t0, hCall{Kind: "get", Items: []stack.GItem{gi(k, 1, false)}}),
		}},
		{"multi-key get with an error status on a non-last key, then a get", []w01Step{
			st(t0, set("set", "a", []byte("value-of-a"), 7, 0)),
			st(t0, set("set", "b", []byte("value-of-b"), 7, 0)),
			st(t0, set("set", "c", []byte("value-of-c"), 7, 0)),
			st(t0, hCall{Kind: "get", Items: []stack.GItem{gi("a", 1, true), gi("b", 2, false), gi("c", 3, true)}},
				w01Fault{1, 0x85, []byte("busy")}),
			st(t0, hCall{Kind: "get", Items: []stack.GItem{gi("b", 4, false)}}),
			st(t0, hCall{Kind: "gete", Items: []stack.GItem{gi("a", 1, true), gi("b", 2, false), gi("c", 3, true)}},
				w01Fault{0, 0x01, []byte("Not found")}, w01Fault{2, 0x86, nil}),
			st(t0, hCall{Kind: "gete", Items: []stack.GItem{gi("a", 5, false), gi("c", 6, false)}}),
		}},
		{"250-byte key, empty value, duplicates and mixed quiet flags", []w01Step{
			st(t0, set("set", long, []byte{}, 0, 0)),
			st(t0, set("set", "e", []byte{}, 0xffffffff, 2592000)),
			st(t0, set("add", "f", bytes.Repeat([]byte("F"), 5000), 5, 2592001+1000000)),
			st(t0+1, hCall{Kind: "get", Items: []stack.GItem{gi(long, 1, true), gi("e", 2, false), gi(long, 3, false), gi("zz", 4, true), gi("f", 4294967295, true)}}),
			st(t0+2, hCall{Kind: "gete", Items: []stack.GItem{gi("e", 1, false), gi("f", 2, true), gi(long, 3, true), gi("e", 1, false)}}),
			st(t0+3, hCall{Kind: "touch", Key: long, TTL: 10}),
			st(t0+4, hCall{Kind: "gat", Key: long, TTL: 0}),
			st(t0+5, set("append", long, []byte("tail"), 0, 0)),
			st(t0+6, hCall{Kind: "gat", Key: long, TTL: 1}),
			st(t0+8, hCall{Kind: "get", Items: []stack.GItem{gi(long, 1, false)}}),
			st(t0+9, hCall{Kind: "delete", Key: long}),
			st(t0+9, hCall{Kind: "get", Items: nil}),
		}},
		{"every known error status with a body, on every kind of call", func() []w01Step {
			var s []w01Step
			s = append(s, st(t0, set("set", k, []byte("v"), 3, 0)))
			bodies := w01Bodies()
			i := 0
			for _, status := range w01Statuses {
				for _, kind := range []string{"set", "add", "replace", "append", "prepend", "delete", "touch", "gat", "get", "gete"} {
					c := hCall{Kind: kind, Key: k, Data: []byte("w"), Flags: 1, TTL: 0}
					if kind == "get" || kind == "gete" {
						c = hCall{Kind: kind, Items: []stack.GItem{gi(k, 1, false), gi("other", 2, true)}}
					}
					s = append(s, st(t0, c, w01Fault{i % 2 * boolInt(kind == "get" || kind == "gete"), status, bodies[i%len(bodies)]}))
					i++
					if status == 0x01 || status == 0x05 {
						s = append(s, st(t0, set("set", k, []byte("v"), 3, 0))) // the truthful fake dropped the key
					}
				}
			}
			s = append(s, st(t0, hCall{Kind: "get", Items: []stack.GItem{gi(k, 1, false)}}))
			return s
		}()},
	}
}

func boolInt(b bool) int {
	if b {
		return 1
	}
	return 0
}

func w01Random(r *rig.Rand, n int) w01Case {
	long := string(bytes.Repeat([]byte("K"), 250))
	keys := []string{"a", "bb", "key3", long, "k\x00~"}
	vals := [][]byte{{}, []byte("v"), r.Bytes(7), r.Bytes(300), r.Bytes(2000)}
	flags := []uint32{0, 1, 0x81000000, 0xffffffff, uint32(r.U64())}
	// relative small / 30 days / just above (absolute, in the past at this clock) / absolute future
	ttls := []uint32{0, 0, 1, 5, 100, 2592000, 2592001, 2000000, 3000500, 3500000}
	now := int64(3000000)
	bodies := w01Bodies()
	c := w01Case{Name: "random history"}
	for i := 0; i < n; i++ {
		now += int64(r.Intn(4))
		k := keys[r.Intn(len(keys))]
		var h hCall
		nreq := 1
		switch r.Intn(12) {
		case 0, 1:
			h = hCall{Kind: "set", Key: k, Data: vals[r.Intn(len(vals))], Flags: flags[r.Intn(len(flags))], TTL: ttls[r.Intn(len(ttls))]}
		case 2:
			h = hCall{Kind: "add", Key: k, Data: vals[r.Intn(len(vals))], Flags: flags[r.Intn(len(flags))], TTL: ttls[r.Intn(len(ttls))]}
		case 3:
			h = hCall{Kind: "replace", Key: k, Data: vals[r.Intn(len(vals))], Flags: flags[r.Intn(len(flags))], TTL: ttls[r.Intn(len(ttls))]}
		case 4:
			h = hCall{Kind: "append", Key: k, Data: vals[r.Intn(3)]}
		case 5:
			h = hCall{Kind: "prepend", Key: k, Data: vals[r.Intn(3)]}
		case 6:
			h = hCall{Kind: "delete", Key: k}
		case 7:
			h = hCall{Kind: "touch", Key: k, TTL: ttls[r.Intn(len(ttls))]}
		case 8:
			h = hCall{Kind: "gat", Key: k, TTL: ttls[r.Intn(len(ttls))]}
		default:
			kind := "get"
			if r.Bool() {
				kind = "gete"
			}
			nreq = r.Intn(5)
			h = hCall{Kind: kind}
			for j := 0; j < nreq; j++ {
				h.Items = append(h.Items, stack.GItem{Key: []byte(keys[r.Intn(len(keys))]), Opaque: uint32(r.U64()), Quiet: r.Bool()})
			}
		}
		s := w01Step{Now: now, Call: h}
		if nreq > 0 && r.Chance(25) {
			s.Faults = append(s.Faults, w01Fault{r.Intn(nreq), w01Statuses[r.Intn(len(w01Statuses))], bodies[r.Intn(len(bodies))]})
			if nreq > 2 && r.Bool() {
				s.Faults = append(s.Faults, w01Fault{r.Intn(nreq), w01Statuses[r.Intn(len(w01Statuses))], bodies[r.Intn(len(bodies))]})
			}
		}
		c.Steps = append(c.Steps, s)
	}
	return c
}

func c01w(e *env) {
	w := rig.NewWriter(e.out, "C01W", e.tier, e.seed)
	if e.tier == "thorough" {
		w.Shards = 8
	}
	r := rig.NewRand(e.seed*977 + 5)
	var cases []w01Case
	if rp := replayArg(e); rp != "" {
		var c w01Case
		b, err := os.ReadFile(rp)
		if err != nil || json.Unmarshal(b, &c) != nil {
			rig.Die("cannot read replay input %s", rp)
		}
		cases = append(cases, c)
	} else {
		cases = w01Directed()
		n := 40
		if e.tier == "thorough" {
			n = 1500
		}
		for i := 0; i < n; i++ {
			cases = append(cases, w01Random(r, 4+r.Intn(14)))
		}
	}
	for _, c := range cases {
		runW01(w, c)
	}
	// (the evidence keeps the rule of the property's main tier; this tier reports its own under stats)
	w.Res.Stats["c01w_rule"] = "directed histories (refused add/replace/append, touch/gat hits, CAS-carrying replies, error status inside a multi-key get, 250-byte key, empty and 5000-byte values, duplicates and mixed quiet flags, all 13 known error statuses x 10 call kinds x 5 bodies) plus random histories of 4..17 calls over 5 keys with 25% injected statuses; a case is non-trivial when at least one call was answered with a value or an error reply carrying a body"
	if err := w.Finish([]string{"base.Bytes", "base.Harness", "gen.Consts_gen", "spec.MapSpec", "orca.Types", "orca.Faults", "handlers.StdWire", "checks.Check01w"}, "case01w", "check01w"); err != nil {
		rig.Die("%v", err)
	}
}

func runW01(w *rig.Writer, c w01Case) {
	fk := fakemc.New()
	conn := fk.Pipe()
	tap := &wireTap{fake: conn, frd: bufio.NewReader(conn)}
	h := std.NewHandler(tap)
	defer conn.Close()
	keyset := map[string]bool{}
	var obs []string
	nontrivial := false
	for si, s := range c.Steps {
		fk.SetNow(s.Now)
		fk.ClearFaults()
		seq0 := fk.Seq()
		maxIdx := -1
		byIdx := map[int]w01Fault{}
		for _, f := range s.Faults {
			body := f.Body
			if body == nil {
				body = []byte{}
			}
			fk.SetFault(seq0+f.Index, fakemc.Fault{Kind: fakemc.FStatus, Status: f.Status, Body: body})
			byIdx[f.Index] = w01Fault{f.Index, f.Status, body}
			if f.Index > maxIdx {
				maxIdx = f.Index
			}
		}
		if s.Call.Key != "" {
			keyset[s.Call.Key] = true
		}
		for _, it := range s.Call.Items {
			keyset[string(it.Key)] = true
		}
		tap.written, tap.received, tap.cas, tap.starved = nil, nil, nil, false
		res := func() (out string) {
			defer func() {
				if p := recover(); p != nil {
					out = "HPanic"
				}
			}()
			return gal.App("HRes", callHandler(h, s.Call))
		}()
		if tap.broken != "" {
			w.Fail(rig.GoFailure{Kind: "broken-correspondence", What: "the fake memcached did not answer a complete request frame",
				Input: c, Detail: fmt.Sprintf("step %d: %s", si, tap.broken)})
			return
		}
		// what is there to read but was not read: the handler's own buffer, then the tap's queue
		var left []byte
		if n := h.Rw.Reader.Buffered(); n > 0 {
			p, _ := h.Rw.Reader.Peek(n)
			left = append(left, p...)
		}
		left = append(left, tap.inq...)
		// written but never flushed by the handler counts as not written; report it as pending too
		pend := append([]byte(nil), tap.wbuf...)
		if n := h.Rw.Writer.Buffered(); n > 0 {
			w.Count("unflushed-writes")
		}
		nplan := len(tap.cas)
		if maxIdx+1 > nplan {
			nplan = maxIdx + 1
		}
		var plan []string
		for i := 0; i < nplan; i++ {
			fa := "None"
			if f, ok := byIdx[i]; ok {
				fa = gal.Opt(gal.Pair(gal.N(uint64(f.Status)), gal.Bytes(f.Body)), true)
			}
			cas := uint64(0)
			if i < len(tap.cas) {
				cas = tap.cas[i]
			}
			plan = append(plan, gal.App("mkSE", fa, gal.N(cas)))
		}
		if len(tap.received) > 24*len(tap.cas) {
			nontrivial = true
		}
		w.Count("call=" + s.Call.Kind)
		if len(s.Faults) > 0 {
			w.Count("calls-with-injected-status")
		}
		obs = append(obs, gal.App("mkO", gal.N(uint64(s.Now)), s.Call.hreq(), gal.List(plan), gal.Bytes(tap.written), gal.Bytes(tap.received),
			res, gal.Bytes(left), gal.Bytes(pend), gal.Bool(tap.starved), stack.DumpGallina(fk)))
		if len(left) > 0 || tap.starved || len(pend) > 0 {
			// out of sync: whatever follows on this connection is garbage; the case ends here
			w.Count("out-of-sync")
			break
		}
	}
	var ks []string
	for k := range keyset {
		ks = append(ks, k)
	}
	sort.Strings(ks)
	var gks []string
	for _, k := range ks {
		gks = append(gks, gal.Bytes([]byte(k)))
	}
	w.Add(rig.Case{Desc: c, Coq: gal.Pair(gal.List(gks), gal.List(obs)), Nontrivial: nontrivial})
}
