package main

import (
	"encoding/json"
	"fmt"
	"io"
	"os"
	"runtime"
	"strings"
	"sync"
	"sync/atomic"
	"time"

	"verifharness/fakemc"
	"verifharness/gal"
	"verifharness/rig"
	"verifharness/stack"
)

func init() { commands["c15"] = c15 }

type dCase struct {
	Deploy string      `json:"deploy"` // l1only | l1l2 | l1l2batch
	Locked bool        `json:"locked"`
	Proto  string      `json:"proto"`
	Reqs   []stack.Req `json:"reqs"`
	Cut    int         `json:"cut"` // number of bytes of the encoded stream that are sent
	// Full: the client closes both directions (it stops reading too), so the server's reply writes
	// fail; only the release of resources is judged then (what was executed depends on timing)
	Full bool `json:"full,omitempty"`
	// Pre: keys present (value "pre-"+key, never expiring) in both tiers before the client connects
	Pre []string `json:"pre,omitempty"`
	// L1: "" (std handler) or "chunked": per-connection handler kind of the L1 tier; chunked runs
	// are judged on resource release only (there is no byte-level model of that stack)
	L1 string `json:"l1,omitempty"`
	// Via: "" = the server loop is started directly on the connection; "listen" = the connection
	// goes through rend's accept loop (server.ListenAndServe: handler construction, protocol
	// detection by the first byte); "listen-overlap" = in addition a second client connects after
	// this one was accepted and before it sends its first byte, stays idle, must still be served
	// after this one is gone, and is closed at the end
	Via string `json:"via,omitempty"`
}

var (
	listenMu  sync.Mutex
	listeners = map[string]*stack.Listener{}
)

func listenerFor(cfg stack.Config) *stack.Listener {
	listenMu.Lock()
	defer listenMu.Unlock()
	k := fmt.Sprintf("%s/%v/%v/%s", cfg.Orca, cfg.Locked, cfg.MultiRd, cfg.L1)
	if l, ok := listeners[k]; ok {
		return l
	}
	l := stack.Listen(cfg)
	listeners[k] = l
	return l
}

type halfCloser interface{ CloseWrite() error }

func runDisconnect(c dCase) (sent, out []byte, l1, l2 string, problems []string) {
	b := stack.NewBackends()
	b.L1.SetNow(cNow)
	b.L2.SetNow(cNow)
	for _, k := range c.Pre { // (std layout; not used with the chunked handler)
		ent := fakemc.Entry{Flags: 7, Value: []byte("pre-" + k), Deadline: -1}
		b.L1.Put(k, ent)
		b.L2.Put(k, ent)
	}
	var stream []byte
	for _, r := range c.Reqs {
		if c.Proto == "text" {
			stream = append(stream, r.EncodeText()...)
		} else {
			stream = append(stream, r.EncodeBin()...)
		}
	}
	if c.Cut > len(stream) {
		c.Cut = len(stream)
	}
	sent = stream[:c.Cut]
	if c.Via != "" {
		// the accept loop itself is a goroutine that stays: start it before taking the base line
		lk := "std"
		if c.L1 != "" {
			lk = c.L1
		}
		listenerFor(stack.Config{Orca: c.Deploy, Locked: c.Locked, MultiRd: true, L1: lk, Proto: c.Proto})
		time.Sleep(time.Millisecond)
	}
	g0 := runtime.NumGoroutine()
	rg0 := rendGoroutines()
	base1, base2 := b.L1.OpenConns(), b.L2.OpenConns()
	l1kind := "std"
	if c.L1 != "" {
		l1kind = c.L1
	}
	cfg := stack.Config{Orca: c.Deploy, Locked: c.Locked, MultiRd: true, L1: l1kind, Proto: c.Proto}
	var cn, other *stack.Conn
	if c.Via == "" {
		cn = stack.Dial(b, cfg)
	} else {
		ln := listenerFor(cfg)
		ln.SetBackends(b)
		var err error
		if cn, err = ln.Dial(c.Proto); err != nil {
			problems = append(problems, err.Error())
			return
		}
		if c.Via == "listen-overlap" {
			if other, err = ln.Dial(c.Proto); err != nil {
				problems = append(problems, err.Error())
				return
			}
		}
	}
	raw := cn.Raw()
	raw.Write(sent)
	if c.Full {
		raw.Close()
	} else {
		raw.(halfCloser).CloseWrite()
	}
	// read everything until the server closes
	raw.SetReadDeadline(time.Now().Add(10 * time.Second))
	buf := make([]byte, 65536)
	for !c.Full {
		n, err := raw.Read(buf)
		out = append(out, buf[:n]...)
		if err != nil {
			if err != io.EOF {
				problems = append(problems, "the server did not close the connection within 10 s after the client stopped sending")
			}
			break
		}
	}
	select {
	case <-cn.Done:
	case <-time.After(10 * time.Second):
		problems = append(problems, "the server loop serving the connection did not end")
	}
	raw.Close()
	if other != nil {
		// the connection that was accepted later and has been idle so far is unaffected
		q := stack.Req{Kind: "touch", Key: []byte("zz-other"), TTL: 0, Opaque: 6}
		enc := q.EncodeBin()
		if c.Proto == "text" {
			q.Opaque = 0
			enc = q.EncodeText()
		}
		if _, closed, err := other.Exchange(enc, 15*time.Second); err != nil || closed {
			problems = append(problems, "a second connection, accepted before this one sent its first byte, could not be served after this one disconnected")
		}
		other.Close()
		select {
		case <-other.Done:
		case <-time.After(10 * time.Second):
			problems = append(problems, "the server did not close the second connection after its client closed it")
		}
	}
	// backend connections released, goroutines gone
	ok := false
	for i := 0; i < 200; i++ {
		if b.L1.OpenConns() == base1 && b.L2.OpenConns() == base2 && runtime.NumGoroutine() <= g0+1 && len(rendGoroutines()) <= len(rg0) {
			ok = true
			break
		}
		time.Sleep(5 * time.Millisecond)
	}
	if !ok {
		rg := rendGoroutines()
		where := ""
		if len(rg) > len(rg0) {
			where = "; e.g. " + rg[len(rg)-1]
		}
		problems = append(problems, fmt.Sprintf("resources not released: L1 conns %d (base %d), L2 conns %d (base %d), goroutines %d (base %d), goroutines running rend code %d (base %d)%s",
			b.L1.OpenConns(), base1, b.L2.OpenConns(), base2, runtime.NumGoroutine(), g0, len(rg), len(rg0), where))
	}
	l1, l2 = stack.DumpGallina(b.L1), stack.DumpGallina(b.L2)
	// no key stays locked; the server keeps accepting: a fresh connection works on the same keys
	fc := stack.Dial(b, stack.Config{Orca: c.Deploy, Locked: c.Locked, MultiRd: true, L1: l1kind, Proto: c.Proto})
	for _, k := range fsKeys[:2] {
		q := stack.Req{Kind: "touch", Key: []byte(k), TTL: 0, Opaque: 5}
		if c.Proto == "text" {
			q.Opaque = 0
		}
		enc := q.EncodeBin()
		if c.Proto == "text" {
			enc = q.EncodeText()
		}
		if _, closed, err := fc.Exchange(enc, 15*time.Second); err != nil || closed {
			problems = append(problems, "a fresh connection could not operate on key "+k+" afterwards (lock still held?)")
			break
		}
	}
	fc.Close()
	return
}

// c15L2Down: a client connects at a moment when the L1 handler can be built but the L2 handler
// cannot. Nothing can be served: the accept loop must close the client connection and the L1
// handler it had already built; the next client (L2 back) is served.
func c15L2Down(w *rig.Writer) {
	for _, l1 := range []string{"std", "chunked"} {
		cfg := stack.Config{Orca: "l1l2", MultiRd: true, L1: l1, Proto: "bin"}
		ln := listenerFor(cfg)
		b := stack.NewBackends()
		b.L1.SetNow(cNow)
		b.L2.SetNow(cNow)
		ln.SetBackends(b)
		base1 := b.L1.OpenConns()
		in := map[string]interface{}{"kind": "l2-down-at-connect", "l1": l1}
		atomic.StoreInt32(&ln.FailL2, 1)
		cn, err := ln.Dial("bin")
		if err != nil {
			w.Fail(rig.GoFailure{Kind: "broken-correspondence", What: "dial through the accept loop failed", Input: in, Detail: err.Error()})
			continue
		}
		select {
		case <-cn.Done:
		case <-time.After(10 * time.Second):
			w.Fail(rig.GoFailure{Kind: "counterexample", What: "a client that connected while the L2 handler could not be built was neither served nor disconnected within 10 s", Input: in})
		}
		ok := false
		for i := 0; i < 400 && !ok; i++ {
			ok = b.L1.OpenConns() == base1
			if !ok {
				time.Sleep(5 * time.Millisecond)
			}
		}
		if !ok {
			w.Fail(rig.GoFailure{Kind: "counterexample", What: "the L1 handler built for a client whose L2 handler could not be built was not closed", Input: in,
				Detail: fmt.Sprintf("open L1 backend connections: %d, before: %d", b.L1.OpenConns(), base1)})
		}
		cn.Close()
		// L2 is back: the next client is served
		c2, err := ln.Dial("bin")
		if err == nil {
			q := stack.Req{Kind: "set", Key: []byte("after-l2-down"), Data: []byte("v"), Opaque: 3}
			if _, closed, xerr := c2.Exchange(q.EncodeBin(), 15*time.Second); xerr != nil || closed {
				w.Fail(rig.GoFailure{Kind: "counterexample", What: "after a failed L2 handler construction the next client was not served", Input: in})
			}
			c2.Close()
		}
		w.Count("l2-down-at-connect l1=" + l1)
	}
}

// rendGoroutines lists (by their innermost rend frame) the goroutines that are executing code of
// the repository under test.
func rendGoroutines() []string {
	buf := make([]byte, 1<<20)
	buf = buf[:runtime.Stack(buf, true)]
	var out []string
	for _, g := range strings.Split(string(buf), "\n\n") {
		if i := strings.Index(g, "github.com/netflix/rend/"); i >= 0 {
			j := strings.IndexAny(g[i:], "(\n")
			if j < 0 {
				j = len(g) - i
			}
			out = append(out, g[i:i+j])
		}
	}
	return out
}

func c15(e *env) {
	w := rig.NewWriter(e.out, "C15", e.tier, e.seed)
	w.Shards = 16
	r := rig.NewRand(e.seed*17 + 15)
	thorough := e.tier == "thorough"
	var cases []dCase
	if rp := replayArg(e); rp != "" {
		var c dCase
		b, err := os.ReadFile(rp)
		if err != nil || json.Unmarshal(b, &c) != nil {
			rig.Die("cannot read replay input %s", rp)
		}
		cases = append(cases, c)
	} else {
		streams := func(proto string) [][]stack.Req {
			k := func(s string) []byte { return []byte(s) }
			o := func(v uint32) uint32 {
				if proto == "text" {
					return 0
				}
				return v
			}
			ss := [][]stack.Req{
				{{Kind: "set", Key: k("a"), Data: []byte("hello\r\nworld"), Flags: 5, TTL: 0, Opaque: o(1)}},
				{{Kind: "set", Key: k("a"), Data: []byte("v1"), Opaque: o(1)}, {Kind: "get", Items: []stack.GItem{{Key: k("a"), Opaque: o(2)}}}, {Kind: "delete", Key: k("a"), Opaque: o(3)}},
				{{Kind: "add", Key: k("bb"), Data: []byte("x"), Opaque: o(1)}, {Kind: "append", Key: k("bb"), Data: []byte("yz"), Opaque: o(2)}, {Kind: "touch", Key: k("bb"), TTL: 100, Opaque: o(3)},
					{Kind: "replace", Key: k("bb"), Data: []byte("r"), Opaque: o(4)}, {Kind: "prepend", Key: k("bb"), Data: []byte("p"), Opaque: o(5)}},
				{{Kind: "set", Key: k("a"), Data: []byte("v"), Opaque: o(1)}, {Kind: "quit", Opaque: o(2)}, {Kind: "set", Key: k("a"), Data: []byte("after-quit"), Opaque: o(3)}},
				{{Kind: "version", Opaque: o(1)}, {Kind: "stat", Opaque: o(2)}, {Kind: "noop", Opaque: o(3)}},
			}
			// several hits in one multi-key get (each is a separate reply write)
			multi := []stack.Req{{Kind: "set", Key: k("a"), Data: []byte("v"), Opaque: o(1)}, {Kind: "set", Key: k("bb"), Data: []byte("w"), Opaque: o(2)}}
			if proto == "bin" {
				multi = append(multi, stack.Req{Kind: "get", Items: []stack.GItem{{Key: k("a"), Opaque: 3, Quiet: true}, {Key: k("bb"), Opaque: 4, Quiet: true}, {Key: k("a"), Opaque: 5, Quiet: true}}, NoopEnd: true, NoopOpq: 6})
			} else {
				multi = append(multi, stack.Req{Kind: "get", Items: []stack.GItem{{Key: k("a")}, {Key: k("bb")}, {Key: k("a")}}})
			}
			ss = append(ss, multi)
			if proto == "bin" {
				ss = append(ss,
					[]stack.Req{{Kind: "set", Key: k("a"), Data: []byte("v"), Opaque: 1}, {Kind: "get", Items: []stack.GItem{{Key: k("a"), Opaque: 2, Quiet: true}, {Key: k("bb"), Opaque: 3, Quiet: true}}, NoopEnd: true, NoopOpq: 4}},
					[]stack.Req{{Kind: "set", Key: k("a"), Data: []byte("v"), Opaque: 1, Quiet: true}, {Kind: "gat", Key: k("a"), TTL: 50, Opaque: 2}, {Kind: "get", Items: []stack.GItem{{Key: k("a"), Opaque: 2, Quiet: true}, {Key: k("a"), Opaque: 3}}}})
			} else {
				ss = append(ss, []stack.Req{{Kind: "set", Key: k("a"), Data: []byte("v"), Flags: 1}, {Kind: "get", Items: []stack.GItem{{Key: k("a")}, {Key: k("bb")}}}, {Kind: "unknown"}})
			}
			return ss
		}
		type cf struct {
			deploy string
			locked bool
		}
		cfs := []cf{{"l1l2", false}, {"l1only", true}}
		if thorough {
			cfs = []cf{{"l1l2", false}, {"l1only", true}, {"l1l2", true}, {"l1l2batch", false}, {"l1only", false}, {"l1l2batch", true}}
		}
		for _, proto := range []string{"bin", "text"} {
			for _, ss := range streams(proto) {
				n := 0
				for _, q := range ss {
					if proto == "text" {
						n += len(q.EncodeText())
					} else {
						n += len(q.EncodeBin())
					}
				}
				// full close (reply writes fail): request boundaries +-1 and every 5th offset
				// (thorough: every offset), three configurations (thorough: six)
				bounds := map[int]bool{}
				off := 0
				for _, q := range ss {
					if proto == "text" {
						off += len(q.EncodeText())
					} else {
						off += len(q.EncodeBin())
					}
					bounds[off-1], bounds[off], bounds[off+1] = true, true, true
				}
				fcfs := []cf{{"l1only", false}, {"l1l2", false}, {"l1only", true}, {"l1l2", true}}
				if thorough {
					fcfs = cfs
				}
				for _, c := range fcfs {
					for cut := 1; cut <= n; cut++ {
						if thorough || bounds[cut] || cut%5 == 0 {
							cases = append(cases, dCase{Deploy: c.deploy, Locked: c.locked, Proto: proto, Reqs: ss, Cut: cut, Full: true})
						}
					}
					// the same with every suffix of the stream on pre-populated keys: the first
					// failing reply write is then that of each command in turn
					for i := 1; i < len(ss); i++ {
						m := 0
						for _, q := range ss[i:] {
							if proto == "text" {
								m += len(q.EncodeText())
							} else {
								m += len(q.EncodeBin())
							}
						}
						cases = append(cases, dCase{Deploy: c.deploy, Locked: c.locked, Proto: proto, Reqs: ss[i:], Cut: m, Full: true, Pre: []string{"a", "bb"}})
					}
				}
				// the chunked handler as the per-connection L1 handler: half closes and full closes
				// at request boundaries +-1 and every 4th offset (thorough: every offset)
				for _, c := range fcfs {
					for cut := 0; cut <= n; cut++ {
						if thorough || bounds[cut] || cut%4 == 0 {
							cases = append(cases, dCase{Deploy: c.deploy, Locked: c.locked, Proto: proto, Reqs: ss, Cut: cut, L1: "chunked"})
							if cut > 0 {
								cases = append(cases, dCase{Deploy: c.deploy, Locked: c.locked, Proto: proto, Reqs: ss, Cut: cut, L1: "chunked", Full: true})
							}
						}
					}
				}
				// through the real accept loop: alone and with a second client connecting in between
				for _, c := range fcfs {
					for cut := 0; cut <= n; cut++ {
						if thorough || bounds[cut] || cut%6 == 0 {
							cases = append(cases, dCase{Deploy: c.deploy, Locked: c.locked, Proto: proto, Reqs: ss, Cut: cut, Via: "listen"},
								dCase{Deploy: c.deploy, Locked: c.locked, Proto: proto, Reqs: ss, Cut: cut, Via: "listen-overlap"})
						}
					}
				}
				for ci, c := range cfs {
					for cut := 0; cut <= n; cut++ {
						if !thorough && ci > 0 && cut%3 != r.Intn(3) {
							continue // quick: every prefix for the first configuration, a third of them for the others
						}
						cases = append(cases, dCase{Deploy: c.deploy, Locked: c.locked, Proto: proto, Reqs: ss, Cut: cut})
					}
				}
			}
		}
	}
	if replayArg(e) == "" {
		c15L2Down(w)
	}
	nfail := 0
	for _, c := range cases {
		if nfail >= 6 {
			// every failing case waits for its timeouts: enough counterexamples, stop here
			w.Count("cases-skipped-after-6-failures")
			continue
		}
		sent, out, l1, l2, problems := runDisconnect(c)
		if len(problems) > 0 {
			nfail++
			w.Fail(rig.GoFailure{Kind: "counterexample", What: "client disconnect not cleaned up: " + problems[0], Input: c, Detail: fmt.Sprint(problems)})
		}
		if c.L1 == "chunked" {
			w.Count(fmt.Sprintf("chunked-L1 config=%s/locked=%v full-close=%v", c.Deploy, c.Locked, c.Full))
			continue
		}
		if c.Full {
			w.Count("full-close proto=" + c.Proto)
			w.Count(fmt.Sprintf("full-close config=%s/locked=%v", c.Deploy, c.Locked))
			continue // resources only: which replies were written before the close is a matter of timing
		}
		p := "Bin"
		if c.Proto == "text" {
			p = "Text"
		}
		var ks []string
		for _, k := range fsKeys {
			ks = append(ks, gal.Bytes([]byte(k)))
		}
		w.Count("proto=" + c.Proto)
		w.Count(fmt.Sprintf("config=%s/locked=%v", c.Deploy, c.Locked))
		if c.Via != "" {
			w.Count("via=" + c.Via)
		}
		tags := []string{}
		if c.Locked && c.Proto == "text" {
			tags = caseTags(fsCase{Locked: true, Proto: "text", Steps: stepsOf(c.Reqs)})
		}
		w.Add(rig.Case{Desc: c, Coq: gal.App("mkC15", p, cfgGallina(c.Deploy, c.Locked), gal.Bool(c.Deploy != "l1only"), gal.N(cNow), gal.List(ks),
			gal.Bytes(sent), gal.Bytes(out), l1, l2), Nontrivial: c.Cut > 0 && len(sent) > 0, Tags: tags})
	}
	w.Res.Exhaustive = true
	w.Res.Rule = "representative request streams (every command, pipelines, quiet batches, quit in the middle, multi-line values; text and binary) cut at every byte offset (quick: all offsets for one configuration, a third for the others; thorough: all offsets x 6 configurations): the client sends the prefix, half-closes and reads until the server closes; observed: bytes received, server loop ended, backend connections and goroutines back to base, a fresh connection can touch the same keys; received bytes and backend contents are compared with the byte-level connection model; in addition full closes (client stops reading too, reply writes fail) at request boundaries +-1 and every 5th offset (thorough: every offset), judged on resource release only (counted under full-close, not among the cases); the same streams through rend's accept loop (server.ListenAndServe), alone and with a second client that connects before the first byte is sent, stays idle and must be served afterwards (counted under via=); the same half and full closes with the chunked handler as L1 (resource release only, counted under chunked-L1); non-trivial = non-empty prefix"
	if err := w.Finish([]string{"base.Bytes", "base.Harness", "spec.MapSpec", "orca.Types", "proto.Resp", "checks.Check01", "checks.Check15"}, "case15", "check15"); err != nil {
		rig.Die("%v", err)
	}
}

func stepsOf(reqs []stack.Req) []fsStep {
	var s []fsStep
	for _, r := range reqs {
		s = append(s, fsStep{Req: r})
	}
	return s
}
