package main

// texttrans: a translator from the SOURCE of rend's text protocol parser
// (/repo/protocol/textprot/parser.go: TextParser.Parse and the functions it calls) to Gallina
// (coq/gen/TextParser_gen.v). Like gotrans / orctrans it reads /repo with go/parser on every run;
// coq/gen/TextParserLink.v proves the generated `parse_text_src` equal to the hand-written model
// `parse_text` of coq/proto/TextReq.v that the C07 / C11 theorems are about. The meaning of the
// library calls and Go constructs the translator emits is the hand-written, trusted
// coq/proto/TextSem.v; the CONTROL and DATA FLOW (which token goes where, which check comes first,
// which error for which condition, how many bytes are read, which struct with which request type)
// is taken from the source, statement by statement, and no branch is decided here.
//
// Translated: the method Parse of TextParser and, on demand and before it, every function of the
// file that it (transitively) calls in tail position (`return f(args)`). A function becomes
// `Definition f_src (params) : M` (M = rest of the stream -> outcome + trace, TextSem.v).
//
// Rules (ttRules below is printed into the generated file):

import (
	"fmt"
	"go/ast"
	"go/parser"
	"go/token"
	"go/types"
	"os"
	"path/filepath"
	"sort"
	"strconv"
	"strings"
)

func init() { commands["texttrans"] = texttrans }

const ttRules = `   Rules of the translation (harness/cmd/rendharness/texttrans.go; meaning of every name: proto/TextSem.v):
   - DROPPED: expression statements that call metrics.*, log.*, timer.*, fmt.* whose arguments are
     built from variables, literals, len/cap, conversions, x.Error() and such calls only (an index,
     slice, dereference, division or any other call inside makes the statement untranslatable
     instead); an "if" without init whose condition is of that kind and whose branches contain
     nothing but dropped statements; empty statements. "x := timer.Now()" is "let x := time_now"
     (time is not modelled; go_return ignores the time stamp).
   - READER: the field(s) of TextParser of type *bufio.Reader and parameters of that type all
     denote the connection's one reader, the state of M; a reader argument of a call is elided.
     "a, err := R.ReadString(d)" -> rd_ReadString d (fun a err => ..) (also as a statement whose
     results are discarded); "n, err := io.ReadAtLeast(R, buf, m)" -> rd_ReadAtLeast buf m
     (fun buf n err => ..) — buf, a local []byte, is rebound to its new contents;
     io.ReadFull(R, buf) is io.ReadAtLeast(R, buf, len(buf)); "buf := make([]byte, n)" ->
     mk_buf n (fun buf => ..). Every other method of the reader: untranslatable.
   - "v, err := strconv.ParseUint(x, b, n)" -> str_ParseUint x b n (fun v err => ..);
     strings.TrimSpace(x) -> str_TrimSpace x; strings.Split(x, "c") with a one-byte literal ->
     str_Split1 x c; len(x) -> len x; []byte(x), string(x) -> x; uintN(x), int(x), byte(x) ->
     convN x; make([]uint32|[]bool, n) -> mk_u32s|mk_bools n; append(x, v) -> x ++ [v].
   - x[i] on a []string / [][]byte -> idx x i, x[i:] -> slice_from x i, and the statement that
     contains it is wrapped in chk_index x i ( .. ) / chk_slice_from x i ( .. ): out of range is a
     panic. No index inside the right operand of && / ||, a case expression or a loop body.
   - conditions: err == nil, err != nil, err == common.ErrX (err_nil, err_nonnil, err_is),
     ==, != on strings (str_eqb) and integers (=?), <, <=, >, >= between len(..), literals and
     unsigned values (the comparison of naturals), !, &&, ||.
   - "x := e", "x = e", "var x T [= e]" -> let x := e in ..; the rest of the block is textually
     inside the binder. "if c { A } else { B }; rest" -> if c then [A; rest] else [B; rest]
     (rest repeated in every branch that falls through; a := in an inner block that shadows an
     outer variable and falls through is untranslatable).
   - "switch tag { case "a", "b": A .. default: D }" on a string -> let switch_tag := tag in
     if orb (str_eqb switch_tag "a") (str_eqb switch_tag "b") then A else .. else D, the cases in
     source order, the default (or the rest of the block) last. fallthrough, break: untranslatable.
   - "for _, v := range xs { acc = e }" whose body only assigns one outer variable ->
     let acc := range_fold (fun acc v => e) xs acc in ..
   - "return a, b, c, d" -> go_return a b c d with a = nil -> GNil | common.T{F: e, ..} ->
     GT e .. (one argument per field of the struct in common/datatypes.go, in declaration order; a
     field that is not given is its zero value), b = common.RequestX -> RtX (or a variable),
     d = nil -> None | err | common.ErrX -> Some EX. "return f(args)", f a function of the file
     that was translated -> f_src args. Recursion: untranslatable.
   - anything else makes the function — and every function that calls it — untranslatable: the
     definition is replaced by a comment "(* func f could not be translated: <reason> *)", so
     parse_text_src is not defined and gen/TextParserLink.v stops compiling.`

type ttFail struct{ msg string }

type ttField struct{ name, typ string }

type ttCtx struct {
	fs           *token.FileSet
	structs      map[string][]ttField
	rtNames      map[string]bool
	errNames     map[string]bool
	funcs        map[string]*ast.FuncDecl
	state        map[string]int // 1 in progress, 2 done, 3 failed
	defs         map[string]string
	order        []string
	readerFields map[string]bool
	recvType     string
	// per function
	recv     string
	scopes   []map[string]string
	guards   []string
	noGuards string // non-empty: why an index may not appear here
}

func (c *ttCtx) at(n ast.Node) string {
	pos := c.fs.Position(n.Pos())
	return fmt.Sprintf("%s:%d", filepath.Base(pos.Filename), pos.Line)
}

func (c *ttCtx) fail(n ast.Node, format string, a ...interface{}) {
	msg := fmt.Sprintf(format, a...)
	if n != nil {
		msg += " (" + c.at(n) + ")"
	}
	panic(ttFail{msg})
}

func (c *ttCtx) src(n ast.Node) string {
	s := ""
	switch x := n.(type) {
	case ast.Expr:
		s = types.ExprString(x)
	default:
		s = fmt.Sprintf("%T", n)
	}
	s = strings.Join(strings.Fields(s), " ")
	s = strings.ReplaceAll(strings.ReplaceAll(s, "(*", "( *"), "*)", "* )")
	if len(s) > 100 {
		s = s[:100] + "..."
	}
	return s
}

// ---- names ----

var ttReserved = map[string]bool{}

func init() {
	for _, w := range strings.Fields(`as at cofix else end exists exists2 fix for forall fun if IF in let match mod
		Prop return Set then Type using where with struct by
		len idx drop take asc hx negb andb orb repeat rev map nth fst snd pair Some None true false nil cons app length
		M gerr mpre go_panic go_unsupported greq as_req is_client_err go_return time_now read_until rd_ReadString mk_buf
		rd_ReadAtLeast str_TrimSpace str_Split1 parse_uint_errval str_ParseUint str_eqb chk_index slice_from chk_slice_from
		mk_u32s mk_bools range_fold switch_tag err_nil err_nonnil err_is conv8 conv16 conv32 conv64 bytes byte N bool list
		option pout pres aev req zeros two63 read_n read_line trim_space split_sp parse_u32 parse_text pre`) {
		ttReserved[w] = true
	}
}

func ttName(n string) string {
	if n == "_" {
		return "_"
	}
	if ttReserved[n] || strings.HasSuffix(n, "_src") || strings.HasPrefix(n, "G") && len(n) > 1 && strings.HasSuffix(n, "Request") ||
		strings.HasPrefix(n, "Rt") || len(n) > 1 && n[0] == 'E' && n[1] >= 'A' && n[1] <= 'Z' {
		return n + "_"
	}
	return n
}

// ---- kinds ----

func ttKind(goType string) string {
	switch goType {
	case "string", "[]byte":
		return "bytes"
	case "[]string", "[][]byte":
		return "strs"
	case "[]uint32":
		return "u32s"
	case "[]bool":
		return "bools"
	case "uint64", "uint32", "uint16", "uint8", "byte", "uint":
		return "uint"
	case "int", "int64", "int32":
		return "int"
	case "bool":
		return "bool"
	case "error":
		return "err"
	case "common.RequestType":
		return "rt"
	case "*bufio.Reader":
		return "reader"
	}
	return ""
}

func ttCoqType(kind string) string {
	switch kind {
	case "bytes":
		return "bytes"
	case "strs":
		return "list bytes"
	case "u32s":
		return "list N"
	case "bools":
		return "list bool"
	case "uint", "int", "rt", "nat", "lit":
		return "N"
	case "bool":
		return "bool"
	case "err":
		return "gerr"
	}
	return ""
}

func ttZero(kind string) string {
	switch kind {
	case "bytes", "strs", "u32s", "bools":
		return "[]"
	case "uint", "int":
		return "0"
	case "bool":
		return "false"
	case "err":
		return "None"
	}
	return ""
}

func ttNumeric(k string) bool { return k == "uint" || k == "int" || k == "lit" || k == "nat" }

// ---- scopes ----

func (c *ttCtx) push() { c.scopes = append(c.scopes, map[string]string{}) }
func (c *ttCtx) pop()  { c.scopes = c.scopes[:len(c.scopes)-1] }
func (c *ttCtx) lookup(n string) (string, bool) {
	for i := len(c.scopes) - 1; i >= 0; i-- {
		if k, ok := c.scopes[i][n]; ok {
			return k, true
		}
	}
	return "", false
}
func (c *ttCtx) declare(n, kind string) {
	if n != "_" {
		c.scopes[len(c.scopes)-1][n] = kind
	}
}

// assign: `=` to an existing variable keeps its declared kind
func (c *ttCtx) bindVar(at ast.Node, id *ast.Ident, kind string, define bool) {
	if id.Name == "_" {
		return
	}
	if define {
		if _, here := c.scopes[len(c.scopes)-1][id.Name]; !here {
			c.declare(id.Name, kind)
		}
		return
	}
	if _, ok := c.lookup(id.Name); !ok {
		c.fail(at, "assignment to %s, which is not a local variable", id.Name)
	}
}

// fallthroughCheck: leaving a nested block by falling through — a variable declared in it must not
// shadow an outer one (the rest of the enclosing block is generated inside the binder)
func (c *ttCtx) fallthroughCheck(at ast.Node) {
	top := c.scopes[len(c.scopes)-1]
	var names []string
	for n := range top {
		names = append(names, n)
	}
	sort.Strings(names)
	for _, n := range names {
		for i := len(c.scopes) - 2; i >= 0; i-- {
			if _, ok := c.scopes[i][n]; ok {
				c.fail(at, "the block declares %s, which shadows an outer variable, and falls through", n)
			}
		}
	}
}

// ---- dropped statements ----

func ttDroppedPkg(p string) bool { return p == "metrics" || p == "timer" || p == "log" || p == "fmt" }

var ttConvNames = map[string]bool{"uint64": true, "uint32": true, "uint16": true, "uint8": true, "byte": true, "uint": true,
	"int": true, "int64": true, "int32": true, "string": true, "float64": true}

func (c *ttCtx) isPkg(id *ast.Ident) bool {
	_, local := c.lookup(id.Name)
	return !local && id.Name != c.recv
}

// droppable: an expression that may disappear with the statement around it: no effect, cannot panic
func (c *ttCtx) droppable(e ast.Expr) bool {
	ok := true
	ast.Inspect(e, func(n ast.Node) bool {
		switch x := n.(type) {
		case *ast.IndexExpr, *ast.SliceExpr, *ast.TypeAssertExpr, *ast.StarExpr, *ast.FuncLit, *ast.CompositeLit:
			ok = false
		case *ast.UnaryExpr:
			if x.Op == token.ARROW || x.Op == token.AND {
				ok = false
			}
		case *ast.BinaryExpr:
			if x.Op == token.QUO || x.Op == token.REM || x.Op == token.SHL || x.Op == token.SHR {
				ok = false
			}
		case *ast.CallExpr:
			switch f := x.Fun.(type) {
			case *ast.Ident:
				if !(f.Name == "len" || f.Name == "cap" || ttConvNames[f.Name]) || !c.isPkg(f) {
					ok = false
				}
			case *ast.SelectorExpr:
				id, isId := f.X.(*ast.Ident)
				if !isId {
					ok = false
				} else if c.isPkg(id) {
					if !ttDroppedPkg(id.Name) {
						ok = false
					}
				} else if !(f.Sel.Name == "Error" && len(x.Args) == 0) {
					ok = false
				}
			default:
				ok = false
			}
		}
		return ok
	})
	return ok
}

func (c *ttCtx) droppedCall(e ast.Expr) bool {
	call, ok := e.(*ast.CallExpr)
	if !ok {
		return false
	}
	sel, ok := call.Fun.(*ast.SelectorExpr)
	if !ok {
		return false
	}
	id, ok := sel.X.(*ast.Ident)
	return ok && c.isPkg(id) && ttDroppedPkg(id.Name)
}

func (c *ttCtx) isDropped(s ast.Stmt) bool {
	switch x := s.(type) {
	case nil:
		return true
	case *ast.EmptyStmt:
		return true
	case *ast.ExprStmt:
		return c.droppedCall(x.X) && c.droppable(x.X)
	case *ast.BlockStmt:
		for _, t := range x.List {
			if !c.isDropped(t) {
				return false
			}
		}
		return true
	case *ast.IfStmt:
		return x.Init == nil && c.droppable(x.Cond) && c.isDropped(x.Body) && c.isDropped(x.Else)
	}
	return false
}

// ---- expressions ----

func ttBytesLit(s string) string {
	plain := true
	for i := 0; i < len(s); i++ {
		if s[i] < 32 || s[i] > 126 || s[i] == '"' {
			plain = false
		}
	}
	if plain {
		return "(asc \"" + s + "\")"
	}
	return fmt.Sprintf("(hx \"%x\")", s)
}

func (c *ttCtx) isReader(e ast.Expr) bool {
	switch x := e.(type) {
	case *ast.ParenExpr:
		return c.isReader(x.X)
	case *ast.Ident:
		k, ok := c.lookup(x.Name)
		return ok && k == "reader"
	case *ast.SelectorExpr:
		id, ok := x.X.(*ast.Ident)
		return ok && c.recv != "" && id.Name == c.recv && c.readerFields[x.Sel.Name]
	}
	return false
}

func (c *ttCtx) num(e ast.Expr) string {
	t, k := c.expr(e)
	if !ttNumeric(k) {
		c.fail(e, "%s is not an integer value", c.src(e))
	}
	return t
}

func (c *ttCtx) typed(e ast.Expr, kind string) string {
	t, k := c.expr(e)
	if k != kind && !(ttNumeric(kind) && ttNumeric(k)) {
		c.fail(e, "%s: a value of kind %s where %s was expected", c.src(e), k, kind)
	}
	return t
}

func (c *ttCtx) guard(at ast.Node, g string) {
	if c.noGuards != "" {
		c.fail(at, "an index or slice expression inside %s", c.noGuards)
	}
	for _, h := range c.guards {
		if h == g {
			return
		}
	}
	c.guards = append(c.guards, g)
}

// take returns the checks collected since the last call
func (c *ttCtx) take() []string {
	gs := c.guards
	c.guards = nil
	return gs
}

// ttWrap puts the checks gs in front of body
func ttWrap(gs []string, ind, body string) string {
	if len(gs) == 0 {
		return body
	}
	pre, post := "", ""
	for _, g := range gs {
		pre += ind + g + " (\n"
		post += ")"
	}
	return pre + body + post
}

func (c *ttCtx) expr(e ast.Expr) (string, string) {
	switch x := e.(type) {
	case *ast.ParenExpr:
		return c.expr(x.X)
	case *ast.BasicLit:
		switch x.Kind {
		case token.INT:
			v, err := strconv.ParseUint(strings.ReplaceAll(x.Value, "_", ""), 0, 64)
			if err != nil {
				c.fail(x, "integer literal %s", x.Value)
			}
			return strconv.FormatUint(v, 10), "lit"
		case token.CHAR:
			r, _, _, err := strconv.UnquoteChar(x.Value[1:len(x.Value)-1], '\'')
			if err != nil {
				c.fail(x, "character literal %s", x.Value)
			}
			return strconv.FormatUint(uint64(r), 10), "lit"
		case token.STRING:
			s, err := strconv.Unquote(x.Value)
			if err != nil {
				c.fail(x, "string literal %s", x.Value)
			}
			return ttBytesLit(s), "bytes"
		}
	case *ast.Ident:
		if k, ok := c.lookup(x.Name); ok {
			if k == "reader" {
				c.fail(x, "the reader %s used as a value", x.Name)
			}
			return ttName(x.Name), k
		}
		if x.Name == "true" || x.Name == "false" {
			return x.Name, "bool"
		}
		c.fail(x, "identifier %s", x.Name)
	case *ast.SelectorExpr:
		if id, ok := x.X.(*ast.Ident); ok && c.isPkg(id) && id.Name == "common" {
			n := x.Sel.Name
			if strings.HasPrefix(n, "Request") && c.rtNames["Rt"+n[7:]] {
				return "Rt" + n[7:], "rt"
			}
			if strings.HasPrefix(n, "Err") && c.errNames["E"+n[3:]] {
				return "(Some E" + n[3:] + ")", "err"
			}
		}
	case *ast.UnaryExpr:
		if x.Op == token.NOT {
			return "(negb " + c.typed(x.X, "bool") + ")", "bool"
		}
	case *ast.BinaryExpr:
		return c.binary(x)
	case *ast.IndexExpr:
		xs, k := c.expr(x.X)
		if k != "strs" {
			c.fail(x, "index into %s, which is not a []string / [][]byte", c.src(x.X))
		}
		i := c.num(x.Index)
		c.guard(x, fmt.Sprintf("chk_index %s %s", xs, i))
		return fmt.Sprintf("(idx %s %s)", xs, i), "bytes"
	case *ast.SliceExpr:
		xs, k := c.expr(x.X)
		if x.High != nil || x.Max != nil || x.Low == nil || !(k == "strs" || k == "u32s" || k == "bools" || k == "bytes") {
			c.fail(x, "slice expression %s (only x[i:] on a slice)", c.src(x))
		}
		i := c.num(x.Low)
		c.guard(x, fmt.Sprintf("chk_slice_from %s %s", xs, i))
		return fmt.Sprintf("(slice_from %s %s)", xs, i), k
	case *ast.CompositeLit:
		return c.composite(x), "req"
	case *ast.CallExpr:
		return c.call(x)
	}
	c.fail(e, "expression %s", c.src(e))
	return "", ""
}

func (c *ttCtx) isNil(e ast.Expr) bool {
	id, ok := e.(*ast.Ident)
	if !ok || id.Name != "nil" {
		return false
	}
	_, local := c.lookup("nil")
	return !local
}

func (c *ttCtx) binary(x *ast.BinaryExpr) (string, string) {
	switch x.Op {
	case token.LAND, token.LOR:
		l := c.typed(x.X, "bool")
		saved := c.noGuards
		c.noGuards = "the right operand of " + x.Op.String()
		r := c.typed(x.Y, "bool")
		c.noGuards = saved
		f := "andb"
		if x.Op == token.LOR {
			f = "orb"
		}
		return fmt.Sprintf("(%s %s %s)", f, l, r), "bool"
	case token.EQL, token.NEQ:
		a, b := x.X, x.Y
		if c.isNil(a) {
			a, b = b, a
		}
		t := ""
		if c.isNil(b) {
			at, k := c.expr(a)
			if k != "err" {
				c.fail(x, "%s: comparison with nil of a value that is not an error", c.src(x))
			}
			if x.Op == token.EQL {
				return "(err_nil " + at + ")", "bool"
			}
			return "(err_nonnil " + at + ")", "bool"
		}
		at, ak := c.expr(a)
		bt, bk := c.expr(b)
		switch {
		case ak == "bytes" && bk == "bytes":
			t = fmt.Sprintf("(str_eqb %s %s)", at, bt)
		case ttNumeric(ak) && ttNumeric(bk), ak == "rt" && bk == "rt":
			t = fmt.Sprintf("(%s =? %s)", at, bt)
		case ak == "err" && bk == "err":
			// err == common.ErrX
			var v, cst string
			if strings.HasPrefix(bt, "(Some E") {
				v, cst = at, bt
			} else if strings.HasPrefix(at, "(Some E") {
				v, cst = bt, at
			} else {
				c.fail(x, "%s: comparison of two error variables", c.src(x))
			}
			t = fmt.Sprintf("(err_is %s %s)", v, strings.TrimSuffix(strings.TrimPrefix(cst, "(Some "), ")"))
		default:
			c.fail(x, "%s: comparison of a %s with a %s", c.src(x), ak, bk)
		}
		if x.Op == token.NEQ {
			return "(negb " + t + ")", "bool"
		}
		return t, "bool"
	case token.LSS, token.LEQ, token.GTR, token.GEQ:
		at, ak := c.expr(x.X)
		bt, bk := c.expr(x.Y)
		natlike := func(k string) bool { return k == "nat" || k == "lit" || k == "uint" }
		if !natlike(ak) || !natlike(bk) {
			c.fail(x, "%s: ordering of values that are not len(..), literals or unsigned", c.src(x))
		}
		switch x.Op {
		case token.LSS:
			return fmt.Sprintf("(%s <? %s)", at, bt), "bool"
		case token.LEQ:
			return fmt.Sprintf("(%s <=? %s)", at, bt), "bool"
		case token.GTR:
			return fmt.Sprintf("(%s <? %s)", bt, at), "bool"
		default:
			return fmt.Sprintf("(%s <=? %s)", bt, at), "bool"
		}
	}
	c.fail(x, "operator %s in %s", x.Op.String(), c.src(x))
	return "", ""
}

func (c *ttCtx) composite(x *ast.CompositeLit) string {
	sel, ok := x.Type.(*ast.SelectorExpr)
	var fields []ttField
	if ok {
		if id, isId := sel.X.(*ast.Ident); isId && c.isPkg(id) && id.Name == "common" {
			fields, ok = c.structs[sel.Sel.Name]
		} else {
			ok = false
		}
	}
	if !ok {
		c.fail(x, "composite literal %s (not a request struct of common/datatypes.go)", c.src(x.Type))
	}
	given := map[string]string{}
	for _, el := range x.Elts {
		kv, isKV := el.(*ast.KeyValueExpr)
		if !isKV {
			c.fail(el, "composite literal of %s without field names", sel.Sel.Name)
		}
		key, isId := kv.Key.(*ast.Ident)
		if !isId {
			c.fail(el, "composite literal key %s", c.src(kv.Key))
		}
		found := false
		for _, f := range fields {
			if f.name == key.Name {
				found = true
				k := ttKind(f.typ)
				if k == "" {
					c.fail(el, "field %s of %s has type %s", f.name, sel.Sel.Name, f.typ)
				}
				given[f.name] = c.typed(kv.Value, k)
			}
		}
		if !found {
			c.fail(el, "%s has no field %s in common/datatypes.go", sel.Sel.Name, key.Name)
		}
	}
	out := "(G" + sel.Sel.Name
	for _, f := range fields {
		if v, ok := given[f.name]; ok {
			out += " " + v
		} else if z := ttZero(ttKind(f.typ)); z != "" {
			out += " " + z
		} else {
			c.fail(x, "field %s of %s has type %s", f.name, sel.Sel.Name, f.typ)
		}
	}
	return out + ")"
}

func (c *ttCtx) call(x *ast.CallExpr) (string, string) {
	if x.Ellipsis != token.NoPos {
		c.fail(x, "call with ... : %s", c.src(x))
	}
	switch f := x.Fun.(type) {
	case *ast.ArrayType:
		if f.Len == nil && types.ExprString(f.Elt) == "byte" && len(x.Args) == 1 {
			return c.typed(x.Args[0], "bytes"), "bytes"
		}
	case *ast.Ident:
		if !c.isPkg(f) {
			break
		}
		switch f.Name {
		case "len":
			if len(x.Args) == 1 {
				t, k := c.expr(x.Args[0])
				if k == "bytes" || k == "strs" || k == "u32s" || k == "bools" {
					return "(len " + t + ")", "nat"
				}
			}
		case "string":
			if len(x.Args) == 1 {
				return c.typed(x.Args[0], "bytes"), "bytes"
			}
		case "uint32", "uint64", "uint", "int", "int64", "byte", "uint8", "uint16":
			if len(x.Args) == 1 {
				w := map[string]string{"uint32": "conv32", "uint64": "conv64", "uint": "conv64", "int": "conv64", "int64": "conv64",
					"byte": "conv8", "uint8": "conv8", "uint16": "conv16"}[f.Name]
				k := "uint"
				if f.Name == "int" || f.Name == "int64" {
					k = "int"
				}
				return fmt.Sprintf("(%s %s)", w, c.num(x.Args[0])), k
			}
		case "make":
			if at, ok := x.Args[0].(*ast.ArrayType); ok && at.Len == nil && len(x.Args) == 2 {
				switch types.ExprString(at.Elt) {
				case "uint32":
					return "(mk_u32s " + c.num(x.Args[1]) + ")", "u32s"
				case "bool":
					return "(mk_bools " + c.num(x.Args[1]) + ")", "bools"
				case "byte":
					c.fail(x, "make([]byte, n) is only translated as the statement `x := make([]byte, n)`")
				}
			}
		case "append":
			if len(x.Args) == 2 {
				t, k := c.expr(x.Args[0])
				switch k {
				case "strs":
					return fmt.Sprintf("(%s ++ [%s])", t, c.typed(x.Args[1], "bytes")), k
				case "u32s":
					return fmt.Sprintf("(%s ++ [%s])", t, c.num(x.Args[1])), k
				case "bools":
					return fmt.Sprintf("(%s ++ [%s])", t, c.typed(x.Args[1], "bool")), k
				}
			}
		}
	case *ast.SelectorExpr:
		id, ok := f.X.(*ast.Ident)
		if !ok || !c.isPkg(id) {
			break
		}
		switch id.Name + "." + f.Sel.Name {
		case "strings.TrimSpace":
			if len(x.Args) == 1 {
				return "(str_TrimSpace " + c.typed(x.Args[0], "bytes") + ")", "bytes"
			}
		case "strings.Split":
			if len(x.Args) == 2 {
				if lit, isLit := x.Args[1].(*ast.BasicLit); isLit && lit.Kind == token.STRING {
					if s, err := strconv.Unquote(lit.Value); err == nil && len(s) == 1 {
						return fmt.Sprintf("(str_Split1 %s %d)", c.typed(x.Args[0], "bytes"), s[0]), "strs"
					}
				}
				c.fail(x, "strings.Split with a separator that is not a one-byte literal: %s", c.src(x))
			}
		}
	}
	c.fail(x, "call %s is not given a meaning", c.src(x))
	return "", ""
}

// ---- binders: calls that touch the reader or return an error ----

// effect recognises such a call; head is the Gallina head up to the continuation, kinds the kinds
// of the Go results, rebind the variable (the buffer) that is bound first in the continuation
func (c *ttCtx) effect(e ast.Expr) (head string, kinds []string, rebind string, ok bool) {
	call, isCall := e.(*ast.CallExpr)
	if !isCall {
		return
	}
	switch f := call.Fun.(type) {
	case *ast.Ident:
		if f.Name == "make" && c.isPkg(f) && len(call.Args) >= 1 {
			if at, isArr := call.Args[0].(*ast.ArrayType); isArr && at.Len == nil && types.ExprString(at.Elt) == "byte" {
				if len(call.Args) != 2 {
					c.fail(call, "make([]byte, n, cap)")
				}
				return "mk_buf " + c.num(call.Args[1]), []string{"bytes"}, "", true
			}
		}
	case *ast.SelectorExpr:
		if c.isReader(f.X) {
			if f.Sel.Name == "ReadString" && len(call.Args) == 1 {
				return "rd_ReadString " + c.num(call.Args[0]), []string{"bytes", "err"}, "", true
			}
			c.fail(call, "method %s of the bufio.Reader is not given a meaning", f.Sel.Name)
		}
		id, isId := f.X.(*ast.Ident)
		if !isId || !c.isPkg(id) {
			return
		}
		switch id.Name + "." + f.Sel.Name {
		case "strconv.ParseUint":
			if len(call.Args) == 3 {
				return fmt.Sprintf("str_ParseUint %s %s %s", c.typed(call.Args[0], "bytes"), c.num(call.Args[1]), c.num(call.Args[2])),
					[]string{"uint", "err"}, "", true
			}
		case "io.ReadAtLeast", "io.ReadFull":
			want := 3
			if f.Sel.Name == "ReadFull" {
				want = 2
			}
			if len(call.Args) != want || !c.isReader(call.Args[0]) {
				c.fail(call, "%s: not a read from the connection's reader", c.src(call))
			}
			buf, isBuf := call.Args[1].(*ast.Ident)
			if !isBuf {
				c.fail(call, "%s: the buffer is not a local variable", c.src(call))
			}
			if k, _ := c.lookup(buf.Name); k != "bytes" {
				c.fail(call, "%s: the buffer is not a local []byte", c.src(call))
			}
			min := "(len " + ttName(buf.Name) + ")"
			if want == 3 {
				min = c.num(call.Args[2])
			}
			return fmt.Sprintf("rd_ReadAtLeast %s %s", ttName(buf.Name), min), []string{"int", "err"}, buf.Name, true
		}
	}
	return
}

// ---- statements ----

func (c *ttCtx) block(list []ast.Stmt, at ast.Node, rest func() string, ind string) string {
	c.push()
	defer c.pop()
	return c.seq(list, 0, at, rest, ind)
}

func (c *ttCtx) seq(list []ast.Stmt, i int, at ast.Node, rest func() string, ind string) string {
	if i == len(list) {
		if rest == nil {
			c.fail(at, "control reaches the end of the function")
		}
		c.fallthroughCheck(at)
		return rest()
	}
	s := list[i]
	next := func() string { return c.seq(list, i+1, at, rest, ind) }
	if c.isDropped(s) {
		return next()
	}
	if len(c.guards) != 0 {
		c.fail(s, "internal: pending checks")
	}
	switch x := s.(type) {
	case *ast.BlockStmt:
		return c.block(x.List, x, next, ind)

	case *ast.ExprStmt:
		if head, kinds, rebind, ok := c.effect(x.X); ok {
			bs := ""
			if rebind != "" {
				bs = ttName(rebind) + " "
			}
			bs += strings.TrimSpace(strings.Repeat("_ ", len(kinds)))
			gs := c.take()
			return ttWrap(gs, ind, ind+head+" (fun "+bs+" =>\n"+next()+")")
		}
		c.fail(s, "statement %s", c.src(x.X))

	case *ast.DeclStmt:
		gd, ok := x.Decl.(*ast.GenDecl)
		if !ok || gd.Tok != token.VAR {
			c.fail(s, "declaration")
		}
		out := ""
		for _, sp := range gd.Specs {
			vs := sp.(*ast.ValueSpec)
			if vs.Type == nil || len(vs.Values) != 0 && len(vs.Values) != len(vs.Names) {
				c.fail(s, "var declaration without a type")
			}
			k := ttKind(types.ExprString(vs.Type))
			if ttCoqType(k) == "" {
				c.fail(s, "var of type %s", types.ExprString(vs.Type))
			}
			for j, n := range vs.Names {
				v := ttZero(k)
				if len(vs.Values) != 0 {
					v = c.typed(vs.Values[j], k)
				}
				out += fmt.Sprintf("%slet %s : %s := %s in\n", ind, ttName(n.Name), ttCoqType(k), v)
				c.declare(n.Name, k)
			}
		}
		gs := c.take()
		return ttWrap(gs, ind, out+next())

	case *ast.AssignStmt:
		if x.Tok != token.DEFINE && x.Tok != token.ASSIGN {
			c.fail(s, "assignment operator %s", x.Tok.String())
		}
		var lhs []*ast.Ident
		for _, l := range x.Lhs {
			id, ok := l.(*ast.Ident)
			if !ok {
				c.fail(s, "assignment to %s", c.src(l))
			}
			lhs = append(lhs, id)
		}
		define := x.Tok == token.DEFINE
		if len(x.Rhs) == 1 {
			if head, kinds, rebind, ok := c.effect(x.Rhs[0]); ok {
				if len(kinds) != len(lhs) {
					c.fail(s, "%s: %d results for %d variables", c.src(x.Rhs[0]), len(kinds), len(lhs))
				}
				bs := ""
				if rebind != "" {
					bs = ttName(rebind) + " "
				}
				for j, id := range lhs {
					if id.Name == rebind && rebind != "" {
						c.fail(s, "the buffer %s is also a result variable", rebind)
					}
					c.bindVar(s, id, kinds[j], define)
					if j > 0 {
						bs += " "
					}
					bs += ttName(id.Name)
				}
				gs := c.take()
				return ttWrap(gs, ind, ind+head+" (fun "+bs+" =>\n"+next()+")")
			}
			if call, isCall := x.Rhs[0].(*ast.CallExpr); isCall && c.droppedCall(call) {
				sel := call.Fun.(*ast.SelectorExpr)
				if sel.X.(*ast.Ident).Name == "timer" && sel.Sel.Name == "Now" && len(call.Args) == 0 && len(lhs) == 1 {
					c.bindVar(s, lhs[0], "uint", define)
					return ind + "let " + ttName(lhs[0].Name) + " := time_now in\n" + next()
				}
				c.fail(s, "the result of %s is assigned", c.src(call))
			}
		}
		if len(lhs) != 1 || len(x.Rhs) != 1 {
			c.fail(s, "assignment of %d values to %d variables", len(x.Rhs), len(lhs))
		}
		t, k := c.expr(x.Rhs[0])
		if ttCoqType(k) == "" {
			c.fail(s, "assignment of %s", c.src(x.Rhs[0]))
		}
		if k == "lit" || k == "nat" {
			k = "int"
		}
		if !define && lhs[0].Name != "_" {
			dk, ok := c.lookup(lhs[0].Name)
			if !ok {
				c.fail(s, "assignment to %s, which is not a local variable", lhs[0].Name)
			}
			if dk != k && !(ttNumeric(dk) && ttNumeric(k)) {
				c.fail(s, "assignment of a %s to %s, a %s", k, lhs[0].Name, dk)
			}
		}
		c.bindVar(s, lhs[0], k, define)
		gs := c.take()
		return ttWrap(gs, ind, ind+"let "+ttName(lhs[0].Name)+" := "+t+" in\n"+next())

	case *ast.IfStmt:
		if x.Init != nil {
			c.fail(s, "if with an init statement")
		}
		cond := c.typed(x.Cond, "bool")
		gs := c.take()
		thenT := c.block(x.Body.List, x.Body, next, ind+"  ")
		elseT := ""
		switch e := x.Else.(type) {
		case nil:
			elseT = next()
		case *ast.BlockStmt:
			elseT = c.block(e.List, e, next, ind+"  ")
		default:
			elseT = c.block([]ast.Stmt{e}, e, next, ind+"  ")
		}
		return ttWrap(gs, ind, fmt.Sprintf("%sif %s then\n%s\n%selse\n%s", ind, cond, thenT, ind, elseT))

	case *ast.SwitchStmt:
		if x.Init != nil || x.Tag == nil {
			c.fail(s, "switch with an init statement or without a tag")
		}
		tag := c.typed(x.Tag, "bytes")
		gs := c.take()
		out := ind + "let switch_tag := " + tag + " in\n"
		var def *ast.CaseClause
		first := true
		for _, cl := range x.Body.List {
			cc := cl.(*ast.CaseClause)
			if cc.List == nil {
				def = cc
				continue
			}
			cond := ""
			saved := c.noGuards
			c.noGuards = "a case expression"
			for j, ce := range cc.List {
				t := "(str_eqb switch_tag " + c.typed(ce, "bytes") + ")"
				if j == 0 {
					cond = t
				} else {
					cond = "(orb " + cond + " " + t + ")"
				}
			}
			c.noGuards = saved
			kw := "else if "
			if first {
				kw = "if "
				first = false
			}
			out += ind + kw + cond + " then\n" + c.block(cc.Body, cc, next, ind+"  ") + "\n"
		}
		var defT string
		if def != nil {
			defT = c.block(def.Body, def, next, ind+"  ")
		} else {
			defT = next()
		}
		if first {
			out += defT
		} else {
			out += ind + "else\n" + defT
		}
		return ttWrap(gs, ind, out)

	case *ast.RangeStmt:
		if x.Tok != token.DEFINE || x.Value == nil || x.Key != nil && !lpIsIdent(x.Key, "_") {
			c.fail(s, "range loop that is not `for _, v := range xs`")
		}
		v, ok := x.Value.(*ast.Ident)
		if !ok || v.Name == "_" {
			c.fail(s, "range loop without a value variable")
		}
		xs, k := c.expr(x.X)
		ek := map[string]string{"strs": "bytes", "u32s": "uint", "bools": "bool"}[k]
		if ek == "" {
			c.fail(s, "range over %s", c.src(x.X))
		}
		gs := c.take()
		// the body: assignments to one outer variable (and dropped statements)
		c.push()
		c.declare(v.Name, ek)
		saved := c.noGuards
		c.noGuards = "a loop body"
		acc, body := "", ""
		for _, b := range x.Body.List {
			if c.isDropped(b) {
				continue
			}
			as, isAs := b.(*ast.AssignStmt)
			if !isAs || as.Tok != token.ASSIGN || len(as.Lhs) != 1 || len(as.Rhs) != 1 {
				c.fail(b, "loop body statement that is not `acc = e`")
			}
			id, isId := as.Lhs[0].(*ast.Ident)
			if !isId || id.Name == "_" || id.Name == v.Name || acc != "" && id.Name != acc {
				c.fail(b, "loop body assigns %s (one outer variable only)", c.src(as.Lhs[0]))
			}
			dk, declared := c.lookup(id.Name)
			if !declared {
				c.fail(b, "loop body assigns %s, which is not a local variable", id.Name)
			}
			acc = id.Name
			body += fmt.Sprintf("%s  let %s := %s in\n", ind, ttName(acc), c.typed(as.Rhs[0], dk))
		}
		c.noGuards = saved
		c.pop()
		if acc == "" {
			return ttWrap(gs, ind, next())
		}
		a := ttName(acc)
		return ttWrap(gs, ind, fmt.Sprintf("%slet %s := range_fold (fun %s %s =>\n%s%s  %s) %s %s in\n%s", ind, a, a, ttName(v.Name), body, ind, a, xs, a, next()))

	case *ast.ReturnStmt:
		if len(x.Results) == 1 {
			call, isCall := x.Results[0].(*ast.CallExpr)
			if !isCall {
				c.fail(s, "return of one value that is not a call")
			}
			name := ""
			switch f := call.Fun.(type) {
			case *ast.Ident:
				if c.isPkg(f) {
					name = f.Name
				}
			case *ast.SelectorExpr:
				if id, ok := f.X.(*ast.Ident); ok && c.recv != "" && id.Name == c.recv {
					name = f.Sel.Name
				}
			}
			fd, known := c.funcs[name]
			if !known {
				c.fail(s, "return %s: not a function of the file", c.src(call))
			}
			c.need(s, name)
			var params []*ast.Field
			for _, p := range fd.Type.Params.List {
				n := len(p.Names)
				if n == 0 {
					n = 1
				}
				for j := 0; j < n; j++ {
					params = append(params, p)
				}
			}
			if len(params) != len(call.Args) || call.Ellipsis != token.NoPos {
				c.fail(s, "return %s: wrong number of arguments", c.src(call))
			}
			out := name + "_src"
			for j, a := range call.Args {
				k := ttKind(types.ExprString(params[j].Type))
				if k == "reader" {
					if !c.isReader(a) {
						c.fail(a, "%s passed where the connection's reader is expected", c.src(a))
					}
					continue
				}
				out += " " + c.typed(a, k)
			}
			return ttWrap(c.take(), ind, ind+"("+out+")")
		}
		if len(x.Results) != 4 {
			c.fail(s, "return of %d values", len(x.Results))
		}
		g := ""
		if c.isNil(x.Results[0]) {
			g = "GNil"
		} else if cl, ok := x.Results[0].(*ast.CompositeLit); ok {
			g = c.composite(cl)
		} else {
			c.fail(x.Results[0], "returned request %s (nil or a composite literal expected)", c.src(x.Results[0]))
		}
		rt := c.typed(x.Results[1], "rt")
		st := c.num(x.Results[2])
		er := "None"
		if !c.isNil(x.Results[3]) {
			er = c.typed(x.Results[3], "err")
		}
		return ttWrap(c.take(), ind, fmt.Sprintf("%sgo_return %s %s %s %s", ind, g, rt, st, er))
	}
	c.fail(s, "statement of type %T", s)
	return ""
}

// need: translate the callee first (its definition comes before the caller's)
func (c *ttCtx) need(at ast.Node, name string) {
	switch c.state[name] {
	case 1:
		c.fail(at, "recursive call of %s", name)
	case 0:
		saved := *c
		c.translate(name)
		c.recv, c.scopes, c.guards, c.noGuards = saved.recv, saved.scopes, saved.guards, saved.noGuards
	}
	if c.state[name] != 2 {
		c.fail(at, "calls %s, which could not be translated", name)
	}
}

func (c *ttCtx) translate(name string) {
	fd := c.funcs[name]
	c.state[name] = 1
	c.recv, c.scopes, c.guards, c.noGuards = "", nil, nil, ""
	what := "func " + name
	defer func() {
		if r := recover(); r != nil {
			f, ok := r.(ttFail)
			if !ok {
				panic(r)
			}
			c.state[name] = 3
			c.defs[name] = fmt.Sprintf("(* %s could not be translated: %s *)\n", what, f.msg)
			c.order = append(c.order, name)
		}
	}()
	c.push()
	if fd.Recv != nil {
		what = fmt.Sprintf("func (%s) %s", types.ExprString(fd.Recv.List[0].Type), name)
		if len(fd.Recv.List[0].Names) == 1 {
			c.recv = fd.Recv.List[0].Names[0].Name
		}
	}
	res := fd.Type.Results
	var rts []string
	if res != nil {
		for _, r := range res.List {
			n := len(r.Names)
			if n == 0 {
				n = 1
			}
			if len(r.Names) != 0 {
				c.fail(fd, "named results")
			}
			for j := 0; j < n; j++ {
				rts = append(rts, types.ExprString(r.Type))
			}
		}
	}
	okReq := false
	if len(rts) == 4 {
		if rts[0] == "common.Request" {
			okReq = true
		} else if strings.HasPrefix(rts[0], "common.") {
			_, okReq = c.structs[rts[0][7:]]
		}
	}
	if !okReq || rts[1] != "common.RequestType" || rts[2] != "uint64" || rts[3] != "error" {
		c.fail(fd, "the results (%s) are not (common.Request, common.RequestType, uint64, error)", strings.Join(rts, ", "))
	}
	params := ""
	for _, p := range fd.Type.Params.List {
		gt := types.ExprString(p.Type)
		k := ttKind(gt)
		if k != "reader" && ttCoqType(k) == "" {
			c.fail(p, "parameter of type %s", gt)
		}
		for _, n := range p.Names {
			c.declare(n.Name, k)
			if k != "reader" {
				params += fmt.Sprintf(" (%s : %s)", ttName(n.Name), ttCoqType(k))
			}
		}
	}
	body := c.block(fd.Body.List, fd.Body, nil, "  ")
	pos := c.fs.Position(fd.Pos())
	c.defs[name] = fmt.Sprintf("(* protocol/textprot/%s: %s *)\nDefinition %s_src%s : M :=\n%s.\n", filepath.Base(pos.Filename), what, name, params, body)
	c.state[name] = 2
	c.order = append(c.order, name)
}

// ttStructs reads the request structs of common/datatypes.go: field names, order and types
func ttStructs(fs *token.FileSet, repo string) (map[string][]ttField, error) {
	af, err := parser.ParseFile(fs, filepath.Join(repo, "common", "datatypes.go"), nil, 0)
	if err != nil {
		return nil, err
	}
	out := map[string][]ttField{}
	for _, d := range af.Decls {
		gd, ok := d.(*ast.GenDecl)
		if !ok || gd.Tok != token.TYPE {
			continue
		}
		for _, sp := range gd.Specs {
			ts := sp.(*ast.TypeSpec)
			st, ok := ts.Type.(*ast.StructType)
			if !ok || !strings.HasSuffix(ts.Name.Name, "Request") {
				continue
			}
			fields := []ttField{}
			for _, f := range st.Fields.List {
				for _, n := range f.Names {
					fields = append(fields, ttField{n.Name, types.ExprString(f.Type)})
				}
				if len(f.Names) == 0 {
					fields = append(fields, ttField{"(embedded)", types.ExprString(f.Type)})
				}
			}
			out[ts.Name.Name] = fields
		}
	}
	return out, nil
}

func texttrans(e *env) {
	repo := "/repo"
	if v := os.Getenv("VERIF_REPO"); v != "" {
		repo = v
	}
	fs := token.NewFileSet()
	c := &ttCtx{fs: fs, rtNames: map[string]bool{}, errNames: map[string]bool{}, funcs: map[string]*ast.FuncDecl{},
		state: map[string]int{}, defs: map[string]string{}, readerFields: map[string]bool{}, recvType: "TextParser"}
	for _, r := range reqTypes {
		c.rtNames[r.name] = true
	}
	for _, r := range errList {
		c.errNames[r.name] = true
	}
	var problems []string
	structs, err := ttStructs(fs, repo)
	if err != nil {
		problems = append(problems, err.Error())
	}
	c.structs = structs
	af, err := parser.ParseFile(fs, filepath.Join(repo, "protocol", "textprot", "parser.go"), nil, 0)
	if err != nil {
		problems = append(problems, err.Error())
	} else {
		for _, d := range af.Decls {
			switch x := d.(type) {
			case *ast.GenDecl:
				for _, sp := range x.Specs {
					ts, ok := sp.(*ast.TypeSpec)
					if !ok || ts.Name.Name != c.recvType {
						continue
					}
					if st, ok := ts.Type.(*ast.StructType); ok {
						for _, f := range st.Fields.List {
							if types.ExprString(f.Type) == "*bufio.Reader" {
								for _, n := range f.Names {
									c.readerFields[n.Name] = true
								}
							}
						}
					}
				}
			case *ast.FuncDecl:
				if x.Body == nil {
					continue
				}
				if x.Recv == nil {
					c.funcs[x.Name.Name] = x
				} else if len(x.Recv.List) == 1 && strings.TrimPrefix(types.ExprString(x.Recv.List[0].Type), "*") == c.recvType {
					c.funcs[x.Name.Name] = x
				}
			}
		}
	}

	var sb strings.Builder
	sb.WriteString("(* GENERATED by harness texttrans from the SOURCE of /repo/protocol/textprot/parser.go (request structs:\n" +
		"   /repo/common/datatypes.go) — do not edit. TextParser.Parse and the functions it calls as Gallina terms;\n" +
		"   gen/TextParserLink.v proves parse_text_src equal to the model parse_text of proto/TextReq.v.\n\n" +
		ttRules + " *)\n")
	sb.WriteString("From Coq Require Import String.\n" +
		"From Rend Require Import base.Bytes gen.Consts_gen gen.GoSem spec.MapSpec orca.Types orca.OrcaSem\n" +
		"  proto.Resp proto.ReqCommon proto.TextReq proto.TextSem.\n" +
		"Open Scope N_scope.\n\n")
	for _, p := range problems {
		fmt.Fprintf(&sb, "(* %s *)\n", strings.ReplaceAll(p, "*)", "* )"))
	}
	if fd, ok := c.funcs["Parse"]; !ok || fd.Recv == nil {
		sb.WriteString("(* method Parse of TextParser not found in protocol/textprot/parser.go *)\n")
	} else {
		c.translate("Parse")
		if c.state["Parse"] != 2 {
			// Parse failed: still translate the other functions of the file with the Parse result
			// signature, in source order, so that the lemmas about them keep compiling
			var rest []string
			for n := range c.funcs {
				if res := c.funcs[n].Type.Results; c.state[n] == 0 && c.funcs[n].Recv == nil && res != nil && len(res.List) == 4 {
					rest = append(rest, n)
				}
			}
			sort.Slice(rest, func(i, j int) bool { return c.funcs[rest[i]].Pos() < c.funcs[rest[j]].Pos() })
			for _, n := range rest {
				if c.state[n] == 0 {
					c.translate(n)
				}
			}
		}
		for _, n := range c.order {
			sb.WriteString(c.defs[n] + "\n")
		}
		if c.state["Parse"] == 2 {
			sb.WriteString("(* TextParser.Parse on the rest of the stream *)\n" +
				"Definition parse_text_src : bytes -> option pout := Parse_src.\n")
		} else {
			sb.WriteString("(* parse_text_src is not defined: Parse could not be translated *)\n")
		}
	}
	root := os.Getenv("VERIF_ROOT")
	if root == "" {
		root = "/verif"
	}
	dir := filepath.Join(root, "coq", "gen")
	if e.out != "" && e.out != "." {
		dir = e.out
	}
	writeIfChanged(filepath.Join(dir, "TextParser_gen.v"), []byte(sb.String()))
	if c.state["Parse"] != 2 {
		fmt.Fprintln(os.Stderr, "texttrans: Parse could not be translated (see TextParser_gen.v)")
	}
}
