package main

import (
	"bytes"
	"encoding/json"
	"fmt"
	"os"
	"time"

	"verifharness/fakemc"
	"verifharness/gal"
	"verifharness/rig"
	"verifharness/stack"
)

func init() {
	commands["c10"] = func(e *env) { c10(e, false) }
	// c10t: the direct handlers with the reply cut one byte before its end (the header arrives,
	// the body - error text or value - does not): Faults.v has no such fault, so these runs are
	// judged by the oracles alone (check10c), like c10c
	commands["c10t"] = func(e *env) { tailOnly = true; c10(e, false) }
	// c10c: the same enumeration with the chunked handler as L1 and values of several chunks;
	// judged by the oracles alone (check10c)
	commands["c10c"] = func(e *env) { c10(e, true) }
	// c10b: both tiers served by the batching handler (handlers/memcached/batched) over unix
	// sockets, one pool per tier shared by all the cases of the run as in a deployment, so a
	// pooled connection wedged by one fault shows in the cases after it; judged by the oracles
	// alone (check10c): the pool retries gets by itself, which Faults.v does not model
	commands["c10b"] = func(e *env) { batchedTiers = true; sockEnv = e; c10(e, false) }
}

type fCase struct {
	Deploy string      `json:"deploy"` // l1only | l1l2
	Port   string      `json:"port"`   // main | batch
	Locked bool        `json:"locked"`
	Proto  string      `json:"proto"`
	L1     string      `json:"l1"`      // std | chunked
	Cold   bool        `json:"cold_l1"` // L1 emptied after the setup
	Setup  []stack.Req `json:"setup"`
	Cmd    stack.Req   `json:"cmd"`
	Tier   int         `json:"tier"` // 1 | 2
	Idx    int         `json:"idx"`  // backend request index within the command, on that tier
	Kind   string      `json:"fault"`
	Status uint16      `json:"status,omitempty"`
}

var faultStatuses = []uint16{0x01, 0x02, 0x03, 0x04, 0x05, 0x06, 0x20, 0x81, 0x82, 0x83, 0x84, 0x85, 0x86}

func faultGallina(c fCase) string {
	switch c.Kind {
	case "status":
		return gal.App("FStatus", gal.N(uint64(c.Status)))
	case "close-before":
		return gal.App("FBreak", "false")
	case "close-after-apply", "close-mid", "close-tail":
		return gal.App("FBreak", "true")
	default:
		return "FBreakAfterReply"
	}
}

func fakeFault(c fCase) fakemc.Fault {
	switch c.Kind {
	case "status":
		return fakemc.Fault{Kind: fakemc.FStatus, Status: c.Status}
	case "close-before":
		return fakemc.Fault{Kind: fakemc.FCloseBefore}
	case "close-after-apply":
		return fakemc.Fault{Kind: fakemc.FCloseAfterApply}
	case "close-mid":
		return fakemc.Fault{Kind: fakemc.FCloseMid}
	case "close-tail": // all of the reply but its last byte (a hit: header, extras and most of the value)
		return fakemc.Fault{Kind: fakemc.FCloseMid, Tail: 1}
	default:
		return fakemc.Fault{Kind: fakemc.FCloseAfterReply}
	}
}

const fNow = 1700000000

// hangAfter: how long a request may stay unanswered (and its connection open) before that counts
// as a hang. In-memory pipes answer in microseconds; the margin is for a loaded machine.
const hangAfter = 15 * time.Second

var fKeys = []string{"a", "bb"}

// runFault executes setup fault-free, then the command with the fault armed. Returns the
// per-tier request counts of the command (for enumeration) and the observations.
type fObs struct {
	reply  []byte
	closed bool
	hang   bool
	// hangAfter: the faulted command was answered, but the next command on the same client
	// connection got neither a reply nor a close
	hangAfter bool
	// staleAfter: that next command (a get of a never-stored key) was answered with something other than a miss
	staleAfter string
	n1, n2     int
	l1, l2     string
	reads      [][2][]byte
	crashed    string
}

var (
	c10bB     *stack.Backends
	c10bSock1 string
	c10bSock2 string
)

func runFault(c fCase, arm bool) fObs {
	var o fObs
	var b *stack.Backends
	if batchedTiers {
		if c10bB == nil {
			c10bB = stack.NewBackends()
			c10bSock1, c10bSock2 = newSock(sockEnv), newSock(sockEnv)
			if _, err := c10bB.L1.ListenUnix(c10bSock1); err != nil {
				rig.Die("listen: %v", err)
			}
			if _, err := c10bB.L2.ListenUnix(c10bSock2); err != nil {
				rig.Die("listen: %v", err)
			}
		}
		b = c10bB
		for _, k := range b.L1.Keys() {
			b.L1.Evict(k)
		}
		for _, k := range b.L2.Keys() {
			b.L2.Evict(k)
		}
	} else {
		b = stack.NewBackends()
	}
	b.L1.SetNow(fNow)
	b.L2.SetNow(fNow)
	orcaOf := func(port string) string {
		if c.Deploy == "l1only" {
			return "l1only"
		}
		if port == "batch" {
			return "l1l2batch"
		}
		return "l1l2"
	}
	cfg := stack.Config{Orca: orcaOf("main"), Locked: c.Locked, MultiRd: true, L1: c.L1, Proto: c.Proto}
	if batchedTiers {
		cfg.L1Sock, cfg.L2Sock = c10bSock1, c10bSock2
	}
	cn := stack.Dial(b, cfg)
	enc := func(r stack.Req) []byte {
		if c.Proto == "text" {
			return r.EncodeText()
		}
		return r.EncodeBin()
	}
	for _, r := range c.Setup {
		if _, closed, err := cn.Exchange(enc(r), 10*time.Second); err != nil || closed {
			o.crashed = "setup command failed"
			return o
		}
	}
	cn.Close()
	if c.Cold {
		for _, k := range b.L1.Keys() {
			b.L1.Evict(k)
		}
	}
	// the faulted command runs on its own connection (main or batch port)
	cfg.Orca = orcaOf(c.Port)
	cn = stack.Dial(b, cfg)
	s1, s2 := b.L1.Seq(), b.L2.Seq()
	if arm {
		if c.Tier == 1 {
			b.L1.SetFault(s1+c.Idx, fakeFault(c))
		} else {
			b.L2.SetFault(s2+c.Idx, fakeFault(c))
		}
	}
	reply, closed, err := cn.Exchange(enc(c.Cmd), hangAfter)
	o.reply, o.closed = reply, closed
	if err != nil {
		o.hang = true
	}
	o.n1, o.n2 = b.L1.Seq()-s1, b.L2.Seq()-s2
	b.L1.ClearFaults()
	b.L2.ClearFaults()
	if arm && !o.hang && !closed {
		// the same client connection afterwards: it answers or gets closed, it does not hang
		g := stack.Req{Kind: "get", Items: []stack.GItem{{Key: []byte("never-stored"), Opaque: 11}}} // a miss in every tier: no state change
		if c.Proto == "text" {
			g.Items[0].Opaque = 0
		}
		rep, cl, err := cn.Exchange(enc(g), hangAfter)
		if err != nil {
			o.hangAfter = true
		} else if !cl {
			// still open: the reply is that of THIS request - a miss - not a reply left over from the faulted command
			okMiss := false
			if c.Proto == "text" {
				okMiss = string(rep) == "END\r\n"
			} else {
				okMiss = len(rep) >= 24 && rep[0] == 0x81 && rep[6] == 0 && rep[7] == 1 && rep[12] == 0 && rep[13] == 0 && rep[14] == 0 && rep[15] == 11 &&
					int(rep[8])<<24|int(rep[9])<<16|int(rep[10])<<8|int(rep[11]) == len(rep)-24
			}
			if !okMiss {
				o.staleAfter = fmt.Sprintf("%q", trunc(string(rep), 80))
			}
		}
	}
	cn.Close()
	time.Sleep(2 * time.Millisecond)
	o.l1, o.l2 = stack.DumpGallina(b.L1), stack.DumpGallina(b.L2)
	// fault-free reads from a fresh main-port connection
	cfg.Orca = orcaOf("main")
	rc := stack.Dial(b, cfg)
	for _, k := range fKeys {
		g := stack.Req{Kind: "get", Items: []stack.GItem{{Key: []byte(k)}}}
		rep, cl, err := rc.Exchange(enc(g), hangAfter)
		if err != nil || cl {
			o.crashed = "a fresh connection could not read after the fault"
			break
		}
		o.reads = append(o.reads, [2][]byte{[]byte(k), rep})
	}
	rc.Close()
	return o
}

func fCaseGallina(c fCase, o fObs) string {
	p := "Bin"
	if c.Proto == "text" {
		p = "Text"
	}
	var ks, setup, reads []string
	for _, k := range fKeys {
		ks = append(ks, gal.Bytes([]byte(k)))
	}
	mainOrca := "l1l2"
	if c.Deploy == "l1only" {
		mainOrca = "l1only"
	}
	for _, r := range c.Setup {
		setup = append(setup, gal.Pair(cfgGallina(mainOrca, c.Locked), r.Gallina()))
	}
	for _, r := range o.reads {
		reads = append(reads, gal.Pair(gal.Bytes(r[0]), gal.Bytes(r[1])))
	}
	cmdOrca := mainOrca
	if c.Port == "batch" {
		cmdOrca = "l1l2batch"
	}
	tier := "L1"
	if c.Tier == 2 {
		tier = "L2"
	}
	return gal.App("mkC10", p, gal.Bool(c.Deploy != "l1only"), gal.Bool(c.Cold), gal.N(fNow), gal.List(ks), gal.List(setup),
		cfgGallina(cmdOrca, c.Locked), c.Cmd.Gallina(), tier, fmt.Sprintf("%d%%nat", c.Idx), faultGallina(c),
		gal.Bytes(o.reply), gal.Bool(o.closed), o.l1, o.l2, gal.List(reads))
}

var tailOnly bool

func c10(e *env, chunkedL1 bool) {
	w := rig.NewWriter(e.out, "C10", e.tier, e.seed)
	w.Shards = 16
	r := rig.NewRand(e.seed*31 + 10)
	thorough := e.tier == "thorough"
	var cases []fCase
	if rp := replayArg(e); rp != "" {
		var c fCase
		b, err := os.ReadFile(rp)
		if err != nil || json.Unmarshal(b, &c) != nil {
			rig.Die("cannot read replay input %s", rp)
		}
		cases = append(cases, c)
	} else {
		// programs: a setup that makes the key exist (or not), then every command kind
		mk := func(kind string, key string) stack.Req {
			q := stack.Req{Kind: kind, Key: []byte(key), Opaque: 7}
			switch kind {
			case "set", "add", "replace":
				q.Data, q.Flags, q.TTL = []byte("NEW"), 3, 0
				if chunkedL1 {
					q.Data = bytes.Repeat([]byte("NEW-"), 600) // three chunks
				}
			case "append", "prepend":
				q.Data = []byte("+x")
			case "touch", "gat":
				q.TTL = 100
			case "get":
				q = stack.Req{Kind: "get", Items: []stack.GItem{{Key: []byte(key), Opaque: 7}}}
			case "mget":
				q = stack.Req{Kind: "get", Items: []stack.GItem{{Key: []byte("a"), Opaque: 1, Quiet: true}, {Key: []byte("bb"), Opaque: 2, Quiet: true}, {Key: []byte("a"), Opaque: 3}}}
			case "gete":
				q = stack.Req{Kind: "gete", Items: []stack.GItem{{Key: []byte(key), Opaque: 7}}}
			case "mgete":
				q = stack.Req{Kind: "gete", Items: []stack.GItem{{Key: []byte("a"), Opaque: 1, Quiet: true}, {Key: []byte("bb"), Opaque: 2, Quiet: true}, {Key: []byte("a"), Opaque: 3}}}
			case "mgetn":
				q = stack.Req{Kind: "get", Items: []stack.GItem{{Key: []byte("a"), Opaque: 1, Quiet: true}, {Key: []byte("bb"), Opaque: 2, Quiet: true}}, NoopEnd: true, NoopOpq: 9}
			}
			return q
		}
		old := []byte("OLD")
		if chunkedL1 {
			old = bytes.Repeat([]byte("old."), 400) // two chunks
		}
		setups := [][]stack.Req{
			{},
			{{Kind: "set", Key: []byte("a"), Data: old, Flags: 1}},
			{{Kind: "set", Key: []byte("a"), Data: old, Flags: 1}, {Kind: "set", Key: []byte("bb"), Data: []byte("B"), Flags: 2}},
		}
		kinds := []string{"set", "add", "replace", "append", "prepend", "delete", "touch", "gat", "get", "mget", "mgetn"}
		type cfgT struct {
			deploy, port, proto, l1 string
			locked                  bool
		}
		cfgs := []cfgT{{"l1l2", "main", "bin", "std", false}, {"l1l2", "batch", "bin", "std", false}, {"l1only", "main", "bin", "std", false},
			{"l1l2", "main", "text", "std", false}, {"l1l2", "main", "bin", "std", true}}
		if batchedTiers {
			cfgs = []cfgT{{"l1only", "main", "bin", "std", false}, {"l1l2", "main", "bin", "std", false}, {"l1l2", "batch", "bin", "std", false}}
			if thorough {
				cfgs = append(cfgs, cfgT{"l1l2", "main", "text", "std", false}, cfgT{"l1l2", "main", "bin", "std", true})
			}
		} else if chunkedL1 {
			cfgs = []cfgT{{"l1only", "main", "bin", "chunked", false}, {"l1l2", "main", "bin", "chunked", false}}
			if thorough {
				cfgs = append(cfgs, cfgT{"l1l2", "batch", "bin", "chunked", false}, cfgT{"l1only", "main", "text", "chunked", false}, cfgT{"l1l2", "main", "bin", "chunked", true})
			}
		} else if thorough {
			cfgs = append(cfgs, cfgT{"l1l2", "batch", "text", "std", false}, cfgT{"l1only", "main", "text", "std", true}, cfgT{"l1l2", "batch", "bin", "std", true})
		}
		for _, cf := range cfgs {
			for si, su := range setups {
				kds := kinds
				if cf.deploy == "l1only" && cf.proto == "bin" && cf.l1 == "std" {
					kds = append(append([]string{}, kinds...), "gete", "mgete") // the GetE extension: one-tier deployments only
				}
				for _, kd := range kds {
					if cf.proto == "text" && (kd == "gat" || kd == "mget" || kd == "mgetn") {
						continue
					}
					cmd := mk(kd, "a")
					if cf.proto == "text" {
						cmd.Opaque = 0
						for i := range cmd.Items {
							cmd.Items[i].Opaque = 0
						}
					}
					if kd == "get" && cf.proto == "text" {
						cmd = stack.Req{Kind: "get", Items: []stack.GItem{{Key: []byte("a")}, {Key: []byte("bb")}}}
					}
					for _, cold := range []bool{false, true} {
						if cold && (cf.deploy == "l1only" || len(su) == 0) {
							continue
						}
						base := fCase{Deploy: cf.deploy, Port: cf.port, Locked: cf.locked, Proto: cf.proto, L1: cf.l1, Cold: cold, Setup: su, Cmd: cmd}
						// evict from L1 in half of the two-tier setups by starting from a cold L1: done by an extra variant
						o0 := runFault(base, false)
						if o0.crashed != "" {
							w.Fail(rig.GoFailure{Kind: "broken-correspondence", What: o0.crashed, Input: base})
							continue
						}
						for tier, n := range map[int]int{1: o0.n1, 2: o0.n2} {
							for idx := 0; idx < n; idx++ {
								fks := []string{"close-before", "close-after-apply", "close-after-reply", "close-mid", "status"}
								if chunkedL1 {
									fks = append(fks, "close-tail")
								}
								if tailOnly {
									fks = []string{"close-tail"}
								}
								if batchedTiers {
									fks = []string{"close-before", "close-after-reply", "close-mid", "status"}
								}
								for _, fk := range fks {
									sts := []uint16{0}
									if fk == "status" {
										if thorough || (!batchedTiers && cf.deploy == "l1l2" && cf.proto == "bin" && !cf.locked && cf.l1 == "std") {
											// every status on the main and on the batch port of the standard configuration
											sts = faultStatuses
										} else {
											// quick: three statuses per position, rotating through the table
											sts = nil
											for j := 0; j < 3; j++ {
												sts = append(sts, faultStatuses[(r.Intn(len(faultStatuses)))])
											}
										}
									}
									for _, st := range sts {
										c := base
										c.Tier, c.Idx, c.Kind, c.Status = tier, idx, fk, st
										cases = append(cases, c)
									}
								}
							}
						}
						_ = si
					}
				}
			}
		}
	}
	if replayArg(e) == "" && !chunkedL1 && !tailOnly && !batchedTiers {
		c15L2Down(w) // a backend that cannot be reached when a client connects is a backend fault too
	}
	nhang := 0
	for _, c := range cases {
		if nhang >= 6 {
			w.Count("cases-skipped-after-6-hangs") // every hang waits for its timeout: enough counterexamples
			continue
		}
		o := runFault(c, true)
		if o.hang || o.hangAfter {
			nhang++
		}
		if o.crashed != "" {
			w.Fail(rig.GoFailure{Kind: "counterexample", What: o.crashed, Input: c})
			continue
		}
		if o.hang {
			if os.Getenv("VERIF_DEBUG") != "" {
				b, _ := json.Marshal(c)
				fmt.Fprintf(os.Stderr, "hang: %s\n", b)
			}
			w.Fail(rig.GoFailure{Kind: "counterexample", What: "the client request neither completed nor was its connection closed within 15 s after a backend fault (hang)",
				Input: c, Detail: fmt.Sprintf("%d reply bytes received", len(o.reply)), Tags: hangTags(c)})
			continue
		}
		if o.staleAfter != "" {
			w.Fail(rig.GoFailure{Kind: "counterexample", What: "after a backend fault was answered, the next command on the same client connection (a get of a never-stored key) was not answered with a miss: replies are out of step",
				Input: c, Detail: o.staleAfter})
			continue
		}
		if o.hangAfter {
			w.Fail(rig.GoFailure{Kind: "counterexample", What: "after a backend fault was answered, the next command on the same client connection neither completed nor was the connection closed within 15 s (hang)",
				Input: c, Tags: hangTags(c)})
			continue
		}
		w.Count("fault=" + c.Kind)
		w.Count(fmt.Sprintf("tier=L%d", c.Tier))
		w.Count("cmd=" + c.Cmd.Kind)
		w.Add(rig.Case{Desc: c, Coq: fCaseGallina(c, o), Nontrivial: c.Idx > 0 || len(c.Setup) > 0, Tags: faultTags(c)})
	}
	w.Res.Exhaustive = true
	w.Res.Rule = "for every (configuration, setup, command kind): the command is first run fault-free to count its backend requests per tier, then re-run once per (tier, request index, fault kind in {close before/after-apply/after-reply/mid-reply/one byte before the end of the reply, error status}) with that fault armed in the fake backend; afterwards fault-free reads from a fresh connection; non-trivial = the fault hits after partial progress (index > 0) or on a non-empty store; enumeration is exhaustive over positions and kinds (statuses sampled in quick, all 13 in thorough)"
	fn := "check10"
	if tailOnly {
		fn = "check10c"
		w.Res.Rule += "; this run: only the fault 'reply cut one byte before its end', judged by the oracles without a step model"
	}
	if batchedTiers {
		fn = "check10c"
		w.Res.Rule += "; this run: both tiers served by the batching handler through one shared pool per tier (unix sockets), judged by the oracles (answered or closed, well-formed frames, no stale value after an ack) without a step model"
	}
	if chunkedL1 {
		fn = "check10c"
		w.Res.Rule += "; this run: the chunked handler as L1 with values of two and three chunks, judged by the oracles (answered or closed, well-formed frames, no stale value after an ack) without a step model"
	}
	if err := w.Finish([]string{"base.Bytes", "base.Harness", "spec.MapSpec", "orca.Types", "orca.Faults", "proto.Resp", "checks.Check01", "checks.Check10"}, "case10", fn); err != nil {
		rig.Die("%v", err)
	}
}

func hangTags(c fCase) []string { return nil }

func faultTags(c fCase) []string {
	var t []string
	if c.Cmd.Kind == "get" && len(c.Cmd.Items) > 1 && c.Deploy == "l1l2" && c.Port == "main" && c.Tier == 1 {
		t = append(t, "l1l2-get-l1-error-overwritten")
	}
	return t
}
