package main

import (
	"bytes"
	"fmt"
	"net"
	"time"

	"github.com/netflix/rend/handlers"
	"github.com/netflix/rend/handlers/memcached/std"
	"github.com/netflix/rend/orcas"
	"github.com/netflix/rend/protocol"
	"github.com/netflix/rend/protocol/binprot"
	"github.com/netflix/rend/protocol/textprot"
	"github.com/netflix/rend/server"

	"verifharness/rig"
	"verifharness/stack"
)

func init() { commands["c15t"] = c15t }

// c15t (C15): the real TCP path. server.ListenAndServe with rend's own server.TCPListener (its
// Accept and Configure run on real *net.TCPConn values) on a loopback port; clients are real TCP
// sockets that go away in the ways a TCP peer can: an orderly close (FIN), a reset (SO_LINGER 0:
// the server's read fails with ECONNRESET, and anything it does with the socket afterwards fails
// too), and a close with unread replies in the socket buffer (which the kernel also turns into a
// reset). At every chosen offset of a request stream the backend connections opened for that
// client must be closed again shortly after, and a fresh client must be served. Go-side oracle.
func c15t(e *env) {
	w := rig.NewWriter(e.out, "C15", e.tier, e.seed)
	w.Res.Cases = []rig.Case{}
	thorough := e.tier == "thorough"
	for _, deploy := range []string{"l1only", "l1l2"} {
		b := stack.NewBackends()
		b.L1.SetNow(cNow)
		b.L2.SetNow(cNow)
		// a free loopback port for server.TCPListener (which binds the port number it is given)
		probe, err := net.Listen("tcp", "127.0.0.1:0")
		if err != nil {
			rig.Die("c15t: %v", err)
		}
		port := probe.Addr().(*net.TCPAddr).Port
		probe.Close()
		h1 := func() (handlers.Handler, error) { return std.NewHandler(b.L1.Pipe()), nil }
		h2 := func() (handlers.Handler, error) {
			if deploy == "l1only" {
				return handlers.NilHandler()
			}
			return std.NewHandler(b.L2.Pipe()), nil
		}
		oc := orcas.L1Only
		if deploy == "l1l2" {
			oc = orcas.L1L2
		}
		ps := []protocol.Components{binprot.Components, textprot.Components}
		go server.ListenAndServe(server.TCPListener(port), ps, server.Default, oc, h1, h2)
		addr := fmt.Sprintf("127.0.0.1:%d", port)
		dial := func() (*net.TCPConn, error) {
			var c net.Conn
			var err error
			for try := 0; try < 100; try++ {
				if c, err = net.DialTimeout("tcp", addr, time.Second); err == nil {
					return c.(*net.TCPConn), nil
				}
				time.Sleep(20 * time.Millisecond)
			}
			return nil, err
		}
		// wait until the fakes' open-connection counts are back at (b1, b2)
		released := func(b1, b2 int) bool {
			for i := 0; i < 600; i++ {
				if b.L1.OpenConns() <= b1 && b.L2.OpenConns() <= b2 {
					return true
				}
				time.Sleep(5 * time.Millisecond)
			}
			return false
		}
		for _, proto := range []string{"bin", "text"} {
			big := bytes.Repeat([]byte("v"), 3000)
			reqs := []stack.Req{
				{Kind: "set", Key: []byte("t-key"), Data: big, Flags: 5, TTL: 0, Opaque: 1},
				{Kind: "get", Items: []stack.GItem{{Key: []byte("t-key"), Opaque: 2}}},
				{Kind: "get", Items: []stack.GItem{{Key: []byte("t-key"), Opaque: 3}}},
			}
			var stream []byte
			var ends []int
			for _, r := range reqs {
				if proto == "text" {
					stream = append(stream, r.EncodeText()...)
				} else {
					stream = append(stream, r.EncodeBin()...)
				}
				ends = append(ends, len(stream))
			}
			cuts := []int{0, 1, 10, 30, 1500, ends[0], ends[0] + 5, ends[1], len(stream)}
			if thorough {
				for c := 2; c < len(stream); c += 97 {
					cuts = append(cuts, c)
				}
			}
			for _, how := range []string{"fin", "reset", "close-unread"} {
				for _, cut := range cuts {
					if cut > len(stream) {
						cut = len(stream)
					}
					in := map[string]interface{}{"cmd": "c15t", "deploy": deploy, "proto": proto, "disconnect": how, "cut": cut}
					b1, b2 := b.L1.OpenConns(), b.L2.OpenConns()
					c, err := dial()
					if err != nil {
						w.Fail(rig.GoFailure{Kind: "counterexample", What: "the server does not accept TCP connections any more", Input: in, Detail: err.Error()})
						continue
					}
					c.Write(stream[:cut])
					if how != "close-unread" && cut >= ends[0] {
						// read what is answered so far, so that the close itself decides how the peer goes
						c.SetReadDeadline(time.Now().Add(200 * time.Millisecond))
						buf := make([]byte, 1<<16)
						for {
							if _, err := c.Read(buf); err != nil {
								break
							}
						}
					} else if cut >= ends[0] {
						time.Sleep(20 * time.Millisecond) // let replies pile up unread
					}
					if how == "reset" {
						c.SetLinger(0)
					}
					c.Close()
					if !released(b1, b2) {
						w.Fail(rig.GoFailure{Kind: "counterexample", What: "the backend connections opened for a TCP client were not closed after the client went away (" + how + ")", Input: in,
							Detail: fmt.Sprintf("open backend connections 3 s later: L1=%d (before the client: %d), L2=%d (before: %d)", b.L1.OpenConns(), b1, b.L2.OpenConns(), b2)})
						// the leak stays: take the new level as the base for the next case
					}
					w.Count("tcp-disconnect=" + how)
				}
			}
			// a fresh client is served
			c, err := dial()
			if err != nil {
				w.Fail(rig.GoFailure{Kind: "counterexample", What: "no new TCP connection is accepted after the disconnects", Input: map[string]interface{}{"cmd": "c15t", "deploy": deploy, "proto": proto}})
				continue
			}
			var q, want []byte
			if proto == "text" {
				q, want = []byte("version\r\n"), []byte("VERSION ")
			} else {
				q, want = (stack.Req{Kind: "noop", Opaque: 0x600df00d}).EncodeBin(), []byte{0x60, 0x0d, 0xf0, 0x0d}
			}
			c.Write(q)
			c.SetReadDeadline(time.Now().Add(5 * time.Second))
			buf := make([]byte, 256)
			n, _ := c.Read(buf)
			if !bytes.Contains(buf[:n], want) {
				w.Fail(rig.GoFailure{Kind: "counterexample", What: "a fresh TCP client is not served after the disconnects", Input: map[string]interface{}{"cmd": "c15t", "deploy": deploy, "proto": proto},
					Detail: fmt.Sprintf("reply %q", buf[:n])})
			}
			c.Close()
			w.Add(rig.Case{Desc: map[string]interface{}{"cmd": "c15t", "deploy": deploy, "proto": proto}, Coq: "tt", Nontrivial: true})
		}
	}
	w.Res.Rule = "rend's accept loop on its own TCP listener (loopback): for l1only and l1l2, binary and text, a stream of set(3000 bytes)/get/get cut at offsets 0, 1, inside the header, inside the key, inside the value, at and just after request ends (thorough: every 97th offset), the client leaving by FIN, by reset (SO_LINGER 0) and by closing with unread replies: the backend connections of that client are closed within 3 s, and a fresh client is served afterwards"
	if err := w.Finish([]string{"base.Bytes", "base.Harness"}, "unit", "(fun _ => 0%N)"); err != nil {
		rig.Die("%v", err)
	}
}
