package main

import (
	"encoding/json"
	"fmt"
	"os"
	"sort"
	"time"

	"verifharness/gal"
	"verifharness/rig"
	"verifharness/stack"
)

func init() { commands["c15l"] = c15l }

// c15l: correspondence check of the accept-loop model (coq/server/Listen.v) with the real
// server.ListenAndServe. A case is one random well-formed sequence of events over 2..5 client
// connections: accept (Dial through the loop: it constructs the L1 and L2 handler, i.e. opens the
// backend connections), first byte (protocol detection: a noop in the connection's protocol),
// request (a set of a key private to the connection and the request), EOF before the first byte,
// close. After every event the backend connections involved are recorded: opened by the accept,
// carrying the request (the fakes' logs name the connection per request), closed by the close.
// Backend connections are numbered like the model numbers handlers, by construction order:
// L1 pipe p -> 2(p-1), L2 pipe p -> 2(p-1)+1 (fresh fakes per case, so pipe ids start at 1).

type lEvent struct {
	Ev    string `json:"ev"` // accept | firstbyte | eof0 | request | close
	C     int    `json:"c"`
	Proto string `json:"proto,omitempty"` // accept: protocol this client will speak (bin | text)
	Half  bool   `json:"half,omitempty"`  // eof0/close: the client only half-closes (keeps reading)
}

type lCase struct {
	Deploy string   `json:"deploy"` // l1only | l1l2
	Events []lEvent `json:"events"`
}

func genListenCase(r *rig.Rand, deploy string) lCase {
	n := 2 + r.Intn(4)
	const (
		unaccepted = iota
		detecting
		serving
		closed
	)
	st := make([]int, n+1)
	nreq := make([]int, n+1)
	c := lCase{Deploy: deploy}
	for {
		type act struct {
			ev lEvent
			w  int
		}
		var acts []act
		total := 0
		add := func(ev string, id, w int) {
			acts = append(acts, act{lEvent{Ev: ev, C: id}, w})
			total += w
		}
		for id := 1; id <= n; id++ {
			switch st[id] {
			case unaccepted:
				add("accept", id, 3)
			case detecting:
				add("firstbyte", id, 3)
				add("eof0", id, 1)
			case serving:
				if nreq[id] < 4 {
					add("request", id, 3)
				}
				if nreq[id] >= 2 {
					add("close", id, 3)
				} else {
					add("close", id, 1)
				}
			}
		}
		if total == 0 {
			return c
		}
		k := r.Intn(total)
		var ev lEvent
		for _, a := range acts {
			if k < a.w {
				ev = a.ev
				break
			}
			k -= a.w
		}
		switch ev.Ev {
		case "accept":
			st[ev.C] = detecting
			ev.Proto = "bin"
			if r.Bool() {
				ev.Proto = "text"
			}
		case "firstbyte":
			st[ev.C] = serving
		case "request":
			nreq[ev.C]++
		case "eof0", "close":
			st[ev.C] = closed
			ev.Half = r.Bool()
		}
		c.Events = append(c.Events, ev)
	}
}

// runListenCase drives the real accept loop through the events and returns the Gallina entries
// (event, observation, open backend connections after the event).
func runListenCase(c lCase) (entries []string, problems []string, overlap bool) {
	b := stack.NewBackends()
	two := c.Deploy != "l1only"
	ln := listenerFor(stack.Config{Orca: c.Deploy, Locked: false, MultiRd: true, L1: "std"})
	ln.SetBackends(b)
	snap := func() []uint64 {
		var ids []uint64
		for _, p := range b.L1.OpenConnIDs() {
			ids = append(ids, 2*uint64(p-1))
		}
		for _, p := range b.L2.OpenConnIDs() {
			ids = append(ids, 2*uint64(p-1)+1)
		}
		sort.Slice(ids, func(i, j int) bool { return ids[i] < ids[j] })
		return ids
	}
	minus := func(a, bb []uint64) []uint64 {
		in := map[uint64]bool{}
		for _, x := range bb {
			in[x] = true
		}
		out := []uint64{}
		for _, x := range a {
			if !in[x] {
				out = append(out, x)
			}
		}
		return out
	}
	conns := map[int]*stack.Conn{}
	protos := map[int]string{}
	live := map[int]bool{}
	nreq := map[int]int{}
	defer func() {
		for id, cn := range conns {
			if live[id] {
				cn.Close()
			}
		}
	}()
	expectClosed := 1
	if two {
		expectClosed = 2
	}
	for i, ev := range c.Events {
		var gev, gobs string
		before := snap()
		switch ev.Ev {
		case "accept":
			gev = gal.App("EAccept", gal.N(uint64(ev.C)))
			if len(live) > 0 {
				overlap = true
			}
			cn, err := ln.Dial(ev.Proto)
			if err != nil {
				problems = append(problems, fmt.Sprintf("event %d (accept %d): %v", i, ev.C, err))
				return
			}
			conns[ev.C], protos[ev.C], live[ev.C] = cn, ev.Proto, true
			gobs = gal.App("IMade", gal.Ns(minus(snap(), before)))
		case "firstbyte":
			gev = gal.App("EFirstByte", gal.N(uint64(ev.C)))
			// the sentinel noop alone: its first byte decides the protocol, its reply shows that the
			// server of the connection has been built and is serving
			if _, closed, err := conns[ev.C].Exchange(nil, 5*time.Second); err != nil || closed {
				problems = append(problems, fmt.Sprintf("event %d (first byte of %d): no reply to a noop within 5 s (closed=%v)", i, ev.C, closed))
			}
			gobs = "INone"
		case "request":
			gev = gal.App("ERequest", gal.N(uint64(ev.C)))
			nreq[ev.C]++
			key := fmt.Sprintf("conn%d-req%d", ev.C, nreq[ev.C])
			q := stack.Req{Kind: "set", Key: []byte(key), Data: []byte("v-" + key), Flags: 3, Opaque: uint32(100 + i)}
			enc := q.EncodeBin()
			if protos[ev.C] == "text" {
				q.Opaque = 0
				enc = q.EncodeText()
			}
			b.L1.TakeLog()
			b.L2.TakeLog()
			if _, closed, err := conns[ev.C].Exchange(enc, 5*time.Second); err != nil || closed {
				problems = append(problems, fmt.Sprintf("event %d (request on %d): no complete reply within 5 s (closed=%v)", i, ev.C, closed))
			}
			carriers := func(log []int, f func(int) uint64) []uint64 {
				seen := map[uint64]bool{}
				out := []uint64{}
				for _, p := range log {
					if id := f(p); !seen[id] {
						seen[id] = true
						out = append(out, id)
					}
				}
				sort.Slice(out, func(i, j int) bool { return out[i] < out[j] })
				return out
			}
			var p1, p2 []int
			for _, q := range b.L1.TakeLog() {
				if q.Key == key {
					p1 = append(p1, q.Conn)
				}
			}
			for _, q := range b.L2.TakeLog() {
				if q.Key == key {
					p2 = append(p2, q.Conn)
				}
			}
			gobs = gal.App("IReq", gal.Ns(carriers(p1, func(p int) uint64 { return 2 * uint64(p-1) })),
				gal.Ns(carriers(p2, func(p int) uint64 { return 2*uint64(p-1) + 1 })))
		case "eof0", "close":
			if ev.Ev == "eof0" {
				gev = gal.App("EEOF0", gal.N(uint64(ev.C)))
			} else {
				gev = gal.App("EClose", gal.N(uint64(ev.C)))
			}
			cn := conns[ev.C]
			if ev.Half {
				cn.Raw().(halfCloser).CloseWrite()
			} else {
				cn.Close()
			}
			deadline := time.Now().Add(5 * time.Second)
			select {
			case <-cn.Done:
			case <-time.After(5 * time.Second):
				problems = append(problems, fmt.Sprintf("event %d (%s %d): the server did not close the client connection within 5 s", i, ev.Ev, ev.C))
			}
			// the backend connections of the connection are closed shortly afterwards
			for {
				if len(minus(before, snap())) >= expectClosed {
					break
				}
				if time.Now().After(deadline) {
					problems = append(problems, fmt.Sprintf("event %d (%s %d): %d backend connection(s) closed within 5 s, expected %d; open before %v, now %v",
						i, ev.Ev, ev.C, len(minus(before, snap())), expectClosed, before, snap()))
					break
				}
				time.Sleep(100 * time.Microsecond)
			}
			time.Sleep(300 * time.Microsecond) // anything else the same abort closes
			cn.Close()
			delete(live, ev.C)
			gobs = gal.App("IClosed", gal.Ns(minus(before, snap())))
		default:
			rig.Die("bad event %q", ev.Ev)
		}
		entries = append(entries, gal.Tuple(gev, gobs, gal.Ns(snap())))
		if len(problems) > 0 {
			return
		}
	}
	return
}

func c15l(e *env) {
	w := rig.NewWriter(e.out, "C15L", e.tier, e.seed)
	w.Shards = 4
	r := rig.NewRand(e.seed)
	var cases []lCase
	if rp := replayArg(e); rp != "" {
		var c lCase
		b, err := os.ReadFile(rp)
		if err != nil || json.Unmarshal(b, &c) != nil {
			rig.Die("cannot read replay input %s", rp)
		}
		cases = append(cases, c)
	} else {
		n := 300
		if e.tier == "thorough" {
			n = 3000
		}
		for i := 0; i < n; i++ {
			deploy := "l1l2"
			if i%2 == 1 {
				deploy = "l1only"
			}
			cases = append(cases, genListenCase(r, deploy))
		}
	}
	nfail := 0
	for _, c := range cases {
		if nfail >= 6 {
			w.Count("cases-skipped-after-6-failures") // every failing case waits for its timeouts
			continue
		}
		entries, problems, overlap := runListenCase(c)
		if len(problems) > 0 {
			nfail++
			w.Fail(rig.GoFailure{Kind: "counterexample", What: "accept loop: " + problems[0], Input: c, Detail: fmt.Sprint(problems)})
		}
		nc := 0
		for _, ev := range c.Events {
			switch ev.Ev {
			case "accept":
				nc++
				w.Count("first-byte-proto=" + ev.Proto)
			case "eof0", "close":
				w.Count(fmt.Sprintf("%s half-close=%v", ev.Ev, ev.Half))
			case "request":
				w.Count("requests")
			}
		}
		w.Count("deploy=" + c.Deploy)
		w.Count(fmt.Sprintf("connections=%d", nc))
		w.Add(rig.Case{Desc: c, Coq: gal.Pair(gal.Bool(c.Deploy != "l1only"), gal.List(entries)), Nontrivial: overlap && len(problems) == 0})
	}
	w.Res.Rule = "random well-formed event sequences over 2..5 client connections through rend's real accept loop (server.ListenAndServe on an in-memory listener, std handlers on fake backends, deployments l1only and l1l2 alternating, binary or text chosen per connection): accept / first byte / EOF before the first byte / request / close in random interleaving, every connection closed at the end (half or full close); after every event the backend connections opened, carrying the request (per the fakes' request logs) or closed, and the set of open backend connections, are compared with the model's step function (handler ids = construction order); non-trivial = some connection is accepted while another one is open"
	if err := w.Finish([]string{"base.Bytes", "base.Harness", "server.Listen", "checks.Check15l"}, "case15l", "check15l"); err != nil {
		rig.Die("%v", err)
	}
}
