package main

// stdtrans: translates the SOURCE of the direct backend handler — handlers/memcached/std/handler.go,
// localComm.go and protocol/binprot/commands.go, headers.go (go/parser, on every run) — into
// coq/gen/Std_gen.v: one program in the connection monad of coq/handlers/StdSem.v per Go function
// (the Write*Cmd family over makeRequestHeader / writeRequestHeader, ReadResponseHeader, the ten
// Handler methods and the helpers they call). coq/gen/StdLink.v proves the generated terms equal to
// the hand-written model coq/handlers/StdWire.v (props/C01wiresrc.v).
//
// The translation is by AST structure, statement by statement (stdtrans_stmt.go) and expression by
// expression (stdtrans_expr.go); the meaning of every recognised call is a definition of StdSem.v
// (hand-written, trusted; its header lists the rules, including what is dropped: metrics.*
// statements, sync.Pool Put, `defer` of those, `defer close(ch)`). Anything not recognised becomes
// `m_untranslatable "what (file:line)"`, whose outcome is Undef: the model never has that outcome, so
// the link lemma of the function (and of its callers) stops compiling.

import (
	"fmt"
	"go/ast"
	"go/parser"
	"go/token"
	"os"
	"path/filepath"
	"sort"
	"strings"
)

func init() { commands["stdtrans"] = stdtrans }

// Go types as the translator sees them:
//
//	conn (io.Writer, io.Reader, *bufio.ReadWriter/Reader/Writer), handler (std.Handler), bytes,
//	u8 u16 u32 u64 int bool error unit, lit (untyped integer literal), count (a byte count that
//	feeds metrics only), ptr:reqhdr ptr:rhdr reqhdr rhdr, gres (common.GetResponse/GetEResponse),
//	struct:<Name> (a request struct of common/datatypes.go, flattened into its fields),
//	chan:data chan:err, lbytes lu32 lbool
type sxVar struct {
	coq string
	typ string
}

type sxField struct{ name, typ string }

type sxFunc struct {
	key    string // "binprot.writeKeyCmd", "std.Handler.Set"
	pkg    string
	file   string
	decl   *ast.FuncDecl
	coq    string    // Coq name
	params []sxField // translated parameters (conn / chan dropped; structs kept as one entry)
	allPar []sxField // every Go parameter in order
	res    []string  // Go result types
	out    string    // generated definition
	ok     bool
	done   bool
	busy   bool
}

type sxCtx struct {
	fs       *token.FileSet
	repo     string
	structs  map[string][]sxField // common request structs
	hdrs     map[string][]sxField // binprot.RequestHeader / ResponseHeader
	funcs    map[string]*sxFunc
	order    []string          // emission order
	consts   map[string]string // binprot package-level integer constants not in Consts_gen: name -> literal
	usedC    map[string]bool
	pools    map[string]string // pool var -> Coq term of its New value kind: "reqhdr" "rhdr" "bytes:<n>"
	putOnly  map[string]bool   // functions whose body is only a pool Put
	popMarks map[*ast.EmptyStmt]bool
	// per function
	cur     *sxFunc
	pre     []string // guards opened while translating the current statement
	seq     int
	failMsg string
	notes   []string
}

type sxEnv struct{ scopes []map[string]*sxVar }

func (e *sxEnv) push() { e.scopes = append(e.scopes, map[string]*sxVar{}) }
func (e *sxEnv) pop()  { e.scopes = e.scopes[:len(e.scopes)-1] }
func (e *sxEnv) lookup(n string) *sxVar {
	for i := len(e.scopes) - 1; i >= 0; i-- {
		if v, ok := e.scopes[i][n]; ok {
			return v
		}
	}
	return nil
}
func (e *sxEnv) depthOf(n string) int {
	for i := len(e.scopes) - 1; i >= 0; i-- {
		if _, ok := e.scopes[i][n]; ok {
			return i
		}
	}
	return -1
}

var sxReserved = map[string]bool{"len": true, "take": true, "drop": true, "zeros": true, "two32": true, "negb": true,
	"true": true, "false": true, "fun": true, "let": true, "in": true, "if": true, "then": true, "else": true,
	"match": true, "with": true, "end": true, "as": true, "at": true, "E": true, "N": true, "M": true, "Some": true,
	"None": true, "Val": true, "Panic": true, "Undef": true, "bytes": true, "list": true, "bool": true, "option": true,
	"unit": true, "tt": true, "nat": true, "Type": true, "Set": true, "Prop": true, "exists": true, "forall": true,
	"fix": true, "cofix": true, "return": true, "using": true, "where": true, "for": true, "mod": true, "fst": true, "snd": true}

// declare binds a Go variable in the innermost scope; an inner declaration that hides an outer
// variable gets its own Coq name, so the outer one stays reachable after the scope ends
func (c *sxCtx) declare(e *sxEnv, n, typ string) string {
	top := e.scopes[len(e.scopes)-1]
	if v, ok := top[n]; ok { // `:=` with an existing variable of the same scope: assignment
		v.typ = typ
		return v.coq
	}
	coq := n
	if sxReserved[n] || strings.Contains(n, "_") || (len(n) > 1 && (strings.HasPrefix(n, "op") || strings.HasPrefix(n, "mk")) && n[2] >= 'A' && n[2] <= 'Z') {
		c.seq++
		coq = fmt.Sprintf("%s_v%d", n, c.seq)
	} else if e.lookup(n) != nil {
		c.seq++
		coq = fmt.Sprintf("%s_%d", n, c.seq)
	}
	top[n] = &sxVar{coq: coq, typ: typ}
	return coq
}

func (c *sxCtx) at(p token.Pos) string {
	pos := c.fs.Position(p)
	return fmt.Sprintf("%s:%d", filepath.Base(pos.Filename), pos.Line)
}

// fail records the first reason the current statement cannot be translated
func (c *sxCtx) fail(p token.Pos, format string, a ...interface{}) {
	if c.failMsg == "" {
		c.failMsg = fmt.Sprintf(format, a...) + " (" + c.at(p) + ")"
	}
}

func sxMarker(msg string) string {
	msg = strings.Join(strings.Fields(msg), " ")
	if len(msg) > 200 {
		msg = msg[:200] + "..."
	}
	return "m_untranslatable \"" + strings.ReplaceAll(msg, "\"", "'") + "\""
}

func sxCoqType(t string) string {
	switch t {
	case "bytes":
		return "bytes"
	case "u8", "u16", "u32", "u64", "int":
		return "N"
	case "bool":
		return "bool"
	case "error":
		return "option N"
	case "unit":
		return "unit"
	case "gres":
		return "gres"
	case "ptr:reqhdr":
		return "option reqhdr"
	case "ptr:rhdr":
		return "option rhdr"
	case "reqhdr", "rhdr":
		return t
	case "lbytes":
		return "list bytes"
	case "lu32":
		return "list N"
	case "lbool":
		return "list bool"
	}
	return ""
}

func sxZero(t string) string {
	switch t {
	case "bytes", "lbytes", "lu32", "lbool":
		return "[]"
	case "u8", "u16", "u32", "u64", "int":
		return "0"
	case "bool":
		return "false"
	case "error", "ptr:reqhdr", "ptr:rhdr":
		return "None"
	case "gres":
		return "(mkGR [] [] 0 0 0 false false)"
	case "rhdr":
		return "rh_zero"
	}
	return ""
}

func sxIsInt(t string) bool {
	return t == "u8" || t == "u16" || t == "u32" || t == "u64" || t == "int"
}

// goType reads a Go type expression
func (c *sxCtx) goType(e ast.Expr) string {
	switch x := e.(type) {
	case *ast.Ident:
		switch x.Name {
		case "uint8", "byte":
			return "u8"
		case "uint16":
			return "u16"
		case "uint32":
			return "u32"
		case "uint64":
			return "u64"
		case "int":
			return "int"
		case "bool":
			return "bool"
		case "error":
			return "error"
		case "Handler":
			return "handler"
		case "RequestHeader":
			return "reqhdr"
		case "ResponseHeader":
			return "rhdr"
		}
	case *ast.SelectorExpr:
		s := typeString(x)
		switch s {
		case "io.Writer", "io.Reader":
			return "conn"
		case "binprot.RequestHeader":
			return "reqhdr"
		case "binprot.ResponseHeader":
			return "rhdr"
		case "common.GetResponse", "common.GetEResponse":
			return "gres"
		}
		if strings.HasPrefix(s, "common.") {
			if _, ok := c.structs[x.Sel.Name]; ok {
				return "struct:" + x.Sel.Name
			}
		}
	case *ast.StarExpr:
		s := typeString(x)
		switch s {
		case "*bufio.ReadWriter", "*bufio.Reader", "*bufio.Writer":
			return "conn"
		}
		in := c.goType(x.X)
		if in == "reqhdr" || in == "rhdr" {
			return "ptr:" + in
		}
	case *ast.ArrayType:
		if x.Len == nil {
			switch c.goType(x.Elt) {
			case "u8":
				return "bytes"
			case "bytes":
				return "lbytes"
			case "u32":
				return "lu32"
			case "bool":
				return "lbool"
			}
		}
	case *ast.ChanType:
		if c.goType(x.Value) == "error" {
			return "chan:err"
		}
		if c.goType(x.Value) == "gres" {
			return "chan:data"
		}
	}
	return "?"
}

// fields of a Go parameter list, one entry per name
func (c *sxCtx) fieldList(fl *ast.FieldList) []sxField {
	var out []sxField
	if fl == nil {
		return nil
	}
	for _, f := range fl.List {
		t := c.goType(f.Type)
		if len(f.Names) == 0 {
			out = append(out, sxField{"", t})
		}
		for _, n := range f.Names {
			out = append(out, sxField{n.Name, t})
		}
	}
	return out
}

func (c *sxCtx) parseStructs(path string, want map[string]bool, into map[string][]sxField) error {
	af, err := parser.ParseFile(c.fs, path, nil, 0)
	if err != nil {
		return err
	}
	for _, d := range af.Decls {
		gd, ok := d.(*ast.GenDecl)
		if !ok || gd.Tok != token.TYPE {
			continue
		}
		for _, sp := range gd.Specs {
			ts := sp.(*ast.TypeSpec)
			st, ok := ts.Type.(*ast.StructType)
			if !ok || (want != nil && !want[ts.Name.Name]) {
				continue
			}
			into[ts.Name.Name] = c.fieldList(st.Fields)
		}
	}
	return nil
}

// Coq parameters of a translated function: structs flattened
func (c *sxCtx) coqParams(ps []sxField, env *sxEnv) string {
	var sb strings.Builder
	for _, p := range ps {
		if strings.HasPrefix(p.typ, "struct:") {
			name := c.declare(env, p.name, p.typ)
			for _, f := range c.structs[p.typ[7:]] {
				fmt.Fprintf(&sb, " (%s_%s : %s)", name, f.name, sxCoqType(f.typ))
			}
			continue
		}
		name := c.declare(env, p.name, p.typ)
		fmt.Fprintf(&sb, " (%s : %s)", name, sxCoqType(p.typ))
	}
	return sb.String()
}

func sxResType(res []string) string {
	if len(res) == 0 {
		return "unit"
	}
	var ts []string
	for _, r := range res {
		ts = append(ts, sxCoqType(r))
	}
	return strings.Join(ts, " * ")
}

// translate one function (after its callees)
func (c *sxCtx) translate(f *sxFunc) {
	if f.done || f.busy {
		return
	}
	f.busy = true
	defer func() { f.busy = false; f.done = true }()
	c.cur, c.seq, c.failMsg, c.pre = f, 0, "", nil
	env := &sxEnv{}
	env.push()
	if f.decl.Recv != nil && len(f.decl.Recv.List) == 1 && len(f.decl.Recv.List[0].Names) == 1 {
		c.declare(env, f.decl.Recv.List[0].Names[0].Name, "handler")
	}
	var bad []string
	for _, p := range f.allPar {
		switch {
		case p.typ == "conn" || strings.HasPrefix(p.typ, "chan:"):
			c.declare(env, p.name, p.typ)
		case p.typ == "?":
			bad = append(bad, p.name)
		}
	}
	for _, r := range f.res {
		if sxCoqType(r) == "" && !strings.HasPrefix(r, "chan:") {
			bad = append(bad, "result "+r)
		}
	}
	chanRes := len(f.res) > 0 && strings.HasPrefix(f.res[0], "chan:")
	if chanRes {
		// Get / GetE: the channels are the output lists of the monad's state
		if len(f.res) != 2 || f.res[0] != "chan:data" || f.res[1] != "chan:err" {
			bad = append(bad, "channel results are not (response channel, error channel)")
		}
	}
	pars := c.coqParams(f.params, env)
	// named results are variables of the body
	if f.decl.Type.Results != nil {
		for _, fl := range f.decl.Type.Results.List {
			for _, n := range fl.Names {
				t := c.goType(fl.Type)
				_ = c.declare(env, n.Name, t)
			}
		}
	}
	resT := sxResType(f.res)
	if chanRes {
		resT = "unit"
	}
	rel, _ := filepath.Rel(c.repo, f.file)
	head := fmt.Sprintf("(* %s: func %s *)\nDefinition %s (E : genv)%s : M (%s) :=\n", rel, strings.TrimPrefix(f.key, f.pkg+"."), f.coq, pars, resT)
	if len(bad) > 0 {
		f.ok = false
		f.out = fmt.Sprintf("(* %s: func %s NOT TRANSLATED: parameter/result types outside the subset: %s *)\n", rel, f.key, strings.Join(bad, ", "))
		return
	}
	mode := &sxMode{
		ret: func(vals []string) string {
			if chanRes {
				return "m_ret tt"
			}
			if len(vals) == 0 {
				return "m_ret tt"
			}
			return "m_ret (" + strings.Join(vals, ", ") + ")"
		},
		resTypes: f.res,
		chanRes:  chanRes,
	}
	if len(f.res) == 0 {
		mode.fall = "m_ret tt"
	}
	// named results declared with zero values
	var lets string
	if f.decl.Type.Results != nil {
		for _, fl := range f.decl.Type.Results.List {
			for _, n := range fl.Names {
				v := env.lookup(n.Name)
				lets += fmt.Sprintf("  let %s : %s := %s in\n", v.coq, sxCoqType(v.typ), sxZero(v.typ))
			}
		}
	}
	body := c.block(f.decl.Body.List, env, mode, "  ")
	f.ok = true
	f.out = head + lets + body + ".\n"
}

// callee resolves a call to a function of the translated packages
func (c *sxCtx) callee(from *sxFunc, call *ast.CallExpr) *sxFunc {
	switch fn := call.Fun.(type) {
	case *ast.Ident:
		if g, ok := c.funcs[from.pkg+"."+fn.Name]; ok {
			return g
		}
	case *ast.SelectorExpr:
		if id, ok := fn.X.(*ast.Ident); ok {
			if id.Name == "binprot" && from.pkg == "std" {
				if g, ok := c.funcs["binprot."+fn.Sel.Name]; ok {
					return g
				}
			}
			if from.decl.Recv != nil && len(from.decl.Recv.List[0].Names) == 1 && id.Name == from.decl.Recv.List[0].Names[0].Name {
				if g, ok := c.funcs["std.Handler."+fn.Sel.Name]; ok {
					return g
				}
			}
		}
	}
	return nil
}

func (c *sxCtx) load(pkg, rel string) []string {
	path := filepath.Join(c.repo, rel)
	af, err := parser.ParseFile(c.fs, path, nil, 0)
	if err != nil {
		c.notes = append(c.notes, "parse error: "+err.Error())
		return nil
	}
	var keys []string
	for _, d := range af.Decls {
		switch x := d.(type) {
		case *ast.FuncDecl:
			if x.Body == nil {
				continue
			}
			key := pkg + "." + x.Name.Name
			coq := x.Name.Name + "_src"
			if x.Recv != nil {
				if len(x.Recv.List) != 1 || typeString(x.Recv.List[0].Type) != "Handler" {
					continue
				}
				key = pkg + ".Handler." + x.Name.Name
				coq = "Handler_" + x.Name.Name + "_src"
			}
			f := &sxFunc{key: key, pkg: pkg, file: path, decl: x, coq: coq}
			f.allPar = c.fieldList(x.Type.Params)
			for _, p := range f.allPar {
				if p.typ != "conn" && !strings.HasPrefix(p.typ, "chan:") {
					f.params = append(f.params, p)
				}
			}
			for _, r := range c.fieldList(x.Type.Results) {
				f.res = append(f.res, r.typ)
			}
			c.funcs[key] = f
			keys = append(keys, key)
		case *ast.GenDecl:
			if pkg != "binprot" {
				continue
			}
			for _, sp := range x.Specs {
				vs, ok := sp.(*ast.ValueSpec)
				if !ok {
					continue
				}
				for i, n := range vs.Names {
					if i >= len(vs.Values) {
						continue
					}
					if x.Tok == token.CONST {
						if bl, ok := vs.Values[i].(*ast.BasicLit); ok && bl.Kind == token.INT {
							c.consts[n.Name] = bl.Value
						}
					}
					if x.Tok == token.VAR {
						c.poolDecl(n.Name, vs.Values[i])
					}
				}
			}
		}
	}
	return keys
}

// poolDecl recognises `var p = &sync.Pool{New: func() interface{} { return <new> }}`
func (c *sxCtx) poolDecl(name string, v ast.Expr) {
	u, ok := v.(*ast.UnaryExpr)
	if !ok || u.Op != token.AND {
		return
	}
	cl, ok := u.X.(*ast.CompositeLit)
	if !ok || typeString(cl.Type) != "sync.Pool" || len(cl.Elts) != 1 {
		return
	}
	kv, ok := cl.Elts[0].(*ast.KeyValueExpr)
	if !ok || !lpIsIdent(kv.Key, "New") {
		return
	}
	fl, ok := kv.Value.(*ast.FuncLit)
	if !ok || len(fl.Body.List) != 1 {
		return
	}
	rs, ok := fl.Body.List[0].(*ast.ReturnStmt)
	if !ok || len(rs.Results) != 1 {
		return
	}
	call, ok := rs.Results[0].(*ast.CallExpr)
	if !ok {
		return
	}
	switch {
	case lpIsIdent(call.Fun, "new") && len(call.Args) == 1:
		switch c.goType(call.Args[0]) {
		case "reqhdr":
			c.pools[name] = "reqhdr"
		case "rhdr":
			c.pools[name] = "rhdr"
		}
	case lpIsIdent(call.Fun, "make") && len(call.Args) >= 2 && c.goType(call.Args[0]) == "bytes":
		l, ok1 := call.Args[1].(*ast.BasicLit)
		if !ok1 || l.Kind != token.INT {
			return
		}
		if len(call.Args) == 3 {
			l2, ok2 := call.Args[2].(*ast.BasicLit)
			if !ok2 || l2.Value != l.Value {
				return
			}
		}
		c.pools[name] = "bytes:" + l.Value
	}
}

func stdtrans(e *env) {
	repo := "/repo"
	if v := os.Getenv("VERIF_REPO"); v != "" {
		repo = v
	}
	c := &sxCtx{fs: token.NewFileSet(), repo: repo, structs: map[string][]sxField{}, hdrs: map[string][]sxField{},
		funcs: map[string]*sxFunc{}, consts: map[string]string{}, usedC: map[string]bool{}, pools: map[string]string{},
		putOnly: map[string]bool{}, popMarks: map[*ast.EmptyStmt]bool{}}
	if err := c.parseStructs(filepath.Join(repo, "common", "datatypes.go"), nil, c.structs); err != nil {
		c.notes = append(c.notes, "parse error: "+err.Error())
	}
	if err := c.parseStructs(filepath.Join(repo, "protocol", "binprot", "headers.go"),
		map[string]bool{"RequestHeader": true, "ResponseHeader": true}, c.hdrs); err != nil {
		c.notes = append(c.notes, "parse error: "+err.Error())
	}
	var keys []string
	keys = append(keys, c.load("binprot", "protocol/binprot/headers.go")...)
	keys = append(keys, c.load("binprot", "protocol/binprot/commands.go")...)
	keys = append(keys, c.load("std", "handlers/memcached/std/localComm.go")...)
	keys = append(keys, c.load("std", "handlers/memcached/std/handler.go")...)
	// functions whose body is only a pool Put are dropped at their call sites
	for _, k := range keys {
		f := c.funcs[k]
		if len(f.decl.Body.List) == 1 {
			if es, ok := f.decl.Body.List[0].(*ast.ExprStmt); ok && c.isPoolPut(es.X) {
				c.putOnly[k] = true
			}
		}
	}
	// roots: every Write*Cmd, ReadResponseHeader and the ten methods of the handler interface
	var roots []string
	for _, k := range keys {
		n := k[strings.LastIndex(k, ".")+1:]
		if strings.HasPrefix(k, "binprot.Write") && strings.HasSuffix(n, "Cmd") {
			roots = append(roots, k)
		}
	}
	roots = append(roots, "binprot.ReadResponseHeader")
	methods := []string{"Set", "Add", "Replace", "Append", "Prepend", "Delete", "Touch", "GAT", "Get", "GetE"}
	for _, m := range methods {
		roots = append(roots, "std.Handler."+m)
	}
	for _, r := range roots {
		f, ok := c.funcs[r]
		if !ok {
			c.notes = append(c.notes, "function "+r+" not found in the source")
			continue
		}
		c.translateAll(f)
	}

	var sb strings.Builder
	sb.WriteString("(* GENERATED by harness stdtrans from the SOURCE of /repo/handlers/memcached/std/{handler,localComm}.go and\n" +
		"   /repo/protocol/binprot/{commands,headers}.go — do not edit. One program in the connection monad of\n" +
		"   handlers/StdSem.v per Go function (rules: harness/cmd/rendharness/stdtrans*.go; meaning of every\n" +
		"   recognised call, what is dropped, the pool and channel contracts relied on: handlers/StdSem.v).\n" +
		"   gen/StdLink.v proves these terms equal to the model handlers/StdWire.v. *)\n")
	sb.WriteString("From Coq Require Import String.\nFrom Rend Require Import base.Bytes gen.Consts_gen spec.MapSpec orca.Types proto.Resp proto.ReqCommon\n" +
		"  proto.BinReq handlers.Std orca.Orcas orca.Faults handlers.StdWire handlers.StdSem.\n" +
		"Open Scope N_scope.\nOpen Scope bool_scope.\n\n")
	var defs strings.Builder
	done, total := 0, 0
	var untr []string
	for _, k := range c.order {
		f := c.funcs[k]
		total++
		if f.ok {
			done++
		}
		if !f.ok || strings.Contains(f.out, "m_untranslatable") {
			untr = append(untr, k)
		}
		defs.WriteString(f.out + "\n")
	}
	// constants and pool shapes read from the source
	var cs []string
	for n := range c.usedC {
		cs = append(cs, n)
	}
	sort.Strings(cs)
	for _, n := range cs {
		fmt.Fprintf(&sb, "(* protocol/binprot: const %s *)\nDefinition %s_c : N := %s.\n", n, n, c.consts[n])
	}
	var ps []string
	for n := range c.pools {
		ps = append(ps, n)
	}
	sort.Strings(ps)
	for _, n := range ps {
		if strings.HasPrefix(c.pools[n], "bytes:") {
			fmt.Fprintf(&sb, "(* protocol/binprot: var %s = &sync.Pool{New: make([]byte, %s)} *)\nDefinition %s_new : bytes := sl_make %s.\n",
				n, c.pools[n][6:], n, c.pools[n][6:])
		}
	}
	sb.WriteString("\n" + defs.String())
	sb.WriteString(c.dispatch(methods))
	for _, n := range c.notes {
		fmt.Fprintf(&sb, "(* NOTE: %s *)\n", otCommentSafe(n))
	}
	if len(untr) > 0 {
		fmt.Fprintf(&sb, "(* NOT (fully) translated: %s *)\n", strings.Join(untr, ", "))
	}
	_ = done
	fmt.Fprintf(&sb, "(* translated %d of %d functions *)\n", total-len(untr), total)
	dir := e.out
	if dir == "" || dir == "." {
		root := os.Getenv("VERIF_ROOT")
		if root == "" {
			root = "/verif"
		}
		dir = filepath.Join(root, "coq", "gen")
	}
	writeIfChanged(filepath.Join(dir, "Std_gen.v"), []byte(sb.String()))
}

// translateAll translates f after its callees and records the emission order
func (c *sxCtx) translateAll(f *sxFunc) {
	if f.done {
		return
	}
	var visit func(g *sxFunc)
	seen := map[string]bool{}
	visit = func(g *sxFunc) {
		if seen[g.key] || g.done {
			return
		}
		seen[g.key] = true
		ast.Inspect(g.decl.Body, func(n ast.Node) bool {
			if call, ok := n.(*ast.CallExpr); ok {
				if h := c.callee(g, call); h != nil && !c.putOnly[h.key] {
					visit(h)
				}
			}
			return true
		})
		c.translate(g)
		c.order = append(c.order, g.key)
	}
	visit(f)
}

// dispatch: the handler interface. A handler request of the model (orca/Types.v hreq) is the call
// of the method of the same name with the request struct built from its fields; struct fields the
// model's request does not carry (Opaque / Quiet of the set family, NoopOpaque ...) are passed as
// parameters of std_wire_src_gen so that the link lemma shows they are not used.
func (c *sxCtx) dispatch(methods []string) string {
	for _, m := range methods {
		if f, ok := c.funcs["std.Handler."+m]; !ok || !f.ok {
			return "(* std_wire_src NOT generated: method " + m + " is missing or untranslated *)\n"
		}
	}
	args := func(m string, val map[string]string) string {
		f := c.funcs["std.Handler."+m]
		var as []string
		for _, p := range f.params {
			if !strings.HasPrefix(p.typ, "struct:") {
				return ""
			}
			for _, fl := range c.structs[p.typ[7:]] {
				v, ok := val[fl.name]
				if !ok {
					switch fl.typ {
					case "u32":
						v = "xo"
					case "bool":
						v = "xq"
					default:
						return ""
					}
				}
				as = append(as, v)
			}
		}
		return strings.Join(as, " ")
	}
	set := map[string]string{"Key": "k", "Data": "d", "Flags": "f", "Exptime": "ttl"}
	cat := map[string]string{"Key": "k", "Data": "d", "Flags": "xf", "Exptime": "xt"}
	key := map[string]string{"Key": "k", "Exptime": "ttl"}
	gat := map[string]string{"Key": "k", "Exptime": "ttl", "Opaque": "opq"}
	get := map[string]string{"Keys": "(map gi_key items)", "Opaques": "(map gi_opaque items)", "Quiet": "(map gi_quiet items)"}
	var sb strings.Builder
	sb.WriteString("(* the handler interface (handlers/types.go): the model's request [hreq] is the call of the method of the\n" +
		"   same name; [xo xq xf xt] stand for the request-struct fields the model's request does not carry (Opaque,\n" +
		"   Quiet, NoopOpaque, NoopEnd; Flags and Exptime of Append/Prepend): gen/StdLink.v proves the result equal to\n" +
		"   the model for every value of them *)\n")
	sb.WriteString("Definition std_wire_src_gen (E : genv) (xo : N) (xq : bool) (xf xt : N) (c : wconn) (q : hreq) : wst * res hres :=\n  match q with\n")
	line := func(pat, run, m string, val map[string]string) {
		fmt.Fprintf(&sb, "  | %s => %s (Handler_%s_src E %s) c\n", pat, run, m, args(m, val))
	}
	line("HSet MSet k d f ttl", "run_err", "Set", set)
	line("HSet MAdd k d f ttl", "run_err", "Add", set)
	line("HSet MReplace k d f ttl", "run_err", "Replace", set)
	line("HCat false k d", "run_err", "Append", cat)
	line("HCat true k d", "run_err", "Prepend", cat)
	line("HDelete k", "run_err", "Delete", key)
	line("HTouch k ttl", "run_err", "Touch", key)
	line("HGat k ttl opq", "run_gat", "GAT", gat)
	line("HGet items", "run_get", "Get", get)
	line("HGetE items", "run_get", "GetE", get)
	sb.WriteString("  end.\n")
	sb.WriteString("Definition std_wire_src (ebody : N -> bytes) (c : wconn) (now : N) (q : hreq) : wst * res hres :=\n" +
		"  std_wire_src_gen (mkGE ebody now (mkQH 0 0 0 0 0 0 0 0 0) rh_zero []) 0 false 0 0 c q.\n\n")
	return sb.String()
}
