package main

// batchtrans: translates the SOURCE of conn.batchIntoBuffer (handlers/memcached/batched/conn.go; go/parser,
// on every run) into a Gallina function in coq/gen/Batch_gen.v, together with
//   - the structs it handles as Records (request: batched/types.go, reshandle: batched/conn.go, the
//     common.*Request structs it type-asserts to: common/*.go) and the interface value common.Request as the
//     sum `Request` of exactly those structs (+ Dyn_other),
//   - one definition per binprot.Write*Cmd it calls (protocol/binprot/commands.go: which helper, which
//     opcode; the arguments must be the parameters passed through in order).
// The meaning of every emitted name is a definition of coq/handlers/BatchSem.v (hand-written, trusted; its
// header lists the rules). coq/gen/BatchLink.v proves the translated function equal, through the
// abstraction stated there, to Batched.batch_entries (props/C06src.v).
//
// Translation is by AST structure, statement by statement; it decides nothing:
//   - a statement sequence is a chain of `let x := e in`; an assignment rebinds the Go variable's name.
//     A block (switch case / loop body) yields `Ok (v1, .., vn)`: the variables declared outside it that
//     are assigned anywhere inside the enclosing construct, in declaration order.
//   - x := uint32(c.rand.Int31())                  -> let x := bs_u32 rand_Int31   (the function's parameter)
//   - x := batcherPool.Get().(*bytes.Buffer)       -> let x := pooled_buffer       (the function's parameter)
//   - x.Reset() / x.Write(e) (x a buffer)          -> bs_buf_reset / bs_buf_write x (BData e)
//   - binprot.WriteXCmd(x, args..) (x a buffer)    -> bs_buf_write x (WriteXCmd args..)
//   - x := make(map[K]V, _)                        -> bs_make_map;   m[k] = v -> bs_map_set m k v
//   - var x int                                    -> let x := 0%Z;  x++ (uint32) -> bs_inc32 x
//   - x := e.(pkg.T)                               -> bs_assert (as_T e) (fun x => ..)
//   - for _, x := range l {..} / for i := range l {..} -> bs_for_range / bs_for_index
//   - switch tag { case c: .. }                    -> bs_switch tag [(c, ..); ..] default
//   - l[i] on a slice                              -> hoisted: bs_index l i (fun ixN => ..), source order
//   - T{f: e, ..}                                  -> mk_T e.. in declaration order (all fields required)
//   - x.f -> (T_f x); common.RequestX -> RtX; OpcodeX -> opX (gen/Consts_gen.v, compiled values)
//   - len(e) -> bs_len_int e; uint32(len(e)) -> bs_u32 (len e); uint32(i) -> bs_u32 i; a + b (uint32) ->
//     bs_add32 a b; integer literal n -> n (uint32) or n%Z (int)
//   - return a, b, c                               -> Ok (a, b, c)
//   - anything else -> Untranslatable "<text> (file:line)" as the value of the block (nothing is dropped;
//     batchIntoBuffer has no metrics/log statements).

import (
	"fmt"
	"go/ast"
	"go/parser"
	"go/token"
	"go/types"
	"os"
	"path/filepath"
	"sort"
	"strings"
)

func init() { commands["batchtrans"] = batchtrans }

type bchVar struct {
	kind string // "u32", "int", "idx", "buf", "map", "struct:<T>", "slice", "other"
}

type bchCtx struct {
	fs       *token.FileSet
	structs  map[string]*ast.StructType // by Coq record name
	vars     map[string]bchVar
	order    []string // declaration order of variables
	ix       int
	asserted []string // struct names type-asserted to, first-use order
	writes   []string // Write*Cmd names called, first-use order
	usedRand bool
}

type bchErr struct{ msg string }

func (c *bchCtx) at(n ast.Node) string {
	pos := c.fs.Position(n.Pos())
	return fmt.Sprintf("%s:%d", filepath.Base(pos.Filename), pos.Line)
}

func bchStr(s string) string {
	s = strings.Join(strings.Fields(s), " ")
	if len(s) > 160 {
		s = s[:160] + "..."
	}
	return "\"" + strings.ReplaceAll(s, "\"", "'") + "\""
}

func (c *bchCtx) stmtText(s ast.Stmt) string {
	switch x := s.(type) {
	case *ast.ExprStmt:
		return types.ExprString(x.X)
	case *ast.AssignStmt:
		var l, r []string
		for _, e := range x.Lhs {
			l = append(l, types.ExprString(e))
		}
		for _, e := range x.Rhs {
			r = append(r, types.ExprString(e))
		}
		return strings.Join(l, ", ") + " " + x.Tok.String() + " " + strings.Join(r, ", ")
	case *ast.IncDecStmt:
		return types.ExprString(x.X) + x.Tok.String()
	case *ast.ReturnStmt:
		var r []string
		for _, e := range x.Results {
			r = append(r, types.ExprString(e))
		}
		return "return " + strings.Join(r, ", ")
	case *ast.RangeStmt:
		return "for ... range " + types.ExprString(x.X)
	case *ast.SwitchStmt:
		return "switch ..."
	case *ast.IfStmt:
		return "if " + types.ExprString(x.Cond) + " {...}"
	case *ast.DeclStmt:
		return "declaration"
	}
	return fmt.Sprintf("%T", s)
}

func (c *bchCtx) untr(s ast.Stmt, why string) string {
	t := c.stmtText(s)
	if why != "" {
		t += " [" + why + "]"
	}
	return "Untranslatable " + bchStr(fmt.Sprintf("%s (%s)", t, c.at(s)))
}

func (c *bchCtx) declare(name string, v bchVar) {
	if _, ok := c.vars[name]; !ok {
		c.order = append(c.order, name)
	}
	c.vars[name] = v
}

// ---- types ----

func bchCoqType(e ast.Expr) string {
	switch types.ExprString(e) {
	case "[]byte":
		return "bytes"
	case "uint32":
		return "N"
	case "bool":
		return "bool"
	case "[][]byte":
		return "(list bytes)"
	case "[]uint32":
		return "(list N)"
	case "[]bool":
		return "(list bool)"
	case "chan response":
		return "nat"
	case "common.RequestType":
		return "N"
	case "common.Request":
		return "Request"
	case "int":
		return "Z"
	case "reshandle":
		return "reshandle"
	}
	return "(Untranslatable_type " + bchStr(types.ExprString(e)) + ")"
}

func bchFields(st *ast.StructType) (names []string, typs []ast.Expr) {
	for _, f := range st.Fields.List {
		for _, n := range f.Names {
			names = append(names, n.Name)
			typs = append(typs, f.Type)
		}
	}
	return
}

func (c *bchCtx) record(name string) string {
	st := c.structs[name]
	if st == nil {
		return fmt.Sprintf("Definition %s : Type := Untranslatable_type %s.\n", name, bchStr("struct "+name+" not found"))
	}
	names, typs := bchFields(st)
	var fs []string
	for i, n := range names {
		fs = append(fs, fmt.Sprintf("%s_%s : %s", name, n, bchCoqType(typs[i])))
	}
	return fmt.Sprintf("Record %s := mk_%s { %s }.\n", name, name, strings.Join(fs, "; "))
}

// ---- expressions ----

// hoist collects slice index expressions (source order) as binders
type bchHoist struct {
	binders []string // "bs_index l i (fun ixN =>"
}

func (c *bchCtx) structOf(e ast.Expr) string {
	if id, ok := e.(*ast.Ident); ok {
		if v, ok := c.vars[id.Name]; ok && strings.HasPrefix(v.kind, "struct:") {
			return strings.TrimPrefix(v.kind, "struct:")
		}
	}
	return ""
}

func (c *bchCtx) expr(e ast.Expr, want string, h *bchHoist) string {
	switch x := e.(type) {
	case *ast.ParenExpr:
		return c.expr(x.X, want, h)
	case *ast.Ident:
		if _, ok := c.vars[x.Name]; ok {
			return x.Name
		}
		if strings.HasPrefix(x.Name, "Opcode") {
			return "op" + strings.TrimPrefix(x.Name, "Opcode")
		}
		panic(bchErr{"unknown identifier " + x.Name})
	case *ast.BasicLit:
		if x.Kind == token.INT {
			if want == "int" {
				return x.Value + "%Z"
			}
			return x.Value
		}
		panic(bchErr{"literal " + x.Value})
	case *ast.SelectorExpr:
		if id, ok := x.X.(*ast.Ident); ok && id.Name == "common" && strings.HasPrefix(x.Sel.Name, "Request") {
			if _, isVar := c.vars["common"]; !isVar {
				return "Rt" + strings.TrimPrefix(x.Sel.Name, "Request")
			}
		}
		if id, ok := x.X.(*ast.Ident); ok && id.Name == "binprot" && strings.HasPrefix(x.Sel.Name, "Opcode") {
			return "op" + strings.TrimPrefix(x.Sel.Name, "Opcode")
		}
		if t := c.structOf(x.X); t != "" {
			st := c.structs[t]
			if st != nil {
				names, _ := bchFields(st)
				for _, n := range names {
					if n == x.Sel.Name {
						return fmt.Sprintf("(%s_%s %s)", t, n, c.expr(x.X, "", h))
					}
				}
			}
			panic(bchErr{"no field " + x.Sel.Name + " in " + t})
		}
		panic(bchErr{"selector " + types.ExprString(x)})
	case *ast.IndexExpr:
		// slice element: hoisted
		l := c.expr(x.X, "", h)
		i := c.expr(x.Index, "idx", h)
		c.ix++
		name := fmt.Sprintf("ix%d", c.ix)
		h.binders = append(h.binders, fmt.Sprintf("bs_index %s %s (fun %s =>", l, i, name))
		return name
	case *ast.CallExpr:
		if id, ok := x.Fun.(*ast.Ident); ok && len(x.Args) == 1 {
			switch id.Name {
			case "len":
				if want == "int" {
					return fmt.Sprintf("(bs_len_int %s)", c.expr(x.Args[0], "", h))
				}
				panic(bchErr{"len() outside an int context"})
			case "uint32":
				if in, ok := x.Args[0].(*ast.CallExpr); ok {
					if f, ok := in.Fun.(*ast.Ident); ok && f.Name == "len" && len(in.Args) == 1 {
						return fmt.Sprintf("(bs_u32 (len %s))", c.expr(in.Args[0], "", h))
					}
					if types.ExprString(in) == "c.rand.Int31()" && !c.usedRand {
						c.usedRand = true
						return "(bs_u32 rand_Int31)"
					}
				}
				if a, ok := x.Args[0].(*ast.Ident); ok {
					if v, ok := c.vars[a.Name]; ok && (v.kind == "idx" || v.kind == "u32") {
						return fmt.Sprintf("(bs_u32 %s)", a.Name)
					}
				}
				panic(bchErr{"conversion " + types.ExprString(x)})
			}
		}
		panic(bchErr{"call " + types.ExprString(x)})
	case *ast.BinaryExpr:
		if x.Op == token.ADD && want == "u32" {
			return fmt.Sprintf("(bs_add32 %s %s)", c.expr(x.X, "u32", h), c.expr(x.Y, "u32", h))
		}
		panic(bchErr{"operator " + x.Op.String()})
	case *ast.CompositeLit:
		tn := types.ExprString(x.Type)
		st := c.structs[tn]
		if st == nil {
			panic(bchErr{"literal of " + tn})
		}
		names, typs := bchFields(st)
		given := map[string]ast.Expr{}
		for _, el := range x.Elts {
			kv, ok := el.(*ast.KeyValueExpr)
			if !ok {
				panic(bchErr{"positional struct literal"})
			}
			k, ok := kv.Key.(*ast.Ident)
			if !ok {
				panic(bchErr{"struct literal key"})
			}
			if _, dup := given[k.Name]; dup {
				panic(bchErr{"duplicate field"})
			}
			given[k.Name] = kv.Value
		}
		if len(given) != len(names) {
			panic(bchErr{"struct literal does not give every field"})
		}
		// Go evaluates the element expressions in source order: hoist in source order first
		vals := map[string]string{}
		for _, el := range x.Elts {
			kv := el.(*ast.KeyValueExpr)
			k := kv.Key.(*ast.Ident).Name
			w := ""
			for i, n := range names {
				if n == k {
					w = bchWant(typs[i])
				}
			}
			vals[k] = c.expr(kv.Value, w, h)
		}
		var args []string
		for _, n := range names {
			v, ok := vals[n]
			if !ok {
				panic(bchErr{"struct literal misses field " + n})
			}
			args = append(args, v)
		}
		return fmt.Sprintf("(mk_%s %s)", tn, strings.Join(args, " "))
	}
	panic(bchErr{"expression " + types.ExprString(e)})
}

func bchWant(t ast.Expr) string {
	switch types.ExprString(t) {
	case "uint32":
		return "u32"
	case "int":
		return "int"
	}
	return ""
}

// ---- statements ----

func bchTuple(vs []string) string {
	switch len(vs) {
	case 0:
		return "tt"
	case 1:
		return vs[0]
	}
	return "(" + strings.Join(vs, ", ") + ")"
}

func bchPat(vs []string) string {
	switch len(vs) {
	case 0:
		return "_"
	case 1:
		return vs[0]
	}
	return "'(" + strings.Join(vs, ", ") + ")"
}

// assigned: the variables assigned (not defined) in the statements
func (c *bchCtx) assigned(stmts []ast.Stmt, acc map[string]bool) {
	for _, s := range stmts {
		ast.Inspect(s, func(n ast.Node) bool {
			switch x := n.(type) {
			case *ast.AssignStmt:
				if x.Tok == token.DEFINE {
					return true
				}
				for _, l := range x.Lhs {
					switch t := l.(type) {
					case *ast.Ident:
						acc[t.Name] = true
					case *ast.IndexExpr:
						if id, ok := t.X.(*ast.Ident); ok {
							acc[id.Name] = true
						}
					}
				}
			case *ast.IncDecStmt:
				if id, ok := x.X.(*ast.Ident); ok {
					acc[id.Name] = true
				}
			case *ast.ExprStmt:
				if call, ok := x.X.(*ast.CallExpr); ok {
					if sel, ok := call.Fun.(*ast.SelectorExpr); ok {
						if id, ok := sel.X.(*ast.Ident); ok {
							if v, ok := c.vars[id.Name]; ok && v.kind == "buf" {
								acc[id.Name] = true
							}
							if id.Name == "binprot" && len(call.Args) > 0 {
								if b, ok := call.Args[0].(*ast.Ident); ok {
									acc[b.Name] = true
								}
							}
						}
					}
				}
			}
			return true
		})
	}
}

// liveOut: assigned variables that are declared now (i.e. outside the construct), in declaration order
func (c *bchCtx) liveOut(stmts []ast.Stmt) []string {
	acc := map[string]bool{}
	c.assigned(stmts, acc)
	var out []string
	for _, n := range c.order {
		if acc[n] {
			out = append(out, n)
		}
	}
	return out
}

func bchWrap(h *bchHoist, inner string) string {
	if len(h.binders) == 0 {
		return inner
	}
	return strings.Join(h.binders, "\n") + "\n" + inner + strings.Repeat(")", len(h.binders))
}

// block: the statements, then `final` (the value of the block)
func (c *bchCtx) block(stmts []ast.Stmt, final string) string {
	if len(stmts) == 0 {
		return final
	}
	s := stmts[0]
	rest := func() string { return c.block(stmts[1:], final) }
	var out string
	func() {
		defer func() {
			if r := recover(); r != nil {
				if be, ok := r.(bchErr); ok {
					out = c.untr(s, be.msg)
					return
				}
				panic(r)
			}
		}()
		out = c.stmt(s, rest)
	}()
	return out
}

func (c *bchCtx) stmt(s ast.Stmt, rest func() string) string {
	h := &bchHoist{}
	switch x := s.(type) {
	case *ast.DeclStmt:
		gd, ok := x.Decl.(*ast.GenDecl)
		if !ok || gd.Tok != token.VAR || len(gd.Specs) != 1 {
			return c.untr(s, "")
		}
		vs := gd.Specs[0].(*ast.ValueSpec)
		if len(vs.Names) != 1 || len(vs.Values) != 0 || vs.Type == nil || types.ExprString(vs.Type) != "int" {
			return c.untr(s, "")
		}
		c.declare(vs.Names[0].Name, bchVar{"int"})
		return fmt.Sprintf("let %s := 0%%Z in\n%s", vs.Names[0].Name, rest())

	case *ast.IncDecStmt:
		id, ok := x.X.(*ast.Ident)
		if !ok || x.Tok != token.INC || c.vars[id.Name].kind != "u32" {
			return c.untr(s, "")
		}
		return fmt.Sprintf("let %s := bs_inc32 %s in\n%s", id.Name, id.Name, rest())

	case *ast.AssignStmt:
		if len(x.Lhs) != 1 || len(x.Rhs) != 1 {
			return c.untr(s, "")
		}
		if x.Tok == token.DEFINE {
			id, ok := x.Lhs[0].(*ast.Ident)
			if !ok {
				return c.untr(s, "")
			}
			rhs := x.Rhs[0]
			// type assertion
			if ta, ok := rhs.(*ast.TypeAssertExpr); ok && ta.Type != nil {
				tn := types.ExprString(ta.Type)
				if tn == "*bytes.Buffer" && types.ExprString(ta.X) == "batcherPool.Get()" {
					c.declare(id.Name, bchVar{"buf"})
					return fmt.Sprintf("let %s := pooled_buffer in\n%s", id.Name, rest())
				}
				if strings.HasPrefix(tn, "common.") {
					t := strings.TrimPrefix(tn, "common.")
					if c.structs[t] == nil {
						return c.untr(s, "unknown struct")
					}
					seen := false
					for _, a := range c.asserted {
						seen = seen || a == t
					}
					if !seen {
						c.asserted = append(c.asserted, t)
					}
					src := c.expr(ta.X, "", h)
					saved, savedOrder := c.vars[id.Name], c.order
					_, had := c.vars[id.Name]
					c.declare(id.Name, bchVar{"struct:" + t})
					r := rest()
					if had {
						c.vars[id.Name] = saved
					} else {
						delete(c.vars, id.Name)
					}
					c.order = savedOrder
					return bchWrap(h, fmt.Sprintf("bs_assert (as_%s %s) (fun %s =>\n%s)", t, src, id.Name, r))
				}
				return c.untr(s, "")
			}
			// make(map[K]V, n)
			if call, ok := rhs.(*ast.CallExpr); ok {
				if f, ok := call.Fun.(*ast.Ident); ok && f.Name == "make" && len(call.Args) >= 1 {
					if mt, ok := call.Args[0].(*ast.MapType); ok {
						c.declare(id.Name, bchVar{"map"})
						return fmt.Sprintf("let %s := (bs_make_map : gomap %s %s) in\n%s", id.Name, bchCoqType(mt.Key), bchCoqType(mt.Value), rest())
					}
				}
				if f, ok := call.Fun.(*ast.Ident); ok && f.Name == "uint32" {
					v := c.expr(rhs, "u32", h)
					c.declare(id.Name, bchVar{"u32"})
					return bchWrap(h, fmt.Sprintf("let %s := %s in\n%s", id.Name, v, rest()))
				}
			}
			if be, ok := rhs.(*ast.BinaryExpr); ok {
				if l, ok := be.X.(*ast.Ident); ok && c.vars[l.Name].kind == "u32" {
					v := c.expr(rhs, "u32", h)
					c.declare(id.Name, bchVar{"u32"})
					return bchWrap(h, fmt.Sprintf("let %s := %s in\n%s", id.Name, v, rest()))
				}
			}
			return c.untr(s, "")
		}
		if x.Tok != token.ASSIGN {
			return c.untr(s, "")
		}
		switch l := x.Lhs[0].(type) {
		case *ast.Ident:
			v, ok := c.vars[l.Name]
			if !ok || (v.kind != "int" && v.kind != "u32") {
				return c.untr(s, "")
			}
			val := c.expr(x.Rhs[0], v.kind, h)
			return bchWrap(h, fmt.Sprintf("let %s := %s in\n%s", l.Name, val, rest()))
		case *ast.IndexExpr:
			m, ok := l.X.(*ast.Ident)
			if !ok || c.vars[m.Name].kind != "map" {
				return c.untr(s, "")
			}
			k := c.expr(l.Index, "", h)
			val := c.expr(x.Rhs[0], "int", h)
			return bchWrap(h, fmt.Sprintf("let %s := bs_map_set %s %s %s in\n%s", m.Name, m.Name, k, val, rest()))
		}
		return c.untr(s, "")

	case *ast.ExprStmt:
		call, ok := x.X.(*ast.CallExpr)
		if !ok {
			return c.untr(s, "")
		}
		sel, ok := call.Fun.(*ast.SelectorExpr)
		if !ok {
			return c.untr(s, "")
		}
		recv, ok := sel.X.(*ast.Ident)
		if !ok {
			return c.untr(s, "")
		}
		if c.vars[recv.Name].kind == "buf" {
			switch {
			case sel.Sel.Name == "Reset" && len(call.Args) == 0:
				return fmt.Sprintf("let %s := bs_buf_reset %s in\n%s", recv.Name, recv.Name, rest())
			case sel.Sel.Name == "Write" && len(call.Args) == 1:
				v := c.expr(call.Args[0], "", h)
				return bchWrap(h, fmt.Sprintf("let %s := bs_buf_write %s (BData %s) in\n%s", recv.Name, recv.Name, v, rest()))
			}
			return c.untr(s, "")
		}
		if recv.Name == "binprot" && strings.HasPrefix(sel.Sel.Name, "Write") && strings.HasSuffix(sel.Sel.Name, "Cmd") && len(call.Args) >= 1 {
			b, ok := call.Args[0].(*ast.Ident)
			if !ok || c.vars[b.Name].kind != "buf" {
				return c.untr(s, "")
			}
			seen := false
			for _, w := range c.writes {
				seen = seen || w == sel.Sel.Name
			}
			if !seen {
				c.writes = append(c.writes, sel.Sel.Name)
			}
			var args []string
			for _, a := range call.Args[1:] {
				args = append(args, c.expr(a, "u32", h))
			}
			return bchWrap(h, fmt.Sprintf("let %s := bs_buf_write %s (%s %s) in\n%s", b.Name, b.Name, sel.Sel.Name, strings.Join(args, " "), rest()))
		}
		return c.untr(s, "")

	case *ast.RangeStmt:
		if x.Tok != token.DEFINE {
			return c.untr(s, "")
		}
		live := c.liveOut(x.Body.List)
		l := c.expr(x.X, "", h)
		if len(h.binders) != 0 {
			return c.untr(s, "index in range expression")
		}
		key, _ := x.Key.(*ast.Ident)
		var loopVar, fn string
		var kind bchVar
		switch {
		case key != nil && key.Name == "_" && x.Value != nil:
			v, ok := x.Value.(*ast.Ident)
			if !ok {
				return c.untr(s, "")
			}
			// element type: only []request parameters are known
			if id, ok := x.X.(*ast.Ident); ok && c.vars[id.Name].kind == "slice:request" {
				kind = bchVar{"struct:request"}
			} else {
				return c.untr(s, "range over unknown element type")
			}
			loopVar, fn = v.Name, "bs_for_range"
		case key != nil && key.Name != "_" && x.Value == nil:
			loopVar, fn, kind = key.Name, "bs_for_index", bchVar{"idx"}
		default:
			return c.untr(s, "")
		}
		savedVars := map[string]bchVar{}
		for k, v := range c.vars {
			savedVars[k] = v
		}
		savedOrder := append([]string{}, c.order...)
		c.declare(loopVar, kind)
		body := c.block(x.Body.List, "Ok "+bchTuple(live))
		c.vars, c.order = savedVars, savedOrder
		return fmt.Sprintf("bs_bind (%s %s (fun %s %s =>\n%s) %s) (fun %s =>\n%s)",
			fn, l, loopVar, bchPat(live), body, bchTuple(live), bchPat(live), rest())

	case *ast.SwitchStmt:
		if x.Init != nil || x.Tag == nil {
			return c.untr(s, "")
		}
		var all []ast.Stmt
		for _, cl := range x.Body.List {
			all = append(all, cl.(*ast.CaseClause).Body...)
		}
		live := c.liveOut(all)
		tag := c.expr(x.Tag, "", h)
		if len(h.binders) != 0 {
			return c.untr(s, "index in switch tag")
		}
		def := "Ok " + bchTuple(live)
		var cases []string
		for _, cl := range x.Body.List {
			cc := cl.(*ast.CaseClause)
			for _, st := range cc.Body {
				if br, ok := st.(*ast.BranchStmt); ok {
					return c.untr(s, br.Tok.String()+" in a case")
				}
			}
			savedVars := map[string]bchVar{}
			for k, v := range c.vars {
				savedVars[k] = v
			}
			savedOrder := append([]string{}, c.order...)
			body := c.block(cc.Body, "Ok "+bchTuple(live))
			c.vars, c.order = savedVars, savedOrder
			if cc.List == nil {
				def = body
				continue
			}
			for _, ce := range cc.List {
				hc := &bchHoist{}
				cv := c.expr(ce, "", hc)
				if len(hc.binders) != 0 {
					return c.untr(s, "index in case")
				}
				cases = append(cases, fmt.Sprintf("(%s,\n%s)", cv, body))
			}
		}
		return fmt.Sprintf("bs_bind (bs_switch %s [\n%s]\n(%s)) (fun %s =>\n%s)",
			tag, strings.Join(cases, ";\n"), def, bchPat(live), rest())

	case *ast.ReturnStmt:
		var rs []string
		for _, r := range x.Results {
			rs = append(rs, c.expr(r, "", h))
		}
		if len(h.binders) != 0 {
			return c.untr(s, "index in return")
		}
		return "Ok " + bchTuple(rs)
	}
	return c.untr(s, "")
}

// ---- binprot.Write*Cmd ----

func (c *bchCtx) writeCmd(name string, fns map[string]*ast.FuncDecl) string {
	fd := fns[name]
	bad := func(why string) string {
		return fmt.Sprintf("Definition %s : bufop := BOther %s.\n", name, bchStr(name+": "+why))
	}
	if fd == nil || fd.Body == nil {
		return bad("not found in protocol/binprot/commands.go")
	}
	var pnames []string
	var ptypes []string
	for _, f := range fd.Type.Params.List {
		for _, n := range f.Names {
			pnames = append(pnames, n.Name)
			ptypes = append(ptypes, types.ExprString(f.Type))
		}
	}
	if len(pnames) < 2 || ptypes[0] != "io.Writer" {
		return bad("unexpected signature")
	}
	if len(fd.Body.List) != 1 {
		return bad("body is not a single return")
	}
	ret, ok := fd.Body.List[0].(*ast.ReturnStmt)
	if !ok || len(ret.Results) != 1 {
		return bad("body is not a single return")
	}
	call, ok := ret.Results[0].(*ast.CallExpr)
	if !ok {
		return bad("does not return a helper call")
	}
	helper, ok := call.Fun.(*ast.Ident)
	if !ok {
		return bad("does not return a helper call")
	}
	ctor := map[string]string{"writeDataCmdCommon": "BDataCmd", "writeAppendPrependCmdCommon": "BCatCmd",
		"writeKeyCmd": "BKeyCmd", "writeKeyExptimeCmd": "BKeyExpCmd"}[helper.Name]
	if ctor == "" {
		return bad("unknown helper " + helper.Name)
	}
	// helper(w, OpcodeX, p1, .., pn) with p1..pn the parameters after the writer, in order
	if len(call.Args) != len(pnames)+1 {
		return bad("helper arguments are not the parameters passed through")
	}
	if a, ok := call.Args[0].(*ast.Ident); !ok || a.Name != pnames[0] {
		return bad("helper arguments are not the parameters passed through")
	}
	opc, ok := call.Args[1].(*ast.Ident)
	if !ok || !strings.HasPrefix(opc.Name, "Opcode") {
		return bad("opcode is not a constant")
	}
	for i := 1; i < len(pnames); i++ {
		a, ok := call.Args[i+1].(*ast.Ident)
		if !ok || a.Name != pnames[i] {
			return bad("helper arguments are not the parameters passed through")
		}
	}
	var binders []string
	for i := 1; i < len(pnames); i++ {
		t := "N"
		switch ptypes[i] {
		case "[]byte":
			t = "bytes"
		case "uint32":
			t = "N"
		default:
			return bad("parameter type " + ptypes[i])
		}
		binders = append(binders, fmt.Sprintf("(%s : %s)", pnames[i], t))
	}
	return fmt.Sprintf("(* %s: return %s(%s, %s, ..) *)\nDefinition %s %s : bufop := %s %s %s.\n",
		name, helper.Name, pnames[0], opc.Name, name, strings.Join(binders, " "), ctor,
		"op"+strings.TrimPrefix(opc.Name, "Opcode"), strings.Join(pnames[1:], " "))
}

func batchtrans(e *env) {
	repo := "/repo"
	if v := os.Getenv("VERIF_REPO"); v != "" {
		repo = v
	}
	fs := token.NewFileSet()
	c := &bchCtx{fs: fs, structs: map[string]*ast.StructType{}, vars: map[string]bchVar{}}
	var perrs []string
	var batchFn *ast.FuncDecl
	binFns := map[string]*ast.FuncDecl{}

	files := []string{"handlers/memcached/batched/conn.go", "handlers/memcached/batched/types.go", "protocol/binprot/commands.go"}
	commonFiles, _ := filepath.Glob(filepath.Join(repo, "common", "*.go"))
	sort.Strings(commonFiles)
	for _, f := range commonFiles {
		if strings.HasSuffix(f, "_test.go") {
			continue
		}
		rel, _ := filepath.Rel(repo, f)
		files = append(files, rel)
	}
	for _, f := range files {
		af, err := parser.ParseFile(fs, filepath.Join(repo, f), nil, 0)
		if err != nil {
			perrs = append(perrs, err.Error())
			continue
		}
		if len(af.Comments) >= 0 && strings.Contains(f, "verif_hooks") {
			continue
		}
		for _, d := range af.Decls {
			switch x := d.(type) {
			case *ast.FuncDecl:
				if x.Body == nil {
					continue
				}
				if strings.HasSuffix(f, "batched/conn.go") && x.Name.Name == "batchIntoBuffer" && x.Recv != nil {
					batchFn = x
				}
				if strings.HasSuffix(f, "binprot/commands.go") && x.Recv == nil {
					binFns[x.Name.Name] = x
				}
			case *ast.GenDecl:
				if x.Tok != token.TYPE {
					continue
				}
				for _, sp := range x.Specs {
					ts := sp.(*ast.TypeSpec)
					if st, ok := ts.Type.(*ast.StructType); ok {
						if _, dup := c.structs[ts.Name.Name]; !dup {
							c.structs[ts.Name.Name] = st
						}
					}
				}
			}
		}
	}

	var body string
	if batchFn == nil {
		body = "Untranslatable " + bchStr("func (c *conn) batchIntoBuffer not found in handlers/memcached/batched/conn.go")
	} else {
		sig := types.ExprString(batchFn.Type)
		want := "func(reqs []request) (*bytes.Buffer, map[uint32]reshandle, map[chan response]int)"
		if sig != want {
			body = "Untranslatable " + bchStr("unexpected signature "+sig)
		} else {
			c.declare("reqs", bchVar{"slice:request"})
			body = c.block(batchFn.Body.List, "Untranslatable "+bchStr("function body does not end in a return"))
		}
	}
	for _, pe := range perrs {
		body = "Untranslatable " + bchStr(pe)
	}

	var sb strings.Builder
	sb.WriteString("(* GENERATED by harness batchtrans from the SOURCE of /repo/handlers/memcached/batched/conn.go\n" +
		"   (func (c *conn) batchIntoBuffer), batched/types.go, common/*.go (the structs) and\n" +
		"   protocol/binprot/commands.go (the Write*Cmd functions it calls) — do not edit.\n" +
		"   Rules: harness/cmd/rendharness/batchtrans.go; meaning of the bs_* names: handlers/BatchSem.v;\n" +
		"   gen/BatchLink.v proves batchIntoBuffer equal (through the abstraction stated there) to\n" +
		"   Batched.batch_entries. Not translated: conn.reader, conn.batcher, conn.recoveryMonitor,\n" +
		"   conn.reconnect, newConn (nothing here ties them to the model; harness tier c06 / c13 does). *)\n")
	sb.WriteString("From Coq Require Import String.\nFrom Rend Require Import base.Bytes gen.Consts_gen handlers.BatchSem.\n" +
		"Open Scope string_scope.\nOpen Scope list_scope.\nOpen Scope N_scope.\n\n")

	sb.WriteString("(* ---- structs ---- *)\n")
	for _, t := range c.asserted {
		sb.WriteString(c.record(t))
	}
	sb.WriteString("\n(* common.Request: the dynamic types batchIntoBuffer asserts to *)\nInductive Request :=\n")
	for _, t := range c.asserted {
		fmt.Fprintf(&sb, "| Dyn_%s (x : %s)\n", t, t)
	}
	sb.WriteString("| Dyn_other.\n")
	for _, t := range c.asserted {
		fmt.Fprintf(&sb, "Definition as_%s (r : Request) : option %s := match r with Dyn_%s x => Some x | _ => None end.\n", t, t, t)
	}
	sb.WriteString("\n")
	sb.WriteString(c.record("request"))
	sb.WriteString(c.record("reshandle"))

	sb.WriteString("\n(* ---- protocol/binprot/commands.go ---- *)\n")
	for _, w := range c.writes {
		sb.WriteString(c.writeCmd(w, binFns))
	}

	sb.WriteString("\n(* ---- func (c *conn) batchIntoBuffer(reqs []request) ( *bytes.Buffer, map[uint32]reshandle, map[chan response]int)\n" +
		"   rand_Int31: the value of c.rand.Int31(); pooled_buffer: what batcherPool.Get() returns ---- *)\n")
	sb.WriteString("Definition batchIntoBuffer (rand_Int31 : N) (pooled_buffer : gobuf) (reqs : list request)\n" +
		"  : res (gobuf * gomap N reshandle * gomap nat Z) :=\n")
	sb.WriteString(body)
	sb.WriteString(".\n")

	dir := e.out
	if dir == "" || dir == "." {
		root := os.Getenv("VERIF_ROOT")
		if root == "" {
			root = "/verif"
		}
		dir = filepath.Join(root, "coq", "gen")
	}
	writeIfChanged(filepath.Join(dir, "Batch_gen.v"), []byte(sb.String()))
}
