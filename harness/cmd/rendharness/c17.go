package main

// c17: the in-process debug backend handlers/inmem against the Gallina model (coq/handlers/Inmem.v)
// and the reference map (coq/spec/MapSpec.v, TTL rule inmem_norm), evaluated by coq/checks/Check17.v.
//
//   sequential tier  command sequences over a 4-key alphabet on a VerifNewFresh() instance; after
//                    every command the result and the dumped map are recorded. The handler reads
//                    time.Now() itself: the clock is sampled before and after each command and a
//                    sequence in which the second changed during a command is re-run.
//   expiry tier      the same with TTLs of 1..2 s and real sleeps (sequences run in parallel,
//                    each on its own instance).
//   concurrent tier  2..32 goroutines on ONE fresh instance in a CHILD process (sub-command
//                    c17child): reads of keys that are never stored, writes on shared keys with
//                    self-describing values, and a recorded sequence on keys owned by the
//                    goroutine (checked against the model like a sequential case). A Go runtime
//                    map fault kills the child: its exit status and stderr are the observation.
//                    With extra argument "race" (a -race build of this binary) only this tier
//                    runs and race reports naming handlers/inmem are findings.
//   replay=<file>    JSON desc of one case (kind seq | conc | conc-trace): run just that.

import (
	"bytes"
	"encoding/json"
	"fmt"
	"os"
	"os/exec"
	"path/filepath"
	"sort"
	"strconv"
	"strings"
	"sync"
	"time"

	"github.com/netflix/rend/common"
	"github.com/netflix/rend/handlers/inmem"
	"verifharness/gal"
	"verifharness/rig"
)

func init() {
	commands["c17"] = c17
	commands["c17child"] = c17child
}

type c17Op struct {
	Op      string   `json:"op"` // set add replace append prepend delete touch get gete gat sleep close
	Keys    []string `json:"keys,omitempty"`
	Data    string   `json:"data,omitempty"`
	Flags   uint32   `json:"flags,omitempty"`
	TTL     uint32   `json:"ttl,omitempty"`
	Opaques []uint32 `json:"opaques,omitempty"`
	Quiet   []bool   `json:"quiet,omitempty"`
	// where the Data slice handed to the handler comes from:
	//  exact  fresh slice, cap == len            spare  fresh slice with spare capacity
	//  got    the very slice the last get/gete/gat hit returned (a client copying a value)
	//  shared one client-owned constant slice with spare capacity, passed again and again
	Buf     string `json:"buf,omitempty"`
	SleepMs int    `json:"sleep_ms,omitempty"`
}

type c17Desc struct {
	Kind       string   `json:"kind"` // seq | conc | conc-trace
	Name       string   `json:"name,omitempty"`
	Alphabet   []string `json:"alphabet,omitempty"`
	Ops        []c17Op  `json:"ops,omitempty"`
	Goroutines int      `json:"goroutines,omitempty"`
	Iters      int      `json:"iters,omitempty"`
	Seed       uint64   `json:"seed,omitempty"`
	Goroutine  int      `json:"goroutine,omitempty"`
	Race       bool     `json:"race,omitempty"`
}

var c17Alphabet = []string{"a", "b", "c", "d"}

const c17SharedData = "PFX"

// ---------------------------------------------------------------- running one command

type c17Client struct {
	h       *inmem.Handler
	lastGot []byte
	shared  []byte
}

func newC17Client(h *inmem.Handler) *c17Client {
	sh := make([]byte, 0, 64)
	sh = append(sh, c17SharedData...)
	return &c17Client{h: h, shared: sh}
}

type c17Info struct {
	op      string
	hits    int
	misses  int
	errName string
	buf     string
}

type c17Step struct {
	Now  int64  `json:"now"`
	Req  string `json:"req"`
	Res  string `json:"res"`
	Dump string `json:"dump"` // changes of the dumped map since the previous dump; "" = no dump taken
}

func c17ErrTerm(err error) (string, string) {
	if err == nil {
		return "HDone", "ok"
	}
	i := errIndex(err)
	if i < 0 {
		return "(HErr 99)", "other:" + err.Error()
	}
	return fmt.Sprintf("(HErr %d)", i), errList[i].name
}

func c17Gres(key, data []byte, flags, exp, opaque uint32, quiet, miss bool) string {
	return gal.App("mkGR", c17B(key), c17B(data), gal.N(uint64(flags)), gal.N(uint64(exp)),
		gal.N(uint64(opaque)), gal.Bool(quiet), gal.Bool(miss))
}

// exec runs one command on the real handler; returns the Gallina request and observed result.
func (c *c17Client) exec(op c17Op) (req, res string, info c17Info) {
	info.op = op.Op
	key := func() []byte { return []byte(op.Keys[0]) }
	switch op.Op {
	case "set", "add", "replace", "append", "prepend":
		var data []byte
		buf := op.Buf
		if buf == "got" && c.lastGot == nil {
			buf = "spare"
		}
		switch buf {
		case "got":
			data = c.lastGot
		case "shared":
			data = c.shared
		case "spare":
			data = make([]byte, len(op.Data), len(op.Data)+32)
			copy(data, op.Data)
		default:
			buf = "exact"
			data = []byte(op.Data)
			data = data[:len(data):len(data)]
		}
		info.buf = buf
		snap := append([]byte(nil), data...) // what the client asked to store, as of the call
		sr := common.SetRequest{Key: key(), Data: data, Flags: op.Flags, Exptime: op.TTL}
		var err error
		switch op.Op {
		case "set":
			err = c.h.Set(sr)
			req = gal.App("HSet", "MSet", c17B(key()), c17B(snap), gal.N(uint64(op.Flags)), gal.N(uint64(op.TTL)))
		case "add":
			err = c.h.Add(sr)
			req = gal.App("HSet", "MAdd", c17B(key()), c17B(snap), gal.N(uint64(op.Flags)), gal.N(uint64(op.TTL)))
		case "replace":
			err = c.h.Replace(sr)
			req = gal.App("HSet", "MReplace", c17B(key()), c17B(snap), gal.N(uint64(op.Flags)), gal.N(uint64(op.TTL)))
		case "append":
			err = c.h.Append(sr)
			req = gal.App("HCat", "false", c17B(key()), c17B(snap))
		case "prepend":
			err = c.h.Prepend(sr)
			req = gal.App("HCat", "true", c17B(key()), c17B(snap))
		}
		res, info.errName = c17ErrTerm(err)
	case "delete":
		err := c.h.Delete(common.DeleteRequest{Key: key()})
		req = gal.App("HDelete", c17B(key()))
		res, info.errName = c17ErrTerm(err)
	case "touch":
		err := c.h.Touch(common.TouchRequest{Key: key(), Exptime: op.TTL})
		req = gal.App("HTouch", c17B(key()), gal.N(uint64(op.TTL)))
		res, info.errName = c17ErrTerm(err)
	case "gat":
		var opq uint32
		if len(op.Opaques) > 0 {
			opq = op.Opaques[0]
		}
		q := len(op.Quiet) > 0 && op.Quiet[0] // the handler ignores it; the response is never quiet
		r, err := c.h.GAT(common.GATRequest{Key: key(), Exptime: op.TTL, Opaque: opq, Quiet: q})
		req = gal.App("HGat", c17B(key()), gal.N(uint64(op.TTL)), gal.N(uint64(opq)))
		if err != nil {
			res, info.errName = c17ErrTerm(err)
		} else {
			res = gal.App("HVals", gal.List([]string{c17Gres(r.Key, r.Data, r.Flags, 0, r.Opaque, r.Quiet, r.Miss)}), "None")
			info.errName = "ok"
			if r.Miss {
				info.misses++
			} else {
				info.hits++
				c.lastGot = r.Data
			}
		}
	case "get", "gete":
		gr := common.GetRequest{}
		var items []string
		for i, k := range op.Keys {
			var opq uint32
			var q bool
			if i < len(op.Opaques) {
				opq = op.Opaques[i]
			}
			if i < len(op.Quiet) {
				q = op.Quiet[i]
			}
			gr.Keys = append(gr.Keys, []byte(k))
			gr.Opaques = append(gr.Opaques, opq)
			gr.Quiet = append(gr.Quiet, q)
			items = append(items, gal.App("mkGI", c17B([]byte(k)), gal.N(uint64(opq)), gal.Bool(q)))
		}
		var rs []string
		var lastErr error
		if op.Op == "get" {
			req = gal.App("HGet", gal.List(items))
			dc, ec := c.h.Get(gr)
			for r := range dc {
				rs = append(rs, c17Gres(r.Key, r.Data, r.Flags, 0, r.Opaque, r.Quiet, r.Miss))
				if r.Miss {
					info.misses++
				} else {
					info.hits++
					c.lastGot = r.Data
				}
			}
			for err := range ec {
				lastErr = err
			}
		} else {
			req = gal.App("HGetE", gal.List(items))
			dc, ec := c.h.GetE(gr)
			for r := range dc {
				rs = append(rs, c17Gres(r.Key, r.Data, r.Flags, r.Exptime, r.Opaque, r.Quiet, r.Miss))
				if r.Miss {
					info.misses++
				} else {
					info.hits++
					c.lastGot = r.Data
				}
			}
			for err := range ec {
				lastErr = err
			}
		}
		info.errName = "ok"
		e := "None"
		if lastErr != nil {
			i := errIndex(lastErr)
			if i < 0 {
				i = 99
			}
			e = fmt.Sprintf("(Some %d)", i)
			info.errName = "get-error"
		}
		res = gal.App("HVals", gal.List(rs), e)
	default:
		rig.Die("c17: unknown op %q", op.Op)
	}
	return
}

// c17B prints a byte string: short ones as a plain list (cheap to parse), long ones as a hex
// literal (packed and interned by rig.Writer).
func c17B(b []byte) string {
	if len(b) > 6 {
		return gal.Bytes(b)
	}
	it := make([]string, len(b))
	for i, x := range b {
		it[i] = strconv.Itoa(int(x))
	}
	return gal.List(it)
}

func c17SameEntry(a, b [3]interface{}) bool {
	return a[0].(uint32) == b[0].(uint32) && a[1].(uint32) == b[1].(uint32) && bytes.Equal(a[2].([]byte), b[2].([]byte))
}

// c17DeltaTerm prints the keys whose dumped entry differs between two complete dumps
// (restricted to `only` when given): (key, Some (exptime, flags, data)) or (key, None).
func c17DeltaTerm(prev, cur map[string][3]interface{}, only map[string]bool) string {
	ks := map[string]bool{}
	for k := range prev {
		ks[k] = true
	}
	for k := range cur {
		ks[k] = true
	}
	keys := make([]string, 0, len(ks))
	for k := range ks {
		if only == nil || only[k] {
			keys = append(keys, k)
		}
	}
	sort.Strings(keys)
	var it []string
	for _, k := range keys {
		pv, pok := prev[k]
		cv, cok := cur[k]
		switch {
		case cok && (!pok || !c17SameEntry(pv, cv)):
			it = append(it, gal.Pair(c17B([]byte(k)), "Some "+gal.Tuple(gal.N(uint64(cv[0].(uint32))), gal.N(uint64(cv[1].(uint32))), c17B(cv[2].([]byte)))))
		case !cok && pok:
			it = append(it, gal.Pair(c17B([]byte(k)), "None"))
		}
	}
	return "(Some " + gal.List(it) + ")"
}

func c17StepTerm(s c17Step) string {
	d := s.Dump
	if d == "" {
		d = "None"
	}
	return gal.App("mkS17", gal.N(uint64(s.Now)), s.Req, s.Res, d)
}

func c17CaseTerm(alphabet []string, steps []c17Step) string {
	ks := make([]string, len(alphabet))
	for i, k := range alphabet {
		ks[i] = c17B([]byte(k))
	}
	st := make([]string, len(steps))
	for i, s := range steps {
		st[i] = c17StepTerm(s)
	}
	if len(st) == 0 {
		return gal.App("mkC17", gal.List(ks), "[]")
	}
	return gal.App("mkC17", gal.List(ks), "[\n    "+strings.Join(st, ";\n    ")+"]")
}

// ---------------------------------------------------------------- sequential sequences

type c17SeqResult struct {
	steps      []c17Step
	infos      []c17Info
	addExist   bool // an add on a key that was present and not expired
	delMissing bool // a delete of a key that was absent or expired
	readMiss   bool // a get/gete/gat of a key that was absent or expired
	expiredHit bool // a command addressed a key that was present but expired
	reruns     int
}

func c17Live(prev map[string][3]interface{}, k string, now int64) (present, live bool) {
	v, ok := prev[k]
	if !ok {
		return false, false
	}
	x := v[0].(uint32)
	return true, x == 0 || !(int64(x) < now)
}

func c17RunSeq(d c17Desc) c17SeqResult {
	for attempt := 0; ; attempt++ {
		h := inmem.VerifNewFresh()
		cl := newC17Client(h)
		var r c17SeqResult
		r.reruns = attempt
		prev := map[string][3]interface{}{}
		straddle := false
		for _, op := range d.Ops {
			if op.Op == "sleep" {
				time.Sleep(time.Duration(op.SleepMs) * time.Millisecond)
				continue
			}
			if op.Op == "close" {
				// a connection that used this (shared) backend went away: the server calls Close()
				// on its handler. Not a command: the map is unaffected (seen by the next step's dump).
				h.Close()
				continue
			}
			before := time.Now().Unix()
			req, res, info := cl.exec(op)
			after := time.Now().Unix()
			if before != after {
				straddle = true
				break
			}
			for _, k := range op.Keys {
				p, l := c17Live(prev, k, before)
				if p && !l {
					r.expiredHit = true
				}
				switch op.Op {
				case "add":
					r.addExist = r.addExist || l
				case "delete":
					r.delMissing = r.delMissing || !l
				case "get", "gete", "gat":
					r.readMiss = r.readMiss || !l
				}
			}
			dump := inmem.VerifDump(h)
			r.steps = append(r.steps, c17Step{Now: before, Req: req, Res: res, Dump: c17DeltaTerm(prev, dump, nil)})
			r.infos = append(r.infos, info)
			prev = dump
		}
		if !straddle || attempt >= 5 {
			if straddle {
				rig.Die("c17: the clock second changed during a command in 6 consecutive runs of one sequence")
			}
			return r
		}
	}
}

var c17Words = []string{"x", "yy", "zzz", "0123456789", "v", "data", "A", "BB", "longer-value-abcdefghijklmnopqrstuvwxyz"}

func c17GenOp(r *rig.Rand, keys []string, expiry bool) c17Op {
	k := keys[r.Intn(len(keys))]
	ttl := func() uint32 {
		if expiry {
			switch r.Intn(6) {
			case 0:
				return 0
			case 1, 2, 3:
				return 1
			case 4:
				return 2
			}
			return 3600
		}
		if r.Chance(50) {
			return 0
		}
		long := []uint32{60, 3600, 2592000, 2592001, 100000000, 2000000000}
		return long[r.Intn(len(long))]
	}
	data := func() string {
		if r.Chance(8) {
			return "" // zero bytes of data are legal for every write command
		}
		return c17Words[r.Intn(len(c17Words))] + strconv.Itoa(r.Intn(10))
	}
	buf := func() string {
		x := r.Intn(100)
		switch {
		case x < 45:
			return "exact"
		case x < 70:
			return "spare"
		case x < 88:
			return "got"
		}
		return "shared"
	}
	mk := func(name string) c17Op {
		o := c17Op{Op: name, Keys: []string{k}, Data: data(), Buf: buf()}
		if o.Buf == "shared" {
			o.Data = c17SharedData
		}
		return o
	}
	x := r.Intn(100)
	switch {
	case x < 14:
		o := mk("set")
		o.Flags, o.TTL = uint32(r.Intn(1000)), ttl()
		return o
	case x < 27:
		o := mk("add")
		o.Flags, o.TTL = uint32(r.Intn(1000)), ttl()
		return o
	case x < 35:
		o := mk("replace")
		o.Flags, o.TTL = uint32(r.Intn(1000)), ttl()
		return o
	case x < 45:
		return mk("append")
	case x < 53:
		return mk("prepend")
	case x < 65:
		return c17Op{Op: "delete", Keys: []string{k}}
	case x < 72:
		return c17Op{Op: "touch", Keys: []string{k}, TTL: ttl()}
	case x < 80:
		return c17Op{Op: "gat", Keys: []string{k}, TTL: ttl(), Opaques: []uint32{uint32(r.Intn(1 << 20))}, Quiet: []bool{r.Bool()}}
	}
	name := "get"
	if x >= 91 {
		name = "gete"
	}
	n := 1 + r.Intn(4)
	o := c17Op{Op: name}
	for i := 0; i < n; i++ {
		o.Keys = append(o.Keys, keys[r.Intn(len(keys))])
		o.Opaques = append(o.Opaques, uint32(r.Intn(1<<20)))
		o.Quiet = append(o.Quiet, r.Bool())
	}
	return o
}

func c17GenSeq(r *rig.Rand, name string, expiry bool) c17Desc {
	nk := 3 + r.Intn(2)
	keys := c17Alphabet[:nk]
	n := 6 + r.Intn(35)
	d := c17Desc{Kind: "seq", Name: name, Alphabet: keys}
	sleeps := map[int]int{}
	if expiry {
		n = 10 + r.Intn(20)
		// an entry stored with TTL t during second T is alive through second T+t
		sleeps[n/3] = 2100 + 1000*r.Intn(2)
		sleeps[2*n/3] = 2100
	}
	for i := 0; i < n; i++ {
		if ms, ok := sleeps[i]; ok {
			d.Ops = append(d.Ops, c17Op{Op: "sleep", SleepMs: ms})
		}
		d.Ops = append(d.Ops, c17GenOp(r, keys, expiry))
		if r.Chance(8) {
			d.Ops = append(d.Ops, c17Op{Op: "close"})
		}
	}
	return d
}

func c17Corpus() (plain, expiry []c17Desc) {
	k := func(s string) []string { return []string{s} }
	g := func(keys ...string) c17Op {
		o := c17Op{Op: "get", Keys: keys}
		for i := range keys {
			o.Opaques = append(o.Opaques, uint32(i+1))
			o.Quiet = append(o.Quiet, false)
		}
		return o
	}
	plain = []c17Desc{
		{Kind: "seq", Name: "corpus/add-existing", Alphabet: c17Alphabet[:3], Ops: []c17Op{
			{Op: "set", Keys: k("a"), Data: "x", Flags: 7, Buf: "exact"},
			{Op: "add", Keys: k("a"), Data: "y", Buf: "exact"},
			g("a")}},
		{Kind: "seq", Name: "corpus/delete-missing", Alphabet: c17Alphabet[:3], Ops: []c17Op{
			{Op: "delete", Keys: k("a")}}},
		{Kind: "seq", Name: "corpus/read-missing", Alphabet: c17Alphabet[:3], Ops: []c17Op{
			{Op: "set", Keys: k("a"), Data: "x", Buf: "exact"},
			g("b", "a", "c"),
			{Op: "gete", Keys: k("c"), Opaques: []uint32{5}, Quiet: []bool{true}},
			{Op: "gat", Keys: k("b"), TTL: 10, Opaques: []uint32{6}}}},
		// a client copies a to b with the slice Get returned, then appends to both
		{Kind: "seq", Name: "corpus/append-alias", Alphabet: c17Alphabet[:3], Ops: []c17Op{
			{Op: "set", Keys: k("a"), Data: "x", Buf: "exact"},
			{Op: "append", Keys: k("a"), Data: "y", Buf: "exact"},
			g("a"),
			{Op: "set", Keys: k("b"), Data: "unused", Buf: "got"},
			{Op: "append", Keys: k("a"), Data: "1", Buf: "exact"},
			{Op: "append", Keys: k("b"), Data: "2", Buf: "exact"},
			g("a", "b")}},
		// a client prepends the same constant prefix (a slice with spare capacity) to two keys
		{Kind: "seq", Name: "corpus/prepend-shared", Alphabet: c17Alphabet[:3], Ops: []c17Op{
			{Op: "set", Keys: k("a"), Data: "AAAA", Buf: "exact"},
			{Op: "set", Keys: k("b"), Data: "BBBB", Buf: "exact"},
			{Op: "prepend", Keys: k("a"), Data: c17SharedData, Buf: "shared"},
			{Op: "prepend", Keys: k("b"), Data: c17SharedData, Buf: "shared"},
			g("a", "b")}},
	}
	expiry = []c17Desc{
		{Kind: "seq", Name: "corpus/expired-add-delete-get", Alphabet: c17Alphabet[:3], Ops: []c17Op{
			{Op: "set", Keys: k("a"), Data: "x", TTL: 1, Buf: "exact"},
			{Op: "set", Keys: k("b"), Data: "y", TTL: 1, Buf: "exact"},
			{Op: "set", Keys: k("c"), Data: "z", TTL: 1, Buf: "exact"},
			{Op: "add", Keys: k("a"), Data: "early", Buf: "exact"},
			{Op: "sleep", SleepMs: 2100},
			g("c", "a"),
			{Op: "gete", Keys: k("c"), Opaques: []uint32{1}, Quiet: []bool{false}},
			{Op: "add", Keys: k("a"), Data: "again", Flags: 3, Buf: "exact"},
			{Op: "delete", Keys: k("b")},
			g("a", "b", "c")}},
	}
	return
}

// ---------------------------------------------------------------- concurrent tier: child

type c17ChildTrace struct {
	Goroutine int       `json:"goroutine"`
	Keys      []string  `json:"keys"`
	Steps     []c17Step `json:"steps"`
	Discarded bool      `json:"discarded"`
}
type c17ChildOut struct {
	Traces []c17ChildTrace `json:"traces"`
	Errors []string        `json:"errors"`
	Counts map[string]int  `json:"counts"`
}

// shared-key values are sequences of records "<key>:<goroutine>:<n>;" so that any byte-level
// corruption or a value filed under the wrong key is visible to whoever reads it
func c17Record(key string, g, n int) string { return fmt.Sprintf("%s:%d:%d;", key, g, n) }
func c17WellFormed(key string, v []byte) bool {
	if len(v) == 0 {
		return false
	}
	if v[len(v)-1] != ';' {
		return false
	}
	for _, rec := range strings.Split(string(v[:len(v)-1]), ";") {
		p := strings.Split(rec, ":")
		if len(p) != 3 || p[0] != key {
			return false
		}
		if _, err := strconv.Atoi(p[1]); err != nil {
			return false
		}
		if _, err := strconv.Atoi(p[2]); err != nil {
			return false
		}
	}
	return true
}

// number of entries that are expired when the concurrent goroutines start (each is found expired
// by some reader for the first time at a different moment of the run)
const c17Expired = 20000

// c17NewConn is what server.ListenAndServe does for every accepted connection when the in-memory
// backend is configured: the handler constructor inmem.New.
func c17NewConn() *inmem.Handler {
	hh, err := inmem.New()
	if err != nil {
		panic(err)
	}
	h, ok := hh.(*inmem.Handler)
	if !ok {
		panic(fmt.Sprintf("inmem.New() returned a %T", hh))
	}
	return h
}

func c17child(e *env) {
	g, iters, tracePath := 2, 1000, ""
	for _, a := range e.args {
		switch {
		case strings.HasPrefix(a, "g="):
			g, _ = strconv.Atoi(a[2:])
		case strings.HasPrefix(a, "iters="):
			iters, _ = strconv.Atoi(a[6:])
		case strings.HasPrefix(a, "trace="):
			tracePath = a[6:]
		}
	}
	const owned = 40 // recorded commands per goroutine on its own keys
	// Every "connection" (goroutine) obtains its handler the way the server does for each accepted
	// connection: by calling inmem.New(). The child process is fresh, so the instance New() shares
	// between connections is empty at this point.
	h := c17NewConn()
	shared := []string{"s0", "s1", "s2", "s3"}
	for _, k := range shared {
		h.Set(common.SetRequest{Key: []byte(k), Data: []byte(c17Record(k, 0, 0))})
	}
	// entries that have expired by the time the goroutines start: reading them concurrently must
	// be as harmless as reading never-stored keys
	for j := 0; j < c17Expired; j++ {
		h.Set(common.SetRequest{Key: []byte(fmt.Sprintf("expired%d", j)), Data: []byte("old"), Exptime: 1})
	}
	time.Sleep(2100 * time.Millisecond)
	out := c17ChildOut{Traces: make([]c17ChildTrace, g), Counts: map[string]int{}}
	var mu sync.Mutex
	addErr := func(s string) {
		mu.Lock()
		if len(out.Errors) < 20 {
			out.Errors = append(out.Errors, s)
		}
		mu.Unlock()
	}
	counts := make([]map[string]int, g)
	start := make(chan struct{})
	var wg sync.WaitGroup
	for i := 0; i < g; i++ {
		wg.Add(1)
		go func(i int) {
			defer wg.Done()
			r := rig.NewRand(e.seed*1000003 + uint64(i) + 17)
			cnt := map[string]int{}
			counts[i] = cnt
			h := c17NewConn()
			cl := newC17Client(h)
			own := []string{fmt.Sprintf("g%da", i), fmt.Sprintf("g%db", i)}
			tr := c17ChildTrace{Goroutine: i, Keys: own}
			every := iters / owned
			if every < 1 {
				every = 1
			}
			nOwned := 0
			<-start
			for it := 0; it < iters; it++ {
				if it%every == 0 && nOwned < owned {
					nOwned++
					op := c17GenOp(r, own, false)
					if op.Buf == "got" || op.Buf == "shared" {
						op.Buf = "spare"
					}
					before := time.Now().Unix()
					req, res, info := cl.exec(op)
					after := time.Now().Unix()
					if before != after {
						tr.Discarded = true
					}
					tr.Steps = append(tr.Steps, c17Step{Now: before, Req: req, Res: res})
					cnt["conc_owned_op="+info.op]++
					continue
				}
				if r.Chance(60) {
					// read of keys that are never stored
					n := 1 + r.Intn(3)
					gr := common.GetRequest{}
					for j := 0; j < n; j++ {
						if r.Bool() {
							gr.Keys = append(gr.Keys, []byte(fmt.Sprintf("missing%d", r.Intn(8))))
						} else {
							gr.Keys = append(gr.Keys, []byte(fmt.Sprintf("expired%d", r.Intn(c17Expired))))
						}
						gr.Opaques = append(gr.Opaques, uint32(j))
						gr.Quiet = append(gr.Quiet, false)
					}
					if r.Bool() {
						dc, ec := h.Get(gr)
						for x := range dc {
							if !x.Miss {
								addErr(fmt.Sprintf("goroutine %d: Get of never-stored or expired key %q is a hit (%q)", i, x.Key, x.Data))
							}
						}
						for range ec {
						}
					} else {
						dc, ec := h.GetE(gr)
						for x := range dc {
							if !x.Miss {
								addErr(fmt.Sprintf("goroutine %d: GetE of never-stored or expired key %q is a hit (%q)", i, x.Key, x.Data))
							}
						}
						for range ec {
						}
					}
					cnt["conc_read_missing"] += n
					continue
				}
				// shared keys: every value ever stored is a sequence of records of its key
				k := shared[r.Intn(len(shared))]
				rec := []byte(c17Record(k, i+1, it))
				sr := common.SetRequest{Key: []byte(k), Data: rec, Flags: uint32(i)}
				switch r.Intn(9) {
				case 0:
					h.Set(sr)
				case 1:
					h.Add(sr)
				case 2:
					h.Replace(sr)
				case 3:
					h.Append(sr)
				case 4:
					h.Prepend(sr)
				case 5:
					if r.Chance(2) {
						h.Close() // some connection went away: harmless for everybody else
					}
					if r.Chance(30) {
						h.Delete(common.DeleteRequest{Key: []byte(k)})
					} else {
						h.Touch(common.TouchRequest{Key: []byte(k), Exptime: 3600})
					}
				case 6:
					x, _ := h.GAT(common.GATRequest{Key: []byte(k), Exptime: 3600})
					if !x.Miss && !c17WellFormed(k, x.Data) {
						addErr(fmt.Sprintf("goroutine %d: GAT %s returned a corrupt value %q", i, k, x.Data))
					}
				default:
					dc, ec := h.Get(common.GetRequest{Keys: [][]byte{[]byte(k)}, Opaques: []uint32{0}, Quiet: []bool{false}})
					for x := range dc {
						if !x.Miss && !c17WellFormed(k, x.Data) {
							addErr(fmt.Sprintf("goroutine %d: Get %s returned a corrupt value %q", i, k, x.Data))
						}
					}
					for range ec {
					}
				}
				cnt["conc_shared_op"]++
			}
			out.Traces[i] = tr
		}(i)
	}
	close(start)
	wg.Wait()
	// atomicity of the conditional writes: in every round all goroutines add the same fresh key
	// at once; as on one map exactly one add succeeds and its value is the one stored.
	raceRounds := 300
	if iters < 4000 {
		raceRounds = 100
	}
	for round := 0; round < raceRounds && len(out.Errors) == 0; round++ {
		key := []byte(fmt.Sprintf("race%d", round))
		okc := make([]bool, g)
		var rw sync.WaitGroup
		gate := make(chan struct{})
		for i := 0; i < g; i++ {
			rw.Add(1)
			go func(i int) {
				defer rw.Done()
				h := c17NewConn()
				<-gate
				okc[i] = h.Add(common.SetRequest{Key: key, Data: []byte(fmt.Sprintf("worker-%d", i)), Flags: uint32(i)}) == nil
			}(i)
		}
		close(gate)
		rw.Wait()
		winners := []int{}
		for i, ok := range okc {
			if ok {
				winners = append(winners, i)
			}
		}
		var stored []byte
		dc, ec := h.Get(common.GetRequest{Keys: [][]byte{key}, Opaques: []uint32{0}, Quiet: []bool{false}})
		for x := range dc {
			if !x.Miss {
				stored = x.Data
			}
		}
		for range ec {
		}
		out.Counts["conc_add_race_round"]++
		if len(winners) != 1 {
			addErr(fmt.Sprintf("%d goroutines added the missing key %q at once: %d adds succeeded (goroutines %v), one map allows exactly one", g, key, len(winners), winners))
		} else if string(stored) != fmt.Sprintf("worker-%d", winners[0]) {
			addErr(fmt.Sprintf("after a race of adds on %q goroutine %d's add succeeded but the stored value is %q", key, winners[0], stored))
		}
	}
	// an acknowledged write over an EXPIRED entry must survive the readers that are looking at that
	// entry at the same moment (a reader that tidies up expired entries it saw, after giving up
	// the read lock, would remove the fresh value: seed L15). Per round one writer sets the key
	// while the other goroutines run long multi-key gets that start with it; nobody else writes
	// the key, so the read after the round must return the writer's value.
	lateRounds := 150
	if iters < 4000 {
		lateRounds = 60
	}
	if g >= 2 && len(out.Errors) == 0 {
		fill := make([][]byte, 0, 200)
		for j := 0; j < 200; j++ {
			fill = append(fill, []byte(fmt.Sprintf("latefill%d", j)))
		}
		for round := 0; round < lateRounds; round++ {
			h.Set(common.SetRequest{Key: []byte(fmt.Sprintf("late%d", round)), Data: []byte("old"), Exptime: 1})
		}
		time.Sleep(2100 * time.Millisecond)
		for round := 0; round < lateRounds && len(out.Errors) == 0; round++ {
			key := []byte(fmt.Sprintf("late%d", round))
			fresh := fmt.Sprintf("fresh-%d", round)
			keys := append([][]byte{key}, fill...)
			opq := make([]uint32, len(keys))
			qt := make([]bool, len(keys))
			var rw sync.WaitGroup
			gate := make(chan struct{})
			acked := false
			for i := 0; i < g; i++ {
				rw.Add(1)
				go func(i int) {
					defer rw.Done()
					h := c17NewConn()
					<-gate
					if i == 0 {
						time.Sleep(time.Duration(round%7) * 3 * time.Microsecond)
						acked = h.Set(common.SetRequest{Key: key, Data: []byte(fresh), Flags: 7}) == nil
						return
					}
					for n := 0; n < 3; n++ {
						dc, ec := h.Get(common.GetRequest{Keys: keys, Opaques: opq, Quiet: qt})
						for x := range dc {
							if !x.Miss && string(x.Data) != fresh {
								addErr(fmt.Sprintf("Get of the expired key %q returned %q", x.Key, x.Data))
							}
						}
						for range ec {
						}
					}
				}(i)
			}
			close(gate)
			rw.Wait()
			var stored []byte
			hit := false
			dc, ec := h.Get(common.GetRequest{Keys: [][]byte{key}, Opaques: []uint32{0}, Quiet: []bool{false}})
			for x := range dc {
				if !x.Miss {
					stored, hit = x.Data, true
				}
			}
			for range ec {
			}
			out.Counts["conc_write_over_expired_round"]++
			if acked && (!hit || string(stored) != fresh) {
				addErr(fmt.Sprintf("a set of %q over its expired entry was acknowledged while %d goroutines were reading that entry; nobody else wrote the key, yet the read afterwards returns hit=%v %q instead of %q: the acknowledged write is lost", key, g-1, hit, stored, fresh))
			}
		}
	}
	// quiescence: a final read of each goroutine's own keys with the dump restricted to them
	cl := newC17Client(h)
	for i := range out.Traces {
		tr := &out.Traces[i]
		op := c17Op{Op: "gete", Keys: tr.Keys, Opaques: []uint32{1, 2}, Quiet: []bool{false, false}}
		before := time.Now().Unix()
		req, res, _ := cl.exec(op)
		after := time.Now().Unix()
		if before != after {
			tr.Discarded = true
		}
		only := map[string]bool{}
		for _, k := range tr.Keys {
			only[k] = true
		}
		tr.Steps = append(tr.Steps, c17Step{Now: before, Req: req, Res: res, Dump: c17DeltaTerm(nil, inmem.VerifDump(h), only)})
	}
	for k, v := range inmem.VerifDump(h) {
		if strings.HasPrefix(k, "s") && !c17WellFormed(k, v[2].([]byte)) {
			addErr(fmt.Sprintf("final contents of shared key %s corrupt: %q", k, v[2].([]byte)))
		}
		if strings.HasPrefix(k, "missing") {
			addErr("final contents contain never-stored key " + k)
		}
	}
	for _, c := range counts {
		for k, v := range c {
			out.Counts[k] += v
		}
	}
	b, _ := json.Marshal(out)
	if tracePath == "" {
		os.Stdout.Write(b)
	} else if err := os.WriteFile(tracePath, b, 0o644); err != nil {
		rig.Die("%v", err)
	}
}

// ---------------------------------------------------------------- concurrent tier: parent

type c17ConcObs struct {
	desc     c17Desc
	exit     int
	timedOut bool
	stderr   string
	out      *c17ChildOut
	wall     time.Duration
}

func c17RunChild(e *env, d c17Desc, idx int) *c17ConcObs {
	trace := filepath.Join(e.out, fmt.Sprintf("conc-%d.json", idx))
	os.Remove(trace)
	exe := os.Args[0]
	if d.Race {
		// a race finding is replayed with the -race build of this binary when ./check built one
		if _, err := os.Stat(exe + "-race"); err == nil && !strings.HasSuffix(exe, "-race") {
			exe += "-race"
		}
	}
	cmd := exec.Command(exe, "c17child", "-seed", strconv.FormatUint(d.Seed, 10),
		fmt.Sprintf("g=%d", d.Goroutines), fmt.Sprintf("iters=%d", d.Iters), "trace="+trace)
	var stderr bytes.Buffer
	cmd.Stderr = &stderr
	cmd.Stdout = &stderr
	cmd.Env = append(os.Environ(), "GOTRACEBACK=single")
	t0 := time.Now()
	o := &c17ConcObs{desc: d}
	if err := cmd.Start(); err != nil {
		rig.Die("c17: cannot start child: %v", err)
	}
	done := make(chan error, 1)
	go func() { done <- cmd.Wait() }()
	select {
	case err := <-done:
		if err != nil {
			if ee, ok := err.(*exec.ExitError); ok {
				o.exit = ee.ExitCode()
			} else {
				o.exit = -1
			}
		}
	case <-time.After(300 * time.Second):
		cmd.Process.Kill()
		<-done
		o.timedOut = true
	}
	o.wall = time.Since(t0)
	o.stderr = stderr.String()
	if b, err := os.ReadFile(trace); err == nil {
		var co c17ChildOut
		if json.Unmarshal(b, &co) == nil {
			o.out = &co
		}
	}
	return o
}

func c17Head(s string, n int) string {
	l := strings.Split(s, "\n")
	if len(l) > n {
		l = l[:n]
	}
	return strings.Join(l, "\n")
}

// race report blocks that mention handlers/inmem
func c17RaceBlocks(stderr string) []string {
	var r []string
	for _, b := range strings.Split(stderr, "==================") {
		if strings.Contains(b, "WARNING: DATA RACE") && strings.Contains(b, "handlers/inmem") {
			r = append(r, strings.TrimSpace(b))
		}
	}
	return r
}

// classify one child run; returns the failures found (at most one per kind)
func c17Judge(o *c17ConcObs) map[string]rig.GoFailure {
	f := map[string]rig.GoFailure{}
	d := o.desc
	switch {
	case strings.Contains(o.stderr, "fatal error: concurrent map"):
		line := ""
		for _, l := range strings.Split(o.stderr, "\n") {
			if strings.Contains(l, "fatal error: concurrent map") {
				line = strings.TrimSpace(l)
				break
			}
		}
		f["mapfault"] = rig.GoFailure{Kind: "counterexample",
			What:   fmt.Sprintf("the Go runtime terminated the process: %q with %d goroutines sharing one handlers/inmem instance (reads of never-stored and of expired keys mixed with writes)", line, d.Goroutines),
			Input:  d,
			Detail: fmt.Sprintf("child exit status %d after %s; stderr:\n%s", o.exit, o.wall.Round(time.Millisecond), c17Head(o.stderr, 40))}
	case o.timedOut:
		f["hang"] = rig.GoFailure{Kind: "counterexample", What: "the concurrent run did not finish within 300 s", Input: d, Detail: c17Head(o.stderr, 40)}
	}
	if rb := c17RaceBlocks(o.stderr); len(rb) > 0 {
		f["race"] = rig.GoFailure{Kind: "counterexample",
			What:   fmt.Sprintf("the race detector reports %d data race(s) inside handlers/inmem with %d goroutines on one instance", len(rb), d.Goroutines),
			Input:  d,
			Detail: c17Head(rb[0], 45)}
	}
	if o.out != nil && len(o.out.Errors) > 0 {
		f["corrupt"] = rig.GoFailure{Kind: "counterexample",
			What:   fmt.Sprintf("concurrent use corrupted data (%d goroutines)", d.Goroutines),
			Input:  d,
			Detail: strings.Join(o.out.Errors, "\n")}
	}
	if len(f) == 0 && (o.exit != 0 || o.out == nil) {
		// the child died for a reason this check does not know: the correspondence is broken
		f["child"] = rig.GoFailure{Kind: "broken-correspondence",
			What:   fmt.Sprintf("the concurrent child process ended with status %d without a result", o.exit),
			Input:  d,
			Detail: c17Head(o.stderr, 40)}
	}
	return f
}

func c17Concurrent(e *env, w *rig.Writer, descs []c17Desc, attempts int) {
	found := map[string]rig.GoFailure{}
	for idx, d := range descs {
		for a := 0; a < attempts; a++ {
			o := c17RunChild(e, d, idx)
			w.Count(fmt.Sprintf("conc_run_goroutines=%d", d.Goroutines))
			fs := c17Judge(o)
			for k, v := range fs {
				if _, ok := found[k]; !ok { // configurations run smallest first: keep the smallest
					found[k] = v
				}
				w.Count("conc_failure=" + k)
			}
			if o.out != nil {
				for k, v := range o.out.Counts {
					w.CountN(k, v)
				}
				if len(fs) == 0 {
					for _, tr := range o.out.Traces {
						if tr.Discarded {
							w.Count("conc_trace_discarded_clock")
							continue
						}
						td := d
						td.Kind, td.Goroutine = "conc-trace", tr.Goroutine
						w.Add(rig.Case{Desc: td, Coq: c17CaseTerm(tr.Keys, tr.Steps), Nontrivial: false})
						w.Count("conc_trace")
					}
				}
			}
			if len(fs) > 0 {
				break
			}
		}
	}
	keys := make([]string, 0, len(found))
	for k := range found {
		keys = append(keys, k)
	}
	sort.Strings(keys)
	for _, k := range keys {
		w.Fail(found[k])
	}
}

// ---------------------------------------------------------------- driver

func c17(e *env) {
	w := rig.NewWriter(e.out, "C17", e.tier, e.seed)
	w.Res.Cases = []rig.Case{} // never null in result.json, even when every configuration failed
	w.Shards = 8               // case files are evaluated in parallel by ./check
	if e.tier == "thorough" {
		w.Shards = 16
	}
	race := false
	replay := ""
	for _, a := range e.args {
		if a == "race" {
			race = true
		}
		if strings.HasPrefix(a, "replay=") {
			replay = a[7:]
		}
	}
	r := rig.NewRand(e.seed)

	addSeq := func(d c17Desc, res c17SeqResult) {
		for _, in := range res.infos {
			w.Count("op=" + in.op)
			w.CountN("get_hit", in.hits)
			w.CountN("get_miss", in.misses)
			w.Count("result=" + in.errName)
			if in.buf != "" {
				w.Count("buf=" + in.buf)
			}
		}
		for _, op := range d.Ops {
			switch op.Op {
			case "set", "add", "replace", "touch", "gat":
				switch {
				case op.TTL == 0:
					w.Count("ttl=0")
				case op.TTL <= 2:
					w.Count("ttl=1-2s")
				default:
					w.Count("ttl=long")
				}
			case "sleep":
				w.Count("sleep")
			}
		}
		if res.addExist {
			w.Count("seq_with_add_on_existing")
		}
		if res.delMissing {
			w.Count("seq_with_delete_of_missing")
		}
		if res.readMiss {
			w.Count("seq_with_read_of_missing")
		}
		if res.expiredHit {
			w.Count("seq_touching_an_expired_entry")
		}
		if res.reruns > 0 {
			w.CountN("seq_rerun_clock_changed", res.reruns)
		}
		w.Add(rig.Case{Desc: d, Coq: c17CaseTerm(d.Alphabet, res.steps),
			Nontrivial: res.addExist && res.delMissing && res.readMiss})
	}
	finish := func() {
		w.Res.Rule = "a sequential case counts as non-trivial iff, judged on the dump taken before the command, it contains an add on a present unexpired key, a delete of an absent or expired key, and a get/gete/gat of an absent or expired key (distinct by the hash of the whole observed case); per-goroutine traces of the concurrent tier are not counted"
		if err := w.Finish([]string{"base.Bytes", "base.Harness", "spec.MapSpec", "orca.Types", "handlers.Inmem", "checks.Check17"}, "case17", "check17"); err != nil {
			rig.Die("%v", err)
		}
	}

	if replay != "" {
		b, err := os.ReadFile(replay)
		if err != nil {
			rig.Die("%v", err)
		}
		var d c17Desc
		if err := json.Unmarshal(b, &d); err != nil {
			rig.Die("c17 replay: %v", err)
		}
		switch d.Kind {
		case "seq":
			addSeq(d, c17RunSeq(d))
		case "conc", "conc-trace":
			d.Kind, d.Goroutine = "conc", 0
			// the schedule is the Go scheduler's: a replay repeats the configuration up to 5 times
			c17Concurrent(e, w, []c17Desc{d}, 5)
		default:
			rig.Die("c17 replay: unknown kind %q", d.Kind)
		}
		finish()
		return
	}

	// concurrent configurations, smallest first
	gs := []int{2, 3, 4, 8, 16, 32}
	iters := 12000
	if e.tier == "thorough" {
		gs = []int{2, 3, 4, 5, 8, 12, 16, 24, 32}
		iters = 60000
	}
	if race {
		iters /= 6 // the detector slows the child ~10x
	}
	var concs []c17Desc
	for _, g := range gs {
		concs = append(concs, c17Desc{Kind: "conc", Goroutines: g, Iters: iters, Seed: r.U64() % 1000000, Race: race})
	}
	if race {
		c17Concurrent(e, w, concs, 1)
		finish()
		return
	}

	// expiry sequences sleep: run them in the background, each on its own instance
	plain, expCorpus := c17Corpus()
	nExp, nSeq := 10, 200
	if e.tier == "thorough" {
		nExp, nSeq = 60, 4000
	}
	expDescs := expCorpus
	for i := 0; i < nExp; i++ {
		expDescs = append(expDescs, c17GenSeq(r, fmt.Sprintf("expiry/%d", i), true))
	}
	seqDescs := plain
	for i := 0; i < nSeq; i++ {
		seqDescs = append(seqDescs, c17GenSeq(r, fmt.Sprintf("seq/%d", i), false))
	}
	expRes := make([]c17SeqResult, len(expDescs))
	var wg sync.WaitGroup
	sem := make(chan struct{}, 16)
	for i := range expDescs {
		wg.Add(1)
		go func(i int) {
			defer wg.Done()
			sem <- struct{}{}
			expRes[i] = c17RunSeq(expDescs[i])
			<-sem
		}(i)
	}
	for _, d := range seqDescs {
		addSeq(d, c17RunSeq(d))
	}
	c17Concurrent(e, w, concs, 1) // while the expiry sequences sleep
	wg.Wait()
	for i, d := range expDescs {
		addSeq(d, expRes[i])
	}
	finish()
}
