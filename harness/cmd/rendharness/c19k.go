package main

// c19k: the CONCRETE ketama ring, property C19.
//
// For a handful of bucket lists (realistic host:port labels; sizes 1, 2, 3, 5, 25, 61, ...) the real
// cluster.New builds the continuum; the case carries the labels and weights as listed, the real ring
// exported through the verif hook (point + index of the owner's label) and what Continuum.Hash
// returned for some keys.  Coq (checks/Check19K.v) recomputes the whole ring from the labels and
// weights alone — every MD5 digest with cluster/MD5.v, the number of rounds with the float32/float64
// computation of cluster/KetamaFloat.v, the (point,label) sort — and compares points, order, owners
// (hence points per node), then recomputes every key lookup from the key bytes.
//
// Replay: `rendharness c19k ... replay=<file>` where the file holds the JSON `desc` of one case.

import (
	"encoding/hex"
	"encoding/json"
	"fmt"
	"os"
	"strings"

	"github.com/netflix/rend/handlers/memcached/cluster"
	"verifharness/gal"
	"verifharness/rig"
)

func init() { commands["c19k"] = c19k }

type c19kNode struct {
	label  string
	weight uint32
}

func (n c19kNode) Label() string  { return n.label }
func (n c19kNode) Weight() uint32 { return n.weight }

// c19kInput is the `desc` of a case and, verbatim, the replay input.
type c19kInput struct {
	Kind    string   `json:"kind"`
	Labels  []string `json:"labels"`            // bucket labels in listed order
	Weights []uint32 `json:"weights,omitempty"` // bucket weights (absent: all 1, as rend's Node.Weight())
	KeySeed uint64   `json:"key_seed"`          // keys are regenerated from (key_seed, nkeys) ...
	NKeys   int      `json:"nkeys"`
	KeysHex []string `json:"keys_hex,omitempty"` // ... plus explicit keys (hex)
	// informational (ignored on replay)
	RingSize      int            `json:"ring_size,omitempty"`
	PointsPerNode map[string]int `json:"points_per_node,omitempty"` // distinct counts only: "<count>": number of nodes
}

func c19kRun(in c19kInput) (c rig.Case, err error) {
	defer func() {
		if p := recover(); p != nil {
			err = fmt.Errorf("panic: %v", p)
		}
	}()
	n := len(in.Labels)
	bs := make([]cluster.Bucket, n)
	first := map[string]int{}
	items := make([]string, n)
	for i, l := range in.Labels {
		w := uint32(1)
		if i < len(in.Weights) {
			w = in.Weights[i]
		}
		bs[i] = c19kNode{l, w}
		if _, ok := first[l]; !ok {
			first[l] = i
		}
		items[i] = gal.Pair(gal.Bytes([]byte(l)), gal.N(uint64(w)))
	}
	cont := cluster.New(bs)
	ring := cluster.VerifRing(cont)
	in.RingSize = len(ring)
	rb := make([]byte, 0, 5*len(ring))
	per := map[string]int{}
	for _, e := range ring {
		ix, ok := first[e.Label]
		if !ok || ix > 254 {
			ix = 254 // a label that was not listed
		}
		rb = append(rb, byte(e.Point>>24), byte(e.Point>>16), byte(e.Point>>8), byte(e.Point), byte(ix))
		per[e.Label]++
	}
	in.PointsPerNode = map[string]int{}
	for _, l := range in.Labels {
		in.PointsPerNode[fmt.Sprint(per[l])]++
	}
	keys := c19Keys(in.KeySeed, in.NKeys)
	for _, kh := range in.KeysHex {
		b, _ := hex.DecodeString(kh)
		keys = append(keys, b)
	}
	kitems := make([]string, len(keys))
	for i, k := range keys {
		ix := 255
		if b := cont.Hash(k); b != nil {
			if j, ok := first[b.Label()]; ok && j <= 254 {
				ix = j
			} else {
				ix = 254
			}
		}
		kitems[i] = gal.Pair(gal.Bytes(k), gal.N(uint64(ix)))
	}
	coq := gal.Tuple(gal.List(items), gal.Bytes(rb), gal.List(kitems))
	return rig.Case{Desc: in, Coq: coq, Nontrivial: n >= 1 && len(ring) > 0 && len(keys) > 0}, nil
}

// realistic host:port labels of the given kind
func c19kLabels(r *rig.Rand, kind string, n int) []string {
	switch kind {
	case "ipv4", "ipv4-seq", "ports", "ipv6":
		return c19Labels(r, kind, n)
	case "dns":
		ls := make([]string, n)
		z := []string{"use1a", "use1b", "euw1c"}[r.Intn(3)]
		for i := range ls {
			ls[i] = fmt.Sprintf("memcached-%s-%03d.cache.example.net:11211", z, i+1)
		}
		return ls
	}
	// odd: the separator and digits inside the label, the empty label, a label longer than one MD5 block
	pool := []string{"", "a-1", "a-1-0", "a", "-", "10.0.0.7:11211 ", "/var/run/memcached.sock", strings.Repeat("n", 70), "é:11211", "\x00"}
	ls := append([]string(nil), pool...)
	for len(ls) < n {
		ls = append(ls, fmt.Sprintf("odd-%d", len(ls)))
	}
	return ls[:n]
}

func c19k(e *env) {
	w := rig.NewWriter(e.out, "C19", e.tier, e.seed)
	r := rig.NewRand(rig.NewRand(e.seed ^ 0x19c).U64())
	thorough := e.tier == "thorough"

	add := func(in c19kInput) {
		c, err := c19kRun(in)
		if err != nil {
			w.Fail(rig.GoFailure{Kind: "counterexample", What: "building or querying a continuum failed (panic)", Input: in, Detail: err.Error()})
			return
		}
		w.Add(c)
		d := c.Desc.(c19kInput)
		w.Count(fmt.Sprintf("nodes=%d", len(in.Labels)))
		w.Count("labels=" + in.Kind)
		w.CountN("ring-entries-recomputed-in-Coq", d.RingSize)
		w.CountN("md5-digests-recomputed-in-Coq(ring)", d.RingSize/4)
		w.CountN("keys-hashed-and-looked-up-in-Coq", in.NKeys+len(in.KeysHex))
		if len(in.Weights) > 0 {
			w.Count("weights=1..8")
		} else {
			w.Count("weights=all-1")
		}
	}

	replay := ""
	for _, a := range e.args {
		if strings.HasPrefix(a, "replay=") {
			replay = a[len("replay="):]
		}
	}
	if replay != "" {
		b, err := os.ReadFile(replay)
		if err != nil {
			rig.Die("replay: %v", err)
		}
		var in c19kInput
		if err := json.Unmarshal(b, &in); err != nil {
			rig.Die("replay: %v", err)
		}
		in.PointsPerNode = nil
		add(in)
	} else {
		type set struct {
			n    int
			kind string
			wts  bool
		}
		// 61 is the smallest size at which float32 gives 39 rounds (156 points per node); 25 is where
		// dropping the final float32 rounding would give 39
		sets := []set{{1, "ipv4", false}, {2, "ports", false}, {3, "dns", false}, {5, "ipv6", false}, {25, "ipv4", false}, {61, "ipv4-seq", false},
			{3, "ipv4", true}, {5, "odd", false}}
		nkeys := 40
		if thorough {
			nkeys = 200
			for _, n := range []int{4, 6, 7, 8, 10, 14, 16, 28, 29, 31, 32, 60, 62, 122} {
				sets = append(sets, set{n, []string{"ipv4", "ports", "dns", "ipv6"}[n%4], false})
			}
			for _, n := range []int{2, 11, 19, 22, 23, 27, 32} {
				sets = append(sets, set{n, "ipv4", true})
			}
			sets = append(sets, set{10, "odd", false})
		}
		for _, s := range sets {
			in := c19kInput{Kind: s.kind, Labels: c19kLabels(r, s.kind, s.n), KeySeed: r.U64(), NKeys: nkeys}
			if s.wts {
				in.Weights = make([]uint32, s.n)
				for i := range in.Weights {
					in.Weights[i] = uint32(1 + r.Intn(8))
				}
			}
			// a multi-block key, the empty key
			in.KeysHex = []string{"", hex.EncodeToString([]byte(strings.Repeat("k", 56))), hex.EncodeToString([]byte(strings.Repeat("long-key/", 27)))}
			add(in)
		}
	}
	w.Res.Rule = "every case is one bucket list; non-trivial = at least one bucket, a non-empty real ring and at least one key; the whole ring (points, order, owners) and every Hash(key) are recomputed from the labels, weights and key bytes alone by the Coq model"
	w.Shards = len(w.Res.Cases) // one case per file: ./check evaluates the files in parallel
	if err := w.Finish([]string{"base.Bytes", "base.Harness", "checks.Check19K"}, "case19k", "check19k"); err != nil {
		rig.Die("%v", err)
	}
}
