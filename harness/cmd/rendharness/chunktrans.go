package main

// chunktrans: translates the SOURCE of the chunked backend handler — handlers/memcached/chunked/handler.go
// and localComm.go (go/parser, on every run) — into coq/gen/Chunked_gen.v: one program in
// continuation-passing form over the connection state of coq/handlers/ChunkSem.v per Go function
// (readResponseHeader, getMetadataCommon, getMetadata, getAndTouchMetadata, simpleCmdLocal,
// handleSetCommon, Set, Add, Replace, Delete, Touch), each loop body as a definition of its own
// (<func>_loop<n>), and a closed program chunked_<Method>_src per handler method.
// coq/gen/ChunkedLink.v proves these equivalent to the hand-written model coq/handlers/Chunked.v.
//
// The translation is by AST structure, statement by statement; the meaning of every recognised call is a
// definition of ChunkSem.v (hand-written, trusted; its header lists the rules). Anything not recognised
// becomes `c_untranslatable "what (file:line)"`, whose outcome is SUndef: the model never has that
// outcome, so the link lemma of the function (and of its callers) stops compiling.
//
// Loop idioms: `for i := 0; i < HI; i++ { body }` (body without break/continue, i not assigned) -> c_for;
// `for R.More() { body }` with R a chunkedLimitedReader -> c_while with fuel clr_fuel R. The state of a
// loop is the tuple of the variables declared outside it that its body assigns.
//
// Also checked here (a mismatch is emitted as c_untranslatable in `chunk_meta_layout_src`): the field
// order of `type metadata struct` in types.go and the offsets used by readMetadata / writeMetadata.

import (
	"fmt"
	"go/ast"
	"go/parser"
	"go/token"
	"os"
	"path/filepath"
	"sort"
	"strconv"
	"strings"
)

func init() { commands["chunktrans"] = chunktrans }

type ckVar struct{ coq, typ string }

type ckFunc struct {
	name   string
	file   string
	decl   *ast.FuncDecl
	params []ckVar // flattened, translated parameters
	res    []string
	method bool
	want   bool
}

type ckCtx struct {
	fs      *token.FileSet
	repo    string
	funcs   map[string]*ckFunc
	structs map[string][][2]string // common request structs: field name, type tag
	defs    []string               // emitted definitions in order
	// per function
	cur    *ckFunc
	scopes []map[string]*ckVar
	order  []*ckVar // all variables declared so far in the function, in order
	seq    int
	nloop  int
	fail   string
	guards []string
	gseq   int
	used   map[string]bool
}

func ckTy(t string) string {
	switch t {
	case "N":
		return "N"
	case "bytes":
		return "bytes"
	case "bool":
		return "bool"
	case "err":
		return "option N"
	case "meta":
		return "meta"
	case "phdr":
		return "option hdr"
	case "hdr":
		return "hdr"
	case "clr":
		return "clr"
	case "unit":
		return "unit"
	}
	return "unit"
}

func (c *ckCtx) pos(n ast.Node) string {
	p := c.fs.Position(n.Pos())
	return fmt.Sprintf("%s:%d", filepath.Base(p.Filename), p.Line)
}

func (c *ckCtx) src(n ast.Node) string {
	p, q := c.fs.Position(n.Pos()), c.fs.Position(n.End())
	b, err := os.ReadFile(p.Filename)
	if err != nil || q.Offset > len(b) {
		return "?"
	}
	s := strings.Join(strings.Fields(string(b[p.Offset:q.Offset])), " ")
	s = strings.ReplaceAll(s, "\"", "'")
	if len(s) > 70 {
		s = s[:70] + "..."
	}
	return s
}

func (c *ckCtx) bad(n ast.Node, why string) {
	if c.fail == "" {
		c.fail = fmt.Sprintf("%s: %s (%s)", why, c.src(n), c.pos(n))
	}
}

func (c *ckCtx) untrans() string {
	m := c.fail
	c.fail = ""
	c.guards = nil
	return fmt.Sprintf("c_untranslatable \"%s\"", m)
}

// ---- scopes ----
func (c *ckCtx) push() { c.scopes = append(c.scopes, map[string]*ckVar{}) }
func (c *ckCtx) pop()  { c.scopes = c.scopes[:len(c.scopes)-1] }
func (c *ckCtx) lookup(n string) *ckVar {
	for i := len(c.scopes) - 1; i >= 0; i-- {
		if v, ok := c.scopes[i][n]; ok {
			return v
		}
	}
	return nil
}
func (c *ckCtx) declare(n, typ string) string {
	if n == "_" {
		return "_"
	}
	top := c.scopes[len(c.scopes)-1]
	if v, ok := top[n]; ok {
		v.typ = typ
		return v.coq
	}
	coq := n
	if c.used[coq] || strings.Contains(n, "_") || ckReserved[n] {
		for {
			c.seq++
			coq = fmt.Sprintf("%s_%d", strings.TrimRight(n, "_"), c.seq)
			if !c.used[coq] {
				break
			}
		}
	}
	c.used[coq] = true
	v := &ckVar{coq: coq, typ: typ}
	top[n] = v
	c.order = append(c.order, v)
	return coq
}

var ckReserved = map[string]bool{"len": true, "take": true, "drop": true, "zeros": true, "fun": true, "let": true, "in": true,
	"if": true, "then": true, "else": true, "match": true, "with": true, "end": true, "as": true, "at": true, "N": true,
	"Some": true, "None": true, "bytes": true, "list": true, "bool": true, "option": true, "unit": true, "tt": true, "nat": true,
	"Type": true, "Set": true, "Prop": true, "exists": true, "forall": true, "fix": true, "return": true, "fst": true, "snd": true,
	"meta": true, "hdr": true, "clr": true, "cst": true, "true": true, "false": true, "store": true, "dec": true, "rev": true, "map": true,
	"seq": true, "mod": true, "for": true, "where": true, "using": true}

// ---- Go types ----
func (c *ckCtx) goType(e ast.Expr) string {
	switch t := e.(type) {
	case *ast.Ident:
		switch t.Name {
		case "uint32", "int", "int64", "uint64", "uint16", "uint8", "byte":
			return "N"
		case "bool":
			return "bool"
		case "error":
			return "err"
		case "metadata":
			return "meta"
		case "Handler":
			return "conn"
		}
	case *ast.ArrayType:
		if id, ok := t.Elt.(*ast.Ident); ok && id.Name == "byte" {
			return "bytes"
		}
	case *ast.StarExpr:
		if s, ok := t.X.(*ast.SelectorExpr); ok {
			x, _ := s.X.(*ast.Ident)
			if x != nil && x.Name == "bufio" {
				return "conn"
			}
			if x != nil && x.Name == "binprot" && s.Sel.Name == "ResponseHeader" {
				return "phdr"
			}
		}
	case *ast.SelectorExpr:
		x, _ := t.X.(*ast.Ident)
		if x != nil && x.Name == "io" {
			return "conn"
		}
		if x != nil && x.Name == "common" {
			if t.Sel.Name == "RequestType" {
				return "N"
			}
			if _, ok := c.structs[t.Sel.Name]; ok {
				return "struct:" + t.Sel.Name
			}
		}
	}
	return "?"
}

// ---- expressions (pure) ----
func ckIsIdent(e ast.Expr, n string) bool {
	id, ok := e.(*ast.Ident)
	return ok && id.Name == n
}
func ckIsSel(e ast.Expr, x, sel string) bool {
	s, ok := e.(*ast.SelectorExpr)
	return ok && ckIsIdent(s.X, x) && s.Sel.Name == sel
}

// connection expressions: h.rw, h.rw.Writer, h.rw.Reader, rw, rw.Reader, ...
func (c *ckCtx) isConn(e ast.Expr) bool {
	switch t := e.(type) {
	case *ast.Ident:
		v := c.lookup(t.Name)
		return v != nil && v.typ == "conn"
	case *ast.SelectorExpr:
		if t.Sel.Name == "rw" || t.Sel.Name == "Writer" || t.Sel.Name == "Reader" {
			return c.isConn(t.X)
		}
	}
	return false
}

var ckMetaFields = map[string]string{"Length": "m_length", "OrigFlags": "m_flags", "NumChunks": "m_nchunks",
	"ChunkSize": "m_csize", "Instime": "m_instime", "Exptime": "m_exptime", "Token": "m_token"}
var ckMetaOrder = []string{"Length", "OrigFlags", "NumChunks", "ChunkSize", "Instime", "Exptime", "Token"}

var ckErrs = map[string]string{"ErrKeyNotFound": "EKeyNotFound", "ErrNoMem": "ENoMem", "ErrKeyExists": "EKeyExists"}
var ckReqTypes = map[string]string{"RequestSet": "RtSet", "RequestAdd": "RtAdd", "RequestReplace": "RtReplace",
	"RequestAppend": "RtAppend", "RequestPrepend": "RtPrepend"}

func (c *ckCtx) guard(p string) string {
	c.gseq++
	g := fmt.Sprintf("d%d_", c.gseq)
	c.guards = append(c.guards, fmt.Sprintf("c_deref %s (fun %s => ", p, g))
	return g
}

func (c *ckCtx) wrapGuards(s string) string {
	for i := len(c.guards) - 1; i >= 0; i-- {
		s = c.guards[i] + s + ")"
	}
	c.guards = nil
	return s
}

func (c *ckCtx) expr(e ast.Expr) (string, string) {
	switch t := e.(type) {
	case *ast.ParenExpr:
		s, ty := c.expr(t.X)
		return "(" + s + ")", ty
	case *ast.BasicLit:
		if t.Kind == token.INT {
			return t.Value, "N"
		}
	case *ast.Ident:
		switch t.Name {
		case "nil":
			return "nil", "nil"
		case "true", "false":
			return t.Name, "bool"
		case "emptyMeta":
			if c.lookup(t.Name) == nil {
				return "meta_zero", "meta"
			}
		case "metadataSize", "tokenSize":
			if c.lookup(t.Name) == nil {
				return t.Name, "N"
			}
		}
		if v := c.lookup(t.Name); v != nil && v.typ != "conn" {
			return v.coq, v.typ
		}
	case *ast.SelectorExpr:
		if x, ok := t.X.(*ast.Ident); ok {
			if x.Name == "common" {
				if n, ok := ckErrs[t.Sel.Name]; ok {
					return "(Some " + n + ")", "err"
				}
				if n, ok := ckReqTypes[t.Sel.Name]; ok {
					return n, "N"
				}
			}
			if v := c.lookup(x.Name); v != nil {
				if strings.HasPrefix(v.typ, "struct:") {
					if f := c.lookup(x.Name + "." + t.Sel.Name); f != nil {
						return f.coq, f.typ
					}
				}
				if v.typ == "meta" {
					if f, ok := ckMetaFields[t.Sel.Name]; ok {
						ty := "N"
						if t.Sel.Name == "Token" {
							ty = "bytes"
						}
						return "(" + f + " " + v.coq + ")", ty
					}
				}
				if v.typ == "phdr" && t.Sel.Name == "TotalBodyLength" {
					g := c.guard(v.coq)
					return "(hdr_total " + g + ")", "N"
				}
			}
		}
	case *ast.StarExpr:
		s, ty := c.expr(t.X)
		if ty == "phdr" {
			return c.guard(s), "hdr"
		}
	case *ast.UnaryExpr:
		switch t.Op {
		case token.AND:
			s, ty := c.expr(t.X)
			if ty == "hdr" {
				return "(Some " + s + ")", "phdr"
			}
		case token.NOT:
			s, ty := c.expr(t.X)
			if ty == "bool" {
				return "(negb " + s + ")", "bool"
			}
		case token.ARROW:
			if ckIsIdent(t.X, "tokens") && c.lookup("tokens") == nil {
				return "tok_", "bytes"
			}
		}
	case *ast.SliceExpr:
		if t.Low == nil && t.High == nil && t.Max == nil {
			s, ty := c.expr(t.X)
			if ty == "bytes" {
				return s, ty
			}
		}
	case *ast.BinaryExpr:
		a, ta := c.expr(t.X)
		b, tb := c.expr(t.Y)
		switch t.Op {
		case token.EQL, token.NEQ:
			var r string
			switch {
			case ta == "err" && tb == "nil":
				r = "(err_nil " + a + ")"
			case ta == "err" && tb == "err" && strings.HasPrefix(b, "(Some "):
				r = "(err_is " + a + " " + strings.TrimSuffix(strings.TrimPrefix(b, "(Some "), ")") + ")"
			case ta == "N" && tb == "N":
				r = "(" + a + " =? " + b + ")"
			default:
				c.bad(e, "comparison")
				return "", "?"
			}
			if t.Op == token.NEQ {
				r = "(negb " + r + ")"
			}
			return r, "bool"
		case token.LAND, token.LOR:
			if ta == "bool" && tb == "bool" {
				op := "&&"
				if t.Op == token.LOR {
					op = "||"
				}
				return "(" + a + " " + op + " " + b + ")", "bool"
			}
		case token.LSS:
			if ta == "N" && tb == "N" {
				return "(" + a + " <? " + b + ")", "bool"
			}
		case token.ADD, token.MUL:
			if ta == "N" && tb == "N" {
				return "(" + a + " " + t.Op.String() + " " + b + ")", "N"
			}
		}
	case *ast.CompositeLit:
		if ckIsIdent(t.Type, "metadata") {
			vals := map[string]string{}
			for _, el := range t.Elts {
				kv, ok := el.(*ast.KeyValueExpr)
				if !ok {
					c.bad(e, "unkeyed metadata literal")
					return "", "?"
				}
				k, _ := kv.Key.(*ast.Ident)
				if k == nil || ckMetaFields[k.Name] == "" {
					c.bad(e, "metadata field")
					return "", "?"
				}
				s, ty := c.expr(kv.Value)
				want := "N"
				if k.Name == "Token" {
					want = "bytes"
				}
				if ty != want {
					c.bad(kv.Value, "metadata field value")
					return "", "?"
				}
				vals[k.Name] = s
			}
			var parts []string
			for _, f := range ckMetaOrder {
				v, ok := vals[f]
				if !ok {
					v = "0"
					if f == "Token" {
						v = "(zeros tokenSize)"
					}
				}
				parts = append(parts, ckMetaFields[f]+" := "+v)
			}
			return "{| " + strings.Join(parts, "; ") + " |}", "meta"
		}
	case *ast.CallExpr:
		return c.pureCall(t)
	}
	c.bad(e, "expression")
	return "", "?"
}

func (c *ckCtx) pureCall(t *ast.CallExpr) (string, string) {
	if id, ok := t.Fun.(*ast.Ident); ok && c.lookup(id.Name) == nil {
		switch id.Name {
		case "len":
			if len(t.Args) == 1 {
				s, ty := c.expr(t.Args[0])
				if ty == "bytes" {
					return "(len " + s + ")", "N"
				}
			}
		case "uint32", "int", "int64", "uint64":
			if len(t.Args) == 1 {
				// int(math.Ceil(float64(a) / float64(b)))
				if ce, ok := t.Args[0].(*ast.CallExpr); ok && ckIsSel(ce.Fun, "math", "Ceil") && len(ce.Args) == 1 {
					if be, ok := ce.Args[0].(*ast.BinaryExpr); ok && be.Op == token.QUO {
						fa, oka := be.X.(*ast.CallExpr)
						fb, okb := be.Y.(*ast.CallExpr)
						if oka && okb && ckIsIdent(fa.Fun, "float64") && ckIsIdent(fb.Fun, "float64") && len(fa.Args) == 1 && len(fb.Args) == 1 {
							a, ta := c.expr(fa.Args[0])
							b, tb := c.expr(fb.Args[0])
							if ta == "N" && tb == "N" {
								return "(num_chunks " + a + " " + b + ")", "N"
							}
						}
					}
					break
				}
				// uint32(time.Now().Unix())
				if ce, ok := t.Args[0].(*ast.CallExpr); ok {
					if s, ok := ce.Fun.(*ast.SelectorExpr); ok && s.Sel.Name == "Unix" && len(ce.Args) == 0 {
						if c2, ok := s.X.(*ast.CallExpr); ok && ckIsSel(c2.Fun, "time", "Now") && len(c2.Args) == 0 {
							return "cnow_", "N"
						}
					}
				}
				s, ty := c.expr(t.Args[0])
				if ty == "N" {
					return s, "N"
				}
			}
		case "exptime":
			if len(t.Args) == 1 {
				s, ty := c.expr(t.Args[0])
				if ty == "N" {
					return "(c_exptime cnow_ " + s + ")", "pair:N,bool"
				}
			}
		case "chunkSize":
			if len(t.Args) == 1 {
				s, ty := c.expr(t.Args[0])
				if ty == "N" {
					return "(chunk_size " + s + ")", "pair:N,N"
				}
			}
		case "metaKey":
			if len(t.Args) == 1 {
				s, ty := c.expr(t.Args[0])
				if ty == "bytes" {
					return "(meta_key " + s + ")", "bytes"
				}
			}
		case "chunkKey":
			if len(t.Args) == 2 {
				s, ty := c.expr(t.Args[0])
				i, ti := c.expr(t.Args[1])
				if ty == "bytes" && ti == "N" {
					return "(chunk_key " + s + " " + i + ")", "bytes"
				}
			}
		case "newChunkLimitedReader":
			if len(t.Args) == 3 {
				if ce, ok := t.Args[0].(*ast.CallExpr); ok && ckIsSel(ce.Fun, "bytes", "NewBuffer") && len(ce.Args) == 1 {
					d, td := c.expr(ce.Args[0])
					a, ta := c.expr(t.Args[1])
					b, tb := c.expr(t.Args[2])
					if td == "bytes" && ta == "N" && tb == "N" {
						return "(clr_new " + d + " " + a + " " + b + ")", "clr"
					}
				}
			}
		}
	}
	if ckIsSel(t.Fun, "binprot", "DecodeError") && len(t.Args) == 1 {
		s, ty := c.expr(t.Args[0])
		if ty == "phdr" {
			g := c.guard(s)
			return "(hdr_err " + g + ")", "err"
		}
	}
	if s, ok := t.Fun.(*ast.SelectorExpr); ok && s.Sel.Name == "More" && len(t.Args) == 0 {
		x, ty := c.expr(s.X)
		if ty == "clr" {
			return "(clr_more " + x + ")", "bool"
		}
	}
	c.bad(t, "call")
	return "", "?"
}

// ---- effectful calls: Coq head (applied to everything but state and continuation) and result types ----
var ckWriteCmds = map[string]struct {
	ctor  string
	nargs int // arguments after the writer, including the opaque
}{
	"WriteSetCmd": {"QSet MSet", 5}, "WriteAddCmd": {"QSet MAdd", 5}, "WriteReplaceCmd": {"QSet MReplace", 5},
	"WriteGetCmd": {"QGet", 2}, "WriteGetQCmd": {"QGetQ", 2}, "WriteGATCmd": {"QGat", 3}, "WriteGATQCmd": {"QGatQ", 3},
	"WriteDeleteCmd": {"QDelete", 2}, "WriteTouchCmd": {"QTouch", 3}, "WriteNoopCmd": {"QNoop", 1},
}

// effCall returns (head, result type tags, special) or ok=false if the call is not an effectful one
func (c *ckCtx) effCall(t *ast.CallExpr) (head string, res []string, special string, ok bool) {
	sel, _ := t.Fun.(*ast.SelectorExpr)
	if sel != nil {
		if x, okx := sel.X.(*ast.Ident); okx && x.Name == "binprot" && c.lookup("binprot") == nil {
			if w, okw := ckWriteCmds[sel.Sel.Name]; okw {
				if len(t.Args) != w.nargs+1 || !c.isConn(t.Args[0]) {
					c.bad(t, "write command arguments")
					return "", nil, "", true
				}
				if lit, okl := t.Args[len(t.Args)-1].(*ast.BasicLit); !okl || lit.Value != "0" {
					c.bad(t, "opaque is not the literal 0")
					return "", nil, "", true
				}
				var as []string
				for i, a := range t.Args[1 : len(t.Args)-1] {
					s, ty := c.expr(a)
					want := "N"
					if i == 0 {
						want = "bytes"
					}
					if ty != want {
						c.bad(a, "write command argument")
						return "", nil, "", true
					}
					as = append(as, s)
				}
				need := "0"
				if strings.HasPrefix(w.ctor, "QSet") {
					need = as[3]
					as = append(as[:3], "[]")
				}
				q := w.ctor
				if len(as) > 0 {
					q = "(" + w.ctor + " " + strings.Join(as, " ") + ")"
				}
				return "c_cmd " + q + " " + need, []string{"err"}, "", true
			}
			if sel.Sel.Name == "ReadResponseHeader" && len(t.Args) == 1 && c.isConn(t.Args[0]) {
				return "c_read_hdr", []string{"phdr", "err"}, "", true
			}
		}
		if c.isConn(sel.X) {
			switch sel.Sel.Name {
			case "reset":
				if _, isId := sel.X.(*ast.Ident); isId && len(t.Args) == 0 {
					return "c_reset", []string{"unit"}, "", true
				}
			case "Flush":
				if len(t.Args) == 0 {
					return "c_flush", []string{"err"}, "", true
				}
			case "Discard":
				if len(t.Args) == 1 {
					s, ty := c.expr(t.Args[0])
					if ty == "N" {
						return "c_discard " + s, []string{"N", "err"}, "", true
					}
				}
			case "Write":
				if len(t.Args) == 1 {
					s, ty := c.expr(t.Args[0])
					if ty == "bytes" {
						return "c_data " + s, []string{"N", "err"}, "", true
					}
				}
			}
			if _, isId := sel.X.(*ast.Ident); isId {
				if f, okf := c.funcs[sel.Sel.Name]; okf && f.method && f.want {
					return c.localCall(f, t)
				}
			}
			c.bad(t, "connection call")
			return "", nil, "", true
		}
		if ckIsSel(t.Fun, "io", "Copy") && len(t.Args) == 2 && c.isConn(t.Args[0]) {
			if id, okid := t.Args[1].(*ast.Ident); okid {
				if v := c.lookup(id.Name); v != nil && v.typ == "clr" {
					return "c_copy_clr " + v.coq, []string{"N", "err"}, "clr:" + id.Name, true
				}
			}
			c.bad(t, "io.Copy")
			return "", nil, "", true
		}
	}
	if id, okid := t.Fun.(*ast.Ident); okid && c.lookup(id.Name) == nil {
		switch id.Name {
		case "writeMetadata":
			if len(t.Args) == 2 && c.isConn(t.Args[0]) {
				s, ty := c.expr(t.Args[1])
				if ty == "meta" {
					return "c_write_meta " + s, []string{"err"}, "", true
				}
			}
			c.bad(t, "writeMetadata")
			return "", nil, "", true
		case "readMetadata":
			if len(t.Args) == 1 && c.isConn(t.Args[0]) {
				return "c_read_meta", []string{"meta", "err"}, "", true
			}
			c.bad(t, "readMetadata")
			return "", nil, "", true
		}
		if f, okf := c.funcs[id.Name]; okf && !f.method && f.want {
			return c.localCall(f, t)
		}
	}
	return "", nil, "", false
}

func (c *ckCtx) localCall(f *ckFunc, t *ast.CallExpr) (string, []string, string, bool) {
	var as []string
	ps := f.decl.Type.Params.List
	i := 0
	for _, p := range ps {
		ty := c.goType(p.Type)
		for range p.Names {
			if i >= len(t.Args) {
				c.bad(t, "argument count")
				return "", nil, "", true
			}
			a := t.Args[i]
			i++
			switch {
			case ty == "conn":
				if !c.isConn(a) {
					c.bad(a, "connection argument")
					return "", nil, "", true
				}
			case strings.HasPrefix(ty, "struct:"):
				id, ok := a.(*ast.Ident)
				var v *ckVar
				if ok {
					v = c.lookup(id.Name)
				}
				if v == nil || v.typ != ty {
					c.bad(a, "struct argument")
					return "", nil, "", true
				}
				for _, fld := range c.structs[strings.TrimPrefix(ty, "struct:")] {
					as = append(as, c.lookup(id.Name+"."+fld[0]).coq)
				}
			default:
				s, tya := c.expr(a)
				if tya != ty {
					c.bad(a, "argument type")
					return "", nil, "", true
				}
				as = append(as, s)
			}
		}
	}
	return strings.TrimSpace(f.name + "_src tok_ cnow_ " + strings.Join(as, " ")), f.res, "", true
}

// ---- statements ----
func ckPat(names []string) string {
	switch len(names) {
	case 0:
		return "_"
	case 1:
		return names[0]
	}
	return "'(" + strings.Join(names, ", ") + ")"
}
func ckTup(names []string) string {
	switch len(names) {
	case 0:
		return "tt"
	case 1:
		return names[0]
	}
	return "(" + strings.Join(names, ", ") + ")"
}
func ckTupTy(tys []string) string {
	switch len(tys) {
	case 0:
		return "unit"
	case 1:
		return ckTy(tys[0])
	}
	var s []string
	for _, t := range tys {
		s = append(s, ckTy(t))
	}
	return "(" + strings.Join(s, " * ") + ")"
}

func ckIsDropped(s ast.Stmt) bool {
	var call *ast.CallExpr
	switch t := s.(type) {
	case *ast.ExprStmt:
		call, _ = t.X.(*ast.CallExpr)
	case *ast.DeferStmt:
		call = t.Call
		if !ckIsSel(call.Fun, "binprot", "PutResponseHeader") {
			return false
		}
	}
	if call == nil {
		return false
	}
	if sel, ok := call.Fun.(*ast.SelectorExpr); ok {
		if x, ok := sel.X.(*ast.Ident); ok {
			if x.Name == "metrics" {
				for _, a := range call.Args { // arguments must not hide calls other than conversions
					bad := false
					ast.Inspect(a, func(n ast.Node) bool {
						if ce, ok := n.(*ast.CallExpr); ok {
							if id, ok := ce.Fun.(*ast.Ident); !ok || (id.Name != "uint64" && id.Name != "int" && id.Name != "len") {
								bad = true
							}
						}
						return true
					})
					if bad {
						return false
					}
				}
				return true
			}
			if x.Name == "binprot" && sel.Sel.Name == "PutResponseHeader" {
				return true
			}
		}
	}
	return false
}

func ckAllDropped(b *ast.BlockStmt) bool {
	if b == nil {
		return true
	}
	for _, s := range b.List {
		if ckIsDropped(s) {
			continue
		}
		if sw, ok := s.(*ast.SwitchStmt); ok && sw.Init == nil {
			all := true
			for _, cc := range sw.Body.List {
				if !ckAllDropped(&ast.BlockStmt{List: cc.(*ast.CaseClause).Body}) {
					all = false
				}
			}
			if all {
				continue
			}
		}
		if is, ok := s.(*ast.IfStmt); ok && is.Init == nil && ckAllDropped(is.Body) && is.Else == nil {
			continue
		}
		return false
	}
	return true
}

func ckTerminates(list []ast.Stmt) bool {
	if len(list) == 0 {
		return false
	}
	switch t := list[len(list)-1].(type) {
	case *ast.ReturnStmt:
		return true
	case *ast.ExprStmt:
		if ce, ok := t.X.(*ast.CallExpr); ok && ckIsIdent(ce.Fun, "panic") {
			return true
		}
	case *ast.IfStmt:
		if t.Else == nil {
			return false
		}
		eb, ok := t.Else.(*ast.BlockStmt)
		if !ok {
			return ckTerminates([]ast.Stmt{t.Else}) && ckTerminates(t.Body.List)
		}
		return ckTerminates(t.Body.List) && ckTerminates(eb.List)
	case *ast.BlockStmt:
		return ckTerminates(t.List)
	}
	return false
}

// variables declared OUTSIDE node n (visible now) that n assigns
func (c *ckCtx) assigned(n ast.Node) []*ckVar {
	seen := map[*ckVar]bool{}
	mark := func(e ast.Expr) {
		switch t := e.(type) {
		case *ast.Ident:
			if v := c.lookup(t.Name); v != nil {
				seen[v] = true
			}
		case *ast.SelectorExpr:
			if id, ok := t.X.(*ast.Ident); ok {
				if v := c.lookup(id.Name); v != nil {
					seen[v] = true
				}
			}
		}
	}
	ast.Inspect(n, func(x ast.Node) bool {
		switch t := x.(type) {
		case *ast.AssignStmt:
			// `:=` may assign existing variables only in its own scope, which is inside n; a conservative
			// reading (mark them anyway) only enlarges the loop state
			for _, l := range t.Lhs {
				if t.Tok == token.ASSIGN {
					mark(l)
				}
			}
		case *ast.IncDecStmt:
			mark(t.X)
		case *ast.CallExpr:
			if sel, ok := t.Fun.(*ast.SelectorExpr); ok && (sel.Sel.Name == "NextChunk") {
				mark(sel.X)
			}
			if ckIsSel(t.Fun, "io", "Copy") && len(t.Args) == 2 {
				mark(t.Args[1])
			}
		}
		return true
	})
	var out []*ckVar
	for _, v := range c.order {
		if seen[v] && v.typ != "conn" && !strings.HasPrefix(v.typ, "struct:") {
			out = append(out, v)
		}
	}
	return out
}

func ckVarNames(vs []*ckVar) (names, tys []string) {
	for _, v := range vs {
		names = append(names, v.coq)
		tys = append(tys, v.typ)
	}
	return
}

func (c *ckCtx) coerce(s, ty, want string) (string, bool) {
	if ty == want {
		return s, true
	}
	if ty == "nil" {
		switch want {
		case "err", "phdr":
			return "None", true
		case "bytes":
			return "[]", true
		}
	}
	return "", false
}

// stmts translates list[i:], `fall` produces what happens when control falls off the end
func (c *ckCtx) stmts(list []ast.Stmt, i int, fall func() string) string {
	if i >= len(list) {
		return fall()
	}
	s := list[i]
	rest := func() string { return c.stmts(list, i+1, fall) }
	if ckIsDropped(s) {
		return rest()
	}
	out := c.stmt(s, rest)
	if c.fail != "" {
		return c.untrans()
	}
	return out
}

// bind the results of an effectful call to the left-hand sides
func (c *ckCtx) bindCall(call *ast.CallExpr, lhs []ast.Expr, define bool, rest func() string) string {
	head, res, special, ok := c.effCall(call)
	if !ok {
		c.bad(call, "call")
		return ""
	}
	if c.fail != "" {
		return ""
	}
	var names []string
	if len(lhs) == 0 {
		names = nil
	} else {
		if len(lhs) != len(res) {
			c.bad(call, "result count")
			return ""
		}
		for j, l := range lhs {
			id, okid := l.(*ast.Ident)
			if !okid {
				c.bad(l, "left-hand side")
				return ""
			}
			if id.Name == "_" {
				names = append(names, "_")
				continue
			}
			if define {
				names = append(names, c.declare(id.Name, res[j]))
			} else {
				v := c.lookup(id.Name)
				if v == nil || v.typ != res[j] {
					c.bad(l, "assignment target")
					return ""
				}
				names = append(names, v.coq)
			}
		}
	}
	pat := "_"
	if len(lhs) > 0 {
		pat = ckPat(names)
	}
	extra := ""
	if strings.HasPrefix(special, "clr:") {
		extra = " " + c.lookup(strings.TrimPrefix(special, "clr:")).coq
	}
	g := c.guards
	c.guards = nil
	body := rest()
	c.guards = g
	return c.wrapGuards(fmt.Sprintf("%s st_ (fun %s%s st_ =>\n%s)", head, pat, extra, body))
}

func (c *ckCtx) stmt(s ast.Stmt, rest func() string) string {
	switch t := s.(type) {
	case *ast.EmptyStmt:
		return rest()
	case *ast.BlockStmt:
		c.push()
		r := c.stmts(t.List, 0, func() string { c.pop(); x := rest(); c.push(); return x })
		c.pop()
		return r
	case *ast.ExprStmt:
		call, ok := t.X.(*ast.CallExpr)
		if !ok {
			break
		}
		if ckIsIdent(call.Fun, "panic") {
			return "c_panic"
		}
		if sel, ok := call.Fun.(*ast.SelectorExpr); ok && sel.Sel.Name == "NextChunk" && len(call.Args) == 0 {
			if id, ok := sel.X.(*ast.Ident); ok {
				if v := c.lookup(id.Name); v != nil && v.typ == "clr" {
					return fmt.Sprintf("let %s := clr_next %s in\n%s", v.coq, v.coq, rest())
				}
			}
		}
		return c.bindCall(call, nil, false, rest)
	case *ast.IncDecStmt:
		if id, ok := t.X.(*ast.Ident); ok && t.Tok == token.INC {
			if v := c.lookup(id.Name); v != nil && v.typ == "N" {
				return fmt.Sprintf("let %s := %s + 1 in\n%s", v.coq, v.coq, rest())
			}
		}
	case *ast.DeclStmt:
		// var x T
		if gd, ok := t.Decl.(*ast.GenDecl); ok && gd.Tok == token.VAR && len(gd.Specs) == 1 {
			vs := gd.Specs[0].(*ast.ValueSpec)
			if len(vs.Values) == 0 && len(vs.Names) == 1 && vs.Type != nil {
				ty := c.goType(vs.Type)
				zero := map[string]string{"N": "0", "bool": "false", "err": "None", "bytes": "[]"}[ty]
				if zero != "" {
					n := c.declare(vs.Names[0].Name, ty)
					return fmt.Sprintf("let %s := %s in\n%s", n, zero, rest())
				}
			}
		}
	case *ast.AssignStmt:
		define := t.Tok == token.DEFINE
		if t.Tok != token.DEFINE && t.Tok != token.ASSIGN {
			break
		}
		if len(t.Rhs) == 1 {
			if call, ok := t.Rhs[0].(*ast.CallExpr); ok {
				if _, _, _, eff := c.effCall(call); eff {
					c.fail = ""
					c.guards = nil
					return c.bindCall(call, t.Lhs, define, rest)
				}
				c.fail = ""
				c.guards = nil
			}
			// pure
			val, ty := c.expr(t.Rhs[0])
			if c.fail != "" {
				return ""
			}
			if strings.HasPrefix(ty, "pair:") {
				tys := strings.Split(strings.TrimPrefix(ty, "pair:"), ",")
				if len(t.Lhs) != 2 {
					c.bad(s, "pair assignment")
					return ""
				}
				var pats []string
				var post []string
				for j, l := range t.Lhs {
					switch lt := l.(type) {
					case *ast.Ident:
						if lt.Name == "_" {
							pats = append(pats, "_")
						} else if define {
							pats = append(pats, c.declare(lt.Name, tys[j]))
						} else if v := c.lookup(lt.Name); v != nil && v.typ == tys[j] {
							pats = append(pats, v.coq)
						} else {
							c.bad(l, "assignment target")
							return ""
						}
					case *ast.SelectorExpr:
						id, _ := lt.X.(*ast.Ident)
						var v *ckVar
						if id != nil {
							v = c.lookup(id.Name)
						}
						if define || v == nil || v.typ != "meta" || lt.Sel.Name != "Exptime" || tys[j] != "N" {
							c.bad(l, "assignment target")
							return ""
						}
						c.gseq++
						tmp := fmt.Sprintf("t%d_", c.gseq)
						pats = append(pats, tmp)
						post = append(post, fmt.Sprintf("let %s := set_m_exptime %s %s in\n", v.coq, tmp, v.coq))
					default:
						c.bad(l, "assignment target")
						return ""
					}
				}
				return c.wrapGuards(fmt.Sprintf("let '(%s) := %s in\n%s%s", strings.Join(pats, ", "), val, strings.Join(post, ""), rest()))
			}
			if len(t.Lhs) == 1 {
				id, ok := t.Lhs[0].(*ast.Ident)
				if !ok {
					c.bad(s, "assignment target")
					return ""
				}
				var name string
				if define {
					if ty == "nil" || ty == "?" {
						c.bad(s, "untyped value")
						return ""
					}
					name = c.declare(id.Name, ty)
				} else {
					v := c.lookup(id.Name)
					if v == nil {
						c.bad(s, "assignment target")
						return ""
					}
					cv, ok := c.coerce(val, ty, v.typ)
					if !ok {
						c.bad(s, "assignment type")
						return ""
					}
					val = cv
					name = v.coq
				}
				g := c.guards
				c.guards = nil
				body := rest()
				c.guards = g
				return c.wrapGuards(fmt.Sprintf("let %s := %s in\n%s", name, val, body))
			}
		}
	case *ast.ReturnStmt:
		f := c.cur
		if len(t.Results) == 1 && len(f.res) >= 1 {
			if call, ok := t.Results[0].(*ast.CallExpr); ok {
				if head, res, _, eff := c.effCall(call); eff {
					if c.fail != "" {
						return ""
					}
					if strings.Join(res, ",") != strings.Join(f.res, ",") {
						c.bad(s, "returned call type")
						return ""
					}
					return c.wrapGuards(fmt.Sprintf("%s st_ ret_", head))
				}
				c.fail = ""
				c.guards = nil
			}
		}
		if len(t.Results) != len(f.res) {
			c.bad(s, "return arity")
			return ""
		}
		var vals []string
		for j, r := range t.Results {
			v, ty := c.expr(r)
			if c.fail != "" {
				return ""
			}
			cv, ok := c.coerce(v, ty, f.res[j])
			if !ok {
				c.bad(r, "return type")
				return ""
			}
			vals = append(vals, cv)
		}
		return c.wrapGuards(fmt.Sprintf("ret_ %s st_", ckTup(vals)))
	case *ast.IfStmt:
		return c.ifStmt(t, rest)
	case *ast.SwitchStmt:
		return c.switchStmt(t, rest)
	case *ast.ForStmt:
		return c.forStmt(t, rest)
	}
	c.bad(s, "statement")
	return ""
}

// join: code after a branching statement; the variables the branches assign are passed on
func (c *ckCtx) join(n ast.Node, rest func() string, mk func(fall func() string) string) string {
	vs := c.assigned(n)
	names, _ := ckVarNames(vs)
	fall := func() string {
		return strings.TrimSpace("K_ "+strings.Join(names, " ")) + " st_"
	}
	body := mk(fall)
	if c.fail != "" {
		return ""
	}
	r := rest()
	k := fmt.Sprintf("(fun %s st_ =>\n%s)", strings.Join(names, " "), r)
	if len(names) == 0 {
		k = fmt.Sprintf("(fun st_ =>\n%s)", r)
	}
	return fmt.Sprintf("(fun K_ =>\n%s)\n%s", body, k)
}

// run f with only the outermost `depth` scopes visible
func (c *ckCtx) inOuter(depth int, f func() string) string {
	saved := c.scopes
	c.scopes = append([]map[string]*ckVar{}, saved[:depth]...)
	r := f()
	c.scopes = saved
	return r
}

func (c *ckCtx) ifStmt(t *ast.IfStmt, rest func() string) string {
	if t.Init == nil && t.Else == nil && ckAllDropped(t.Body) {
		// the condition must be translatable and pure
		c.expr(t.Cond)
		if c.fail != "" || len(c.guards) > 0 {
			c.bad(t, "dropped if with an impure condition")
			return ""
		}
		return rest()
	}
	depth := len(c.scopes)
	c.push()
	defer c.pop()
	rest0 := rest
	rest = func() string { return c.inOuter(depth, rest0) }
	inner := func(rest2 func() string) string {
		cond, ty := c.expr(t.Cond)
		if c.fail != "" {
			return ""
		}
		if ty != "bool" {
			c.bad(t.Cond, "condition")
			return ""
		}
		g := c.guards
		c.guards = nil
		var elseList []ast.Stmt
		if t.Else != nil {
			if eb, ok := t.Else.(*ast.BlockStmt); ok {
				elseList = eb.List
			} else {
				elseList = []ast.Stmt{t.Else}
			}
		}
		var out string
		if ckTerminates(t.Body.List) && t.Else == nil {
			c.push()
			th := c.stmts(t.Body.List, 0, func() string { return "c_undef" })
			c.pop()
			out = fmt.Sprintf("if %s then\n%s\nelse\n%s", cond, th, rest2())
		} else {
			out = c.join(t, rest2, func(fall func() string) string {
				c.push()
				th := c.stmts(t.Body.List, 0, fall)
				c.pop()
				c.push()
				el := c.stmts(elseList, 0, fall)
				c.pop()
				return fmt.Sprintf("if %s then\n%s\nelse\n%s", cond, th, el)
			})
		}
		c.guards = g
		return c.wrapGuards(out)
	}
	if t.Init != nil {
		return c.stmt(t.Init, func() string { return inner(rest) })
	}
	return inner(rest)
}

func (c *ckCtx) switchStmt(t *ast.SwitchStmt, rest func() string) string {
	if t.Init != nil || t.Tag == nil {
		c.bad(t, "switch form")
		return ""
	}
	tag, ty := c.expr(t.Tag)
	if c.fail != "" || ty != "N" || len(c.guards) > 0 {
		c.bad(t, "switch tag")
		return ""
	}
	return c.join(t, rest, func(fall func() string) string {
		var def *ast.CaseClause
		var sb strings.Builder
		closers := 0
		for _, cl := range t.Body.List {
			cc := cl.(*ast.CaseClause)
			if cc.List == nil {
				def = cc
				continue
			}
			var conds []string
			for _, e := range cc.List {
				v, tv := c.expr(e)
				if c.fail != "" || tv != "N" {
					c.bad(e, "case value")
					return ""
				}
				conds = append(conds, fmt.Sprintf("(%s =? %s)", tag, v))
			}
			c.push()
			body := c.stmts(cc.Body, 0, fall)
			c.pop()
			fmt.Fprintf(&sb, "if %s then\n%s\nelse (", strings.Join(conds, " || "), body)
			closers++
		}
		if def != nil {
			c.push()
			sb.WriteString(c.stmts(def.Body, 0, fall))
			c.pop()
		} else {
			sb.WriteString(fall())
		}
		sb.WriteString(strings.Repeat(")", closers))
		return sb.String()
	})
}

func ckHasBranch(n ast.Node) bool {
	found := false
	ast.Inspect(n, func(x ast.Node) bool {
		if _, ok := x.(*ast.BranchStmt); ok {
			found = true
		}
		return true
	})
	return found
}

func (c *ckCtx) forStmt(t *ast.ForStmt, rest func() string) string {
	if ckHasBranch(t.Body) {
		c.bad(t, "loop with break/continue/goto")
		return ""
	}
	c.nloop++
	lname := fmt.Sprintf("%s_loop%d", c.cur.name, c.nloop)
	vs := c.assigned(t.Body)
	var ivar string
	var loopHead string
	counted := false
	if t.Init != nil || t.Post != nil {
		// for i := 0; i < HI; i++
		as, ok1 := t.Init.(*ast.AssignStmt)
		inc, ok2 := t.Post.(*ast.IncDecStmt)
		cond, ok3 := t.Cond.(*ast.BinaryExpr)
		if !ok1 || !ok2 || !ok3 || as.Tok != token.DEFINE || len(as.Lhs) != 1 || len(as.Rhs) != 1 || inc.Tok != token.INC || cond.Op != token.LSS {
			c.bad(t, "loop form")
			return ""
		}
		id, _ := as.Lhs[0].(*ast.Ident)
		if id == nil || !ckIsIdent(inc.X, id.Name) || !ckIsIdent(cond.X, id.Name) {
			c.bad(t, "loop form")
			return ""
		}
		lo, tlo := c.expr(as.Rhs[0])
		hi, thi := c.expr(cond.Y)
		if c.fail != "" || tlo != "N" || thi != "N" || len(c.guards) > 0 {
			c.bad(t, "loop bounds")
			return ""
		}
		for _, v := range vs {
			if cv := c.lookup(id.Name); cv == v {
				c.bad(t, "loop variable assigned")
				return ""
			}
		}
		counted = true
		ivar = id.Name
		loopHead = fmt.Sprintf("c_for %s %s", lo, hi)
	} else {
		ce, ok := t.Cond.(*ast.CallExpr)
		var rv *ckVar
		if ok {
			if sel, ok := ce.Fun.(*ast.SelectorExpr); ok && sel.Sel.Name == "More" && len(ce.Args) == 0 {
				if id, ok := sel.X.(*ast.Ident); ok {
					rv = c.lookup(id.Name)
				}
			}
		}
		if rv == nil || rv.typ != "clr" {
			c.bad(t, "loop form")
			return ""
		}
		in := false
		for _, v := range vs {
			if v == rv {
				in = true
			}
		}
		if !in {
			vs = append(vs, rv)
		}
		names, _ := ckVarNames(vs)
		loopHead = fmt.Sprintf("c_while (clr_fuel %s) (fun %s => clr_more %s)", rv.coq, ckPat(names), rv.coq)
	}
	names, tys := ckVarNames(vs)
	// parameters of the lifted body: every variable visible here, in declaration order
	var params []string
	var args []string
	for _, v := range c.order {
		if v.typ == "conn" || strings.HasPrefix(v.typ, "struct:") {
			continue
		}
		vis := false
		for i := len(c.scopes) - 1; i >= 0 && !vis; i-- {
			for _, w := range c.scopes[i] {
				if w == v {
					vis = true
				}
			}
		}
		if !vis {
			continue
		}
		params = append(params, fmt.Sprintf("(%s : %s)", v.coq, ckTy(v.typ)))
		args = append(args, v.coq)
	}
	// the body
	c.push()
	icoq := ""
	if counted {
		icoq = c.declare(ivar, "N")
	}
	fall := func() string { return fmt.Sprintf("next_ %s st_", ckTup(names)) }
	body := c.stmts(t.Body.List, 0, fall)
	c.pop()
	sty := ckTupTy(tys)
	ipar := ""
	if counted {
		ipar = fmt.Sprintf("(%s : N) ", icoq)
	}
	statePat := ckPat(names)
	if len(names) == 0 {
		statePat = "_"
	}
	def := fmt.Sprintf("Definition %s (tok_ : bytes) (cnow_ : N) %s (ret_ : %s -> cst -> cprog)\n  : %s%s -> cst -> (%s -> cst -> cprog) -> cprog :=\n  fun %s%s st_ next_ =>\n%s.\n",
		lname, strings.Join(params, " "), ckTupTy(c.cur.res), map[bool]string{true: "N -> ", false: ""}[counted], sty, sty,
		ipar, ckStateBinder(statePat, sty), body)
	c.defs = append(c.defs, def)
	after := rest()
	return fmt.Sprintf("%s (%s tok_ cnow_ %s ret_) %s st_ (fun %s st_ =>\n%s)", loopHead, lname, strings.Join(args, " "), ckTup(names), statePat, after)
}

func ckStateBinder(pat, ty string) string {
	if strings.HasPrefix(pat, "'") {
		return pat
	}
	return "(" + pat + " : " + ty + ")"
}

// ---- functions ----
func (c *ckCtx) transFunc(f *ckFunc) {
	c.cur = f
	c.scopes = nil
	c.order = nil
	c.seq = 0
	c.nloop = 0
	c.gseq = 0
	c.fail = ""
	c.guards = nil
	c.used = map[string]bool{"tok_": true, "cnow_": true, "st_": true, "ret_": true, "next_": true, "K_": true}
	c.push()
	var params []string
	if f.decl.Recv != nil && len(f.decl.Recv.List) == 1 && len(f.decl.Recv.List[0].Names) == 1 {
		c.scopes[0][f.decl.Recv.List[0].Names[0].Name] = &ckVar{coq: "", typ: "conn"}
	}
	ok := true
	for _, p := range f.decl.Type.Params.List {
		ty := c.goType(p.Type)
		for _, n := range p.Names {
			switch {
			case ty == "conn":
				c.scopes[0][n.Name] = &ckVar{coq: "", typ: "conn"}
			case strings.HasPrefix(ty, "struct:"):
				c.scopes[0][n.Name] = &ckVar{coq: "", typ: ty}
				for _, fld := range c.structs[strings.TrimPrefix(ty, "struct:")] {
					coq := n.Name + "_" + fld[0]
					v := &ckVar{coq: coq, typ: fld[1]}
					c.scopes[0][n.Name+"."+fld[0]] = v
					c.order = append(c.order, v)
					c.used[coq] = true
					params = append(params, fmt.Sprintf("(%s : %s)", coq, ckTy(fld[1])))
				}
			case ty == "?":
				ok = false
			default:
				coq := c.declare(n.Name, ty)
				params = append(params, fmt.Sprintf("(%s : %s)", coq, ckTy(ty)))
			}
		}
	}
	for _, r := range f.res {
		if r == "?" {
			ok = false
		}
	}
	var body string
	if !ok {
		body = fmt.Sprintf("c_untranslatable \"signature of %s\"", f.name)
	} else {
		c.push()
		body = c.stmts(f.decl.Body.List, 0, func() string {
			if len(f.res) == 0 {
				return "ret_ tt st_"
			}
			return "c_undef"
		})
		c.pop()
	}
	def := fmt.Sprintf("(* %s: func %s *)\nDefinition %s_src (tok_ : bytes) (cnow_ : N) %s (st_ : cst) (ret_ : %s -> cst -> cprog) : cprog :=\n%s.\n",
		f.file, f.name, f.name, strings.Join(params, " "), ckTupTy(f.res), body)
	c.defs = append(c.defs, def)
	// closed program per handler method returning just an error
	if f.method && len(f.res) == 1 && f.res[0] == "err" && f.decl.Name.IsExported() && ok {
		var ps, as []string
		for _, v := range c.order {
			if len(as) >= len(params) {
				break
			}
			ps = append(ps, fmt.Sprintf("(%s : %s)", v.coq, ckTy(v.typ)))
			as = append(as, v.coq)
		}
		c.defs = append(c.defs, fmt.Sprintf("Definition chunked_%s_src (tok_ : bytes) (cnow_ : N) %s : cprog :=\n  %s_src tok_ cnow_ %s cs0 (fun e_ st_ => c_finish (herr_res e_) st_).\n",
			f.name, strings.Join(ps, " "), f.name, strings.Join(as, " ")))
	}
}

// the layout of the metadata record: struct declaration, readMetadata, writeMetadata (types.go)
func (c *ckCtx) metaLayout(af *ast.File) string {
	var fields []string
	var rd, wr []string
	for _, d := range af.Decls {
		switch t := d.(type) {
		case *ast.GenDecl:
			for _, sp := range t.Specs {
				ts, ok := sp.(*ast.TypeSpec)
				if !ok || ts.Name.Name != "metadata" {
					continue
				}
				st, ok := ts.Type.(*ast.StructType)
				if !ok {
					continue
				}
				for _, f := range st.Fields.List {
					ty := "?"
					if ckIsIdent(f.Type, "uint32") {
						ty = "u32"
					} else if at, ok := f.Type.(*ast.ArrayType); ok && ckIsIdent(at.Len, "tokenSize") && ckIsIdent(at.Elt, "byte") {
						ty = "tok"
					}
					for _, n := range f.Names {
						fields = append(fields, n.Name+":"+ty)
					}
				}
			}
		case *ast.FuncDecl:
			if t.Name.Name != "readMetadata" && t.Name.Name != "writeMetadata" {
				continue
			}
			ast.Inspect(t.Body, func(n ast.Node) bool {
				switch s := n.(type) {
				case *ast.AssignStmt: // m.F = binary.BigEndian.Uint32(buf[a:b])
					if len(s.Lhs) == 1 && len(s.Rhs) == 1 {
						if l, ok := s.Lhs[0].(*ast.SelectorExpr); ok {
							if ce, ok := s.Rhs[0].(*ast.CallExpr); ok && len(ce.Args) == 1 {
								if f, ok := ce.Fun.(*ast.SelectorExpr); ok && f.Sel.Name == "Uint32" && ckIsSel(f.X, "binary", "BigEndian") {
									rd = append(rd, l.Sel.Name+"@"+c.src(ce.Args[0]))
								}
							}
						}
					}
				case *ast.CallExpr:
					if f, ok := s.Fun.(*ast.SelectorExpr); ok && f.Sel.Name == "PutUint32" && ckIsSel(f.X, "binary", "BigEndian") && len(s.Args) == 2 {
						if v, ok := s.Args[1].(*ast.SelectorExpr); ok {
							wr = append(wr, v.Sel.Name+"@"+c.src(s.Args[0]))
						}
					}
					if ckIsIdent(s.Fun, "copy") && len(s.Args) == 2 {
						rd = append(rd, c.src(s.Args[0])+"<-"+c.src(s.Args[1]))
					}
					if f, ok := s.Fun.(*ast.SelectorExpr); ok && f.Sel.Name == "Write" && len(s.Args) == 1 {
						wr = append(wr, "Write "+c.src(s.Args[0]))
					}
				}
				return true
			})
		}
	}
	q := func(l []string) string {
		var o []string
		for _, s := range l {
			o = append(o, strconv.Quote(s)+"%string")
		}
		return "[" + strings.Join(o, "; ") + "]"
	}
	return fmt.Sprintf("(* types.go: the fields of `type metadata struct` in order; the decoding steps of readMetadata; the encoding\n   steps of writeMetadata (gen/ChunkedLink.v chunk_meta_layout_link compares them with ChunkFmt.enc_meta / dec_meta) *)\nDefinition chunk_meta_fields_src : list string := %s.\nDefinition chunk_meta_read_src : list string := %s.\nDefinition chunk_meta_write_src : list string := %s.\n",
		q(fields), q(rd), q(wr))
}

func chunktrans(e *env) {
	repo := "/repo"
	if v := os.Getenv("VERIF_REPO"); v != "" {
		repo = v
	}
	c := &ckCtx{fs: token.NewFileSet(), repo: repo, funcs: map[string]*ckFunc{}, structs: map[string][][2]string{}}
	// request structs of common/datatypes.go
	if af, err := parser.ParseFile(c.fs, filepath.Join(repo, "common/datatypes.go"), nil, 0); err == nil {
		for _, d := range af.Decls {
			gd, ok := d.(*ast.GenDecl)
			if !ok {
				continue
			}
			for _, sp := range gd.Specs {
				ts, ok := sp.(*ast.TypeSpec)
				if !ok {
					continue
				}
				st, ok := ts.Type.(*ast.StructType)
				if !ok || !strings.HasSuffix(ts.Name.Name, "Request") {
					continue
				}
				var fl [][2]string
				for _, f := range st.Fields.List {
					ty := c.goType(f.Type)
					if ty != "N" && ty != "bytes" && ty != "bool" {
						continue
					}
					for _, n := range f.Names {
						if n.Name == "Quiet" || (n.Name == "Opaque" && ts.Name.Name != "GATRequest") {
							continue // the handler never reads them (a read is untranslatable)
						}
						fl = append(fl, [2]string{n.Name, ty})
					}
				}
				c.structs[ts.Name.Name] = fl
			}
		}
	}
	dir := filepath.Join(repo, "handlers/memcached/chunked")
	var sb strings.Builder
	sb.WriteString("(* GENERATED by `rendharness chunktrans` from the SOURCE of /repo/handlers/memcached/chunked/{handler,localComm,types}.go\n")
	sb.WriteString("   — do not edit. Vocabulary and rules: handlers/ChunkSem.v (hand-written, trusted). Loop idioms: counted\n")
	sb.WriteString("   `for i := lo; i < hi; i++` -> c_for; `for r.More()` over a chunkedLimitedReader -> c_while (clr_fuel r);\n")
	sb.WriteString("   each loop body is a definition <func>_loop<n> over the tuple of outer variables it assigns. Dropped:\n")
	sb.WriteString("   metrics.* statements, binprot.PutResponseHeader (also deferred), `if`s left empty by that.\n")
	sb.WriteString("   NOT TRANSLATED (no definition here, hand model only): getLocalIntoBuf, realHandleGet/Get, GAT,\n")
	sb.WriteString("   handleAppendPrependCommon/Append/Prepend, GetE, NewHandler, Close; chunkedLimitedReader.go, keys.go. *)\n")
	sb.WriteString("From Coq Require Import String.\nFrom Rend Require Import base.Bytes gen.Consts_gen spec.MapSpec orca.Types orca.OrcaSem handlers.ChunkFmt\n  handlers.Chunked handlers.ChunkSem.\nOpen Scope N_scope.\nOpen Scope list_scope.\nOpen Scope bool_scope.\n\n")
	files := map[string]*ast.File{}
	var perr []string
	for _, fn := range []string{"handler.go", "localComm.go", "types.go"} {
		af, err := parser.ParseFile(c.fs, filepath.Join(dir, fn), nil, 0)
		if err != nil {
			perr = append(perr, err.Error())
			continue
		}
		files[fn] = af
		for _, d := range af.Decls {
			fd, ok := d.(*ast.FuncDecl)
			if !ok || fd.Body == nil {
				continue
			}
			f := &ckFunc{name: fd.Name.Name, file: fn, decl: fd, method: fd.Recv != nil}
			if fd.Type.Results != nil {
				for _, r := range fd.Type.Results.List {
					n := len(r.Names)
					if n == 0 {
						n = 1
					}
					for i := 0; i < n; i++ {
						f.res = append(f.res, c.goType(r.Type))
					}
				}
			}
			c.funcs[fd.Name.Name] = f
		}
	}
	sort.Strings(perr)
	for _, p := range perr {
		fmt.Fprintf(&sb, "Definition chunk_parse_error : cprog := c_untranslatable %s.\n", strconv.Quote(p))
	}
	if af := files["types.go"]; af != nil {
		sb.WriteString(c.metaLayout(af))
		sb.WriteString("\n")
	}
	want := []string{"readResponseHeader", "getMetadataCommon", "getMetadata", "getAndTouchMetadata", "simpleCmdLocal",
		"handleSetCommon", "Set", "Add", "Replace", "Delete", "Touch"}
	for _, n := range want {
		if f, ok := c.funcs[n]; ok {
			f.want = true
		}
	}
	for _, n := range want {
		f, ok := c.funcs[n]
		if !ok {
			fmt.Fprintf(&sb, "Definition %s_src : cprog := c_untranslatable \"function %s not found\".\n\n", n, n)
			continue
		}
		c.defs = nil
		c.transFunc(f)
		for _, d := range c.defs {
			sb.WriteString(d)
			sb.WriteString("\n")
		}
	}
	os.MkdirAll(e.out, 0o755)
	writeIfChanged(filepath.Join(e.out, "Chunked_gen.v"), []byte(sb.String()))
	fmt.Printf("chunktrans: wrote %s\n", filepath.Join(e.out, "Chunked_gen.v"))
}
