package main

// stdtrans, expressions. expr returns a Gallina term and the Go type; what has to happen before the
// value exists (a nil check for p.f, a bounds check for a[i]) is opened as a guard in c.pre and
// closed by the statement translator around the statement and everything after it.

import (
	"fmt"
	"go/ast"
	"go/token"
	"go/types"
	"strings"
)

var sxHdrShort = map[string]string{"Magic": "magic", "Opcode": "op", "KeyLength": "klen", "ExtraLength": "elen",
	"DataType": "dtype", "VBucket": "vbucket", "Status": "status", "TotalBodyLength": "total", "OpaqueToken": "opaque",
	"CASToken": "cas"}

// fields StdWire's rhdr keeps
var sxRhdrKept = map[string]bool{"op": true, "klen": true, "elen": true, "status": true, "total": true, "opaque": true}

func (c *sxCtx) hdrField(kind, goField string) (short, typ string, ok bool) {
	st := "RequestHeader"
	if kind == "rhdr" {
		st = "ResponseHeader"
	}
	for _, f := range c.hdrs[st] {
		if f.name == goField {
			s, ok := sxHdrShort[goField]
			return s, f.typ, ok
		}
	}
	return "", "", false
}

// isConn: an expression that denotes the handler's connection
func (c *sxCtx) isConn(e ast.Expr, env *sxEnv) bool {
	switch x := e.(type) {
	case *ast.Ident:
		v := env.lookup(x.Name)
		return v != nil && v.typ == "conn"
	case *ast.SelectorExpr:
		if id, ok := x.X.(*ast.Ident); ok {
			if v := env.lookup(id.Name); v != nil && v.typ == "handler" {
				return x.Sel.Name == "Rw"
			}
		}
		if x.Sel.Name == "Writer" || x.Sel.Name == "Reader" {
			return c.isConn(x.X, env)
		}
	}
	return false
}

// poolOf: <pool>.Get / <pool>.Put
func (c *sxCtx) poolCall(e ast.Expr, method string) (pool string, args []ast.Expr, ok bool) {
	call, isCall := e.(*ast.CallExpr)
	if !isCall {
		return "", nil, false
	}
	sel, isSel := call.Fun.(*ast.SelectorExpr)
	if !isSel || sel.Sel.Name != method {
		return "", nil, false
	}
	id, isId := sel.X.(*ast.Ident)
	if !isId {
		return "", nil, false
	}
	if _, known := c.pools[id.Name]; !known {
		return "", nil, false
	}
	return id.Name, call.Args, true
}

func (c *sxCtx) isPoolPut(e ast.Expr) bool {
	_, args, ok := c.poolCall(e, "Put")
	return ok && len(args) == 1
}

// dropped: a call statement without meaning at value level (rules: StdSem.v header)
func (c *sxCtx) dropped(e ast.Expr, env *sxEnv) bool {
	call, ok := e.(*ast.CallExpr)
	if !ok {
		return false
	}
	if pkg, _, ok := lpPkgSel(call.Fun); ok && env.lookup(pkg) == nil && pkg == "metrics" {
		return true
	}
	if c.isPoolPut(e) {
		return true
	}
	if g := c.callee(c.cur, call); g != nil && c.putOnly[g.key] {
		return true
	}
	return false
}

func sxLit(e ast.Expr) (string, bool) {
	if bl, ok := e.(*ast.BasicLit); ok && bl.Kind == token.INT {
		return bl.Value, true
	}
	return "", false
}

// a package-level name of binprot / common: opcodes, magic, header lengths, error values
func (c *sxCtx) global(pkg, name string) (term, typ string, ok bool) {
	switch {
	case pkg == "common" && strings.HasPrefix(name, "Err"):
		return "(Some E" + name[3:] + ")", "error", true
	case pkg == "binprot" && strings.HasPrefix(name, "Err"):
		return "(Some EIO)", "error", true // not one of common.Err*
	case pkg == "binprot" && strings.HasPrefix(name, "Opcode"):
		return "op" + name[6:], "u8", true
	case pkg == "binprot" && name == "MagicRequest":
		return "magicRequest", "u8", true
	case pkg == "binprot" && name == "MagicResponse":
		return "magicResponse", "u8", true
	case pkg == "binprot" && name == "ReqHeaderLen":
		return "reqHeaderLen", "lit", true
	}
	if pkg == "binprot" {
		if _, isC := c.consts[name]; isC {
			c.usedC[name] = true
			return name + "_c", "lit", true
		}
	}
	return "", "", false
}

func (c *sxCtx) guard(open string) { c.pre = append(c.pre, open) }

// sliceBounds: b[lo:hi] with b a byte-slice variable
func (c *sxCtx) sliceBounds(e ast.Expr, env *sxEnv) (buf *sxVar, lo, hi string, ok bool) {
	se, isS := e.(*ast.SliceExpr)
	if !isS || se.Slice3 {
		return nil, "", "", false
	}
	id, isId := se.X.(*ast.Ident)
	if !isId {
		return nil, "", "", false
	}
	v := env.lookup(id.Name)
	if v == nil || v.typ != "bytes" {
		return nil, "", "", false
	}
	lo, hi = "0", "(len "+v.coq+")"
	if se.Low != nil {
		t, ty := c.expr(se.Low, env, "int")
		if ty != "int" && ty != "lit" {
			return nil, "", "", false
		}
		lo = t
	}
	if se.High != nil {
		t, ty := c.expr(se.High, env, "int")
		if ty != "int" && ty != "lit" {
			return nil, "", "", false
		}
		hi = t
	}
	return v, lo, hi, true
}

func (c *sxCtx) expr(e ast.Expr, env *sxEnv, want string) (string, string) {
	switch x := e.(type) {
	case *ast.ParenExpr:
		return c.expr(x.X, env, want)
	case *ast.BasicLit:
		if v, ok := sxLit(x); ok {
			return v, "lit"
		}
	case *ast.Ident:
		switch x.Name {
		case "nil":
			if env.lookup("nil") == nil {
				switch want {
				case "error", "ptr:reqhdr", "ptr:rhdr":
					return "None", want
				case "bytes", "lbytes", "lu32", "lbool":
					return "[]", want
				}
				c.fail(x.Pos(), "nil where a value of type %s is wanted", want)
				return "?", "?"
			}
		case "true", "false":
			if env.lookup(x.Name) == nil {
				return x.Name, "bool"
			}
		}
		if v := env.lookup(x.Name); v != nil {
			if sxCoqType(v.typ) == "" || v.typ == "count" {
				c.fail(x.Pos(), "variable %s of type %s used as a value", x.Name, v.typ)
				return "?", "?"
			}
			return v.coq, v.typ
		}
		if t, ty, ok := c.global(c.cur.pkg, x.Name); ok && c.cur.pkg == "binprot" {
			return t, ty
		}
		c.fail(x.Pos(), "unknown identifier %s", x.Name)
		return "?", "?"
	case *ast.SelectorExpr:
		if id, ok := x.X.(*ast.Ident); ok {
			v := env.lookup(id.Name)
			if v == nil {
				if t, ty, ok := c.global(id.Name, x.Sel.Name); ok {
					return t, ty
				}
				c.fail(x.Pos(), "unknown %s.%s", id.Name, x.Sel.Name)
				return "?", "?"
			}
			switch {
			case strings.HasPrefix(v.typ, "struct:"):
				for _, f := range c.structs[v.typ[7:]] {
					if f.name == x.Sel.Name {
						return v.coq + "_" + f.name, f.typ
					}
				}
			case v.typ == "ptr:reqhdr" || v.typ == "ptr:rhdr" || v.typ == "reqhdr" || v.typ == "rhdr":
				kind := strings.TrimPrefix(v.typ, "ptr:")
				short, ft, ok := c.hdrField(kind, x.Sel.Name)
				if !ok || (kind == "rhdr" && !sxRhdrKept[short]) {
					c.fail(x.Pos(), "field %s of %s is not kept by the model's record", x.Sel.Name, kind)
					return "?", "?"
				}
				acc := "qh_"
				if kind == "rhdr" {
					acc = "rh_"
				}
				if strings.HasPrefix(v.typ, "ptr:") {
					c.guard(fmt.Sprintf("m_deref %s (fun %s_v =>", v.coq, v.coq))
					return fmt.Sprintf("(%s%s %s_v)", acc, short, v.coq), ft
				}
				return fmt.Sprintf("(%s%s %s)", acc, short, v.coq), ft
			}
		}
		c.fail(x.Pos(), "selector %s", types.ExprString(x))
		return "?", "?"
	case *ast.StarExpr:
		if id, ok := x.X.(*ast.Ident); ok {
			if v := env.lookup(id.Name); v != nil && strings.HasPrefix(v.typ, "ptr:") {
				c.guard(fmt.Sprintf("m_deref %s (fun %s_v =>", v.coq, v.coq))
				return v.coq + "_v", v.typ[4:]
			}
		}
	case *ast.UnaryExpr:
		switch x.Op {
		case token.AND:
			if id, ok := x.X.(*ast.Ident); ok {
				if v := env.lookup(id.Name); v != nil && (v.typ == "rhdr" || v.typ == "reqhdr") {
					return "(Some " + v.coq + ")", "ptr:" + v.typ
				}
			}
		case token.NOT:
			t, ty := c.expr(x.X, env, "bool")
			if ty == "bool" {
				return "(negb " + t + ")", "bool"
			}
		}
	case *ast.IndexExpr:
		l, lt := c.expr(x.X, env, "")
		i, it := c.expr(x.Index, env, "int")
		if it != "int" && it != "lit" {
			c.fail(x.Pos(), "index of type %s", it)
			return "?", "?"
		}
		el := map[string]string{"bytes": "u8", "lbytes": "bytes", "lu32": "u32", "lbool": "bool"}[lt]
		if el == "" {
			c.fail(x.Pos(), "index into %s", lt)
			return "?", "?"
		}
		c.seq++
		name := fmt.Sprintf("elem_%d", c.seq)
		c.guard(fmt.Sprintf("m_index %s %s (fun %s =>", l, i, name))
		return name, el
	case *ast.CallExpr:
		return c.callExpr(x, env, want)
	case *ast.BinaryExpr:
		return c.binExpr(x, env, want)
	case *ast.CompositeLit:
		if c.goType(x.Type) == "gres" {
			return c.gresLit(x, env)
		}
	}
	c.fail(e.Pos(), "expression %s", types.ExprString(e))
	return "?", "?"
}

// common.GetResponse{...} / common.GetEResponse{...} as the model's gres
func (c *sxCtx) gresLit(x *ast.CompositeLit, env *sxEnv) (string, string) {
	name := x.Type.(*ast.SelectorExpr).Sel.Name
	vals := map[string]string{"Key": "[]", "Data": "[]", "Flags": "0", "Exptime": "0", "Opaque": "0", "Quiet": "false", "Miss": "false"}
	for _, el := range x.Elts {
		kv, ok := el.(*ast.KeyValueExpr)
		if !ok {
			c.fail(el.Pos(), "positional composite literal")
			return "?", "?"
		}
		k, ok := kv.Key.(*ast.Ident)
		var ft string
		if ok {
			for _, f := range c.structs[name] {
				if f.name == k.Name {
					ft = f.typ
				}
			}
		}
		if _, known := vals[k.Name]; !ok || !known || ft == "" {
			c.fail(el.Pos(), "field of %s", name)
			return "?", "?"
		}
		t, ty := c.expr(kv.Value, env, ft)
		if ty == "lit" && sxIsInt(ft) {
			ty = ft
		}
		if ty != ft {
			c.fail(el.Pos(), "field %s: %s where %s is wanted", k.Name, ty, ft)
			return "?", "?"
		}
		vals[k.Name] = t
	}
	return fmt.Sprintf("(mkGR %s %s %s %s %s %s %s)", vals["Key"], vals["Data"], vals["Flags"], vals["Exptime"], vals["Opaque"],
		vals["Quiet"], vals["Miss"]), "gres"
}

func (c *sxCtx) callExpr(x *ast.CallExpr, env *sxEnv, want string) (string, string) {
	if name := types.ExprString(x.Fun); (name == "binary.BigEndian.Uint16" || name == "binary.BigEndian.Uint32") && len(x.Args) == 1 && env.lookup("binary") == nil {
		buf, lo, hi, ok := c.sliceBounds(x.Args[0], env)
		if !ok {
			c.fail(x.Pos(), "%s: the argument is not b[lo:hi] of a byte-slice variable", name)
			return "?", "?"
		}
		w, ty := "16", "u16"
		if strings.HasSuffix(name, "32") {
			w, ty = "32", "u32"
		}
		c.seq++
		v := fmt.Sprintf("word_%d", c.seq)
		c.guard(fmt.Sprintf("sl_rd%s %s %s %s (fun %s =>", w, buf.coq, lo, hi, v))
		return v, ty
	}
	if id, ok := x.Fun.(*ast.Ident); ok && env.lookup(id.Name) == nil && len(x.Args) == 1 {
		switch id.Name {
		case "len":
			t, ty := c.expr(x.Args[0], env, "")
			if ty == "bytes" || ty == "lbytes" || ty == "lu32" || ty == "lbool" {
				return "(len " + t + ")", "int"
			}
		case "uint8", "uint16", "uint32", "uint64", "int":
			to := c.goType(id)
			t, from := c.expr(x.Args[0], env, to)
			if from == "lit" {
				return t, to
			}
			if !sxIsInt(from) {
				break
			}
			rank := map[string]int{"u8": 8, "u16": 16, "u32": 32, "int": 63, "u64": 64}
			if rank[from] <= rank[to] {
				return t, to // widening: the value is unchanged
			}
			switch to {
			case "u8", "u16", "u32":
				return fmt.Sprintf("(to_%s %s)", to, t), to
			case "int":
				// uint64 -> int could wrap
			}
		}
	}
	c.fail(x.Pos(), "call %s in a value position", types.ExprString(x.Fun))
	return "?", "?"
}

func (c *sxCtx) binExpr(x *ast.BinaryExpr, env *sxEnv, want string) (string, string) {
	switch x.Op {
	case token.LAND, token.LOR:
		a, at := c.expr(x.X, env, "bool")
		n := len(c.pre)
		b, bt := c.expr(x.Y, env, "bool")
		if len(c.pre) != n {
			c.fail(x.Pos(), "a check inside the right operand of a short-circuit operator")
		}
		if at == "bool" && bt == "bool" {
			op := "&&"
			if x.Op == token.LOR {
				op = "||"
			}
			return fmt.Sprintf("(%s %s %s)", a, op, b), "bool"
		}
	case token.EQL, token.NEQ:
		neg := func(s string) string {
			if x.Op == token.NEQ {
				return "(negb " + s + ")"
			}
			return s
		}
		// nil comparisons
		if lpIsIdent(x.Y, "nil") && env.lookup("nil") == nil {
			a, at := c.expr(x.X, env, "")
			switch {
			case at == "error":
				return neg("(err_nil " + a + ")"), "bool"
			case strings.HasPrefix(at, "ptr:"):
				return neg("(ptr_nil " + a + ")"), "bool"
			}
			break
		}
		a, at := c.expr(x.X, env, "")
		b, bt := c.expr(x.Y, env, at)
		if at == "error" && bt == "error" && strings.HasPrefix(b, "(Some E") {
			return neg(fmt.Sprintf("(err_is %s %s)", a, strings.TrimSuffix(strings.TrimPrefix(b, "(Some "), ")"))), "bool"
		}
		if (sxIsInt(at) || at == "lit") && (bt == at || bt == "lit" || at == "lit") {
			return neg(fmt.Sprintf("(%s =? %s)", a, b)), "bool"
		}
		if at == "bool" && bt == "bool" {
			return neg(fmt.Sprintf("(Bool.eqb %s %s)", a, b)), "bool"
		}
	case token.LSS, token.LEQ, token.GTR, token.GEQ:
		a, at := c.expr(x.X, env, "")
		b, bt := c.expr(x.Y, env, at)
		// unsigned types and int values that are never negative here: comparison on N
		if (sxIsInt(at) || at == "lit") && (bt == at || bt == "lit" || at == "lit") {
			switch x.Op {
			case token.LSS:
				return fmt.Sprintf("(%s <? %s)", a, b), "bool"
			case token.LEQ:
				return fmt.Sprintf("(%s <=? %s)", a, b), "bool"
			case token.GTR:
				return fmt.Sprintf("(%s <? %s)", b, a), "bool"
			case token.GEQ:
				return fmt.Sprintf("(%s <=? %s)", b, a), "bool"
			}
		}
	case token.ADD, token.SUB:
		a, at := c.expr(x.X, env, want)
		b, bt := c.expr(x.Y, env, at)
		t := at
		if t == "lit" {
			t = bt
		}
		if !(at == t || at == "lit") || !(bt == t || bt == "lit") {
			c.fail(x.Pos(), "operands of types %s and %s", at, bt)
			return "?", "?"
		}
		switch {
		case t == "lit" && x.Op == token.ADD:
			return fmt.Sprintf("(%s + %s)", a, b), "lit"
		case t == "int" && x.Op == token.ADD:
			return fmt.Sprintf("(%s + %s)", a, b), "int" // sums of lengths, uint32s and literals: no wrap (StdSem.v)
		case t == "u32" && x.Op == token.ADD:
			return fmt.Sprintf("(u32_add %s %s)", a, b), "u32"
		case t == "u32" && x.Op == token.SUB:
			return fmt.Sprintf("(u32_sub %s %s)", a, b), "u32"
		}
		c.fail(x.Pos(), "operator %s at type %s", x.Op, t)
		return "?", "?"
	}
	c.fail(x.Pos(), "expression %s", types.ExprString(x))
	return "?", "?"
}

// cond: a condition
func (c *sxCtx) cond(e ast.Expr, env *sxEnv) string {
	t, ty := c.expr(e, env, "bool")
	if ty != "bool" {
		c.fail(e.Pos(), "condition %s", types.ExprString(e))
		return "false"
	}
	return t
}

// value of a wanted type: literals adapt
func (c *sxCtx) valueOf(e ast.Expr, env *sxEnv, want string) (string, bool) {
	t, ty := c.expr(e, env, want)
	if ty == "lit" && sxIsInt(want) {
		ty = want
	}
	if ty != want {
		c.fail(e.Pos(), "%s has type %s where %s is wanted", types.ExprString(e), ty, want)
		return "?", false
	}
	return t, true
}

// args of a call to a translated function: connection and channel arguments are dropped (checked to be
// the connection / a channel of the right kind), request structs are flattened
func (c *sxCtx) callArgs(g *sxFunc, args []ast.Expr, env *sxEnv, pos token.Pos) string {
	if len(args) != len(g.allPar) {
		c.fail(pos, "call of %s with %d arguments", g.key, len(args))
		return ""
	}
	var out []string
	for i, p := range g.allPar {
		switch {
		case p.typ == "conn":
			if !c.isConn(args[i], env) {
				c.fail(args[i].Pos(), "argument %d of %s is not the handler's connection", i+1, g.key)
			}
		case strings.HasPrefix(p.typ, "chan:"):
			id, ok := args[i].(*ast.Ident)
			if v := (*sxVar)(nil); ok {
				v = env.lookup(id.Name)
				if v == nil || v.typ != p.typ {
					ok = false
				}
			}
			if !ok {
				c.fail(args[i].Pos(), "argument %d of %s is not a %s", i+1, g.key, p.typ)
			}
		case strings.HasPrefix(p.typ, "struct:"):
			id, ok := args[i].(*ast.Ident)
			var v *sxVar
			if ok {
				v = env.lookup(id.Name)
			}
			if v == nil || v.typ != p.typ {
				c.fail(args[i].Pos(), "argument %d of %s is not a variable of type %s", i+1, g.key, p.typ)
				continue
			}
			for _, f := range c.structs[p.typ[7:]] {
				out = append(out, v.coq+"_"+f.name)
			}
		default:
			t, _ := c.valueOf(args[i], env, p.typ)
			out = append(out, t)
		}
	}
	s := g.coq + " E"
	if len(out) > 0 {
		s += " " + strings.Join(out, " ")
	}
	return s
}
