package main

import (
	"bytes"
	"fmt"
	"os"
	"os/exec"
	"path/filepath"
	"runtime"
	"strings"
	"sync"
	"sync/atomic"
	"time"

	"verifharness/rig"
	"verifharness/stack"
)

func init() { commands["c11x"] = c11xParent; commands["c11xchild"] = c11x }

// c11xParent runs the whole of c11x in a child process: a fatal runtime error in rend's code
// (concurrent map writes, stack exhaustion, ...) is not a panic and cannot be recovered - it
// takes the process down, which is then an observation (the server process must survive
// malformed input) and not a harness failure.
func c11xParent(e *env) {
	exe, _ := os.Executable()
	cmd := exec.Command(exe, "c11xchild", "-tier", e.tier, "-seed", fmt.Sprint(e.seed), "-out", e.out)
	var stderr bytes.Buffer
	cmd.Stderr = &stderr
	err := cmd.Run()
	rp := filepath.Join(e.out, "result.json")
	crashed := strings.Contains(stderr.String(), "fatal error:") || strings.Contains(stderr.String(), "panic:")
	if _, serr := os.Stat(rp); serr != nil || crashed {
		if !crashed {
			rig.Die("c11x child did not produce a result (%v): %s", err, tailStr(stderr.String(), 3000))
		}
		w := rig.NewWriter(e.out, "C11", e.tier, e.seed)
		w.Res.Cases = []rig.Case{}
		w.Fail(rig.GoFailure{Kind: "counterexample", What: "the server process died while connections were sending malformed input (a fatal runtime error cannot be recovered by the per-connection handler)",
			Input: map[string]interface{}{"cmd": "c11x", "tier": e.tier, "seed": e.seed}, Detail: tailStr(stderr.String(), 3500)})
		w.Add(rig.Case{Desc: map[string]interface{}{"cmd": "c11x", "crashed": true}, Coq: "tt", Nontrivial: true})
		w.Res.Rule = "c11x child process crashed; see the failure"
		if err := w.Finish([]string{"base.Bytes", "base.Harness"}, "unit", "(fun _ => 0%N)"); err != nil {
			rig.Die("%v", err)
		}
	}
}

// c11x: containment ACROSS connections. Well-behaved bystander connections (own keys, requests
// whose headers arrive split over two writes) run while attacker connections send malformed
// input and get closed. Every bystander must see exactly the replies it would see alone.
// Go-side oracle only (the replies of a bystander are determined by its own requests); run once
// with GOMAXPROCS(1) (all connections share one P, so per-P caches such as sync.Pool are shared)
// and once with all processors.
func c11x(e *env) {
	w := rig.NewWriter(e.out, "C11", e.tier, e.seed)
	w.Res.Cases = []rig.Case{}
	thorough := e.tier == "thorough"
	attacks := [][]byte{
		{0x81, 0x00, 0, 0, 0, 0, 0, 0, 0, 0, 0, 0, 0, 0, 0, 0, 0, 0, 0, 0, 0, 0, 0, 0},       // response magic
		{0x80, 0xff, 0, 0, 0, 0, 0, 0, 0, 0, 0, 0, 0, 0, 0, 0, 0, 0, 0, 0, 0, 0, 0, 0},       // unknown opcode
		{0x80, 0x01, 0, 5, 8, 0, 0, 0, 0, 0, 0, 3, 0, 0, 0, 0, 0, 0, 0, 0, 0, 0, 0, 0},       // set: total < extras + key
		{0x80, 0x00, 0xff, 0xff, 0, 0, 0, 0, 0, 0, 0, 1, 0, 0, 0, 0, 0, 0, 0, 0, 0, 0, 0, 0}, // get: key longer than the body
		{0x80, 0x01, 0, 1},                 // truncated header
		[]byte("get \r\n"),                 // text: no key
		[]byte("set k 0 0 notanumber\r\n"), // text: bad length
		append([]byte("get "), append(bytes.Repeat([]byte("k"), 300), '\r', '\n')...),                          // text: key too long
		{0x80, 0x1d, 0, 1, 4, 0, 0, 0, 0, 0, 0, 2, 0, 0, 0, 0, 0, 0, 0, 0, 0, 0, 0, 0, 0, 0},                   // gat: body shorter than extras
		{0x00, 0x00, 0, 0, 0, 0, 0, 0, 0, 0, 0, 0, 0, 0, 0, 0, 0, 0, 0, 0, 0, 0, 0, 0, 0x80, 0x0a, 0, 0, 0, 0}, // zero magic, then a noop
	}
	rounds := 60
	if thorough {
		rounds = 600
	}
	var nAttack, nRound int64
	for _, procs := range []int{1, runtime.NumCPU()} {
		old := runtime.GOMAXPROCS(procs)
		for _, deploy := range []string{"l1only", "l1l2"} {
			b := stack.NewBackends()
			b.L1.LogOn, b.L2.LogOn = false, false
			b.L1.SetNow(t0)
			b.L2.SetNow(t0)
			const nby = 6
			var mu sync.Mutex
			var problems []string
			report := func(s string) {
				mu.Lock()
				if len(problems) < 5 {
					problems = append(problems, s)
				}
				mu.Unlock()
			}
			stop := make(chan struct{})
			var awg sync.WaitGroup
			// attackers: one malformed input per connection, over and over
			for a := 0; a < 3; a++ {
				awg.Add(1)
				go func(a int) {
					defer awg.Done()
					for i := a; ; i++ {
						select {
						case <-stop:
							return
						default:
						}
						atk := attacks[i%len(attacks)]
						proto := "bin"
						if atk[0] >= 'a' && atk[0] <= 'z' {
							proto = "text"
						}
						cn := stack.Dial(b, stack.Config{Orca: deploy, MultiRd: true, L1: "std", Proto: proto})
						raw := cn.Raw()
						raw.Write(atk)
						raw.SetReadDeadline(time.Now().Add(200 * time.Millisecond))
						buf := make([]byte, 4096)
						for {
							if _, err := raw.Read(buf); err != nil {
								break
							}
						}
						raw.Close()
						select {
						case <-cn.Done:
						case <-time.After(15 * time.Second):
							report(fmt.Sprintf("the connection that sent malformed input %x was not ended within 15 s after its client closed", trunc(string(atk), 24)))
						}
						atomic.AddInt64(&nAttack, 1)
					}
				}(a)
			}
			var bwg sync.WaitGroup
			for i := 0; i < nby; i++ {
				bwg.Add(1)
				go func(i int) {
					defer bwg.Done()
					cn := stack.Dial(b, stack.Config{Orca: deploy, MultiRd: true, L1: "std", Proto: "bin"})
					defer cn.Close()
					cn.SplitAt = 6 + 3*i // inside the 24-byte header
					if i%2 == 1 {
						cn.SplitPause = 100 * time.Microsecond
					}
					key := []byte(fmt.Sprintf("bystander-%d", i))
					for r := 0; r < rounds; r++ {
						val := []byte(fmt.Sprintf("value-%d-%d", i, r))
						opq := uint32(i*100000 + r)
						steps := []struct {
							q    stack.Req
							want []byte
						}{
							{stack.Req{Kind: "set", Key: key, Data: val, Flags: uint32(i), Opaque: opq}, binReply(0x01, 0, opq, nil, nil)},
							{stack.Req{Kind: "get", Items: []stack.GItem{{Key: key, Opaque: opq + 1}}}, binReply(0x00, 0, opq+1, []byte{0, 0, 0, byte(i)}, val)},
							{stack.Req{Kind: "delete", Key: key, Opaque: opq + 2}, binReply(0x04, 0, opq+2, nil, nil)},
						}
						for _, st := range steps {
							got, closed, err := cn.Exchange(st.q.EncodeBin(), 10*time.Second)
							if err != nil || closed || !bytes.Equal(got, st.want) {
								report(fmt.Sprintf("bystander %d, round %d, %s: got %x (closed=%v, timeout=%v), alone it gets %x", i, r, st.q.Kind, trunc(string(got), 60), closed, err != nil, trunc(string(st.want), 60)))
								return
							}
						}
						atomic.AddInt64(&nRound, 1)
					}
				}(i)
			}
			bwg.Wait()
			close(stop)
			awg.Wait()
			if len(problems) > 0 {
				w.Fail(rig.GoFailure{Kind: "counterexample", What: "a well-behaved connection was disturbed while other connections sent malformed input: " + problems[0],
					Input: map[string]interface{}{"cmd": "c11x", "gomaxprocs": procs, "deploy": deploy}, Detail: fmt.Sprint(problems)})
			}
			w.Count(fmt.Sprintf("config=%s/gomaxprocs=%d", deploy, procs))
			w.Add(rig.Case{Desc: map[string]interface{}{"cmd": "c11x", "gomaxprocs": procs, "deploy": deploy}, Coq: "tt", Nontrivial: true})
		}
		runtime.GOMAXPROCS(old)
	}
	// storm: every class of malformed input sent by 8 connections at the same instant, over and
	// over (whatever the error paths share - pools, counters, log throttles - is hit concurrently)
	stormIters := 30000
	if thorough {
		stormIters = 300000
	}
	{
		b := stack.NewBackends()
		b.L1.LogOn, b.L2.LogOn = false, false
		noop := []byte{0x80, 0x0a, 0, 0, 0, 0, 0, 0, 0, 0, 0, 0, 0, 0, 0, 0, 0, 0, 0, 0, 0, 0, 0, 0}
		for ai, atk := range attacks {
			var swg sync.WaitGroup
			var stuck int32
			for g := 0; g < 8; g++ {
				swg.Add(1)
				go func(g int) {
					defer swg.Done()
					for i := 0; i < stormIters/len(attacks)+1; i++ {
						proto := "bin"
						msg := atk
						if atk[0] >= 'a' && atk[0] <= 'z' {
							proto = "text"
						} else if atk[0] == 0x80 && g%2 == 0 {
							msg = append(append([]byte{}, noop...), atk...) // a valid request first
							if len(atk) >= 2 && atk[1] == 0xff {
								msg[len(noop)+1] = []byte{0xff, 0x05, 0x08, 0x0c, 0x20}[i%5] // several unknown opcodes
							}
						}
						cn := stack.Dial(b, stack.Config{Orca: "l1only", MultiRd: true, L1: "std", Proto: proto})
						raw := cn.Raw()
						raw.Write(msg)
						go func() { // drain whatever is answered so that the server never blocks on its writes
							buf := make([]byte, 4096)
							for {
								if _, err := raw.Read(buf); err != nil {
									return
								}
							}
						}()
						raw.Close()
						select {
						case <-cn.Done:
						case <-time.After(15 * time.Second):
							atomic.StoreInt32(&stuck, 1)
							return
						}
					}
				}(g)
			}
			swg.Wait()
			if stuck != 0 {
				w.Fail(rig.GoFailure{Kind: "counterexample", What: "a connection that sent malformed input at the same time as seven others was not ended within 15 s after its client closed",
					Input: map[string]interface{}{"cmd": "c11x", "part": "storm", "attack": ai}})
			}
			w.Count("storm-class")
		}
	}
	// flood: ONE connection sends a long run of one recoverable malformed input (the loop answers
	// with an error and goes on), then a valid request. The valid request must be answered, and
	// what the server holds for that connection must not have grown with the length of the run
	// ("never needs more memory than a constant"): live heap + goroutine stacks are compared.
	floodN := 150000
	if thorough {
		floodN = 1200000
	}
	{
		b := stack.NewBackends()
		b.L1.LogOn, b.L2.LogOn = false, false
		// (text only: the binary parser ends the connection at the first unknown opcode, which the
		// property allows)
		floods := []struct {
			name, proto string
			unit        []byte
		}{
			{"blank text lines", "text", []byte("\r\n")},
			{"unknown text commands", "text", []byte("bogus\r\n")},
			{"text get without key", "text", []byte("get\r\n")},
			{"text touch with a bad expiry", "text", []byte("touch k x\r\n")},
		}
		for _, fl := range floods {
			cn := stack.Dial(b, stack.Config{Orca: "l1only", MultiRd: true, L1: "std", Proto: fl.proto})
			raw := cn.Raw()
			final := []byte("version\r\n")
			if fl.proto == "bin" {
				final = []byte{0x80, 0x0a, 0, 0, 0, 0, 0, 0, 0, 0, 0, 0, 0xfe, 0xed, 0xbe, 0xef, 0, 0, 0, 0, 0, 0, 0, 0}
			}
			answered := make(chan bool, 1)
			go func() {
				tail := []byte{}
				buf := make([]byte, 1<<16)
				for {
					n, err := raw.Read(buf)
					tail = append(tail, buf[:n]...)
					if len(tail) > 64 {
						tail = append([]byte(nil), tail[len(tail)-64:]...)
					}
					ok := false
					if fl.proto == "text" {
						ok = bytes.Contains(tail, []byte("VERSION "))
					} else if len(tail) >= 24 {
						t := tail[len(tail)-24:]
						ok = t[0] == 0x81 && t[1] == 0x0a && t[12] == 0xfe && t[13] == 0xed && t[14] == 0xbe && t[15] == 0xef
					}
					if ok {
						answered <- true
						return
					}
					if err != nil {
						answered <- false
						return
					}
				}
			}()
			mem := func() uint64 {
				runtime.GC()
				var ms runtime.MemStats
				runtime.ReadMemStats(&ms)
				return ms.HeapAlloc + ms.StackInuse
			}
			before := mem()
			chunk := bytes.Repeat(fl.unit, 4096)
			go func() {
				for sent := 0; sent < floodN; sent += 4096 {
					if _, err := raw.Write(chunk); err != nil {
						return
					}
				}
				raw.Write(final)
			}()
			in := map[string]interface{}{"cmd": "c11x", "part": "flood", "input": fl.name, "repetitions": floodN}
			select {
			case ok := <-answered:
				after := mem()
				if !ok {
					w.Fail(rig.GoFailure{Kind: "counterexample", What: "the connection was closed during a long run of one recoverable malformed input (" + fl.name + ") instead of being answered", Input: in})
				} else if after > before && after-before > 24<<20 {
					w.Fail(rig.GoFailure{Kind: "counterexample", What: "memory held by the server grew with the number of malformed inputs received on one connection (" + fl.name + ")", Input: in,
						Detail: fmt.Sprintf("live heap + stacks: %d bytes before, %d bytes after %d repetitions", before, after, floodN)})
				}
			case <-time.After(120 * time.Second):
				w.Fail(rig.GoFailure{Kind: "counterexample", What: "a valid request behind a long run of one recoverable malformed input (" + fl.name + ") was not answered within 120 s", Input: in})
			}
			raw.Close()
			w.Count("flood-class")
		}
	}
	w.CountN("attack-connection", int(nAttack))
	w.CountN("bystander-round", int(nRound))
	w.Res.Rule = "6 bystander connections (binary, own keys, every header split over two writes inside the 24 header bytes, set/get/delete rounds with fully determined replies) run while 3 attacker connections send one malformed input each (bad magic, unknown opcode, contradictory lengths, truncated header, bad text lines) and reconnect; with GOMAXPROCS 1 and with all processors, L1-only and L1/L2; a bystander reply that differs from the reply it gets alone, a timeout or a closed bystander connection is a counterexample; then a storm: each class of malformed input sent by 8 connections at once, repeatedly; then a flood: one connection sends 150 000 (thorough 1 200 000) repetitions of one recoverable malformed input (text: blank line, unknown command, get without key, bad expiry) followed by a valid request, which must be answered while live heap + stacks stay within 24 MiB of their size before; the whole run happens in a child process whose death (fatal runtime error) is a counterexample"
	if err := w.Finish([]string{"base.Bytes", "base.Harness"}, "unit", "(fun _ => 0%N)"); err != nil {
		rig.Die("%v", err)
	}
}

// binReply builds the expected binary reply frame.
func binReply(opcode byte, status uint16, opaque uint32, extras, value []byte) []byte {
	h := make([]byte, 24)
	h[0] = 0x81
	h[1] = opcode
	h[4] = byte(len(extras))
	h[6], h[7] = byte(status>>8), byte(status)
	n := len(extras) + len(value)
	h[8], h[9], h[10], h[11] = byte(n>>24), byte(n>>16), byte(n>>8), byte(n)
	h[12], h[13], h[14], h[15] = byte(opaque>>24), byte(opaque>>16), byte(opaque>>8), byte(opaque)
	return append(append(h, extras...), value...)
}
