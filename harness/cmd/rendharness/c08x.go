package main

import (
	"bytes"
	"encoding/binary"
	"fmt"
	"io"
	"time"

	"verifharness/rig"
	"verifharness/stack"
)

func init() { commands["c08x"] = c08x }

// c08x (C08): attribution of replies while OTHER connections are in the middle of a request.
// C08 says that on a connection every non-quiet request gets exactly one reply which echoes the
// request's opaque, in every configuration. The single-connection tiers cannot see state that the
// parsers share between connections (object pools): here several connections first send quiet-get
// batches (getq ... noop / getq ... get, geteq ... noop), then, round after round, connection A
// sends only the first part of a store request (the 24-byte header, or header + extras, or all
// but the last byte), the other connections send complete requests of another shape with other
// opaques and read their replies, and only then A sends the rest. Oracle (Go side, on the reply
// bytes): every connection receives exactly one complete success frame per request, with the
// opcode and the opaque of ITS request, and a final get on every connection returns that
// connection's own value. The interleaving is fixed by the order of the writes of this one
// goroutine (a short pause lets the server consume a partial request).
func c08x(e *env) {
	w := rig.NewWriter(e.out, "C08", e.tier, e.seed)
	w.Res.Cases = []rig.Case{}
	r := rig.NewRand(e.seed)
	rounds := 6
	if e.tier == "thorough" {
		rounds = 40
	}
	type cfgT struct {
		orca   string
		locked bool
	}
	cfgs := []cfgT{{"l1only", false}, {"l1only", true}, {"l1l2", false}, {"l1l2batch", true}}
	for _, cf := range cfgs {
		b := stack.NewBackends()
		b.L1.LogOn, b.L2.LogOn = false, false
		b.L1.SetNow(t0)
		b.L2.SetNow(t0)
		const nconn = 3
		conns := make([]*stack.Conn, nconn)
		for i := range conns {
			conns[i] = stack.Dial(b, stack.Config{Orca: cf.orca, Locked: cf.locked, MultiRd: true, L1: "std", Proto: "bin"})
		}
		fail := func(what string, in map[string]interface{}, detail string) {
			in["cmd"], in["orca"], in["locked"] = "c08x", cf.orca, cf.locked
			w.Fail(rig.GoFailure{Kind: "counterexample", What: what, Input: in, Detail: detail})
		}
		ok := true
		// phase 1: quiet-get batches on every connection
		for i, cn := range conns {
			for n := 0; n < 3 && ok; n++ {
				items := []stack.GItem{}
				for j := 0; j < 2+n; j++ {
					items = append(items, stack.GItem{Key: []byte(fmt.Sprintf("absent-%d-%d", i, j)), Opaque: uint32(1000 + j), Quiet: true})
				}
				kind := []string{"get", "gete"}[n%2]
				q := stack.Req{Kind: kind, Items: items, NoopEnd: true, NoopOpq: uint32(7000 + i)}
				if n == 2 {
					items[len(items)-1].Quiet = false
					q = stack.Req{Kind: kind, Items: items}
				}
				if _, closed, err := cn.Exchange(q.EncodeBin(), 20*time.Second); err != nil || closed {
					fail("a quiet-get batch got no reply (or the connection was closed)", map[string]interface{}{"connection": i, "batch": n}, fmt.Sprint(err))
					ok = false
				}
			}
		}
		// phase 2: split store requests on A while the others are served
		for round := 0; round < rounds && ok; round++ {
			a := round % nconn
			cut := []int{24, 32, -1}[round%3] // header only / header+extras / all but the last byte
			own := make([][]byte, nconn)
			opq := make([]uint32, nconn)
			reqs := make([][]byte, nconn)
			kinds := make([]string, nconn)
			for i := range conns {
				klen := 1 + int(r.Intn(40))
				if i == a {
					klen = 60 + int(r.Intn(100))
				}
				key := []byte(fmt.Sprintf("c%d-r%d-", i, round))
				for len(key) < klen {
					key = append(key, byte('a'+i))
				}
				own[i] = bytes.Repeat([]byte{byte('A' + i)}, 1+int(r.Intn(300))+200*i)
				opq[i] = 0xA0000000 + uint32(i)<<16 + uint32(round)
				kinds[i] = []string{"set", "add", "set"}[(i+round)%3]
				q := stack.Req{Kind: kinds[i], Key: key, Data: own[i], Flags: uint32(i + 1), TTL: 0, Opaque: opq[i]}
				reqs[i] = q.EncodeBin()
			}
			ra := reqs[a]
			c := cut
			if c < 0 || c >= len(ra) {
				c = len(ra) - 1
			}
			if _, err := conns[a].Raw().Write(ra[:c]); err != nil {
				fail("write failed", map[string]interface{}{"round": round}, err.Error())
				ok = false
				break
			}
			time.Sleep(3 * time.Millisecond)
			for i := range conns {
				if i == a {
					continue
				}
				if _, err := conns[i].Raw().Write(reqs[i]); err != nil {
					fail("write failed", map[string]interface{}{"round": round}, err.Error())
					ok = false
				}
			}
			time.Sleep(3 * time.Millisecond)
			if _, err := conns[a].Raw().Write(ra[c:]); err != nil {
				fail("write failed", map[string]interface{}{"round": round}, err.Error())
				ok = false
			}
			for i := range conns {
				if !ok {
					break
				}
				in := map[string]interface{}{"round": round, "connection": i, "split_connection": a, "split_at": c,
					"request": fmt.Sprintf("%x", reqs[i][:24]), "kind": kinds[i]}
				hdr := make([]byte, 24)
				conns[i].Raw().SetReadDeadline(time.Now().Add(15 * time.Second))
				if _, err := io.ReadFull(conns[i].Raw(), hdr); err != nil {
					fail("a store request got no reply while another connection's request was arriving in two pieces", in, err.Error())
					ok = false
					break
				}
				body := int(binary.BigEndian.Uint32(hdr[8:12]))
				if body > 0 && body < 1<<20 {
					io.ReadFull(conns[i].Raw(), make([]byte, body))
				}
				wantOp := reqs[i][1]
				switch {
				case hdr[0] != 0x81:
					fail("reply is not a response frame", in, fmt.Sprintf("% x", hdr))
					ok = false
				case binary.BigEndian.Uint32(hdr[12:16]) != opq[i]:
					fail(fmt.Sprintf("the reply to a %s with opaque %#x carries opaque %#x (another connection's request was being parsed at the same time)",
						kinds[i], opq[i], binary.BigEndian.Uint32(hdr[12:16])), in, fmt.Sprintf("% x", hdr))
					ok = false
				case hdr[1] != wantOp:
					fail(fmt.Sprintf("the reply to opcode %#x carries opcode %#x", wantOp, hdr[1]), in, fmt.Sprintf("% x", hdr))
					ok = false
				case binary.BigEndian.Uint16(hdr[6:8]) != 0:
					fail(fmt.Sprintf("a store of a fresh key was refused with status %#x while another connection's request was being parsed", binary.BigEndian.Uint16(hdr[6:8])), in, fmt.Sprintf("% x", hdr))
					ok = false
				}
			}
			// every connection reads back its own value (in sync, own data)
			for i := range conns {
				if !ok {
					break
				}
				key := reqs[i][32 : 32+int(binary.BigEndian.Uint16(reqs[i][2:4]))]
				g := stack.Req{Kind: "get", Items: []stack.GItem{{Key: key, Opaque: 0x5000 + uint32(i)}}}
				rep, closed, err := conns[i].Exchange(g.EncodeBin(), 20*time.Second)
				in := map[string]interface{}{"round": round, "connection": i, "split_connection": a, "split_at": c, "key": string(key)}
				if err != nil || closed {
					fail("the connection is out of sync or closed after the interleaved store requests", in, fmt.Sprint(err))
					ok = false
				} else if len(rep) < 28 || rep[0] != 0x81 || binary.BigEndian.Uint16(rep[6:8]) != 0 || !bytes.Equal(rep[28:], own[i]) ||
					binary.BigEndian.Uint32(rep[12:16]) != 0x5000+uint32(i) {
					fail("after the interleaved store requests a connection does not read back its own value", in, fmt.Sprintf("reply % x", rep[:min(len(rep), 64)]))
					ok = false
				}
			}
			w.Count("split-rounds")
		}
		for _, cn := range conns {
			cn.Close()
		}
		w.Count("configurations")
	}
	w.Res.Rule = "per configuration (l1only plain/locked, l1l2, l1l2batch locked; binary): 3 connections send quiet-get batches, then in every round one connection's store request arrives in two pieces (cut after the header / after the extras / before the last byte) while the other connections' complete store requests of another shape are parsed and answered; every reply must be one success frame with the opcode and opaque of its own request, and every connection then reads back its own value"
	if err := w.Finish([]string{"base.Bytes", "base.Harness"}, "unit", "(fun _ => 0%N)"); err != nil {
		rig.Die("c08x: %v", err)
	}
}
