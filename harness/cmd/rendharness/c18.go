package main

// c18: the metrics package (counters, latency histograms, bucket function, lzcnt) against the
// Gallina models coq/metrics/{Bucket,Lzcnt,Hist,Counter}.v, evaluated by coq/checks/Check18.v.
//
//   values      getBucket / assembly lzcnt (hooks) and the PORTABLE lzcnt at every bucket bound +-1,
//               every power of two +-1, small values, random 64-bit values (10^4 quick / 10^6
//               thorough). The portable routine is not part of amd64 builds: /repo/metrics/lzcnt.go
//               is copied at run time into <out>/portable (build constraint line removed, package
//               renamed), compiled with a 15-line main and fed the same values.
//   histograms  consecutive reporting periods on one histogram, one goroutine: observation lists
//               (1 .. 2*buflen+5 values, 100k+ in thorough; few distinct values so duplicates occur;
//               magnitudes up to 2^64-1; ramps 0..n-1 that make the 99.9th-percentile index
//               visible), sampled and unsampled, each period ended either through VerifExtractHist
//               or through the real /metrics handler (http.DefaultServeMux, no socket) whose text
//               is parsed. Bucket counter increments are recorded too.
//   concurrent  2..8 goroutines observing one histogram / adding to one counter while a reader ends
//               periods (hook or /metrics). With extra argument "race" (a -race build) only this part
//               runs, in a child process (sub-command c18child) whose race reports are findings.
//   replay=<f>  JSON desc of one case: run just that.

import (
	"bufio"
	"bytes"
	"encoding/json"
	"fmt"
	"net/http"
	"net/http/httptest"
	"os"
	"os/exec"
	"path/filepath"
	"regexp"
	"runtime"
	"sort"
	"strconv"
	"strings"
	"sync"
	"sync/atomic"

	"github.com/netflix/rend/metrics"
	"verifharness/gal"
	"verifharness/rig"
)

func init() {
	commands["c18"] = c18
	commands["c18child"] = c18child
}

const c18Buflen = uint64(metrics.VerifBuflen)

func c18Repo() string {
	if r := os.Getenv("VERIF_REPO"); r != "" {
		return r
	}
	return "/repo"
}

// ---------------------------------------------------------------- observation specs

// obsSpec is a compact description of an observation list; Check18.v expands it identically.
type obsSpec struct {
	Kind  string    `json:"kind"` // lit rep ramp gen cat
	L     []uint64  `json:"l,omitempty"`
	V     uint64    `json:"v,omitempty"`
	Start uint64    `json:"start,omitempty"`
	N     uint64    `json:"n,omitempty"`
	Seed  uint64    `json:"seed,omitempty"`
	Vals  []uint64  `json:"vals,omitempty"`
	Parts []obsSpec `json:"parts,omitempty"`
}

func lit(l ...uint64) obsSpec { return obsSpec{Kind: "lit", L: l} }
func rep(v, n uint64) obsSpec { return obsSpec{Kind: "rep", V: v, N: n} }
func ramp(start, n uint64) obsSpec {
	return obsSpec{Kind: "ramp", Start: start, N: n}
}
func gen(seed, n uint64, vals []uint64) obsSpec {
	return obsSpec{Kind: "gen", Seed: seed & 0xFFFFFFFF, N: n, Vals: vals}
}

func (s obsSpec) expand() []uint64 {
	switch s.Kind {
	case "lit":
		return append([]uint64(nil), s.L...)
	case "rep":
		r := make([]uint64, s.N)
		for i := range r {
			r[i] = s.V
		}
		return r
	case "ramp":
		r := make([]uint64, s.N)
		for i := range r {
			r[i] = s.Start + uint64(i)
		}
		return r
	case "gen":
		r := make([]uint64, s.N)
		x := s.Seed
		for i := range r {
			x = (x*1664525 + 1013904223) & 0xFFFFFFFF
			r[i] = s.Vals[(x>>16)%uint64(len(s.Vals))]
		}
		return r
	case "cat":
		var r []uint64
		for _, p := range s.Parts {
			r = append(r, p.expand()...)
		}
		return r
	}
	rig.Die("c18: unknown observation spec kind %q", s.Kind)
	return nil
}

func (s obsSpec) coq() string {
	switch s.Kind {
	case "lit":
		return gal.App("OLit", gal.Ns(s.L))
	case "rep":
		return gal.App("ORep", gal.N(s.V), gal.N(s.N))
	case "ramp":
		return gal.App("ORamp", gal.N(s.Start), gal.N(s.N))
	case "gen":
		return gal.App("OGen", gal.N(s.Seed), gal.N(s.N), gal.Ns(s.Vals))
	case "cat":
		if len(s.Parts) == 0 {
			return "(OLit [])"
		}
		r := s.Parts[len(s.Parts)-1].coq()
		for i := len(s.Parts) - 2; i >= 0; i-- {
			r = gal.App("OCat", s.Parts[i].coq(), r)
		}
		return r
	}
	return "(OLit [])"
}

func (s obsSpec) size() uint64 {
	switch s.Kind {
	case "lit":
		return uint64(len(s.L))
	case "cat":
		var n uint64
		for _, p := range s.Parts {
			n += p.size()
		}
		return n
	}
	return s.N
}

func distinct(vs []uint64) int {
	m := map[uint64]bool{}
	for _, v := range vs {
		m[v] = true
		if len(m) > 64 {
			break
		}
	}
	return len(m)
}

// ---------------------------------------------------------------- /metrics text

type mline struct {
	tags map[string]string
	val  string
}

// fetchMetrics calls the handler that package metrics registered for /metrics (no socket) and
// returns its lines grouped by metric name. A panic of the handler is returned as an error.
func fetchMetrics() (res map[string][]mline, err error) {
	defer func() {
		if p := recover(); p != nil {
			err = fmt.Errorf("/metrics handler panicked: %v", p)
		}
	}()
	rec := httptest.NewRecorder()
	req := httptest.NewRequest("GET", "/metrics", nil)
	http.DefaultServeMux.ServeHTTP(rec, req)
	if rec.Code != 200 {
		return nil, fmt.Errorf("/metrics returned status %d", rec.Code)
	}
	res = map[string][]mline{}
	sc := bufio.NewScanner(rec.Body)
	sc.Buffer(make([]byte, 1<<20), 1<<24)
	for sc.Scan() {
		ln := sc.Text()
		sp := strings.LastIndexByte(ln, ' ')
		if sp < 0 {
			continue
		}
		parts := strings.Split(ln[:sp], "|")
		m := mline{tags: map[string]string{}, val: ln[sp+1:]}
		for _, kv := range parts[1:] {
			if i := strings.IndexByte(kv, '*'); i >= 0 {
				m.tags[kv[:i]] = kv[i+1:]
			}
		}
		res[parts[0]] = append(res[parts[0]], m)
	}
	return res, nil
}

// ---------------------------------------------------------------- histograms

type obsRep struct {
	Count   uint64      `json:"count"`
	Kept    uint64      `json:"kept"`
	Total   uint64      `json:"total"`
	Min     uint64      `json:"min"`
	Max     uint64      `json:"max"`
	Printed bool        `json:"printed"`
	Pctls   []uint64    `json:"pctls"`
	Buckets [][2]uint64 `json:"bucket_increments"`
}

func (o obsRep) coq() string {
	bk := make([]string, len(o.Buckets))
	for i, b := range o.Buckets {
		bk[i] = gal.Pair(gal.N(b[0]), gal.N(b[1]))
	}
	return gal.App("Ob", gal.N(o.Count), gal.N(o.Kept), gal.N(o.Total), gal.N(o.Min), gal.N(o.Max),
		gal.Bool(o.Printed), gal.Ns(o.Pctls), gal.List(bk))
}

type c18Hist struct {
	id      uint32
	name    string
	sampled bool
	prevB   []uint64
}

var c18HistN int32

func c18NewHist(sampled bool) *c18Hist {
	n := atomic.AddInt32(&c18HistN, 1)
	name := fmt.Sprintf("verifc18h%d", n)
	h := &c18Hist{id: metrics.AddHistogram(name, sampled, nil), name: name, sampled: sampled}
	h.prevB = metrics.VerifBucketCounts(h.id)
	return h
}

func bucketDelta(prev, cur []uint64) [][2]uint64 {
	var r [][2]uint64
	for i := range cur {
		if d := cur[i] - prev[i]; d != 0 {
			r = append(r, [2]uint64{uint64(i), d})
		}
	}
	return r
}

var pctlIndex = func() map[string]int {
	m := map[string]int{"percentile99": 21, "percentile99.9": 22}
	for i := 0; i <= 20; i++ {
		m[fmt.Sprintf("percentile%d", i*5)] = i
	}
	return m
}()

// endPeriod ends the current reporting period of h and returns what was reported.
func (h *c18Hist) endPeriod(viaHTTP bool) (obsRep, error) {
	if !viaHTTP {
		r := metrics.VerifExtractHist(h.id)
		cur := metrics.VerifBucketCounts(h.id)
		o := obsRep{Count: r.Count, Kept: r.Kept, Total: r.Total, Min: r.Min, Max: r.Max,
			Printed: r.Count != 0, Pctls: append([]uint64(nil), r.Pctls[:]...), Buckets: bucketDelta(h.prevB, cur)}
		h.prevB = cur
		return o, nil
	}
	all, err := fetchMetrics()
	if err != nil {
		return obsRep{}, err
	}
	o := obsRep{}
	pct := make([]uint64, 23)
	seen := 0
	for _, l := range all["hist_"+h.name] {
		st := l.tags["statistic"]
		if st == "average" {
			continue
		}
		v, perr := strconv.ParseUint(l.val, 10, 64)
		if perr != nil {
			return o, badCounterValue{name: "hist_" + h.name + " statistic " + st, val: l.val}
		}
		switch {
		case st == "count":
			o.Count = v
		case st == "kept":
			o.Kept = v
		default:
			i, ok := pctlIndex[st]
			if !ok {
				return o, fmt.Errorf("unknown statistic %q for %s", st, h.name)
			}
			pct[i] = v
			seen++
		}
	}
	if seen != 0 && seen != 23 {
		return o, fmt.Errorf("%d percentile lines for %s (expected 0 or 23)", seen, h.name)
	}
	if seen == 23 {
		o.Printed = true
		o.Pctls = pct
		o.Min, o.Max = pct[0], pct[20]
	} else {
		o.Pctls = []uint64{}
	}
	cur := make([]uint64, len(h.prevB))
	for _, l := range all["bhist_"+h.name] {
		t := l.tags["percentile"]
		if len(t) != 5 || t[0] != 'T' {
			return o, fmt.Errorf("bucket tag %q", t)
		}
		i, e1 := strconv.ParseUint(t[1:], 16, 32)
		v, e2 := strconv.ParseUint(l.val, 10, 64)
		if e1 == nil && e2 != nil {
			return o, badCounterValue{name: "bhist_" + h.name + " bucket " + t, val: l.val}
		}
		if e1 != nil || e2 != nil || int(i) >= len(cur) {
			return o, fmt.Errorf("bucket line %q %q", t, l.val)
		}
		cur[i] = v
	}
	o.Buckets = bucketDelta(h.prevB, cur)
	h.prevB = cur
	return o, nil
}

// ---- the property on one period, decided on the Go side as well, so that each class of
// histogram violation gets a replay file of its own (the smallest failing case of the class)

type c18Viol struct {
	class string
	size  int
	fail  rig.GoFailure
}

var c18Viols []c18Viol

func histOracle(viaHTTP bool, obs []uint64, o obsRep) (class, detail string) {
	if o.Count != uint64(len(obs)) {
		return "count", fmt.Sprintf("reported count %d, the period had %d observations", o.Count, len(obs))
	}
	var bs uint64
	for _, b := range o.Buckets {
		bs += b[1]
	}
	if bs != uint64(len(obs)) {
		return "bucket count", fmt.Sprintf("bucket counters grew by %d in total, the period had %d observations", bs, len(obs))
	}
	shown := o.Kept != 0
	if viaHTTP {
		shown = o.Printed
	}
	if !shown {
		return "", ""
	}
	if o.Kept == 0 {
		return "percentiles printed although nothing was kept", fmt.Sprintf("/metrics printed 23 percentile lines %v for a period in which the sampled histogram kept none of its %d observations %v", o.Pctls, len(obs), clip(obs))
	}
	in := map[uint64]bool{}
	for _, v := range obs {
		in[v] = true
	}
	names := []string{}
	for i := 0; i <= 20; i++ {
		names = append(names, fmt.Sprintf("percentile%d", i*5))
	}
	names = append(names, "percentile99", "percentile99.9")
	if len(o.Pctls) != 23 {
		return "percentile", fmt.Sprintf("%d percentile values", len(o.Pctls))
	}
	mn, mx := o.Pctls[0], o.Pctls[20]
	for i, p := range o.Pctls {
		if !in[p] {
			return "percentile", fmt.Sprintf("%s = %d is not one of the period's %d observations %v", names[i], p, len(obs), clip(obs))
		}
		if p < mn || p > mx {
			return "percentile", fmt.Sprintf("%s = %d is outside [min %d, max %d]", names[i], p, mn, mx)
		}
	}
	for _, v := range obs {
		if v < mn || v > mx {
			return "percentile", fmt.Sprintf("observation %d is outside the reported [min %d, max %d]", v, mn, mx)
		}
	}
	return "", ""
}

func clip(vs []uint64) string {
	if len(vs) <= 12 {
		return fmt.Sprint(vs)
	}
	return fmt.Sprint(vs[:12]) + "..."
}

func c18FlushViols(w *rig.Writer) {
	best := map[string]c18Viol{}
	var order []string
	for _, v := range c18Viols {
		b, ok := best[v.class]
		if !ok {
			order = append(order, v.class)
		}
		if !ok || v.size < b.size {
			best[v.class] = v
		}
	}
	for _, c := range order {
		w.Fail(best[c].fail)
	}
	c18Viols = nil
}

type c18HistDesc struct {
	Kind     string    `json:"kind"` // "hist"
	Sampled  bool      `json:"sampled"`
	HTTP     bool      `json:"http"`
	Periods  []obsSpec `json:"periods"`
	Observed []obsRep  `json:"observed,omitempty"`
}

// runHist runs consecutive periods on a histogram (a new one when fresh) with one goroutine.
func runHist(w *rig.Writer, pool *histPool, d c18HistDesc) (rig.Case, bool) {
	h, fresh := pool.get(d.Sampled)
	var items []string
	nontrivial := false
	wraps := false
	nothingKept := false
	violClass, violDetail := "", ""
	d.Observed = nil
	for _, sp := range d.Periods {
		obs := sp.expand()
		for _, v := range obs {
			metrics.ObserveHist(h.id, v)
		}
		o, err := h.endPeriod(d.HTTP)
		if err != nil {
			counterReadFailure(w, d, err)
			return rig.Case{}, false
		}
		d.Observed = append(d.Observed, o)
		items = append(items, gal.Pair(sp.coq(), o.coq()))
		if class, detail := histOracle(d.HTTP, obs, o); class != "" && violClass == "" {
			violClass, violDetail = class, fmt.Sprintf("period %d: %s", len(d.Observed), detail)
		}
		if distinct(obs) > 1 {
			nontrivial = true
		}
		kept := uint64(len(obs))
		if d.Sampled {
			kept /= 4
		}
		if kept > c18Buflen {
			wraps = true
		}
		w.Count("hist period size=" + sizeClass(uint64(len(obs))))
		if d.Sampled && kept == 0 && len(obs) > 0 {
			w.Count("hist period sampled, nothing kept")
			nothingKept = true
		}
	}
	mode := "hook"
	if d.HTTP {
		mode = "http"
	}
	w.Count(fmt.Sprintf("hist case sampled=%v via=%s", d.Sampled, mode))
	if wraps {
		w.Count("hist case wraps the ring")
	}
	var tags []string
	if nothingKept && d.HTTP {
		tags = []string{"C18 sampled histogram period with 1-3 observations read from /metrics"}
	}
	if violClass != "" {
		db, _ := json.Marshal(d)
		c18Viols = append(c18Viols, c18Viol{class: violClass, size: len(db), fail: rig.GoFailure{Kind: "counterexample",
			What: "histogram report violates C18 (" + violClass + "): " + violDetail, Input: d, Detail: violDetail, Tags: tags}})
	}
	return rig.Case{Desc: d, Coq: gal.App("CHist", gal.Bool(d.Sampled), gal.Bool(d.HTTP), gal.Bool(fresh), gal.List(items)),
		Nontrivial: nontrivial, Tags: tags}, true
}

// histPool hands out histograms: new ones while the budget lasts (the package allows 1024 per
// process and each costs 512 KiB), then the last one of each mode again.
type histPool struct {
	budget int
	last   map[bool]*c18Hist
}

func (p *histPool) get(sampled bool) (*c18Hist, bool) {
	if p.budget > 0 || p.last[sampled] == nil {
		p.budget--
		h := c18NewHist(sampled)
		p.last[sampled] = h
		return h, true
	}
	return p.last[sampled], false
}

func sizeClass(n uint64) string {
	switch {
	case n == 0:
		return "0"
	case n < 4:
		return "1-3"
	case n <= 20:
		return "4-20"
	case n <= 1000:
		return "21-1000"
	case n <= c18Buflen:
		return "1001-buflen"
	case n <= c18Buflen+2:
		return "buflen+1..buflen+2"
	case n <= 4*(c18Buflen+1):
		return "up to 4*(buflen+1)"
	}
	return "more than 4*(buflen+1)"
}

var c18ValueSets = [][]uint64{
	{100},
	{1, 5, 100, 77, 3},
	{0, 1, 15, 16, 17},
	{7, 7, 7, 9},
	{1000, 1000000, 1000000000, 1 << 32, 1 << 40},
	{1 << 62, 1<<63 - 1, 1 << 63, 1<<64 - 1, 12345},
	{250, 251, 252, 253, 254, 255, 256, 257, 258, 259, 260, 261, 262, 263, 264, 265, 266},
	{9000000000000000000, 5, 100, 3},
}

func histCases(e *env, r *rig.Rand) []c18HistDesc {
	var ds []c18HistDesc
	B := c18Buflen
	vs := func() []uint64 { return c18ValueSets[r.Intn(len(c18ValueSets))] }
	g := func(n uint64) obsSpec { return gen(r.U64(), n, vs()) }
	add := func(sampled, viaHTTP bool, ps ...obsSpec) {
		ds = append(ds, c18HistDesc{Kind: "hist", Sampled: sampled, HTTP: viaHTTP, Periods: ps})
	}
	for _, sampled := range []bool{false, true} {
		for _, viaHTTP := range []bool{false, true} {
			// the smallest cases first: these are the ones a replay file will show
			add(sampled, viaHTTP, lit(100))
			add(sampled, viaHTTP, lit(1, 2, 3, 1000))
			add(sampled, viaHTTP, lit(100), lit(), lit(500, 600, 700), lit(8, 9))
			add(sampled, viaHTTP, lit(5, 6, 7, 8, 9, 10, 11, 12), lit(1), lit(500, 600, 700, 800, 900))
			for _, n := range []uint64{1, 2, 3, 4, 5, 7, 8, 9, 20, 100, 1000} {
				add(sampled, viaHTTP, g(n), g(n/2+1), g(n+3))
			}
			// around the ring size (in kept observations)
			mul := uint64(1)
			if sampled {
				mul = 4
			}
			add(sampled, viaHTTP, g(mul*B), g(5))
			add(sampled, viaHTTP, g(mul*(B+1)), lit(3), g(7))
			if !sampled || e.tier == "thorough" {
				add(sampled, viaHTTP, g(mul*(B+2)), g(mul*(B+1)+1))
				add(sampled, viaHTTP, g(mul*(2*B+5)), g(100))
			}
			// a wrapped period full of one value, then short periods on the same buffers
			add(sampled, viaHTTP, rep(9, mul*(B+1)), lit(1), lit(500, 600, 700), lit(4), lit(41, 42, 43, 44, 45, 46, 47, 48))
		}
	}
	// ramps 0..n-1: the reported percentile IS the index that was read, so the arithmetic
	// len*i/20, len*99/100 and floor(float64(len)*99.9/100.0) is visible for this len
	var lens []uint64
	for n := uint64(1); n <= 40; n++ {
		lens = append(lens, n)
	}
	lens = append(lens, 99, 100, 101, 199, 200, 999, 1000, 1001, 1999, 2000, 2001, 3000, 7000, 10000, 20000, 32000, B, B+1)
	if e.tier == "thorough" {
		for n := uint64(1000); n <= B; n += 1000 {
			lens = append(lens, n, n+1)
		}
		for i := 0; i < 40; i++ {
			lens = append(lens, 1+uint64(r.Intn(int(B+1))))
		}
	}
	for i, n := range lens {
		add(false, i%2 == 1, ramp(1000, n))
	}
	if e.tier == "thorough" {
		for i := 0; i < 150; i++ {
			n := uint64(r.Intn(3000))
			switch r.Intn(6) {
			case 0:
				n = uint64(r.Intn(100000))
			case 1:
				n = B - 2 + uint64(r.Intn(6))
			}
			sampled := r.Bool()
			np := 1 + r.Intn(3)
			var ps []obsSpec
			for j := 0; j < np; j++ {
				if j == 0 {
					ps = append(ps, g(n))
				} else {
					ps = append(ps, g(uint64(r.Intn(50))))
				}
			}
			add(sampled, r.Bool(), ps...)
		}
		add(false, false, g(100000), g(100000))
		add(true, true, g(150000), g(11))
	}
	return ds
}

// ---------------------------------------------------------------- values

type c18ValDesc struct {
	Kind string `json:"kind"` // "val" | "mono"
	X    uint64 `json:"x"`
	M    uint64 `json:"m,omitempty"`
	// observed
	Bucket   uint64 `json:"bucket"`
	BucketM  uint64 `json:"bucket_m,omitempty"`
	LzAsm    uint64 `json:"lzcnt_linked"`
	LzPort   uint64 `json:"lzcnt_portable"`
	LzPortOK bool   `json:"-"`
}

const portableMain = `package main

import (
	"bufio"
	"fmt"
	"os"
	"strconv"
)

func main() {
	sc := bufio.NewScanner(os.Stdin)
	w := bufio.NewWriter(os.Stdout)
	defer w.Flush()
	for sc.Scan() {
		x, err := strconv.ParseUint(sc.Text(), 10, 64)
		if err != nil {
			fmt.Fprintln(os.Stderr, err)
			os.Exit(1)
		}
		fmt.Fprintln(w, lzcnt(x))
	}
}
`

// portableLzcnt compiles /repo/metrics/lzcnt.go (the !amd64 implementation) as a program of its
// own and runs it on xs.
func portableLzcnt(out string, xs []uint64) ([]uint64, error) {
	if a, aerr := filepath.Abs(out); aerr == nil {
		out = a
	}
	dir := filepath.Join(out, "portable")
	if err := os.MkdirAll(dir, 0o755); err != nil {
		return nil, err
	}
	src, err := os.ReadFile(filepath.Join(c18Repo(), "metrics", "lzcnt.go"))
	if err != nil {
		return nil, err
	}
	var sb strings.Builder
	pkgSeen := false
	for _, ln := range strings.Split(string(src), "\n") {
		t := strings.TrimSpace(ln)
		if strings.HasPrefix(t, "// +build") || strings.HasPrefix(t, "//+build") || strings.HasPrefix(t, "//go:build") {
			continue
		}
		if !pkgSeen && strings.HasPrefix(t, "package ") {
			sb.WriteString("package main\n")
			pkgSeen = true
			continue
		}
		sb.WriteString(ln + "\n")
	}
	if !pkgSeen || !strings.Contains(sb.String(), "func lzcnt(") {
		return nil, fmt.Errorf("metrics/lzcnt.go no longer defines func lzcnt in a package clause this harness understands")
	}
	files := map[string]string{"lzcnt.go": sb.String(), "main.go": portableMain, "go.mod": "module portable\n\ngo 1.14\n"}
	for n, c := range files {
		if err := os.WriteFile(filepath.Join(dir, n), []byte(c), 0o644); err != nil {
			return nil, err
		}
	}
	bin := filepath.Join(dir, "portable")
	cmd := exec.Command("go", "build", "-o", bin, ".")
	cmd.Dir = dir
	cmd.Env = append(os.Environ(), "GOFLAGS=-mod=mod", "GOPROXY=off", "GOSUMDB=off", "GOTOOLCHAIN=local", "CGO_ENABLED=0")
	if o, err := cmd.CombinedOutput(); err != nil {
		return nil, fmt.Errorf("building the portable lzcnt failed: %v\n%s", err, o)
	}
	var in bytes.Buffer
	for _, x := range xs {
		fmt.Fprintln(&in, x)
	}
	run := exec.Command(bin)
	run.Stdin = &in
	o, err := run.Output()
	if err != nil {
		return nil, fmt.Errorf("running the portable lzcnt failed: %v", err)
	}
	fs := strings.Fields(string(o))
	if len(fs) != len(xs) {
		return nil, fmt.Errorf("portable lzcnt printed %d values for %d inputs", len(fs), len(xs))
	}
	res := make([]uint64, len(xs))
	for i, f := range fs {
		if res[i], err = strconv.ParseUint(f, 10, 64); err != nil {
			return nil, err
		}
	}
	return res, nil
}

func bitsClass(x uint64) string {
	b := 0
	for y := x; y != 0; y >>= 1 {
		b++
	}
	switch {
	case b <= 4:
		return "value bits 0-4"
	case b <= 16:
		return "value bits 5-16"
	case b <= 32:
		return "value bits 17-32"
	case b <= 48:
		return "value bits 33-48"
	case b <= 63:
		return "value bits 49-63"
	}
	return "value bits 64"
}

// valueInputs: the values examined one per case, and (thorough) more random ones examined in batches
func valueInputs(e *env, r *rig.Rand) ([]uint64, []uint64) {
	set := map[uint64]bool{}
	add := func(x uint64) { set[x] = true }
	for x := uint64(0); x <= 40; x++ {
		add(x)
	}
	for _, v := range metrics.VerifBucketValues() {
		add(uint64(v) - 1)
		add(uint64(v))
		add(uint64(v) + 1)
	}
	for k := uint(0); k < 64; k++ {
		add(uint64(1)<<k - 1)
		add(uint64(1) << k)
		add(uint64(1)<<k + 1)
	}
	add(1<<64 - 1)
	add(1<<64 - 2)
	rnd := func() uint64 {
		x := r.U64()
		if r.Bool() { // uniform in magnitude
			x >>= uint(r.Intn(64))
		}
		return x
	}
	for i := 0; i < 10000; i++ {
		add(rnd())
	}
	xs := make([]uint64, 0, len(set))
	for x := range set {
		xs = append(xs, x)
	}
	sort.Slice(xs, func(i, j int) bool { return xs[i] < xs[j] })
	var more []uint64
	if e.tier == "thorough" {
		more = make([]uint64, 990000)
		for i := range more {
			more[i] = rnd()
		}
		sort.Slice(more, func(i, j int) bool { return more[i] < more[j] })
	}
	return xs, more
}

func valCase(w *rig.Writer, x, lzp uint64) rig.Case {
	d := c18ValDesc{Kind: "val", X: x, Bucket: metrics.VerifGetBucket(x), LzAsm: metrics.VerifLzcnt(x), LzPort: lzp}
	w.Count(bitsClass(x))
	var tags []string
	if x == 0 {
		tags = []string{"C18 lzcnt at 0"}
	}
	return rig.Case{Desc: d, Coq: gal.App("CVal", gal.N(x), gal.N(d.Bucket), gal.N(d.LzAsm), gal.N(d.LzPort)), Nontrivial: x > 15, Tags: tags}
}

type c18BatchDesc struct {
	Kind string   `json:"kind"` // "batch"
	Xs   []uint64 `json:"xs"`   // increasing
}

// batchCase: many values in one case (thorough tier): every value as in a "val" case, every
// adjacent pair as in a "mono" case.
func batchCase(w *rig.Writer, xs, lzp []uint64) rig.Case {
	items := make([]string, 0, 5*len(xs))
	for i, x := range xs {
		items = append(items, gal.N(x>>32), gal.N(x&0xFFFFFFFF), gal.N(metrics.VerifGetBucket(x)), gal.N(metrics.VerifLzcnt(x)), gal.N(lzp[i]))
		w.Count(bitsClass(x))
	}
	return rig.Case{Desc: c18BatchDesc{Kind: "batch", Xs: xs}, Coq: "(CBatch " + gal.List(items) + "%uint63)", Nontrivial: true}
}

func monoCase(w *rig.Writer, n, m uint64) rig.Case {
	d := c18ValDesc{Kind: "mono", X: n, M: m, Bucket: metrics.VerifGetBucket(n), BucketM: metrics.VerifGetBucket(m)}
	if d.Bucket == d.BucketM {
		w.Count("mono pair same bucket")
	} else {
		w.Count("mono pair across buckets")
	}
	return rig.Case{Desc: d, Coq: gal.App("CMono", gal.N(n), gal.N(d.Bucket), gal.N(m), gal.N(d.BucketM)), Nontrivial: m > 15 && n != m}
}

// ---------------------------------------------------------------- counters

type c18CounterDesc struct {
	Kind    string     `json:"kind"` // "counter"
	Adds    [][]uint64 `json:"adds"` // per goroutine; amount 1 uses IncCounter
	Reader  bool       `json:"reader"`
	Before  uint64     `json:"before"`
	After   uint64     `json:"after"`
	Counter string     `json:"-"`
}

var c18CounterN int32

func readCounter(name string) (uint64, error) {
	all, err := fetchMetrics()
	if err != nil {
		return 0, err
	}
	ls := all[name]
	if len(ls) != 1 {
		return 0, fmt.Errorf("%d lines for counter %s in /metrics", len(ls), name)
	}
	v, perr := strconv.ParseUint(ls[0].val, 10, 64)
	if perr != nil {
		return 0, badCounterValue{name: name, val: ls[0].val}
	}
	return v, nil
}

// badCounterValue: /metrics printed something for a counter that is not the decimal form of a
// uint64 - the value shown is then not the counter's value whatever the counter holds
type badCounterValue struct{ name, val string }

func (b badCounterValue) Error() string {
	return fmt.Sprintf("counter %s is printed as %q, which is not an unsigned 64-bit decimal number", b.name, b.val)
}

// counterReadFailure: an unreadable endpoint is a broken correspondence, a wrongly printed value
// is a counterexample (the counter's value is not what /metrics shows)
func counterReadFailure(w *rig.Writer, in interface{}, err error) {
	if b, ok := err.(badCounterValue); ok {
		w.Fail(rig.GoFailure{Kind: "counterexample", What: "/metrics shows a counter or histogram statistic with a value that is not its value (not an unsigned decimal number)", Input: in, Detail: b.Error()})
		return
	}
	w.Fail(rig.GoFailure{Kind: "broken-correspondence", What: "a counter registered by the harness cannot be read back from /metrics", Input: in, Detail: err.Error()})
}

// runCounterFamily: several counters registered under ONE name and told apart by a tag (as the
// batching pool's batch_connect{attempt=...} family is): each series must report exactly the
// increments applied to it.
func runCounterFamily(w *rig.Writer) {
	name := fmt.Sprintf("verifc18fam%d", atomic.AddInt32(&c18CounterN, 1))
	vals := []string{"0", "1", "2", "high"}
	ids := make([]uint32, len(vals))
	want := make([]uint64, len(vals))
	for i, v := range vals {
		ids[i] = metrics.AddCounter(name, metrics.Tags{"attempt": v})
		want[i] = uint64(7*i + 3)
	}
	plain := metrics.AddCounter(name+"plain", nil)
	var wg sync.WaitGroup
	for i := range ids {
		wg.Add(1)
		go func(i int) {
			defer wg.Done()
			for k := uint64(0); k < want[i]; k++ {
				metrics.IncCounter(ids[i])
			}
		}(i)
	}
	metrics.IncCounterBy(plain, 5)
	wg.Wait()
	in := map[string]interface{}{"kind": "counter-family", "name": name, "tag": "attempt", "values": vals, "increments": want}
	all, err := fetchMetrics()
	if err != nil {
		counterReadFailure(w, in, err)
		return
	}
	for i, v := range vals {
		found := false
		for _, ln := range all[name] {
			if ln.tags["attempt"] != v {
				continue
			}
			found = true
			if got, perr := strconv.ParseUint(ln.val, 10, 64); perr != nil || got != want[i] {
				w.Fail(rig.GoFailure{Kind: "counterexample", What: "a counter's reported value is not the number of increments applied to it (counters sharing a name, told apart by a tag)", Input: in,
					Detail: fmt.Sprintf("series %s{attempt=%s}: %d increments applied, /metrics shows %q", name, v, want[i], ln.val)})
			}
		}
		if !found {
			w.Fail(rig.GoFailure{Kind: "counterexample", What: "a counter that was incremented is not reported by /metrics (counters sharing a name, told apart by a tag)", Input: in,
				Detail: fmt.Sprintf("series %s{attempt=%s}: %d increments applied, no line in /metrics (%d lines under that name)", name, v, want[i], len(all[name]))})
		}
	}
	w.Count("counter-family")
}

func runCounter(w *rig.Writer, d c18CounterDesc, pre []uint64) (rig.Case, bool) {
	name := fmt.Sprintf("verifc18c%d", atomic.AddInt32(&c18CounterN, 1))
	id := metrics.AddCounter(name, nil)
	for _, a := range pre { // bring the counter near the wrap-around point if asked
		metrics.IncCounterBy(id, a)
	}
	before, err := readCounter(name)
	if err != nil {
		counterReadFailure(w, d, err)
		return rig.Case{}, false
	}
	var wg sync.WaitGroup
	start := make(chan struct{})
	stop := int32(0)
	for _, l := range d.Adds {
		wg.Add(1)
		go func(l []uint64) {
			defer wg.Done()
			<-start
			for _, a := range l {
				if a == 1 {
					metrics.IncCounter(id)
				} else {
					metrics.IncCounterBy(id, a)
				}
			}
		}(l)
	}
	var rwg sync.WaitGroup
	if d.Reader {
		rwg.Add(1)
		go func() {
			defer rwg.Done()
			<-start
			for atomic.LoadInt32(&stop) == 0 {
				fetchMetrics()
			}
		}()
	}
	close(start)
	wg.Wait()
	atomic.StoreInt32(&stop, 1)
	rwg.Wait()
	after, err := readCounter(name)
	if err != nil {
		counterReadFailure(w, d, err)
		return rig.Case{}, false
	}
	d.Before, d.After = before, after
	adds := make([]string, len(d.Adds))
	total := 0
	for i, l := range d.Adds {
		adds[i] = gal.Ns(l)
		total += len(l)
	}
	w.Count(fmt.Sprintf("counter goroutines=%d", len(d.Adds)))
	return rig.Case{Desc: d, Coq: gal.App("CCounter", gal.N(before), gal.List(adds), gal.N(after)), Nontrivial: len(d.Adds) > 1 && total > 1}, true
}

// ---------------------------------------------------------------- concurrent observers + reader

type c18ConcDesc struct {
	Kind     string    `json:"kind"` // "conc"
	Sampled  bool      `json:"sampled"`
	HTTP     bool      `json:"reader_uses_http"`
	Readers  int       `json:"reads_during_run"`
	Workers  []obsSpec `json:"goroutines"`
	Observed []obsRep  `json:"observed,omitempty"`
}

func runConc(w *rig.Writer, d c18ConcDesc) (rig.Case, bool) {
	h := c18NewHist(d.Sampled)
	lists := make([][]uint64, len(d.Workers))
	var total uint64
	for i, s := range d.Workers {
		lists[i] = s.expand()
		total += uint64(len(lists[i]))
	}
	var progress uint64
	var wg sync.WaitGroup
	start := make(chan struct{})
	for _, l := range lists {
		wg.Add(1)
		go func(l []uint64) {
			defer wg.Done()
			<-start
			for _, v := range l {
				metrics.ObserveHist(h.id, v)
				atomic.AddUint64(&progress, 1)
			}
		}(l)
	}
	d.Observed = nil
	var rerr error
	done := make(chan struct{})
	go func() {
		defer close(done)
		<-start
		for k := 1; k <= d.Readers; k++ {
			target := total * uint64(k) / uint64(d.Readers+1)
			for atomic.LoadUint64(&progress) < target {
				runtime.Gosched()
			}
			// d.HTTP: the real reporting path (printMetrics) runs concurrently with the observers
			o, err := h.endPeriod(d.HTTP)
			if err != nil {
				rerr = err
				return
			}
			d.Observed = append(d.Observed, o)
		}
	}()
	close(start)
	wg.Wait()
	<-done
	if rerr == nil {
		var o obsRep
		o, rerr = h.endPeriod(d.HTTP)
		d.Observed = append(d.Observed, o)
	}
	if rerr != nil {
		counterReadFailure(w, d, rerr)
		return rig.Case{}, false
	}
	nonempty := 0
	reps := make([]string, len(d.Observed))
	for i, o := range d.Observed {
		reps[i] = o.coq()
		if o.Count > 0 {
			nonempty++
		}
	}
	w.Count(fmt.Sprintf("conc goroutines=%d", len(d.Workers)))
	w.Count(fmt.Sprintf("conc periods with observations=%d", nonempty))
	all := obsSpec{Kind: "cat", Parts: d.Workers}
	return rig.Case{Desc: d, Coq: gal.App("CConc", gal.Bool(d.Sampled), gal.Bool(d.HTTP), all.coq(), gal.List(reps)), Nontrivial: len(d.Workers) > 1 && nonempty > 1}, true
}

func concCases(e *env, r *rig.Rand, race bool) ([]c18ConcDesc, []c18CounterDesc) {
	var cs []c18ConcDesc
	var ks []c18CounterDesc
	nconc, per := 12, uint64(4000)
	if e.tier == "thorough" {
		nconc, per = 40, 10000
	} else if race {
		nconc, per = 3, 600 // the race detector slows everything ~10x: a small sample in the quick tier
	}
	for i := 0; i < nconc; i++ {
		g := 2 + r.Intn(7)
		d := c18ConcDesc{Kind: "conc", Sampled: i%3 == 2, HTTP: false, Readers: 1 + r.Intn(6)}
		for j := 0; j < g; j++ {
			n := per/2 + uint64(r.Intn(int(per)))
			if i%4 == 3 && j == 0 {
				n += c18Buflen // wrap the ring under concurrency
			}
			d.Workers = append(d.Workers, gen(r.U64(), n, c18ValueSets[r.Intn(len(c18ValueSets))]))
		}
		cs = append(cs, d)
	}
	nk := 8
	if e.tier == "thorough" {
		nk = 40
	} else if race {
		nk = 3
	}
	for i := 0; i < nk; i++ {
		g := 1 + r.Intn(8)
		d := c18CounterDesc{Kind: "counter", Reader: i%2 == 1}
		for j := 0; j < g; j++ {
			n := 1 + r.Intn(300)
			l := make([]uint64, n)
			for k := range l {
				switch r.Intn(4) {
				case 0:
					l[k] = 1
				case 1:
					l[k] = uint64(r.Intn(1000))
				case 2:
					l[k] = r.U64() >> uint(r.Intn(64))
				default:
					l[k] = 1
				}
			}
			d.Adds = append(d.Adds, l)
		}
		ks = append(ks, d)
	}
	return cs, ks
}

// ---------------------------------------------------------------- contention tiers (Go-side oracles)

// c18Contention: many goroutines hammer ONE counter with IncCounter and IncCounterBy for long
// enough to overlap; the reported value is exactly the sum of what was added.
func c18Contention(w *rig.Writer, thorough bool) {
	rounds, per := 3, 200000
	if thorough {
		rounds, per = 10, 1000000
	}
	for round := 0; round < rounds; round++ {
		name := fmt.Sprintf("verifc18cc%d", atomic.AddInt32(&c18CounterN, 1))
		id := metrics.AddCounter(name, nil)
		const g = 8
		var wg sync.WaitGroup
		start := make(chan struct{})
		var want uint64
		for i := 0; i < g; i++ {
			by := uint64(i % 4) // 0: IncCounter only; otherwise IncCounterBy(by) mixed with IncCounter
			for k := 0; k < per; k++ {
				if by == 0 || k%2 == 0 {
					want++
				} else {
					want += by
				}
			}
			wg.Add(1)
			go func(by uint64) {
				defer wg.Done()
				<-start
				for k := 0; k < per; k++ {
					if by == 0 || k%2 == 0 {
						metrics.IncCounter(id)
					} else {
						metrics.IncCounterBy(id, by)
					}
				}
			}(by)
		}
		close(start)
		wg.Wait()
		got, err := readCounter(name)
		in := map[string]interface{}{"kind": "counter-contention", "goroutines": g, "adds_per_goroutine": per}
		if err != nil {
			counterReadFailure(w, in, err)
		} else if got != want {
			w.Fail(rig.GoFailure{Kind: "counterexample", What: "a counter updated by several goroutines at once does not report the sum of the increments applied",
				Input: in, Detail: fmt.Sprintf("reported %d, increments sum to %d (lost %d)", got, want, want-got)})
		}
		w.Count("counter-contention-round")
	}
}

// c18OverlappingScrapes: several pollers scrape /metrics at the same time while observers keep
// observing. Every report of the histogram is consistent in itself (min <= percentiles <= max,
// non-decreasing) and the counts of all reports of all pollers add up to the observations made.
func c18OverlappingScrapes(w *rig.Writer, thorough bool) {
	rounds := 4
	if thorough {
		rounds = 20
	}
	for round := 0; round < rounds; round++ {
		h := c18NewHist(false)
		const observers, pollers, per = 4, 3, 60000
		var wg sync.WaitGroup
		start := make(chan struct{})
		var stop int32
		for i := 0; i < observers; i++ {
			wg.Add(1)
			go func(i int) {
				defer wg.Done()
				<-start
				for k := 0; k < per; k++ {
					// values grow with time: a report mixing two periods shows as min/max/percentile disorder
					metrics.ObserveHist(h.id, uint64(1000000+k*observers+i))
				}
			}(i)
		}
		type rep struct {
			count uint64
			pct   []uint64
		}
		var mu sync.Mutex
		var reps []rep
		var problems []string
		scrape := func() {
			all, err := fetchMetrics()
			if err != nil {
				mu.Lock()
				problems = append(problems, err.Error())
				mu.Unlock()
				return
			}
			r := rep{pct: make([]uint64, 23)}
			seen := 0
			for _, l := range all["hist_"+h.name] {
				st := l.tags["statistic"]
				v, perr := strconv.ParseUint(l.val, 10, 64)
				if st == "average" || perr != nil {
					continue
				}
				if st == "count" {
					r.count = v
				} else if i, ok := pctlIndex[st]; ok {
					r.pct[i] = v
					seen++
				}
			}
			mu.Lock()
			defer mu.Unlock()
			if r.count > 0 || seen > 0 {
				reps = append(reps, r)
				if seen == 23 {
					for i := 1; i <= 20; i++ {
						if r.pct[i] < r.pct[i-1] {
							problems = append(problems, fmt.Sprintf("percentile%d = %d below percentile%d = %d in one report (count %d)", i*5, r.pct[i], (i-1)*5, r.pct[i-1], r.count))
							break
						}
					}
					if r.pct[21] < r.pct[19] || r.pct[21] > r.pct[20] || r.pct[22] < r.pct[21] || r.pct[22] > r.pct[20] {
						problems = append(problems, fmt.Sprintf("percentile99/99.9 = %d/%d outside [percentile95 = %d, max = %d]", r.pct[21], r.pct[22], r.pct[19], r.pct[20]))
					}
				}
			}
		}
		var pwg sync.WaitGroup
		for p := 0; p < pollers; p++ {
			pwg.Add(1)
			go func() {
				defer pwg.Done()
				<-start
				for atomic.LoadInt32(&stop) == 0 {
					scrape()
				}
			}()
		}
		close(start)
		wg.Wait()
		atomic.StoreInt32(&stop, 1)
		pwg.Wait()
		scrape() // what is left
		var sum uint64
		for _, r := range reps {
			sum += r.count
		}
		in := map[string]interface{}{"kind": "overlapping-scrapes", "observers": observers, "pollers": pollers, "observations": observers * per}
		if sum != observers*per {
			problems = append(problems, fmt.Sprintf("the counts of all %d reports add up to %d, %d observations were made", len(reps), sum, observers*per))
		}
		if len(problems) > 0 {
			w.Fail(rig.GoFailure{Kind: "counterexample", What: "overlapping /metrics scrapes: inconsistent latency summary: " + problems[0], Input: in, Detail: fmt.Sprint(problems[:minInt(len(problems), 5)])})
		}
		w.Count("overlapping-scrapes-round")
		w.CountN("overlapping-scrapes-reports", len(reps))
	}
}

func minInt(a, b int) int {
	if a < b {
		return a
	}
	return b
}

// ---------------------------------------------------------------- main

const c18Rule = "value case: x > 15 (beyond the identity buckets); mono pair: two different values, the larger > 15; " +
	"histogram case: at least one period whose observations have more than one distinct value; " +
	"concurrent case: >= 2 goroutines and >= 2 periods that received observations; counter case: >= 2 goroutines"

func c18Finish(w *rig.Writer) {
	c18FlushViols(w)
	w.Res.Rule = c18Rule
	if err := w.Finish([]string{"base.Bytes", "base.Harness", "metrics.Hist", "checks.Check18"}, "case18", "check18"); err != nil {
		rig.Die("%v", err)
	}
}

func c18(e *env) {
	w := rig.NewWriter(e.out, "C18", e.tier, e.seed)
	for _, a := range e.args {
		if strings.HasPrefix(a, "replay=") {
			c18Replay(e, w, a[len("replay="):])
			return
		}
	}
	for _, a := range e.args {
		if a == "race" {
			c18RaceParent(e, w)
			return
		}
	}
	r := rig.NewRand(e.seed)
	pool := &histPool{budget: 320, last: map[bool]*c18Hist{}}

	// the /metrics handler before the first garbage collection (observation only, see stats)
	var ms runtime.MemStats
	runtime.ReadMemStats(&ms)
	if ms.NumGC == 0 {
		if _, err := fetchMetrics(); err != nil {
			w.Res.Stats["metrics_handler_before_first_gc"] = err.Error()
		}
	}
	runtime.GC()

	// values
	xs, more := valueInputs(e, r)
	lzpAll, err := portableLzcnt(e.out, append(append([]uint64(nil), xs...), more...))
	if err != nil {
		w.Fail(rig.GoFailure{Kind: "broken-correspondence", What: "the portable lzcnt of /repo/metrics/lzcnt.go could not be compiled and run", Input: map[string]string{"kind": "portable-lzcnt"}, Detail: err.Error()})
		lzpAll = make([]uint64, len(xs)+len(more))
		for i := range lzpAll {
			if i < len(xs) {
				lzpAll[i] = metrics.VerifLzcnt(xs[i])
			} else {
				lzpAll[i] = metrics.VerifLzcnt(more[i-len(xs)])
			}
		}
	}
	lzp := lzpAll[:len(xs)]
	var light []rig.Case
	for i, x := range xs {
		light = append(light, valCase(w, x, lzp[i]))
		if i > 0 {
			light = append(light, monoCase(w, xs[i-1], x))
		}
	}
	const batch = 250
	for i := 0; i < len(more); i += batch {
		j := i + batch
		if j > len(more) {
			j = len(more)
		}
		light = append(light, batchCase(w, more[i:j], lzpAll[len(xs)+i:len(xs)+j]))
	}
	if len(more) > 0 {
		w.Res.Stats["extra_evaluations"] = 2*len(more) - 2*((len(more)+batch-1)/batch)
	}
	for i := 0; i < len(xs)/4; i++ { // distant pairs as well
		a, b := xs[r.Intn(len(xs))], xs[r.Intn(len(xs))]
		if a > b {
			a, b = b, a
		}
		light = append(light, monoCase(w, a, b))
	}

	// spread the batches (and everything else) evenly
	for i := len(light) - 1; i > 0; i-- {
		j := r.Intn(i + 1)
		light[i], light[j] = light[j], light[i]
	}

	// histograms, counters, concurrency: run now, spread over the shards afterwards
	var heavy []rig.Case
	keep := func(c rig.Case, ok bool) {
		if ok {
			heavy = append(heavy, c)
		}
	}
	for _, d := range histCases(e, r) {
		keep(runHist(w, pool, d))
	}
	cs, ks := concCases(e, r, false)
	for i, d := range cs {
		d.HTTP = i%4 == 1
		keep(runConc(w, d))
	}
	c18Contention(w, e.tier == "thorough")
	c18OverlappingScrapes(w, e.tier == "thorough")
	for i, d := range ks {
		var pre []uint64
		if i%3 == 0 {
			pre = []uint64{1<<64 - 1 - uint64(r.Intn(100000))}
		}
		keep(runCounter(w, d, pre))
	}

	// interleave: the heavy cases evenly among the light ones, so that every shard gets its share
	w.Shards = 8
	if e.tier == "thorough" {
		w.Shards = 16
	}
	step := 1
	if len(heavy) > 0 {
		step = len(light)/len(heavy) + 1
	}
	hi := 0
	for i, c := range light {
		if i%step == 0 && hi < len(heavy) {
			w.Add(heavy[hi])
			hi++
		}
		w.Add(c)
	}
	for ; hi < len(heavy); hi++ {
		w.Add(heavy[hi])
	}
	c18Finish(w)
}

// ---------------------------------------------------------------- race tier

// c18child: the concurrent part only (run under a -race build by c18RaceParent).
func c18child(e *env) {
	w := rig.NewWriter(e.out, "C18", e.tier, e.seed)
	r := rig.NewRand(e.seed)
	runtime.GC()
	cs, ks := concCases(e, r, true)
	add := func(c rig.Case, ok bool) {
		if ok {
			w.Add(c)
		}
	}
	for i, d := range cs {
		d.HTTP = i%2 == 0 // the real reporting path (getAllHistograms, getAllBucketHistograms) half of the time
		add(runConc(w, d))
	}
	for _, d := range ks {
		add(runCounter(w, d, nil))
	}
	runCounterFamily(w)
	// gauges: publishers set integer and float gauges while /metrics is being scraped (what the
	// batching pool's monitor and a monitoring agent do); the values read back are the last set
	ig := metrics.AddIntGauge(fmt.Sprintf("verifc18g%d", atomic.AddInt32(&c18CounterN, 1)), nil)
	fg := metrics.AddFloatGauge(fmt.Sprintf("verifc18f%d", atomic.AddInt32(&c18CounterN, 1)), nil)
	var gwg sync.WaitGroup
	gstop := int32(0)
	for p := 0; p < 2; p++ {
		gwg.Add(1)
		go func(p int) {
			defer gwg.Done()
			for k := uint64(1); atomic.LoadInt32(&gstop) == 0 && k < 200000; k++ {
				metrics.SetIntGauge(ig, k)
				metrics.SetFloatGauge(fg, float64(k))
			}
		}(p)
	}
	nscr := 200
	if e.tier != "thorough" {
		nscr = 30
	}
	for k := 0; k < nscr; k++ {
		fetchMetrics()
	}
	atomic.StoreInt32(&gstop, 1)
	gwg.Wait()
	w.Count("gauge-publishers-during-scrapes")
	w.Shards = 8
	c18Finish(w)
}

var raceFrameRe = regexp.MustCompile(`(?m)^\s+(github\.com/netflix/rend/[^\s(]+)\(`)

// c18RaceParent re-executes this (race-enabled) binary as c18child with GORACE sending the
// reports to files, then turns every distinct report that involves code of /repo into a failure.
func c18RaceParent(e *env, w *rig.Writer) {
	logBase := filepath.Join(e.out, "racelog")
	cmd := exec.Command(os.Args[0], "c18child", "-tier", e.tier, "-seed", strconv.FormatUint(e.seed, 10), "-out", e.out)
	cmd.Env = append(os.Environ(), "GORACE=log_path="+logBase+" halt_on_error=0 exitcode=0 history_size=3")
	out, err := cmd.CombinedOutput()
	if err != nil {
		rig.Die("c18 race child failed: %v\n%s", err, out)
	}
	// the child wrote cases*.v and result.json; add the race findings to result.json
	b, err := os.ReadFile(filepath.Join(e.out, "result.json"))
	if err != nil {
		rig.Die("%v", err)
	}
	var res map[string]interface{}
	if err := json.Unmarshal(b, &res); err != nil {
		rig.Die("%v", err)
	}
	fails, _ := res["go_failures"].([]interface{})
	logs, _ := filepath.Glob(logBase + ".*")
	seen := map[string]bool{}
	nrep := 0
	for _, lf := range logs {
		txt, _ := os.ReadFile(lf)
		for _, blk := range strings.Split(string(txt), "==================") {
			if !strings.Contains(blk, "DATA RACE") {
				continue
			}
			nrep++
			var fr []string
			for _, m := range raceFrameRe.FindAllStringSubmatch(blk, -1) {
				f := m[1]
				if len(fr) == 0 || fr[len(fr)-1] != f {
					fr = append(fr, f)
				}
			}
			if len(fr) == 0 {
				continue // a race inside the harness itself would be a harness bug, reported below
			}
			sig := strings.Join(fr, " <- ")
			if len(fr) > 4 {
				sig = strings.Join(fr[:4], " <- ")
			}
			if seen[sig] {
				continue
			}
			seen[sig] = true
			if len(blk) > 6000 {
				blk = blk[:6000] + "\n..."
			}
			fails = append(fails, map[string]interface{}{
				"kind":   "counterexample",
				"what":   "data race reported by the Go race detector in code of /repo while goroutines observe a histogram / add to a counter and a reader ends reporting periods: " + sig,
				"input":  map[string]interface{}{"kind": "race", "tier": e.tier, "seed": e.seed},
				"detail": blk,
				"tags":   []string{"C18 data race: " + fr[0]},
			})
		}
	}
	res["go_failures"] = fails
	st, _ := res["stats"].(map[string]interface{})
	if st == nil {
		st = map[string]interface{}{}
	}
	st["race_reports"] = nrep
	st["race_distinct_in_repo"] = len(seen)
	res["stats"] = st
	nb, _ := json.MarshalIndent(res, "", " ")
	if err := os.WriteFile(filepath.Join(e.out, "result.json"), nb, 0o644); err != nil {
		rig.Die("%v", err)
	}
}

// ---------------------------------------------------------------- replay

func c18Replay(e *env, w *rig.Writer, file string) {
	b, err := os.ReadFile(file)
	if err != nil {
		rig.Die("%v", err)
	}
	var k struct {
		Kind string `json:"kind"`
	}
	if err := json.Unmarshal(b, &k); err != nil {
		rig.Die("replay input: %v", err)
	}
	runtime.GC()
	pool := &histPool{budget: 4, last: map[bool]*c18Hist{}}
	add := func(c rig.Case, ok bool) {
		if ok {
			w.Add(c)
		}
	}
	switch k.Kind {
	case "val", "mono":
		var d c18ValDesc
		if err := json.Unmarshal(b, &d); err != nil {
			rig.Die("replay input: %v", err)
		}
		if k.Kind == "mono" {
			w.Add(monoCase(w, d.X, d.M))
			break
		}
		lzp, err := portableLzcnt(e.out, []uint64{d.X})
		if err != nil {
			w.Fail(rig.GoFailure{Kind: "broken-correspondence", What: "the portable lzcnt of /repo/metrics/lzcnt.go could not be compiled and run", Input: d, Detail: err.Error()})
			break
		}
		w.Add(valCase(w, d.X, lzp[0]))
	case "batch":
		var d c18BatchDesc
		if err := json.Unmarshal(b, &d); err != nil {
			rig.Die("replay input: %v", err)
		}
		lzp, err := portableLzcnt(e.out, d.Xs)
		if err != nil {
			w.Fail(rig.GoFailure{Kind: "broken-correspondence", What: "the portable lzcnt of /repo/metrics/lzcnt.go could not be compiled and run", Input: d, Detail: err.Error()})
			break
		}
		w.Add(batchCase(w, d.Xs, lzp))
	case "hist":
		var d c18HistDesc
		if err := json.Unmarshal(b, &d); err != nil {
			rig.Die("replay input: %v", err)
		}
		add(runHist(w, pool, d))
	case "conc":
		var d c18ConcDesc
		if err := json.Unmarshal(b, &d); err != nil {
			rig.Die("replay input: %v", err)
		}
		add(runConc(w, d))
	case "counter":
		var d c18CounterDesc
		if err := json.Unmarshal(b, &d); err != nil {
			rig.Die("replay input: %v", err)
		}
		add(runCounter(w, d, nil))
	case "portable-lzcnt":
		if _, err := portableLzcnt(e.out, []uint64{0, 1}); err != nil {
			w.Fail(rig.GoFailure{Kind: "broken-correspondence", What: "the portable lzcnt of /repo/metrics/lzcnt.go could not be compiled and run", Input: map[string]string{"kind": "portable-lzcnt"}, Detail: err.Error()})
		}
	case "race":
		c18ReplayRace(e, w, b)
		return
	default:
		rig.Die("c18 replay: unknown case kind %q", k.Kind)
	}
	c18Finish(w)
}

// c18ReplayRace builds a -race binary of this harness against the current /repo and runs the
// race tier with the recorded tier and seed.
func c18ReplayRace(e *env, w *rig.Writer, b []byte) {
	var d struct {
		Tier string `json:"tier"`
		Seed uint64 `json:"seed"`
	}
	json.Unmarshal(b, &d)
	if d.Tier == "" {
		d.Tier = "thorough"
	}
	root := os.Getenv("VERIF_ROOT")
	if root == "" {
		root = "/verif"
	}
	bin := filepath.Join(e.out, "rendharness-race")
	args := []string{"build", "-tags", "verif", "-race"}
	// hook files missing from /repo's working tree come from /verif/hooks (as in ./check)
	repl := map[string]string{}
	hooks := filepath.Join(root, "hooks")
	filepath.Walk(hooks, func(p string, info os.FileInfo, err error) error {
		if err == nil && !info.IsDir() && strings.HasSuffix(p, ".go") {
			rel, _ := filepath.Rel(hooks, p)
			if _, serr := os.Stat(filepath.Join(c18Repo(), rel)); serr != nil {
				repl[filepath.Join(c18Repo(), rel)] = p
			}
		}
		return nil
	})
	if len(repl) > 0 {
		ov := filepath.Join(e.out, "overlay.json")
		ob, _ := json.Marshal(map[string]interface{}{"Replace": repl})
		os.WriteFile(ov, ob, 0o644)
		args = append(args, "-overlay", ov)
	}
	args = append(args, "-o", bin, "./cmd/rendharness")
	cmd := exec.Command("go", args...)
	cmd.Dir = filepath.Join(root, "harness")
	cmd.Env = append(os.Environ(), "GOFLAGS=-mod=mod", "GOPROXY=off", "GOSUMDB=off", "GOTOOLCHAIN=local", "CGO_ENABLED=1")
	if o, err := cmd.CombinedOutput(); err != nil {
		w.Fail(rig.GoFailure{Kind: "broken-correspondence", What: "the -race build of the harness failed", Input: map[string]string{"kind": "race"}, Detail: string(o)})
		c18Finish(w)
		return
	}
	run := exec.Command(bin, "c18", "-tier", d.Tier, "-seed", strconv.FormatUint(d.Seed, 10), "-out", e.out, "race")
	run.Env = os.Environ()
	if o, err := run.CombinedOutput(); err != nil {
		rig.Die("c18 race replay failed: %v\n%s", err, o)
	}
}
