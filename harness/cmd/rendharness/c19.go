package main

// c19: cluster routing (ketama consistent hashing), property C19.
//
// Builds real cluster.Continuum values (cluster.New on buckets that only implement Label/Weight, so
// no sockets are needed), exports their rings through the verif hook, asks Bucket(h) / Hash(key)
// for ring-boundary hashes and key samples, for the node list as generated, for the same list
// built again and permuted, and for every single-node removal.  Everything observed goes into
// cases*.v where the Gallina model (cluster/Ketama.v) and the property oracle (checks/Check19.v)
// are evaluated on it.  Go-side measurements (share of a key sample per node, points per node for
// n = 1..64) go into the statistics.
//
// Replay: `rendharness c19 ... replay=<file>` where the file holds the JSON `desc` of one case.

import (
	"crypto/md5"
	"encoding/binary"
	"encoding/hex"
	"encoding/json"
	"fmt"
	"os"
	"path/filepath"
	"sort"
	"strconv"
	"strings"

	"github.com/netflix/rend/handlers/memcached/cluster"
	"verifharness/rig"
)

func init() { commands["c19"] = c19 }

const c19None = 63 // label id standing for a nil bucket (Check19.none_id)

type c19Node struct{ label string }

func (n c19Node) Label() string  { return n.label }
func (n c19Node) Weight() uint32 { return 1 }

// c19Input is the `desc` of a case and, verbatim, the replay input.
type c19Input struct {
	Kind     string   `json:"kind"`                                   // how the labels were generated
	Labels   []string `json:"labels"`                                 // node labels in listed order (Node.Label() = conn.RemoteAddr().String())
	Perms    [][]int  `json:"perms"`                                  // further continuums: the listed order re-indexed ([0..n-1] = same list built again)
	Removals []int    `json:"removals"`                               // indices (into labels) of the nodes removed, one at a time
	Screen   []int    `json:"removals_screened_in_go_only,omitempty"` // further removals, observed and screened by the harness only (quick tier, large sets); a finding becomes a reduced case judged by Coq
	Probes   string   `json:"probes"`                                 // "full": 0, 2^32-1, every base ring point and point+-1; "listed": only the ones below
	KeySeed  uint64   `json:"key_seed"`                               // keys are regenerated from (key_seed, nkeys)
	NKeys    int      `json:"nkeys"`                                  //
	KeysHex  []string `json:"keys_hex,omitempty"`                     // explicit keys (hex), probed through Continuum.Hash
	GoKeys   int      `json:"keys_screened_in_go_only,omitempty"`     // a further key sample (from key_seed) routed through every continuum of the case: share statistic, screened by the harness only (a finding becomes a reduced case judged by Coq)
	Hashes   []uint32 `json:"hashes,omitempty"`                       // explicit ring locations, probed through Continuum.Bucket
	// informational (ignored on replay)
	Nodes          int      `json:"nodes"`
	RingSize       int      `json:"ring_size,omitempty"`
	NProbes        int      `json:"n_probes,omitempty"`
	DupPoint       bool     `json:"ring_has_repeated_point"`
	Collision      bool     `json:"two_labels_share_a_point"`
	OrderDependent bool     `json:"order_dependence_observed"`
	Notes          []string `json:"notes,omitempty"`
}

type c19Finding struct {
	what    string // "order", "removal", "lookup", "unsorted", "points"
	perm    int    // index into in.Perms, or -1
	removal int    // index (into labels) of the removed node, or -1
	h       uint32
	key     []byte // non-nil when the probe was a key
}

func c19md5le(b []byte) uint32 {
	d := md5.Sum(b)
	return binary.LittleEndian.Uint32(d[0:4])
}

func c19Build(labels []string) (c *cluster.Continuum, ring []cluster.VerifPoint, err error) {
	defer func() {
		if p := recover(); p != nil {
			err = fmt.Errorf("panic: %v", p)
		}
	}()
	bs := make([]cluster.Bucket, len(labels))
	for i, l := range labels {
		bs[i] = c19Node{l}
	}
	c = cluster.New(bs)
	ring = cluster.VerifRing(c)
	return
}

// reference lookup used ONLY to annotate cases and to choose reduced replays; the verdict is Coq's
func c19Ref(ring []cluster.VerifPoint, h uint32) (string, bool) {
	if len(ring) == 0 {
		return "", false
	}
	for _, e := range ring {
		if e.Point >= h {
			return e.Label, true
		}
	}
	return ring[0].Label, true
}

func c19Arr(vs []uint64) string {
	if len(vs) == 0 {
		return "(PArray.make 0 0)"
	}
	b := make([]byte, 0, len(vs)*14+16)
	b = append(b, "[| "...)
	for i, v := range vs {
		if i > 0 {
			b = append(b, "; "...)
		}
		b = strconv.AppendUint(b, v, 10)
	}
	b = append(b, " | 0 |]"...)
	return string(b)
}

func c19Pack6(ids []int) []uint64 {
	out := make([]uint64, 0, (len(ids)+9)/10)
	for i := 0; i < len(ids); i += 10 {
		var v uint64
		for j := 0; j < 10 && i+j < len(ids); j++ {
			v |= uint64(ids[i+j]&63) << (6 * uint(j))
		}
		out = append(out, v)
	}
	return out
}

type c19Binder struct {
	names map[string]string
	lets  []string
}

func (b *c19Binder) bind(prefix, term string) string {
	if n, ok := b.names[term]; ok {
		return n
	}
	n := fmt.Sprintf("%s%d", prefix, len(b.names))
	b.names[term] = n
	b.lets = append(b.lets, "let "+n+" := "+term+" in")
	return n
}

func c19Keys(seed uint64, n int) [][]byte {
	r := rig.NewRand(seed ^ 0xC19C19)
	keys := make([][]byte, 0, n)
	for i := 0; i < n; i++ {
		var k []byte
		switch r.Intn(6) {
		case 0:
			k = []byte(fmt.Sprintf("k%d", r.Intn(1000000)))
		case 1:
			k = []byte(fmt.Sprintf("user:%d:profile", r.U64()))
		case 2:
			k = []byte(hex.EncodeToString(r.Bytes(16)))
		case 3:
			k = r.Bytes(1 + r.Intn(40)) // binary keys
		case 4:
			k = []byte(strings.Repeat("x", 200+r.Intn(50)) + fmt.Sprint(r.Intn(100000)))
		default:
			k = []byte(fmt.Sprintf("%c", 'a'+r.Intn(26)))
			k = append(k, []byte(fmt.Sprint(i))...)
		}
		keys = append(keys, k)
	}
	return keys
}

type c19Group struct {
	c                     rig.Case
	in                    c19Input
	findings              []c19Finding
	shareMin              float64 // min over nodes of share*n (1.0 = ideal), -1 if no key sample
	shareMax              float64
	zeroNode              string // a node with points and no key of the sample
	shareKeys             int    // size of the key sample the shares were measured on
	nBoundary, nKeyProbes int
	err                   error
}

// c19Run runs one node set through the real code and prints the case.
func c19Run(in c19Input) (g c19Group) {
	g.shareMin, g.shareMax = -1, -1
	n := len(in.Labels)
	in.Nodes = n
	// label ids: distinct label strings in sorted order (independent of listing order)
	distinct := append([]string(nil), in.Labels...)
	sort.Strings(distinct)
	ids := map[string]int{}
	for _, l := range distinct {
		if _, ok := ids[l]; !ok {
			ids[l] = len(ids)
		}
	}
	base, ring0, err := c19Build(in.Labels)
	if err != nil {
		g.err = fmt.Errorf("cluster.New(%q): %v", in.Labels, err)
		g.in = in
		return
	}
	in.RingSize = len(ring0)

	// ---- probes
	keyOf := map[uint32][]byte{}
	var keys [][]byte
	keys = append(keys, c19Keys(in.KeySeed, in.NKeys)...)
	for _, kh := range in.KeysHex {
		b, _ := hex.DecodeString(kh)
		keys = append(keys, b)
	}
	hset := map[uint32]bool{}
	for _, k := range keys {
		h := c19md5le(k)
		if _, ok := keyOf[h]; !ok {
			keyOf[h] = k
		}
		hset[h] = true
	}
	g.nKeyProbes = len(hset)
	for _, h := range in.Hashes {
		hset[h] = true
	}
	if in.Probes == "full" {
		hset[0] = true
		hset[^uint32(0)] = true
		for _, e := range ring0 {
			hset[e.Point] = true
			if e.Point > 0 {
				hset[e.Point-1] = true
			}
			if e.Point < ^uint32(0) {
				hset[e.Point+1] = true
			}
		}
	}
	g.nBoundary = len(hset) - g.nKeyProbes
	hs := make([]uint32, 0, len(hset))
	for h := range hset {
		hs = append(hs, h)
	}
	sort.Slice(hs, func(i, j int) bool { return hs[i] < hs[j] })
	in.NProbes = len(hs)

	observe := func(c *cluster.Continuum) (own []int, err error) {
		defer func() {
			if p := recover(); p != nil {
				err = fmt.Errorf("panic: %v", p)
			}
		}()
		own = make([]int, len(hs))
		for i, h := range hs {
			var b cluster.Bucket
			if k, ok := keyOf[h]; ok {
				b = c.Hash(k) // what Handler.Set / Handler.Get call
			} else {
				b = c.Bucket(h)
			}
			if b == nil {
				own[i] = c19None
			} else if id, ok := ids[b.Label()]; ok {
				own[i] = id
			} else {
				own[i] = 62 // a label that is not in the node list at all
			}
		}
		return
	}
	encRing := func(r []cluster.VerifPoint) []uint64 {
		out := make([]uint64, len(r))
		for i, e := range r {
			id, ok := ids[e.Label]
			if !ok {
				id = 62
			}
			out[i] = uint64(e.Point)<<8 | uint64(id)
		}
		return out
	}
	note := func(f c19Finding, format string, a ...interface{}) {
		if len(in.Notes) < 8 {
			in.Notes = append(in.Notes, fmt.Sprintf(format, a...))
		}
		for _, o := range g.findings {
			if o.what == f.what {
				return
			}
		}
		g.findings = append(g.findings, f)
	}
	// first probe satisfying bad, preferring a probe that is a real key
	pick := func(bad func(i int) bool) int {
		first := -1
		for i, h := range hs {
			if bad(i) {
				if _, ok := keyOf[h]; ok {
					return i
				}
				if first < 0 {
					first = i
				}
			}
		}
		return first
	}
	probeName := func(i int) string {
		if k, ok := keyOf[hs[i]]; ok {
			return fmt.Sprintf("key %q (h=%d)", k, hs[i])
		}
		return fmt.Sprintf("h=%d", hs[i])
	}
	distinctLabel := func(id int) string {
		for l, i := range ids {
			if i == id {
				return l
			}
		}
		return "<nil>"
	}
	checkRing := func(name string, r []cluster.VerifPoint, own []int, perm, rem int) {
		for i := 1; i < len(r); i++ {
			if r[i-1].Point > r[i].Point {
				note(c19Finding{what: "unsorted", perm: perm, removal: rem, h: r[i].Point}, "%s: ring not sorted at index %d", name, i)
				break
			}
		}
		if i := pick(func(i int) bool { l, ok := c19Ref(r, hs[i]); return ok && own[i] != ids[l] }); i >= 0 {
			l, _ := c19Ref(r, hs[i])
			note(c19Finding{what: "lookup", perm: perm, removal: rem, h: hs[i], key: keyOf[hs[i]]},
				"%s: %s observed label id %d (%q); the first ring entry with point >= h (else entry 0) has label id %d (%q)",
				name, probeName(i), own[i], distinctLabel(own[i]), ids[l], l)
		}
	}

	own0, err := observe(base)
	if err != nil {
		g.err = fmt.Errorf("lookup on continuum of %q: %v", in.Labels, err)
		g.in = in
		return
	}
	checkRing("base", ring0, own0, -1, -1)
	for i := 1; i < len(ring0); i++ {
		if ring0[i-1].Point == ring0[i].Point {
			in.DupPoint = true
			if ring0[i-1].Label != ring0[i].Label {
				in.Collision = true
			}
		}
	}

	// ---- a larger key sample routed through every continuum, screened here only
	idOf := func(b cluster.Bucket) int {
		if b == nil {
			return c19None
		}
		if id, ok := ids[b.Label()]; ok {
			return id
		}
		return 62
	}
	var xkeys [][]byte
	var xown0 []int
	if in.GoKeys > 0 {
		xkeys = c19Keys(in.KeySeed^0x5EED5EED, in.GoKeys)
		xown0 = make([]int, len(xkeys))
		for j, k := range xkeys {
			xown0[j] = idOf(base.Hash(k))
		}
	}
	// x < 0: same node set (owners must be equal); x >= 0: label id x removed
	screenKeys := func(c *cluster.Continuum, x, perm, rem int) (err error) {
		defer func() {
			if p := recover(); p != nil {
				err = fmt.Errorf("panic: %v", p)
			}
		}()
		for j, k := range xkeys {
			id := idOf(c.Hash(k))
			if id == xown0[j] || (x >= 0 && xown0[j] == x) {
				continue
			}
			if x < 0 {
				in.OrderDependent = true
				note(c19Finding{what: "order", perm: perm, removal: -1, h: c19md5le(k), key: k},
					"order dependence: key %q goes to label id %d with the nodes as listed and to label id %d with the list re-indexed %v", k, xown0[j], id, in.Perms[perm])
			} else {
				note(c19Finding{what: "removal", perm: -1, removal: rem, h: c19md5le(k), key: k},
					"removal of node #%d (label id %d) moved key %q from label id %d to label id %d", rem, x, k, xown0[j], id)
			}
			break
		}
		return nil
	}

	// ---- share of the key sample per node
	if len(keys) >= 100 || len(xkeys) >= 100 {
		cnt := map[int]int{}
		tot := 0
		if len(xkeys) > 0 {
			for _, o := range xown0 {
				cnt[o]++
				tot++
			}
		} else {
			for i, h := range hs {
				if _, ok := keyOf[h]; ok {
					cnt[own0[i]]++
					tot++
				}
			}
		}
		g.shareKeys = tot
		hasPoints := map[int]bool{}
		for _, e := range ring0 {
			hasPoints[ids[e.Label]] = true
		}
		for l, id := range ids {
			if !hasPoints[id] {
				continue
			}
			s := float64(cnt[id]) / float64(tot) * float64(len(ids))
			if g.shareMin < 0 || s < g.shareMin {
				g.shareMin = s
			}
			if s > g.shareMax {
				g.shareMax = s
			}
			if cnt[id] == 0 {
				g.zeroNode = l
			}
		}
	}

	bd := &c19Binder{names: map[string]string{}}
	r0name := bd.bind("a", c19Arr(encRing(ring0)))
	o0name := bd.bind("a", c19Arr(c19Pack6(own0)))
	hsv := make([]uint64, len(hs))
	for i, h := range hs {
		hsv[i] = uint64(h)
	}

	// ---- the same node set again, and permuted
	var again []string
	for pi, p := range in.Perms {
		ls := make([]string, 0, n)
		ok := len(p) == n
		for _, ix := range p {
			if ix < 0 || ix >= n {
				ok = false
				break
			}
			ls = append(ls, in.Labels[ix])
		}
		if !ok {
			continue
		}
		c, r, err := c19Build(ls)
		var own []int
		if err == nil {
			own, err = observe(c)
		}
		if err != nil {
			g.err = fmt.Errorf("continuum of %q: %v", ls, err)
			g.in = in
			return
		}
		if err == nil {
			err = screenKeys(c, -1, pi, -1)
		}
		if err != nil {
			g.err = fmt.Errorf("continuum of %q: %v", ls, err)
			g.in = in
			return
		}
		checkRing(fmt.Sprintf("perm %v", p), r, own, pi, -1)
		if i := pick(func(i int) bool { return own[i] != own0[i] }); i >= 0 {
			in.OrderDependent = true
			note(c19Finding{what: "order", perm: pi, removal: -1, h: hs[i], key: keyOf[hs[i]]},
				"order dependence: %s goes to label id %d (%q) with the nodes as listed and to label id %d (%q) with the list re-indexed %v",
				probeName(i), own0[i], distinctLabel(own0[i]), own[i], distinctLabel(own[i]), p)
		}
		again = append(again, "("+bd.bind("a", c19Arr(encRing(r)))+", "+bd.bind("a", c19Arr(c19Pack6(own)))+")")
	}

	// ---- single removals
	var rems []string
	removal := func(ix int, emit bool) error {
		ls := append(append([]string(nil), in.Labels[:ix]...), in.Labels[ix+1:]...)
		x := ids[in.Labels[ix]]
		c, r, err := c19Build(ls)
		var own []int
		if err == nil {
			own, err = observe(c)
		}
		if err != nil {
			return fmt.Errorf("continuum of %q: %v", ls, err)
		}
		if err := screenKeys(c, x, -1, ix); err != nil {
			return fmt.Errorf("continuum of %q: %v", ls, err)
		}
		checkRing(fmt.Sprintf("removal of #%d", ix), r, own, -1, ix)
		if i := pick(func(i int) bool { return own0[i] != x && own[i] != own0[i] }); i >= 0 {
			note(c19Finding{what: "removal", perm: -1, removal: ix, h: hs[i], key: keyOf[hs[i]]},
				"removal of node #%d (label id %d, %q) moved %s from label id %d (%q) to label id %d (%q)",
				ix, x, in.Labels[ix], probeName(i), own0[i], distinctLabel(own0[i]), own[i], distinctLabel(own[i]))
		}
		if !emit {
			return nil
		}
		// ring literally equal to the base ring without x's entries?  then it is written as None
		minus := make([]cluster.VerifPoint, 0, len(ring0))
		for _, e := range ring0 {
			if ids[e.Label] != x {
				minus = append(minus, e)
			}
		}
		same := len(minus) == len(r)
		for i := 0; same && i < len(r); i++ {
			same = minus[i] == r[i]
		}
		rt := "None"
		if !same {
			rt = "(Some " + bd.bind("a", c19Arr(encRing(r))) + ")"
		}
		rems = append(rems, fmt.Sprintf("(%d, %s, %s)", x, rt, bd.bind("a", c19Arr(c19Pack6(own)))))
		return nil
	}
	for _, ix := range in.Removals {
		if ix < 0 || ix >= n {
			continue
		}
		if err := removal(ix, true); err != nil {
			g.err = err
			g.in = in
			return
		}
	}
	for _, ix := range in.Screen {
		if ix < 0 || ix >= n {
			continue
		}
		if err := removal(ix, false); err != nil {
			g.err = err
			g.in = in
			return
		}
	}

	var sb strings.Builder
	sb.WriteString("(")
	for _, l := range bd.lets {
		sb.WriteString(l)
		sb.WriteString("\n   ")
	}
	fmt.Fprintf(&sb, "(%s, (%s, %s),\n    %s,\n    %s,\n    (%v, %v, %v)))", c19Arr(hsv), r0name, o0name,
		c19List(again), c19List(rems), in.DupPoint, in.Collision, in.Probes == "full")

	var tags []string
	if in.Collision {
		tags = append(tags, "two-labels-share-a-point")
	}
	if in.Collision {
		// signature for KNOWN_FINDINGS.json: the owner of the arc below a point shared by two labels
		// depends on how the unstable sort left the tie (listing order, presence of other nodes)
		for _, f := range g.findings {
			if f.what == "order" || f.what == "removal" {
				tags = append(tags, "ketama-colliding-points-tie-order")
				break
			}
		}
	}
	g.in = in
	g.c = rig.Case{Desc: in, Coq: sb.String(), Nontrivial: n >= 2 && g.nBoundary >= 3 && len(ring0) > 0, Tags: tags}
	return
}

func c19List(items []string) string {
	// no ListNotations in the case files: they break the parsing of array literals
	if len(items) == 0 {
		return "nil"
	}
	return "(" + strings.Join(items, "\n     :: ") + " :: nil)"
}

// ---------------------------------------------------------------- generators

func c19Labels(r *rig.Rand, kind string, n int) []string {
	ls := make([]string, 0, n)
	seen := map[string]bool{}
	add := func(l string) bool {
		if seen[l] {
			return false
		}
		seen[l] = true
		ls = append(ls, l)
		return true
	}
	switch kind {
	case "ipv4":
		for len(ls) < n {
			add(fmt.Sprintf("10.%d.%d.%d:11211", r.Intn(256), r.Intn(256), 1+r.Intn(254)))
		}
	case "ipv4-seq":
		b := 1 + r.Intn(200)
		for i := 0; i < n; i++ {
			add(fmt.Sprintf("10.0.0.%d:11211", b+i))
		}
	case "ports":
		p := 11211 + r.Intn(100)
		for i := 0; i < n; i++ {
			add(fmt.Sprintf("127.0.0.1:%d", p+i))
		}
	case "ipv6":
		for len(ls) < n {
			add(fmt.Sprintf("[2001:db8::%x]:11211", 1+r.Intn(65000)))
		}
	case "odd":
		pool := []string{"", "a", "-", "a-1", "a-1-0", "a-10", "/var/run/memcached.sock", "@", "localhost:11211",
			strings.Repeat("n", 300), "10.0.0.7:11211", "10.0.0.7:11211 ", "10.0.0.7:1121", "\x00", "é:11211", "0", "-0", "1-0"}
		for len(ls) < n {
			if len(ls) < len(pool) && r.Chance(80) {
				add(pool[r.Intn(len(pool))])
			} else {
				add(fmt.Sprintf("odd-%d", r.Intn(100000)))
			}
		}
	case "dup":
		// two connections to the same address have the same RemoteAddr: a label listed twice
		for len(ls) < n-1 || len(ls) == 0 {
			add(fmt.Sprintf("10.%d.%d.%d:11211", r.Intn(256), r.Intn(256), 1+r.Intn(254)))
		}
		if n >= 2 {
			ls = append(ls, ls[r.Intn(len(ls))])
			// not always last
			i, j := r.Intn(len(ls)), len(ls)-1
			ls[i], ls[j] = ls[j], ls[i]
		}
	}
	return ls
}

func c19AllPerms(n int) [][]int {
	var out [][]int
	p := make([]int, n)
	for i := range p {
		p[i] = i
	}
	var rec func(k int)
	rec = func(k int) {
		if k == n {
			out = append(out, append([]int(nil), p...))
			return
		}
		for i := k; i < n; i++ {
			p[k], p[i] = p[i], p[k]
			rec(k + 1)
			p[k], p[i] = p[i], p[k]
		}
	}
	rec(0)
	return out
}

func c19Perms(r *rig.Rand, n, allUpTo, random int) ([][]int, bool) {
	if n <= allUpTo {
		return c19AllPerms(n), true // the first one is the identity: the same list built again
	}
	id := make([]int, n)
	rev := make([]int, n)
	for i := range id {
		id[i] = i
		rev[i] = n - 1 - i
	}
	out := [][]int{id, rev}
	// rotation by one (every node changes its index)
	rot := make([]int, n)
	for i := range rot {
		rot[i] = (i + 1) % n
	}
	out = append(out, rot)
	for k := 0; k < random; k++ {
		p := append([]int(nil), id...)
		for i := n - 1; i > 0; i-- {
			j := r.Intn(i + 1)
			p[i], p[j] = p[j], p[i]
		}
		out = append(out, p)
	}
	return out, false
}

// c19FindCollision searches realistic labels for two whose point sets intersect (a 32-bit birthday:
// about 600 labels x 160 points).  Returns the two labels and the shared point.
func c19FindCollision(r *rig.Rand) (a, b string, p uint32, ok bool) {
	owner := map[uint32]string{}
	for tries := 0; tries < 20000; tries++ {
		l := fmt.Sprintf("10.%d.%d.%d:11211", r.Intn(256), r.Intn(256), 1+r.Intn(254))
		_, ring, err := c19Build([]string{l})
		if err != nil {
			return
		}
		for _, e := range ring {
			if o, ok := owner[e.Point]; ok && o != l {
				return o, l, e.Point, true
			}
			owner[e.Point] = l
		}
	}
	return
}

// ---------------------------------------------------------------- the sub-command

func c19(e *env) {
	w := rig.NewWriter(e.out, "C19", e.tier, e.seed)
	// rig.NewRand(s) and rig.NewRand(s+1) are the same stream shifted by one draw; seed a second
	// generator with the first one's output so that different seeds explore different node sets
	r := rig.NewRand(rig.NewRand(e.seed).U64())
	var groups []c19Group
	thorough := e.tier == "thorough"

	run := func(in c19Input, reduce bool) c19Group {
		g := c19Run(in)
		if g.err != nil {
			w.Fail(rig.GoFailure{Kind: "counterexample", What: "building or querying a continuum failed (panic)", Input: g.in, Detail: g.err.Error()})
			return g
		}
		groups = append(groups, g)
		if reduce {
			// a reduced replay for every kind of finding: same nodes, one permutation / removal, one probe
			for _, f := range g.findings {
				ri := c19Input{Kind: in.Kind + "/reduced:" + f.what, Labels: in.Labels, Probes: "listed"}
				if f.perm >= 0 {
					ri.Perms = [][]int{in.Perms[f.perm]}
				}
				if f.removal >= 0 {
					ri.Removals = []int{f.removal}
				}
				if f.key != nil {
					ri.KeysHex = []string{hex.EncodeToString(f.key)}
				} else {
					ri.Hashes = []uint32{f.h}
				}
				rg := c19Run(ri)
				if rg.err == nil {
					groups = append(groups, rg)
				}
			}
		}
		return g
	}

	replay := ""
	for _, a := range e.args {
		if strings.HasPrefix(a, "replay=") {
			replay = a[len("replay="):]
		}
	}
	if replay != "" {
		b, err := os.ReadFile(replay)
		if err != nil {
			rig.Die("replay: %v", err)
		}
		var in c19Input
		if err := json.Unmarshal(b, &in); err != nil {
			rig.Die("replay: %v", err)
		}
		in.Notes, in.DupPoint, in.Collision, in.OrderDependent = nil, false, false, false
		run(in, false)
	} else {
		kinds := []string{"ipv4", "ipv4-seq", "ports", "ipv6", "odd", "dup"}
		nkeys, gokeys, allUpTo, nrandom, setsPer := 1000, 5000, 4, 2, 1
		if thorough {
			// 10^5 keys per set are routed through every continuum and screened by the harness; the
			// Coq-judged part of each case carries 2000 of them, and three sizes carry all 10^5 (below)
			nkeys, gokeys, allUpTo, nrandom, setsPer = 2000, 100000, 5, 8, 1
		}
		for n := 1; n <= 32; n++ {
			for s := 0; s < setsPer; s++ {
				kind := kinds[(n+s*5+int(e.seed))%len(kinds)]
				if s == 0 && n <= 6 {
					kind = "ipv4"
				}
				if kind == "dup" && n < 2 {
					kind = "ipv4"
				}
				ls := c19Labels(r, kind, n)
				perms, all := c19Perms(r, n, allUpTo, nrandom)
				rm := make([]int, n)
				for i := range rm {
					rm[i] = i
				}
				var screen []int
				if !thorough && n > 12 {
					// quick tier: every removal is observed and screened by the harness; Coq judges
					// the removal of the first, the last and four random nodes (and every finding)
					pickd := map[int]bool{0: true, n - 1: true}
					for len(pickd) < 6 {
						pickd[r.Intn(n)] = true
					}
					rm = rm[:0]
					for i := 0; i < n; i++ {
						if pickd[i] {
							rm = append(rm, i)
						} else {
							screen = append(screen, i)
						}
					}
				}
				in := c19Input{Kind: kind, Labels: ls, Perms: perms, Removals: rm, Screen: screen, Probes: "full", KeySeed: r.U64(), NKeys: nkeys, GoKeys: gokeys}
				g := run(in, true)
				if g.err != nil {
					continue
				}
				w.Count("nodes=" + c19Bucket(n))
				w.Count("labels=" + kind)
				if all {
					w.Count("permutations=all")
				} else {
					w.Count("permutations=identity+reverse+rotate+random")
				}
				w.CountN("probes:ring-boundary(0,max,point,point+-1)", g.nBoundary)
				w.CountN("probes:key-through-Hash", g.nKeyProbes)
				w.CountN("probes:key-through-Hash(screened-by-harness-only,every-continuum)", gokeys)
				w.CountN("continuums:permuted-or-rebuilt", len(perms))
				w.CountN("continuums:one-node-removed(judged-by-model-and-oracle-in-Coq)", len(rm))
				w.CountN("continuums:one-node-removed(screened-by-harness-only)", len(screen))
			}
		}
		if thorough {
			for _, n := range []int{2, 8, 32} {
				ls := c19Labels(r, "ipv4", n)
				id := make([]int, n)
				rev := make([]int, n)
				for i := range id {
					id[i], rev[i] = i, n-1-i
				}
				g := run(c19Input{Kind: "ipv4/key-sample", Labels: ls, Perms: [][]int{id, rev}, Removals: []int{0, n - 1}, Probes: "listed",
					KeySeed: r.U64(), NKeys: 100000}, true)
				w.Count("labels=ipv4/key-sample-1e5")
				w.Count("nodes=" + c19Bucket(n))
				w.CountN("probes:key-through-Hash", g.nKeyProbes)
			}
		}
		// small odd / duplicate-label sets with every permutation
		for _, kind := range []string{"odd", "dup", "ports", "ipv6"} {
			for n := 2; n <= allUpTo; n++ {
				ls := c19Labels(r, kind, n)
				perms, _ := c19Perms(r, n, allUpTo, nrandom)
				rm := make([]int, n)
				for i := range rm {
					rm[i] = i
				}
				run(c19Input{Kind: kind, Labels: ls, Perms: perms, Removals: rm, Probes: "full", KeySeed: r.U64(), NKeys: 200}, true)
				w.Count("nodes=" + c19Bucket(n))
				w.Count("labels=" + kind)
				w.Count("permutations=all")
			}
		}
		// directed search for the premise: two realistic labels that share a ring point
		ncoll := 2
		if thorough {
			ncoll = 6
		}
		var collInfo []string
		sawOrder := false
		for k := 0; k < ncoll || (!sawOrder && k < 3*ncoll); k++ {
			a, b, p, ok := c19FindCollision(r)
			if !ok {
				break
			}
			collInfo = append(collInfo, fmt.Sprintf("%q and %q share point %d", a, b, p))
			ls := []string{a, b}
			if k%2 == 1 {
				extra := c19Labels(r, "ipv4", 2)
				ls = []string{a, extra[0], b, extra[1]}
			}
			// a key that hashes into the arc ending at the shared point
			var keyhex []string
			_, ring, _ := c19Build(ls)
			prev := uint32(0)
			for _, e := range ring {
				if e.Point < p && e.Point > prev {
					prev = e.Point
				}
			}
			for i := 0; i < 5000000; i++ {
				key := []byte(fmt.Sprintf("key-%d", i))
				if h := c19md5le(key); h > prev && h <= p {
					keyhex = append(keyhex, hex.EncodeToString(key))
					break
				}
			}
			perms, _ := c19Perms(r, len(ls), 5, 0)
			rm := make([]int, len(ls))
			for i := range rm {
				rm[i] = i
			}
			g := run(c19Input{Kind: "directed-collision", Labels: ls, Perms: perms, Removals: rm, Probes: "full",
				KeySeed: r.U64(), NKeys: 200, KeysHex: keyhex}, true)
			w.Count("labels=directed-collision")
			w.Count("nodes=" + c19Bucket(len(ls)))
			sawOrder = sawOrder || g.in.OrderDependent
		}
		w.Res.Stats["directed_collisions"] = collInfo
		c19Survey(w, r)
	}

	// ---- statistics and Go-side failures
	smin, smax := -1.0, -1.0
	ncollision, norder := 0, 0
	var collSets []interface{}
	for _, g := range groups {
		if g.shareMin >= 0 && g.shareKeys >= 1000 {
			if smin < 0 || g.shareMin < smin {
				smin = g.shareMin
			}
			if g.shareMax > smax {
				smax = g.shareMax
			}
		}
		if g.zeroNode != "" && g.shareKeys >= 1000 {
			w.Fail(rig.GoFailure{Kind: "counterexample", What: fmt.Sprintf("node %q has ring points but received no key of a %d-key sample", g.zeroNode, g.shareKeys),
				Input: g.in, Detail: "every node must receive a share of a large key sample"})
		}
		if g.in.Collision {
			ncollision++
			if len(collSets) < 5 {
				collSets = append(collSets, g.in.Labels)
			}
		}
		if g.in.OrderDependent {
			norder++
		}
	}
	w.Res.Stats["share_x_nodes_min"] = smin
	w.Res.Stats["share_x_nodes_max"] = smax
	w.Res.Stats["share_note"] = "share of the key sample per node times the number of nodes (1.0 = equal shares), min/max over all nodes of all sets measured on >= 1000 keys (quick: 5000 keys per set, thorough: 10^5)"
	w.Res.Stats["sets_where_two_labels_share_a_point"] = ncollision
	w.Res.Stats["sets_with_order_dependence_observed"] = norder
	w.Res.Stats["example_sets_with_shared_point"] = collSets

	for _, g := range groups {
		w.Add(g.c)
	}
	w.Res.Rule = "a node set counts as non-trivial when it has >= 2 nodes and was probed at ring points and point+-1 (all cases generated with probes=full and n >= 2); distinct = distinct observed (rings, owners) tuples"
	if err := c19Finish(w, 12); err != nil {
		rig.Die("%v", err)
	}
}

func c19Bucket(n int) string {
	switch {
	case n == 1:
		return "1"
	case n <= 5:
		return "2-5"
	case n <= 16:
		return "6-16"
	}
	return "17-32"
}

// c19Survey: points per node for n = 1..64 equal-weight nodes (the float32 `limit` computation), and
// whether removing one node of n disturbs the other nodes' points (it does when limit(n) != limit(n-1)).
func c19Survey(w *rig.Writer, r *rig.Rand) {
	odd := map[string]int{}
	var disturbed []int
	prev := map[string]map[uint32]bool{}
	var prevLabels []string
	for n := 1; n <= 64; n++ {
		ls := make([]string, n)
		for i := range ls {
			ls[i] = fmt.Sprintf("10.1.%d.%d:11211", i/200, 1+i%200)
		}
		_, ring, err := c19Build(ls)
		if err != nil {
			w.Fail(rig.GoFailure{Kind: "counterexample", What: "cluster.New panicked", Input: map[string]interface{}{"labels": ls}, Detail: err.Error()})
			return
		}
		per := map[string]map[uint32]bool{}
		cnt := map[string]int{}
		for _, e := range ring {
			if per[e.Label] == nil {
				per[e.Label] = map[uint32]bool{}
			}
			per[e.Label][e.Point] = true
			cnt[e.Label]++
		}
		for _, l := range ls {
			if cnt[l] != 160 {
				odd[fmt.Sprint(n)] = cnt[l]
			}
			if cnt[l] == 0 && n <= 32 {
				w.Fail(rig.GoFailure{Kind: "counterexample", What: fmt.Sprintf("node %q of %d equal-weight nodes has no ring point: it can never be chosen", l, n),
					Input: map[string]interface{}{"labels": ls}, Detail: "limit computed as 0"})
			}
		}
		// n-1 -> n: did the points of the nodes present in both change?
		for _, l := range prevLabels {
			a, b := prev[l], per[l]
			same := len(a) == len(b)
			for p := range a {
				if !b[p] {
					same = false
				}
			}
			if !same {
				disturbed = append(disturbed, n)
				break
			}
		}
		prev, prevLabels = per, ls
	}
	w.Res.Stats["points_per_node_expected"] = 160
	w.Res.Stats["points_per_node_not_160_at_n"] = odd
	w.Res.Stats["n_where_points_of_surviving_nodes_differ_from_n_minus_1"] = disturbed
}

// c19Finish writes the case files as shards evaluated in parallel by ./check (cases.v, cases_1.v, ...;
// result.json lists the cases shard after shard and carries `shard_offsets`).
func c19Finish(w *rig.Writer, maxShards int) error {
	cases := w.Res.Cases
	total := 0
	for _, c := range cases {
		total += len(c.Coq)
	}
	nsh := maxShards
	if total < 400000 || len(cases) < 2 {
		nsh = 1
	}
	// (ListNotations must not be imported here: with them `[| .. |]` no longer parses)
	header := "From Coq Require Import NArith Uint63 PArray.\nFrom Rend Require Import checks.Check19.\n" +
		"Open Scope list_scope.\nOpen Scope uint63_scope.\nOpen Scope array_scope.\n"
	offsets := map[string]int{}
	idx := 0
	acc := 0
	var files []string
	for s := 0; s < nsh && idx < len(cases); s++ {
		name := "cases.v"
		if s > 0 {
			name = fmt.Sprintf("cases_%d.v", s)
		}
		offsets[name] = idx
		var sb strings.Builder
		sb.WriteString(header)
		sb.WriteString("Definition cases : list case19_raw :=\n  ( ")
		first := true
		target := total * (s + 1) / nsh
		for idx < len(cases) && (first || acc+len(cases[idx].Coq)/2 <= target || s == nsh-1) {
			if !first {
				sb.WriteString("\n  :: ")
			}
			sb.WriteString(cases[idx].Coq)
			acc += len(cases[idx].Coq)
			first = false
			idx++
		}
		sb.WriteString("\n  :: nil ).\n")
		sb.WriteString("Definition bad := Eval vm_compute in Rend.base.Harness.bad_cases check19_raw cases.\nOpen Scope N_scope.\nPrint bad.\n")
		if err := os.WriteFile(filepath.Join(w.Dir, name), []byte(sb.String()), 0o644); err != nil {
			return err
		}
		files = append(files, name)
	}
	// result.json through the shared writer (statistics, distribution), then add shard_offsets
	for i := range w.Res.Cases {
		w.Res.Cases[i].Coq = ""
	}
	tmp := filepath.Join(w.Dir, "rig-tmp")
	realDir := w.Dir
	w.Dir = tmp
	os.MkdirAll(tmp, 0o755)
	if err := w.Finish(nil, "unit", "(fun _ => 0%N)"); err != nil {
		return err
	}
	w.Dir = realDir
	b, err := os.ReadFile(filepath.Join(tmp, "result.json"))
	if err != nil {
		return err
	}
	os.RemoveAll(tmp)
	var m map[string]interface{}
	dec := json.NewDecoder(strings.NewReader(string(b)))
	dec.UseNumber() // 64-bit seeds must survive the round trip
	if err := dec.Decode(&m); err != nil {
		return err
	}
	m["shard_offsets"] = offsets
	m["shards"] = files
	out, _ := json.MarshalIndent(m, "", " ")
	return os.WriteFile(filepath.Join(realDir, "result.json"), out, 0o644)
}
