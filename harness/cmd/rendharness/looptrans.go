package main

// looptrans: extracts the SHAPE of the per-connection server loop — (*DefaultServer).Loop in
// /repo/server/default.go and abort in /repo/server/utils.go — from their source (go/parser, on
// every run) into coq/gen/Loop_gen.v as a value `loop_src : loop_shape` (types and their meaning:
// coq/proto/LoopShape.v). coq/gen/LoopLink.v proves loop_src = loop_model, the value the
// hand-written models of the loop (proto/ReqCommon.v serve_loop, proto/Stream.v serve_stream,
// orca/Orcas.v serve1, orca/Faults.v serve1_f, server/Listen.v abort) are proved to follow
// (proto/LoopShapeProofs.v). A change to one of the loop's decisions changes the generated value
// and the link lemma stops compiling.
//
// The extraction is syntactic and decides nothing: whether every way through the recover handler
// reaches abort, for instance, is computed in Coq from the statements recorded here.
//
// Rules:
//   - statements: abort(s.conns, e) -> KAbort; s.orca.Error(nil, common.RequestUnknown, err) /
//     s.orca.Error(request, reqType, err) -> KError ErrNilUnknown / ErrReqType; [err =] s.orca.M(a)
//     -> KCall M a assigned, a = request | request.(common.T); continue / return / panic(_) ->
//     KContinue / KReturn / KPanic; if c {..} else {..} -> KIf "c" [..] [..] (the condition as
//     text, it is not interpreted); anything else -> KOther "<what> (file:line)";
//   - dropped: expression statements calling metrics.*, timer.*, log.*, fmt.*; assignments whose
//     right-hand sides are all such calls; if / switch statements in which nothing else remains
//     and whose condition / tag contains no call. A call to any other function inside a dropped
//     statement, an abort argument or a condition is NOT dropped: it becomes KHelper "<callee>"
//     in evaluation position (fmt.* and the builtins len, cap count as pure);
//   - Loop must be: the deferred handler `defer func() { if r := recover(); r != nil { B } }()`
//     (-> RHandler B), then a bare `for { }` whose body is, in this order, the Parse call
//     `request, reqType, _, err := s.rp.Parse()`, the parse-error rule
//     `if err != nil { if err == common.E1 || .. { C } else { D } }` (-> PRule [E1;..] C D, the
//     errors as the model's constants, constgen errList), the dispatch `switch reqType { case
//     common.RequestX: body }` (-> DCase RtX body per case expression; a default clause and the
//     request types of common/datatypes.go that have no case are recorded), and the post-dispatch
//     rule `if err != nil { if common.IsAppError(err) { A } else { B } }` (-> QRule TIsAppError A
//     B). A piece that does not have its form becomes the ...Other constructor of its field with
//     a description; further statements go to ls_extra;
//   - abort (utils.go): the statements before the first range loop, the loop (CloseAllNonNil for
//     `for _, c := range toClose { if c != nil { c.Close() } }` over the first parameter), the
//     statements after it;
//   - for every KHelper whose callee is a function of package server: the operations in its body
//     that can panic (index, slice, type assertion, division, dereference, panic(), calls to other
//     functions of the package), as text.

import (
	"fmt"
	"go/ast"
	"go/parser"
	"go/token"
	"go/types"
	"os"
	"path/filepath"
	"strings"
)

func init() { commands["looptrans"] = looptrans }

var lpMethods = map[string]string{
	"Set": "OSet", "Add": "OAdd", "Replace": "OReplace", "Append": "OAppend", "Prepend": "OPrepend",
	"Delete": "ODelete", "Touch": "OTouch", "Get": "OGet", "GetE": "OGetE", "Gat": "OGat",
	"Noop": "ONoop", "Quit": "OQuit", "Version": "OVersion", "Stat": "OStat", "Unknown": "OUnknown",
}

type lpCtx struct {
	fs      *token.FileSet
	recv    string // receiver variable of Loop
	reqVar  string
	typeVar string
	errVar  string
	helpers []string // callees recorded by KHelper, in order of first appearance
}

// lpStr makes a Coq string literal
func lpStr(s string) string {
	s = strings.Join(strings.Fields(s), " ")
	if len(s) > 160 {
		s = s[:160] + "..."
	}
	return "\"" + strings.ReplaceAll(s, "\"", "'") + "\""
}

func (c *lpCtx) at(p token.Pos) string {
	pos := c.fs.Position(p)
	return fmt.Sprintf("%s:%d", filepath.Base(pos.Filename), pos.Line)
}

func (c *lpCtx) other(ctor string, n ast.Node, what string) string {
	return fmt.Sprintf("%s %s", ctor, lpStr(fmt.Sprintf("%s (%s)", what, c.at(n.Pos()))))
}

func lpList(items []string) string { return "[" + strings.Join(items, "; ") + "]" }

func lpIsIdent(e ast.Expr, name string) bool {
	id, ok := e.(*ast.Ident)
	return ok && id.Name == name
}

// lpPkgSel matches pkg.Name
func lpPkgSel(e ast.Expr) (pkg, name string, ok bool) {
	s, isSel := e.(*ast.SelectorExpr)
	if !isSel {
		return "", "", false
	}
	id, isId := s.X.(*ast.Ident)
	if !isId {
		return "", "", false
	}
	return id.Name, s.Sel.Name, true
}

func lpDroppedPkg(p string) bool { return p == "metrics" || p == "timer" || p == "log" || p == "fmt" }

// droppedCall: a call on metrics / timer / log / fmt
func (c *lpCtx) droppedCall(e ast.Expr) bool {
	call, ok := e.(*ast.CallExpr)
	if !ok {
		return false
	}
	pkg, _, ok := lpPkgSel(call.Fun)
	return ok && pkg != c.recv && lpDroppedPkg(pkg)
}

// calls: the callees of the calls inside e that are not dropped/pure, inner calls first
func (c *lpCtx) calls(e ast.Node) []string {
	var out []string
	if e == nil {
		return nil
	}
	var walk func(n ast.Node)
	walk = func(n ast.Node) {
		ast.Inspect(n, func(m ast.Node) bool {
			call, ok := m.(*ast.CallExpr)
			if !ok {
				return true
			}
			for _, a := range call.Args {
				walk(a)
			}
			if s, isSel := call.Fun.(*ast.SelectorExpr); isSel {
				if _, plain := s.X.(*ast.Ident); !plain {
					walk(s.X)
				}
			}
			pure := c.droppedCall(call) || lpIsIdent(call.Fun, "len") || lpIsIdent(call.Fun, "cap")
			if !pure {
				out = append(out, types.ExprString(call.Fun))
			}
			return false
		})
	}
	walk(e)
	return out
}

func (c *lpCtx) helperSteps(n ast.Node) []string {
	var out []string
	for _, h := range c.calls(n) {
		seen := false
		for _, x := range c.helpers {
			seen = seen || x == h
		}
		if !seen {
			c.helpers = append(c.helpers, h)
		}
		out = append(out, "KHelper "+lpStr(h))
	}
	return out
}

// orcaCall matches s.orca.M(args)
func (c *lpCtx) orcaCall(e ast.Expr) (method string, args []ast.Expr, ok bool) {
	call, isCall := e.(*ast.CallExpr)
	if !isCall {
		return
	}
	s, isSel := call.Fun.(*ast.SelectorExpr)
	if !isSel {
		return
	}
	pkg, field, isSel2 := lpPkgSel(s.X)
	if !isSel2 || pkg != c.recv || field != "orca" {
		return
	}
	return s.Sel.Name, call.Args, true
}

// orcaStep translates [err =] s.orca.M(args)
func (c *lpCtx) orcaStep(n ast.Node, m string, args []ast.Expr, assigned bool) []string {
	var pre []string
	for _, a := range args {
		pre = append(pre, c.helperSteps(a)...)
	}
	if m == "Error" {
		ea := ""
		if len(args) == 3 && lpIsIdent(args[2], c.errVar) {
			if p, nm, ok := lpPkgSel(args[1]); lpIsIdent(args[0], "nil") && ok && p == "common" && nm == "RequestUnknown" {
				ea = "ErrNilUnknown"
			} else if lpIsIdent(args[0], c.reqVar) && lpIsIdent(args[1], c.typeVar) {
				ea = "ErrReqType"
			}
		}
		if ea == "" {
			var as []string
			for _, a := range args {
				as = append(as, types.ExprString(a))
			}
			ea = "(" + c.other("ErrArgOther", n, strings.Join(as, ", ")) + ")"
		}
		if assigned {
			return append(pre, c.other("KOther", n, "the result of s.orca.Error is assigned"))
		}
		return append(pre, "KError "+ea)
	}
	meth, ok := lpMethods[m]
	if !ok {
		meth = "(OMethOther " + lpStr(m) + ")"
	}
	arg := ""
	if len(args) == 1 {
		if lpIsIdent(args[0], c.reqVar) {
			arg = "AReq"
		} else if ta, isTA := args[0].(*ast.TypeAssertExpr); isTA && ta.Type != nil && lpIsIdent(ta.X, c.reqVar) {
			if p, nm, ok := lpPkgSel(ta.Type); ok && p == "common" {
				arg = "(AReqAs " + lpStr(nm) + ")"
			}
		}
	}
	if arg == "" {
		var as []string
		for _, a := range args {
			as = append(as, types.ExprString(a))
		}
		arg = "(" + c.other("AArgOther", n, strings.Join(as, ", ")) + ")"
	}
	return append(pre, fmt.Sprintf("KCall %s %s %v", meth, arg, assigned))
}

func (c *lpCtx) steps(list []ast.Stmt) []string {
	var out []string
	for _, s := range list {
		out = append(out, c.step(s)...)
	}
	return out
}

// step translates one statement; the empty result means it was dropped
func (c *lpCtx) step(s ast.Stmt) []string {
	switch x := s.(type) {
	case nil:
		return nil
	case *ast.EmptyStmt:
		return nil
	case *ast.BlockStmt:
		return c.steps(x.List)
	case *ast.ExprStmt:
		call, ok := x.X.(*ast.CallExpr)
		if !ok {
			break
		}
		if c.droppedCall(call) {
			return c.helperSteps(call)
		}
		if lpIsIdent(call.Fun, "abort") {
			var pre []string
			for _, a := range call.Args {
				pre = append(pre, c.helperSteps(a)...)
			}
			if len(call.Args) == 2 {
				if p, f, ok := lpPkgSel(call.Args[0]); ok && p == c.recv && f == "conns" {
					return append(pre, "KAbort")
				}
			}
			return append(pre, c.other("KOther", x, "abort called with "+types.ExprString(call)))
		}
		if lpIsIdent(call.Fun, "panic") {
			var pre []string
			for _, a := range call.Args {
				pre = append(pre, c.helperSteps(a)...)
			}
			return append(pre, "KPanic")
		}
		if m, args, ok := c.orcaCall(call); ok {
			return c.orcaStep(x, m, args, false)
		}
	case *ast.AssignStmt:
		allDropped := len(x.Rhs) > 0
		for _, r := range x.Rhs {
			allDropped = allDropped && c.droppedCall(r)
		}
		if allDropped && (x.Tok == token.DEFINE || x.Tok == token.ASSIGN) {
			for _, l := range x.Lhs {
				if id, ok := l.(*ast.Ident); !ok || id.Name == c.errVar || id.Name == c.reqVar || id.Name == c.typeVar {
					return []string{c.other("KOther", x, "a metrics/timer/log value is assigned to "+types.ExprString(l))}
				}
			}
			var out []string
			for _, r := range x.Rhs {
				out = append(out, c.helperSteps(r)...)
			}
			return out
		}
		if x.Tok == token.ASSIGN && len(x.Lhs) == 1 && len(x.Rhs) == 1 && lpIsIdent(x.Lhs[0], c.errVar) {
			if m, args, ok := c.orcaCall(x.Rhs[0]); ok {
				return c.orcaStep(x, m, args, true)
			}
		}
	case *ast.BranchStmt:
		if x.Tok == token.CONTINUE && x.Label == nil {
			return []string{"KContinue"}
		}
	case *ast.ReturnStmt:
		if len(x.Results) == 0 {
			return []string{"KReturn"}
		}
	case *ast.IfStmt:
		if x.Init != nil {
			break
		}
		pre := c.helperSteps(x.Cond)
		t := c.steps(x.Body.List)
		e := c.step(x.Else)
		if len(pre) == 0 && len(t) == 0 && len(e) == 0 {
			return nil
		}
		return append(pre, fmt.Sprintf("KIf %s %s %s", lpStr(types.ExprString(x.Cond)), lpList(t), lpList(e)))
	case *ast.SwitchStmt:
		if x.Init != nil || len(c.calls(x.Tag)) > 0 {
			break
		}
		for _, cl := range x.Body.List {
			cc := cl.(*ast.CaseClause)
			for _, e := range cc.List {
				if len(c.calls(e)) > 0 {
					return []string{c.other("KOther", x, "switch with a call in a case expression")}
				}
			}
			if len(c.steps(cc.Body)) > 0 {
				return []string{c.other("KOther", x, "switch "+types.ExprString(x.Tag)+" with statements that are not dropped")}
			}
		}
		return nil
	}
	return []string{c.other("KOther", s, fmt.Sprintf("%T", s))}
}

// ---- the expected pieces ----

// errNotNil matches `err != nil`
func (c *lpCtx) errNotNil(e ast.Expr) bool {
	b, ok := e.(*ast.BinaryExpr)
	return ok && b.Op == token.NEQ && lpIsIdent(b.X, c.errVar) && lpIsIdent(b.Y, "nil")
}

// innerIf: stmt is `if err != nil { <one if statement> }` (dropped statements around it allowed)
func (c *lpCtx) innerIf(s ast.Stmt) (*ast.IfStmt, string) {
	x, ok := s.(*ast.IfStmt)
	if !ok {
		return nil, fmt.Sprintf("%T where `if %s != nil` was expected", s, c.errVar)
	}
	if x.Init != nil || x.Else != nil || !c.errNotNil(x.Cond) {
		return nil, "if " + types.ExprString(x.Cond) + " (with init or else, or not the test err != nil)"
	}
	var inner *ast.IfStmt
	for _, t := range x.Body.List {
		if len(c.step(t)) == 0 {
			continue
		}
		i, isIf := t.(*ast.IfStmt)
		if !isIf || inner != nil || i.Init != nil {
			return nil, "the body of `if err != nil` is not a single if/else: " + strings.Join(c.steps(x.Body.List), "; ")
		}
		inner = i
	}
	if inner == nil {
		return nil, "the body of `if err != nil` is empty"
	}
	return inner, ""
}

func (c *lpCtx) parseCall(s ast.Stmt) string {
	x, ok := s.(*ast.AssignStmt)
	if ok && x.Tok == token.DEFINE && len(x.Lhs) == 4 && len(x.Rhs) == 1 {
		if call, isCall := x.Rhs[0].(*ast.CallExpr); isCall && len(call.Args) == 0 {
			if sel, isSel := call.Fun.(*ast.SelectorExpr); isSel && sel.Sel.Name == "Parse" {
				if p, f, ok := lpPkgSel(sel.X); ok && p == c.recv && f == "rp" {
					r, rok := x.Lhs[0].(*ast.Ident)
					t, tok := x.Lhs[1].(*ast.Ident)
					e, eok := x.Lhs[3].(*ast.Ident)
					if rok && tok && eok && r.Name != "_" && t.Name != "_" && e.Name != "_" {
						c.reqVar, c.typeVar, c.errVar = r.Name, t.Name, e.Name
						return "PParse"
					}
				}
			}
		}
	}
	return c.other("PParseOther", s, fmt.Sprintf("%T", s))
}

func (c *lpCtx) parseRule(s ast.Stmt) string {
	inner, why := c.innerIf(s)
	if inner == nil {
		return c.other("PRuleOther", s, why)
	}
	errNames := map[string]bool{}
	for _, e := range errList {
		errNames[e.name] = true
	}
	var errs []string
	var flat func(e ast.Expr) bool
	flat = func(e ast.Expr) bool {
		switch b := e.(type) {
		case *ast.ParenExpr:
			return flat(b.X)
		case *ast.BinaryExpr:
			if b.Op == token.LOR {
				return flat(b.X) && flat(b.Y)
			}
			if b.Op == token.EQL {
				l, r := b.X, b.Y
				if !lpIsIdent(l, c.errVar) {
					l, r = r, l
				}
				if p, n, ok := lpPkgSel(r); lpIsIdent(l, c.errVar) && ok && p == "common" && strings.HasPrefix(n, "Err") && errNames["E"+n[3:]] {
					errs = append(errs, "E"+n[3:])
					return true
				}
			}
		}
		return false
	}
	if !flat(inner.Cond) {
		return c.other("PRuleOther", inner, "the test "+types.ExprString(inner.Cond)+" is not a disjunction of err == common.ErrX over the numbered errors")
	}
	return fmt.Sprintf("PRule %s\n      %s\n      %s", lpList(errs), lpList(c.steps(inner.Body.List)), lpList(c.step(inner.Else)))
}

func (c *lpCtx) postRule(s ast.Stmt) string {
	inner, why := c.innerIf(s)
	if inner == nil {
		return c.other("QRuleOther", s, why)
	}
	test := ""
	if call, ok := inner.Cond.(*ast.CallExpr); ok && len(call.Args) == 1 && lpIsIdent(call.Args[0], c.errVar) {
		if p, n, ok := lpPkgSel(call.Fun); ok && p == "common" && n == "IsAppError" {
			test = "TIsAppError"
		}
	}
	if test == "" {
		test = "(" + c.other("TTestOther", inner, types.ExprString(inner.Cond)) + ")"
	}
	return fmt.Sprintf("QRule %s %s %s", test, lpList(c.steps(inner.Body.List)), lpList(c.step(inner.Else)))
}

// dispatch translates `switch reqType {...}`; ok=false: s is not that switch
func (c *lpCtx) dispatch(s ast.Stmt, allTypes []string) (cases []string, def string, unhandled []string, ok bool) {
	x, isSw := s.(*ast.SwitchStmt)
	if !isSw || x.Init != nil || !lpIsIdent(x.Tag, c.typeVar) {
		return nil, "", nil, false
	}
	rtNames := map[string]bool{}
	for _, r := range reqTypes {
		rtNames[r.name] = true
	}
	def = "None"
	seen := map[string]bool{}
	for _, cl := range x.Body.List {
		cc := cl.(*ast.CaseClause)
		body := lpList(c.steps(cc.Body))
		if cc.List == nil {
			def = "(Some " + body + ")"
			continue
		}
		for _, e := range cc.List {
			p, n, isSel := lpPkgSel(e)
			if isSel && p == "common" && strings.HasPrefix(n, "Request") && rtNames["Rt"+n[7:]] {
				seen[n] = true
				cases = append(cases, fmt.Sprintf("DCase Rt%s %s", n[7:], body))
			} else {
				cases = append(cases, c.other("DCaseOther", e, "case "+types.ExprString(e)+": "+body))
			}
		}
	}
	for _, t := range allTypes {
		if !seen[t] {
			unhandled = append(unhandled, lpStr(t))
		}
	}
	return cases, def, unhandled, true
}

// lpRequestTypes reads the constants of type RequestType from common/datatypes.go
func lpRequestTypes(repo string) ([]string, error) {
	fs := token.NewFileSet()
	af, err := parser.ParseFile(fs, filepath.Join(repo, "common", "datatypes.go"), nil, 0)
	if err != nil {
		return nil, err
	}
	var out []string
	for _, d := range af.Decls {
		gd, ok := d.(*ast.GenDecl)
		if !ok || gd.Tok != token.CONST {
			continue
		}
		inBlock := false
		for _, sp := range gd.Specs {
			vs := sp.(*ast.ValueSpec)
			if vs.Type != nil {
				inBlock = lpIsIdent(vs.Type, "RequestType")
			} else if len(vs.Values) > 0 {
				inBlock = false
			}
			if inBlock {
				for _, n := range vs.Names {
					if n.Name != "_" {
						out = append(out, n.Name)
					}
				}
			}
		}
	}
	if len(out) == 0 {
		return nil, fmt.Errorf("no constants of type RequestType found in common/datatypes.go")
	}
	return out, nil
}

// lpPanicOps lists the operations of a function body that can panic
func lpPanicOps(fd *ast.FuncDecl, local map[string]*ast.FuncDecl) []string {
	var out []string
	ast.Inspect(fd.Body, func(n ast.Node) bool {
		switch x := n.(type) {
		case *ast.IndexExpr:
			out = append(out, "index "+types.ExprString(x))
		case *ast.SliceExpr:
			out = append(out, "slice "+types.ExprString(x))
		case *ast.TypeAssertExpr:
			if x.Type != nil {
				out = append(out, "assert "+types.ExprString(x))
			}
		case *ast.StarExpr:
			out = append(out, "deref "+types.ExprString(x))
		case *ast.BinaryExpr:
			if x.Op == token.QUO || x.Op == token.REM {
				out = append(out, "div "+types.ExprString(x))
			}
		case *ast.AssignStmt:
			if x.Tok == token.QUO_ASSIGN || x.Tok == token.REM_ASSIGN {
				out = append(out, "div "+types.ExprString(x.Lhs[0]))
			}
		case *ast.CallExpr:
			if id, ok := x.Fun.(*ast.Ident); ok {
				if id.Name == "panic" {
					out = append(out, "panic")
				} else if _, isLocal := local[id.Name]; isLocal {
					out = append(out, "call "+id.Name)
				}
			}
		}
		return true
	})
	return out
}

func (c *lpCtx) abortShape(fd *ast.FuncDecl) string {
	if fd == nil {
		return "mkAbort [] (CloseOther \"func abort not found in server/utils.go\") []"
	}
	ps := fd.Type.Params.List
	if fd.Recv != nil || len(ps) == 0 || len(ps[0].Names) == 0 {
		return "mkAbort [] (" + c.other("CloseOther", fd, "abort has no named first parameter") + ") []"
	}
	toClose := ps[0].Names[0].Name
	at, ok := ps[0].Type.(*ast.ArrayType)
	if !ok || at.Len != nil || types.ExprString(at.Elt) != "io.Closer" {
		return "mkAbort [] (" + c.other("CloseOther", fd, "the first parameter of abort is not a []io.Closer") + ") []"
	}
	var pre, post []ast.Stmt
	var loop *ast.RangeStmt
	for _, s := range fd.Body.List {
		if r, isRange := s.(*ast.RangeStmt); isRange && loop == nil {
			loop = r
		} else if loop == nil {
			pre = append(pre, s)
		} else {
			post = append(post, s)
		}
	}
	c.recv, c.errVar, c.reqVar, c.typeVar = "", "", "", ""
	lp := "CloseMissing"
	if loop != nil {
		lp = ""
		if v, ok := loop.Value.(*ast.Ident); ok && loop.Tok == token.DEFINE && (loop.Key == nil || lpIsIdent(loop.Key, "_")) &&
			lpIsIdent(loop.X, toClose) && len(loop.Body.List) == 1 {
			if i, isIf := loop.Body.List[0].(*ast.IfStmt); isIf && i.Init == nil && i.Else == nil && len(i.Body.List) == 1 {
				b, isBin := i.Cond.(*ast.BinaryExpr)
				es, isExpr := i.Body.List[0].(*ast.ExprStmt)
				if isBin && isExpr && b.Op == token.NEQ && lpIsIdent(b.X, v.Name) && lpIsIdent(b.Y, "nil") {
					if call, isCall := es.X.(*ast.CallExpr); isCall && len(call.Args) == 0 {
						if p, m, ok := lpPkgSel(call.Fun); ok && p == v.Name && m == "Close" && v.Name != "_" {
							lp = "CloseAllNonNil"
						}
					}
				}
			}
		}
		if lp == "" {
			var key, val string
			if loop.Key != nil {
				key = types.ExprString(loop.Key)
			}
			if loop.Value != nil {
				val = types.ExprString(loop.Value)
			}
			lp = "(" + c.other("CloseOther", loop, fmt.Sprintf("for %s, %s := range %s { %s }", key, val, types.ExprString(loop.X),
				strings.Join(c.steps(loop.Body.List), "; "))) + ")"
		}
	}
	return fmt.Sprintf("mkAbort %s %s %s", lpList(c.steps(pre)), lp, lpList(c.steps(post)))
}

// recoverShape matches defer func() { if r := recover(); r != nil { B } }()
func (c *lpCtx) recoverShape(s ast.Stmt) (string, bool) {
	d, ok := s.(*ast.DeferStmt)
	if !ok {
		return "", false
	}
	fl, ok := d.Call.Fun.(*ast.FuncLit)
	if !ok || len(d.Call.Args) != 0 {
		return c.other("ROther", s, "defer of "+types.ExprString(d.Call.Fun)), true
	}
	if len(fl.Body.List) != 1 {
		return c.other("ROther", s, fmt.Sprintf("the deferred function has %d statements: %s", len(fl.Body.List), strings.Join(c.steps(fl.Body.List), "; "))), true
	}
	i, ok := fl.Body.List[0].(*ast.IfStmt)
	if !ok || i.Else != nil || i.Init == nil {
		return c.other("ROther", s, "the deferred function is not `if r := recover(); r != nil { }`"), true
	}
	as, ok := i.Init.(*ast.AssignStmt)
	if !ok || as.Tok != token.DEFINE || len(as.Lhs) != 1 || len(as.Rhs) != 1 {
		return c.other("ROther", s, "the deferred function is not `if r := recover(); r != nil { }`"), true
	}
	r, rok := as.Lhs[0].(*ast.Ident)
	call, cok := as.Rhs[0].(*ast.CallExpr)
	b, bok := i.Cond.(*ast.BinaryExpr)
	if !rok || !cok || !bok || !lpIsIdent(call.Fun, "recover") || len(call.Args) != 0 ||
		b.Op != token.NEQ || !lpIsIdent(b.X, r.Name) || !lpIsIdent(b.Y, "nil") {
		return c.other("ROther", s, "the deferred function is not `if r := recover(); r != nil { }`"), true
	}
	return "RHandler " + lpList(c.steps(i.Body.List)), true
}

func looptrans(e *env) {
	repo := "/repo"
	if v := os.Getenv("VERIF_REPO"); v != "" {
		repo = v
	}
	fs := token.NewFileSet()
	c := &lpCtx{fs: fs, reqVar: "request", typeVar: "reqType", errVar: "err"}
	local := map[string]*ast.FuncDecl{}
	var loopFn, abortFn *ast.FuncDecl
	var perrs []string
	for _, f := range []string{"server/default.go", "server/utils.go"} {
		af, err := parser.ParseFile(fs, filepath.Join(repo, f), nil, 0)
		if err != nil {
			perrs = append(perrs, err.Error())
			continue
		}
		for _, d := range af.Decls {
			fd, ok := d.(*ast.FuncDecl)
			if !ok || fd.Body == nil {
				continue
			}
			if fd.Recv == nil {
				local[fd.Name.Name] = fd
				if fd.Name.Name == "abort" {
					abortFn = fd
				}
			} else if fd.Name.Name == "Loop" && len(fd.Recv.List) == 1 && typeString(fd.Recv.List[0].Type) == "*DefaultServer" {
				loopFn = fd
			}
		}
	}
	allTypes, terr := lpRequestTypes(repo)
	if terr != nil {
		perrs = append(perrs, terr.Error())
	}

	rec, pcall, prule, qrule, def := "RMissing", "PParseOther \"no for loop\"", "PRuleMissing", "QRuleMissing", "None"
	var cases, unhandled, extra []string
	haveDispatch := false
	for _, pe := range perrs {
		extra = append(extra, "KOther "+lpStr(pe))
	}
	if loopFn == nil {
		extra = append(extra, "KOther \"method Loop of DefaultServer not found in server/default.go\"")
	} else {
		if len(loopFn.Recv.List[0].Names) == 1 {
			c.recv = loopFn.Recv.List[0].Names[0].Name
		}
		if n := len(loopFn.Type.Params.List); n != 0 || loopFn.Type.Results != nil {
			extra = append(extra, c.other("KOther", loopFn, "Loop has parameters or results"))
		}
		var loop *ast.ForStmt
		for i, s := range loopFn.Body.List {
			if i == 0 {
				if r, ok := c.recoverShape(s); ok {
					rec = r
					continue
				}
			}
			if f, ok := s.(*ast.ForStmt); ok && loop == nil {
				loop = f
				if f.Init != nil || f.Cond != nil || f.Post != nil {
					extra = append(extra, c.other("KOther", f, "the loop is not a bare for { }"))
				}
				continue
			}
			if d, ok := s.(*ast.DeferStmt); ok {
				extra = append(extra, c.other("KOther", d, "defer "+types.ExprString(d.Call.Fun)))
				continue
			}
			extra = append(extra, c.step(s)...)
		}
		if loop != nil {
			// the statements of the body that are not dropped, in order: Parse, the parse-error rule,
			// the dispatch, the post-dispatch rule; anything else is extra
			stage := 0
			pcall = "PParseOther \"the for body is empty\""
			for i, s := range loop.Body.List {
				if i == 0 {
					pcall = c.parseCall(s)
					stage = 1
					continue
				}
				if len(c.step(s)) == 0 { // dropped
					continue
				}
				switch stage {
				case 1:
					prule = c.parseRule(s)
					stage = 2
					continue
				case 2:
					if cs, d, u, ok := c.dispatch(s, allTypes); ok {
						cases, def, unhandled, haveDispatch = cs, d, u, true
						stage = 3
						continue
					}
				case 3:
					if _, isIf := s.(*ast.IfStmt); isIf {
						qrule = c.postRule(s)
						stage = 4
						continue
					}
				}
				extra = append(extra, c.step(s)...)
			}
		}
	}
	if !haveDispatch {
		cases = append(cases, "DCaseOther \"no `switch reqType` after the parse-error rule\"")
	}
	abortS := c.abortShape(abortFn)
	var helpers []string
	for _, h := range c.helpers {
		if fd, ok := local[h]; ok {
			var ops []string
			for _, o := range lpPanicOps(fd, local) {
				ops = append(ops, lpStr(o))
			}
			helpers = append(helpers, fmt.Sprintf("mkHelper %s %s", lpStr(h), lpList(ops)))
		}
	}

	var sb strings.Builder
	sb.WriteString("(* GENERATED by harness looptrans from the SOURCE of /repo/server/default.go and /repo/server/utils.go\n" +
		"   — do not edit. The decisions of DefaultServer.Loop and abort as a value (rules:\n" +
		"   harness/cmd/rendharness/looptrans.go, types and meaning: proto/LoopShape.v); gen/LoopLink.v proves it\n" +
		"   equal to proto/LoopShape.v loop_model. *)\n")
	sb.WriteString("From Coq Require Import String.\nFrom Rend Require Import base.Bytes gen.Consts_gen proto.LoopShape.\n" +
		"Open Scope string_scope.\nOpen Scope list_scope.\nOpen Scope N_scope.\n\n")
	sb.WriteString("Definition loop_src : loop_shape := {|\n")
	fmt.Fprintf(&sb, "  ls_recover := %s;\n", rec)
	fmt.Fprintf(&sb, "  ls_parse := %s;\n", pcall)
	fmt.Fprintf(&sb, "  ls_parse_rule :=\n    %s;\n", prule)
	fmt.Fprintf(&sb, "  ls_dispatch := [\n    %s];\n", strings.Join(cases, ";\n    "))
	fmt.Fprintf(&sb, "  ls_default := %s;\n", def)
	fmt.Fprintf(&sb, "  ls_unhandled := %s;\n", lpList(unhandled))
	fmt.Fprintf(&sb, "  ls_post_rule := %s;\n", qrule)
	fmt.Fprintf(&sb, "  ls_extra := %s;\n", lpList(extra))
	fmt.Fprintf(&sb, "  ls_abort := %s;\n", abortS)
	fmt.Fprintf(&sb, "  ls_helpers := %s\n|}.\n", lpList(helpers))
	root := os.Getenv("VERIF_ROOT")
	if root == "" {
		root = "/verif"
	}
	writeIfChanged(filepath.Join(root, "coq", "gen", "Loop_gen.v"), []byte(sb.String()))
}
