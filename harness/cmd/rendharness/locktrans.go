package main

// locktrans: reads the SOURCE of rend's locking wrapper (orcas/locked.go) with go/parser on every
// run and extracts its LOCK DISCIPLINE as Gallina data (coq/gen/Locked_gen.v, types in
// coq/conc/LockShape.v): for every request method of *LockedOrca one `lock_shape`, plus the shapes
// of getlock, of the two constructors and of getNewLocks. coq/gen/LockedLink.v proves every
// extracted value equal to the table the hand-written models assume (LockShape.locked_model),
// conc/LockShapeProofs.v proves conc/LockInst.v `sections_of` and orca/Orcas.v `locked` to be what
// that table prescribes. A change to the discipline changes the value and breaks the link lemma.
//
// The extractor pattern-matches; it decides nothing. Every statement of a method body is
// classified (rules below); a statement that fits no rule makes the whole method `LOther "<source>"`,
// a recognised statement in an unexpected place or form makes the field it belongs to
// `<Field>Other "<description>"`. No `...Other` value is equal to a model entry.
//
// Statement kinds (l = receiver, req = the method's parameter, M = the method's own name):
//   getlock      v := l.getlock(K, B)  |  v = l.getlock(K, B)
//   lock/unlock  v.Lock()  |  v.Unlock()           deferunlock  defer v.Unlock()
//   call         x := l.wrapped.N(args)  |  x = l.wrapped.N(args)
//   retvar       return x                          retcall      return l.wrapped.N(args)
//   decl         var x T                           deferfunc    defer func() {...}()
//   for          for idx, key := range req.Keys {...}
//   in the loop: zerodef  x := uint32(0) | 0 | false
//                lastguard  if idx == len(req.Keys)-1 { x = req.F; ... }
//                subreq   x := common.GetRequest{...}
//                errbreak if x != nil { break }
// Fields:
//   (a) no `for`: no getlock and no Lock/Unlock: LNone; one getlock: LSingle; with a `for` over
//       req.Keys holding one getlock: LPerKey; everything else LOther.
//   (b) K: req.Key -> KeyOfReq; the loop's value variable -> KeyOfLoop; else KeyOther "<K>".
//   (c) B: false -> ModeWrite; true -> ModeRead; else ModeOther "<B>".
//   (e) AcquireBeforeCall: exactly one Lock(), on the getlock variable, as the statement right after
//       getlock, before the wrapped call.
//   (d) ReleaseDeferred: exactly one `defer v.Unlock()`, right after v.Lock(), no explicit Unlock.
//       ReleaseBeforeErrCheck: exactly one `v.Unlock()`, the statement right after the wrapped call,
//       before the errbreak; no defer.
//   (f) CallSame: one wrapped call, N = M, args = (req), and its result is what the method returns.
//       CallPerKeySub: one wrapped call in the loop, N = M, its argument is the subreq variable, whose
//       literal has exactly Keys: [][]byte{key}, Opaques: []uint32{req.Opaques[idx]},
//       Quiet: []bool{req.Quiet[idx]}, NoopOpaque: x, NoopEnd: y with x, y zerodef'd in the loop and
//       assigned req.NoopOpaque / req.NoopEnd only under the lastguard (zerodef < lastguard < subreq < call).
//   (g) the deferred function must be `if r := recover(); r != nil { BODY }` and precede the loop.
//       unlocks: BODY has `if v != nil { v.Unlock() }` with v the method-level `var v sync.Locker` that
//       the loop assigns (`=`) the getlock result to; repanics: BODY has `panic(r)` after it. Other
//       statements in BODY: PanicHandlerExtra.
//   stop: errbreak on the call's variable is the last statement of the loop, the call assigns (`=`) a
//       method-level `var ret error`, `return ret` directly follows the loop and ends the method.

import (
	"bytes"
	"fmt"
	"go/ast"
	"go/parser"
	"go/printer"
	"go/token"
	"os"
	"path/filepath"
	"strings"
)

func init() { commands["locktrans"] = locktrans }

// the request methods, in the order of LockShape.all_lmethods
var ltMethods = []string{"Set", "Add", "Replace", "Append", "Prepend", "Delete", "Touch", "Gat", "Get", "GetE",
	"Noop", "Quit", "Version", "Stat", "Unknown"}

type ltCtx struct {
	fs     *token.FileSet
	recv   string // receiver variable
	req    string // the request parameter
	method string
}

func ltSquash(s string) string { return strings.Join(strings.Fields(s), " ") }

func ltPrint(fs *token.FileSet, n ast.Node) string {
	var b bytes.Buffer
	printer.Fprint(&b, fs, n)
	return ltSquash(b.String())
}

func (c *ltCtx) src(n ast.Node) string { return ltPrint(c.fs, n) }

// coqStr: a Gallina string literal
func coqStr(s string) string {
	s = ltSquash(s)
	var b strings.Builder
	for _, r := range s {
		switch {
		case r == '"':
			b.WriteString(`""`)
		case r < 32 || r > 126:
			b.WriteByte('?')
		default:
			b.WriteRune(r)
		}
	}
	s = b.String()
	if len(s) > 400 {
		s = s[:400] + "..."
	}
	return `"` + s + `"%string`
}

func ltOther(ctor, format string, a ...interface{}) string {
	return "(" + ctor + " " + coqStr(fmt.Sprintf(format, a...)) + ")"
}

// same: is the expression e, as gofmt prints it, the expression written in text?
func (c *ltCtx) same(e ast.Expr, text string) bool {
	if e == nil {
		return false
	}
	t, err := parser.ParseExpr(text)
	if err != nil {
		return false
	}
	return c.src(e) == ltPrint(token.NewFileSet(), t)
}

// sameStmt: is s, as gofmt prints it, the (single-line) statement written in text?
func (c *ltCtx) sameStmt(s ast.Stmt, text string) bool {
	fs := token.NewFileSet()
	f, err := parser.ParseFile(fs, "t.go", "package p\nfunc _() {\n"+text+"\n}\n", 0)
	if err != nil {
		return false
	}
	l := f.Decls[0].(*ast.FuncDecl).Body.List
	return len(l) == 1 && c.src(s) == ltPrint(fs, l[0])
}

func isIdent(e ast.Expr, name string) bool {
	id, ok := e.(*ast.Ident)
	return ok && id.Name == name
}

// callOn matches x.name(args)
func callOn(e ast.Expr) (x ast.Expr, name string, args []ast.Expr, ok bool) {
	call, isCall := e.(*ast.CallExpr)
	if !isCall || call.Ellipsis != token.NoPos {
		return
	}
	x, name, ok = selOf(call.Fun)
	return x, name, call.Args, ok
}

// varCall matches v.name() for an identifier v
func varCall(e ast.Expr, name string) (v string, ok bool) {
	x, n, args, isCall := callOn(e)
	if !isCall || n != name || len(args) != 0 {
		return "", false
	}
	id, isId := x.(*ast.Ident)
	if !isId {
		return "", false
	}
	return id.Name, true
}

// wrappedCall matches l.wrapped.N(args)
func (c *ltCtx) wrappedCall(e ast.Expr) (n string, args []ast.Expr, ok bool) {
	x, n, args, isCall := callOn(e)
	if !isCall {
		return "", nil, false
	}
	x2, f, isSel := selOf(x)
	if !isSel || f != "wrapped" || !isIdent(x2, c.recv) {
		return "", nil, false
	}
	return n, args, true
}

type ltEv struct {
	kind    string
	v       string // the variable the statement is about
	define  bool
	a, b    ast.Expr // getlock arguments
	m       string   // wrapped method
	args    []ast.Expr
	fn      *ast.FuncLit
	fnArgs  int
	rng     *ast.RangeStmt
	zero    string            // zerodef: "0" or "false"
	assigns map[string]string // lastguard: variable -> field of req
	cl      *ast.CompositeLit
	typ     string
	stmt    ast.Stmt
}

// classify one statement; idx, key: the loop variables ("" outside the loop)
func (c *ltCtx) classify(s ast.Stmt, idx, key string) ltEv {
	ev := ltEv{kind: "other", stmt: s}
	switch x := s.(type) {
	case *ast.AssignStmt:
		if (x.Tok != token.DEFINE && x.Tok != token.ASSIGN) || len(x.Lhs) != 1 || len(x.Rhs) != 1 {
			return ev
		}
		id, ok := x.Lhs[0].(*ast.Ident)
		if !ok || id.Name == "_" {
			return ev
		}
		ev.v, ev.define = id.Name, x.Tok == token.DEFINE
		rhs := x.Rhs[0]
		if rx, n, args, ok := callOn(rhs); ok && n == "getlock" && isIdent(rx, c.recv) && len(args) == 2 {
			ev.kind, ev.a, ev.b = "getlock", args[0], args[1]
			return ev
		}
		if n, args, ok := c.wrappedCall(rhs); ok {
			ev.kind, ev.m, ev.args = "call", n, args
			return ev
		}
		if idx != "" && ev.define {
			switch {
			case c.same(rhs, "uint32(0)") || c.same(rhs, "0"):
				ev.kind, ev.zero = "zerodef", "0"
				return ev
			case c.same(rhs, "false"):
				ev.kind, ev.zero = "zerodef", "false"
				return ev
			}
			if cl, ok := rhs.(*ast.CompositeLit); ok && c.same(cl.Type, "common.GetRequest") {
				ev.kind, ev.cl = "subreq", cl
				return ev
			}
		}
	case *ast.ExprStmt:
		if v, ok := varCall(x.X, "Lock"); ok {
			ev.kind, ev.v = "lock", v
		} else if v, ok := varCall(x.X, "Unlock"); ok {
			ev.kind, ev.v = "unlock", v
		}
	case *ast.DeferStmt:
		if v, ok := varCall(x.Call, "Unlock"); ok {
			ev.kind, ev.v = "deferunlock", v
		} else if fn, ok := x.Call.Fun.(*ast.FuncLit); ok {
			ev.kind, ev.fn, ev.fnArgs = "deferfunc", fn, len(x.Call.Args)
		}
	case *ast.ReturnStmt:
		if len(x.Results) != 1 {
			return ev
		}
		if id, ok := x.Results[0].(*ast.Ident); ok && id.Name != "nil" {
			ev.kind, ev.v = "retvar", id.Name
		} else if n, args, ok := c.wrappedCall(x.Results[0]); ok {
			ev.kind, ev.m, ev.args = "retcall", n, args
		}
	case *ast.DeclStmt:
		gd, ok := x.Decl.(*ast.GenDecl)
		if !ok || gd.Tok != token.VAR || len(gd.Specs) != 1 {
			return ev
		}
		vs := gd.Specs[0].(*ast.ValueSpec)
		if len(vs.Names) != 1 || len(vs.Values) != 0 || vs.Type == nil {
			return ev
		}
		ev.kind, ev.v, ev.typ = "decl", vs.Names[0].Name, c.src(vs.Type)
	case *ast.RangeStmt:
		ev.kind, ev.rng = "for", x
	case *ast.IfStmt:
		if idx == "" || x.Init != nil || x.Else != nil {
			return ev
		}
		// if v != nil { break }
		if be, ok := x.Cond.(*ast.BinaryExpr); ok && be.Op == token.NEQ && isIdent(be.Y, "nil") && len(x.Body.List) == 1 {
			if id, ok := be.X.(*ast.Ident); ok {
				if br, ok := x.Body.List[0].(*ast.BranchStmt); ok && br.Tok == token.BREAK && br.Label == nil {
					ev.kind, ev.v = "errbreak", id.Name
					return ev
				}
			}
		}
		// if idx == len(req.Keys)-1 { x = req.F; ... }
		if c.same(x.Cond, fmt.Sprintf("%s == len(%s.Keys)-1", idx, c.req)) && len(x.Body.List) > 0 {
			as := map[string]string{}
			for _, t := range x.Body.List {
				a, ok := t.(*ast.AssignStmt)
				if !ok || a.Tok != token.ASSIGN || len(a.Lhs) != 1 || len(a.Rhs) != 1 {
					return ev
				}
				id, ok := a.Lhs[0].(*ast.Ident)
				rx, f, isSel := selOf(a.Rhs[0])
				if !ok || !isSel || !isIdent(rx, c.req) {
					return ev
				}
				if _, dup := as[id.Name]; dup {
					return ev
				}
				as[id.Name] = f
			}
			ev.kind, ev.assigns = "lastguard", as
		}
	}
	return ev
}

func ltIdx(evs []ltEv, kinds ...string) []int {
	var out []int
	for i, e := range evs {
		for _, k := range kinds {
			if e.kind == k {
				out = append(out, i)
			}
		}
	}
	return out
}

func ltKinds(evs []ltEv) string {
	var ks []string
	for _, e := range evs {
		ks = append(ks, e.kind)
	}
	return strings.Join(ks, " ")
}

func (c *ltCtx) keyClass(e ast.Expr, loopKey string) string {
	if c.same(e, c.req+".Key") {
		return "KeyOfReq"
	}
	if loopKey != "" && isIdent(e, loopKey) {
		return "KeyOfLoop"
	}
	return ltOther("KeyOther", "%s", c.src(e))
}

func (c *ltCtx) modeClass(e ast.Expr) string {
	switch {
	case isIdent(e, "false"):
		return "ModeWrite"
	case isIdent(e, "true"):
		return "ModeRead"
	}
	return ltOther("ModeOther", "%s", c.src(e))
}

// acquireClass: (e). ig: the getlock, ic: the wrapped call (-1: none)
func (c *ltCtx) acquireClass(evs []ltEv, ig, ic int) string {
	g := evs[ig]
	locks := ltIdx(evs, "lock")
	switch {
	case len(locks) == 0:
		return ltOther("AcquireOther", "Lock() is never called on the value returned by getlock")
	case len(locks) > 1:
		return ltOther("AcquireOther", "Lock() is called %d times", len(locks))
	case evs[locks[0]].v != g.v:
		return ltOther("AcquireOther", "%s.Lock() is not on the variable %s that holds the value returned by getlock", evs[locks[0]].v, g.v)
	case locks[0] != ig+1:
		return ltOther("AcquireOther", "%s.Lock() is not the statement right after getlock", g.v)
	case ic < 0:
		return ltOther("AcquireOther", "there is no wrapped call to precede")
	case ic < locks[0]:
		return ltOther("AcquireOther", "%s.Lock() comes after the wrapped call", g.v)
	}
	return "AcquireBeforeCall"
}

func (c *ltCtx) callSameClass(n string, args []ast.Expr) string {
	if n == c.method && len(args) == 1 && isIdent(args[0], c.req) {
		return "CallSame"
	}
	var as []string
	for _, a := range args {
		as = append(as, c.src(a))
	}
	return ltOther("CallOther", "%s.wrapped.%s(%s)", c.recv, n, strings.Join(as, ", "))
}

// whole: a method without a key loop
func (c *ltCtx) whole(evs []ltEv) string {
	for _, e := range evs {
		switch e.kind {
		case "getlock", "lock", "unlock", "deferunlock", "call", "retvar", "retcall":
		default:
			return ltOther("LOther", "unexpected statement (%s): %s", e.kind, c.src(e.stmt))
		}
	}
	gl := ltIdx(evs, "getlock")
	calls := ltIdx(evs, "call", "retcall")
	// (f)
	call := ""
	ic := -1
	switch {
	case len(calls) == 0:
		call = ltOther("CallOther", "the wrapped orchestrator is not called")
	case len(calls) > 1:
		call = ltOther("CallOther", "%d wrapped calls", len(calls))
		ic = calls[0]
	default:
		ic = calls[0]
		ce := evs[ic]
		last := evs[len(evs)-1]
		switch {
		case ce.kind == "retcall" && ic == len(evs)-1:
			call = c.callSameClass(ce.m, ce.args)
		case ce.kind == "call" && ic == len(evs)-2 && last.kind == "retvar" && last.v == ce.v:
			call = c.callSameClass(ce.m, ce.args)
		default:
			call = ltOther("CallOther", "the result of %s is not what the method returns: %s", c.src(ce.stmt), c.src(last.stmt))
		}
	}
	if len(gl) == 0 {
		if n := len(ltIdx(evs, "lock", "unlock", "deferunlock")); n > 0 {
			return ltOther("LOther", "Lock/Unlock without a getlock: %s", ltKinds(evs))
		}
		if len(evs) > 2 {
			return ltOther("LOther", "statement order: %s", ltKinds(evs))
		}
		return "LNone " + call
	}
	if len(gl) > 1 {
		return ltOther("LOther", "getlock is called %d times outside a key loop", len(gl))
	}
	ig := gl[0]
	g := evs[ig]
	key, mode := c.keyClass(g.a, ""), c.modeClass(g.b)
	acq := c.acquireClass(evs, ig, ic)
	// (d)
	rel := ""
	du, un := ltIdx(evs, "deferunlock"), ltIdx(evs, "unlock")
	switch {
	case len(du) == 1 && len(un) == 0 && evs[du[0]].v == g.v && du[0] > 0 && evs[du[0]-1].kind == "lock" && evs[du[0]-1].v == g.v:
		rel = "ReleaseDeferred"
	case len(du) == 0 && len(un) == 0:
		rel = ltOther("ReleaseOther", "the lock is never released")
	default:
		var parts []string
		for _, i := range du {
			parts = append(parts, fmt.Sprintf("defer %s.Unlock() as statement %d", evs[i].v, i+1))
		}
		for _, i := range un {
			where := "before"
			if ic >= 0 && i > ic {
				where = "after"
			}
			parts = append(parts, fmt.Sprintf("explicit %s.Unlock() %s the wrapped call", evs[i].v, where))
		}
		rel = ltOther("ReleaseOther", "%s (statements: %s)", strings.Join(parts, "; "), ltKinds(evs))
	}
	good := acq == "AcquireBeforeCall" && rel == "ReleaseDeferred" && call == "CallSame"
	if k := ltKinds(evs); good && k != "getlock lock deferunlock call retvar" && k != "getlock lock deferunlock retcall" {
		return ltOther("LOther", "statement order: %s", k)
	}
	return fmt.Sprintf("LSingle %s %s %s %s %s", key, mode, acq, rel, call)
}

// subreqClass: (f) for the key loop. ic: the wrapped call
func (c *ltCtx) subreqClass(evs []ltEv, ic int, idx, key string) string {
	ce := evs[ic]
	var as []string
	for _, a := range ce.args {
		as = append(as, c.src(a))
	}
	callSrc := fmt.Sprintf("%s.wrapped.%s(%s)", c.recv, ce.m, strings.Join(as, ", "))
	if ce.m != c.method || len(ce.args) != 1 {
		return ltOther("CallOther", "%s", callSrc)
	}
	arg, ok := ce.args[0].(*ast.Ident)
	if !ok {
		return ltOther("CallOther", "%s", callSrc)
	}
	if arg.Name == c.req {
		return ltOther("CallOther", "%s: the whole request is handed to the wrapped orchestrator for every key", callSrc)
	}
	var sub []int
	for _, i := range ltIdx(evs, "subreq") {
		if evs[i].v == arg.Name {
			sub = append(sub, i)
		}
	}
	if len(sub) != 1 || sub[0] > ic {
		return ltOther("CallOther", "%s: %s is not defined exactly once, before the call, by a common.GetRequest literal", callSrc, arg.Name)
	}
	is := sub[0]
	guards := ltIdx(evs, "lastguard")
	if len(guards) != 1 || guards[0] > is {
		return ltOther("CallOther", "%d `if %s == len(%s.Keys)-1` blocks before the sub-request is built (expected 1)", len(guards), idx, c.req)
	}
	guard := evs[guards[0]]
	zero := map[string]int{}
	for _, i := range ltIdx(evs, "zerodef") {
		if _, dup := zero[evs[i].v]; dup {
			return ltOther("CallOther", "%s is defined twice", evs[i].v)
		}
		zero[evs[i].v] = i
	}
	for v := range guard.assigns {
		if i, ok := zero[v]; !ok || i > guards[0] {
			return ltOther("CallOther", "the last-key block assigns %s, which is not a zero-initialised local of the loop body", v)
		}
	}
	want := map[string]string{
		"Keys":    fmt.Sprintf("[][]byte{%s}", key),
		"Opaques": fmt.Sprintf("[]uint32{%s.Opaques[%s]}", c.req, idx),
		"Quiet":   fmt.Sprintf("[]bool{%s.Quiet[%s]}", c.req, idx),
	}
	wantZero := map[string]string{"NoopOpaque": "0", "NoopEnd": "false"}
	seen := map[string]bool{}
	for _, el := range evs[is].cl.Elts {
		kv, ok := el.(*ast.KeyValueExpr)
		var f *ast.Ident
		if ok {
			f, ok = kv.Key.(*ast.Ident)
		}
		if !ok {
			return ltOther("CallOther", "sub-request literal without field names: %s", c.src(el))
		}
		if seen[f.Name] {
			return ltOther("CallOther", "sub-request field %s given twice", f.Name)
		}
		seen[f.Name] = true
		if w, ok := want[f.Name]; ok {
			if !c.same(kv.Value, w) {
				return ltOther("CallOther", "sub-request field %s: %s (expected %s)", f.Name, c.src(kv.Value), w)
			}
			continue
		}
		z, ok := wantZero[f.Name]
		if !ok {
			return ltOther("CallOther", "sub-request field %s: %s (unexpected field)", f.Name, c.src(kv.Value))
		}
		id, isId := kv.Value.(*ast.Ident)
		if !isId {
			return ltOther("CallOther", "sub-request field %s: %s (expected: zero, %s.%s only for the last key)", f.Name, c.src(kv.Value), c.req, f.Name)
		}
		zi, isZero := zero[id.Name]
		if !isZero || evs[zi].zero != z || guard.assigns[id.Name] != f.Name {
			return ltOther("CallOther", "sub-request field %s: %s is not `zero, %s.%s only for the last key`", f.Name, id.Name, c.req, f.Name)
		}
	}
	for _, f := range []string{"Keys", "Opaques", "Quiet", "NoopOpaque", "NoopEnd"} {
		if !seen[f] {
			return ltOther("CallOther", "sub-request field %s is not set", f)
		}
	}
	return "CallPerKeySub"
}

// panicClass: (g)
func (c *ltCtx) panicClass(top []ltEv, ifor int, g ltEv) string {
	ds := ltIdx(top, "deferfunc")
	if len(ds) == 0 {
		return "NoPanicHandler"
	}
	if len(ds) > 1 {
		return ltOther("PanicOther", "%d deferred functions", len(ds))
	}
	d := top[ds[0]]
	if ds[0] > ifor {
		return ltOther("PanicOther", "the handler is deferred after the key loop")
	}
	frame := func() string {
		return ltOther("PanicOther", "the deferred function is not `func() { if r := recover(); r != nil {...} }()`: %s", c.src(d.fn.Body))
	}
	if d.fnArgs != 0 || len(d.fn.Type.Params.List) != 0 || len(d.fn.Body.List) != 1 {
		return frame()
	}
	ifs, ok := d.fn.Body.List[0].(*ast.IfStmt)
	if !ok || ifs.Else != nil || ifs.Init == nil {
		return frame()
	}
	init, ok := ifs.Init.(*ast.AssignStmt)
	if !ok || init.Tok != token.DEFINE || len(init.Lhs) != 1 || len(init.Rhs) != 1 || !c.same(init.Rhs[0], "recover()") {
		return frame()
	}
	rid, ok := init.Lhs[0].(*ast.Ident)
	if !ok || !c.same(ifs.Cond, rid.Name+" != nil") {
		return frame()
	}
	unlocks, repanics := false, false
	var extra []string
	for _, s := range ifs.Body.List {
		if repanics {
			extra = append(extra, "unreachable after panic: "+c.src(s))
			continue
		}
		if es, ok := s.(*ast.ExprStmt); ok {
			if c.same(es.X, "panic("+rid.Name+")") {
				repanics = true
				continue
			}
			if v, ok := varCall(es.X, "Unlock"); ok {
				extra = append(extra, v+".Unlock() without the nil check")
				continue
			}
		}
		if is, ok := s.(*ast.IfStmt); ok && is.Init == nil && is.Else == nil && len(is.Body.List) == 1 {
			if es, ok := is.Body.List[0].(*ast.ExprStmt); ok {
				if v, ok := varCall(es.X, "Unlock"); ok && c.same(is.Cond, v+" != nil") {
					// v must be the variable the loop locks: declared at method level before the
					// handler and assigned (not redefined) in the loop
					declared := false
					for _, i := range ltIdx(top, "decl") {
						if top[i].v == v && i < ds[0] && top[i].typ == "sync.Locker" {
							declared = true
						}
					}
					switch {
					case unlocks:
						extra = append(extra, "second unlock: "+c.src(s))
					case v != g.v || g.define || !declared:
						extra = append(extra, fmt.Sprintf("the handler unlocks %s, which is not the method-level sync.Locker variable the loop assigns the getlock result to", v))
					default:
						unlocks = true
					}
					continue
				}
			}
		}
		extra = append(extra, c.src(s))
	}
	b := func(x bool) string {
		if x {
			return "true"
		}
		return "false"
	}
	if len(extra) > 0 {
		return fmt.Sprintf("(PanicHandlerExtra %s %s %s)", b(unlocks), b(repanics), coqStr(strings.Join(extra, "; ")))
	}
	return fmt.Sprintf("(PanicHandler %s %s)", b(unlocks), b(repanics))
}

// perKey: a method with a `for` statement
func (c *ltCtx) perKey(top []ltEv) string {
	for _, e := range top {
		switch e.kind {
		case "decl", "deferfunc", "for", "retvar":
		default:
			return ltOther("LOther", "unexpected statement outside the key loop (%s): %s", e.kind, c.src(e.stmt))
		}
	}
	fors := ltIdx(top, "for")
	if len(fors) != 1 {
		return ltOther("LOther", "%d loops", len(fors))
	}
	ifor := fors[0]
	rng := top[ifor].rng
	ki, ok1 := rng.Key.(*ast.Ident)
	vi, ok2 := rng.Value.(*ast.Ident)
	if !ok1 || !ok2 || rng.Tok != token.DEFINE || ki.Name == "_" || vi.Name == "_" || !c.same(rng.X, c.req+".Keys") {
		hdr := "for "
		if rng.Key != nil {
			hdr += c.src(rng.Key)
		}
		if rng.Value != nil {
			hdr += ", " + c.src(rng.Value)
		}
		return ltOther("LOther", "the loop is not `for idx, key := range %s.Keys`: %s %s range %s", c.req, hdr, rng.Tok, c.src(rng.X))
	}
	idx, key := ki.Name, vi.Name
	var evs []ltEv
	for _, s := range rng.Body.List {
		e := c.classify(s, idx, key)
		switch e.kind {
		case "getlock", "lock", "unlock", "deferunlock", "zerodef", "lastguard", "subreq", "call", "errbreak":
		default:
			return ltOther("LOther", "unexpected statement in the key loop (%s): %s", e.kind, c.src(s))
		}
		evs = append(evs, e)
	}
	gl := ltIdx(evs, "getlock")
	if len(gl) != 1 {
		return ltOther("LOther", "getlock is called %d times in the key loop", len(gl))
	}
	ig := gl[0]
	g := evs[ig]
	keyc, mode := c.keyClass(g.a, key), c.modeClass(g.b)
	calls := ltIdx(evs, "call")
	ic := -1
	call := ""
	switch {
	case len(calls) == 0:
		call = ltOther("CallOther", "the wrapped orchestrator is not called in the loop")
	case len(calls) > 1:
		ic = calls[0]
		call = ltOther("CallOther", "%d wrapped calls in the loop", len(calls))
	default:
		ic = calls[0]
		call = c.subreqClass(evs, ic, idx, key)
	}
	acq := c.acquireClass(evs, ig, ic)
	eb := ltIdx(evs, "errbreak")
	// (d)
	rel := ""
	du, un := ltIdx(evs, "deferunlock"), ltIdx(evs, "unlock")
	switch {
	case len(du) > 0:
		rel = ltOther("ReleaseOther", "defer %s.Unlock() inside the key loop: the lock of every key is held until the method returns%s", evs[du[0]].v,
			map[bool]string{true: "; and an explicit Unlock", false: ""}[len(un) > 0])
	case len(un) == 0:
		rel = ltOther("ReleaseOther", "no Unlock in the key loop")
	case len(un) > 1:
		rel = ltOther("ReleaseOther", "%d Unlock calls in the key loop", len(un))
	case evs[un[0]].v != g.v:
		rel = ltOther("ReleaseOther", "%s.Unlock() is not on the getlock variable %s", evs[un[0]].v, g.v)
	case ic < 0 || un[0] < ic:
		rel = ltOther("ReleaseOther", "%s.Unlock() before the wrapped call", g.v)
	case len(eb) > 0 && un[0] > eb[0]:
		rel = ltOther("ReleaseOther", "%s.Unlock() after the error check: skipped when the loop breaks on an error", g.v)
	case un[0] != ic+1:
		rel = ltOther("ReleaseOther", "%s.Unlock() is not the statement right after the wrapped call", g.v)
	case len(eb) == 0:
		rel = ltOther("ReleaseOther", "%s.Unlock() after the wrapped call, but there is no error check to precede", g.v)
	default:
		rel = "ReleaseBeforeErrCheck"
	}
	pan := c.panicClass(top, ifor, g)
	// stop
	stop := ""
	last := top[len(top)-1]
	switch {
	case ic < 0:
		stop = ltOther("StopOther", "no wrapped call")
	case len(eb) != 1:
		stop = ltOther("StopOther", "%d `if ret != nil { break }` in the loop", len(eb))
	case evs[eb[0]].v != evs[ic].v:
		stop = ltOther("StopOther", "the error check tests %s, the wrapped call's result is %s", evs[eb[0]].v, evs[ic].v)
	case eb[0] != len(evs)-1:
		stop = ltOther("StopOther", "the error check is not the last statement of the loop")
	case evs[ic].define:
		stop = ltOther("StopOther", "the loop defines its own %s: the method-level one is never assigned", evs[ic].v)
	case ifor != len(top)-2 || last.kind != "retvar" || last.v != evs[ic].v:
		stop = ltOther("StopOther", "the loop is not directly followed by a final `return %s`", evs[ic].v)
	default:
		declared := false
		for _, i := range ltIdx(top, "decl") {
			if top[i].v == evs[ic].v && top[i].typ == "error" && i < ifor {
				declared = true
			}
		}
		if !declared {
			stop = ltOther("StopOther", "%s is not a method-level `var %s error`", evs[ic].v, evs[ic].v)
		} else {
			stop = "StopOnError"
		}
	}
	good := acq == "AcquireBeforeCall" && rel == "ReleaseBeforeErrCheck" && call == "CallPerKeySub" && stop == "StopOnError"
	if good {
		var ks []string
		for _, e := range evs {
			if e.kind != "zerodef" && e.kind != "lastguard" && e.kind != "subreq" {
				ks = append(ks, e.kind)
			}
		}
		if k := strings.Join(ks, " "); k != "getlock lock call unlock errbreak" {
			return ltOther("LOther", "statement order in the key loop: %s", ltKinds(evs))
		}
	}
	return fmt.Sprintf("LPerKey %s %s %s %s %s %s %s", keyc, mode, acq, rel, call, pan, stop)
}

func ltFindFunc(af *ast.File, recvType, name string) *ast.FuncDecl {
	for _, d := range af.Decls {
		fd, ok := d.(*ast.FuncDecl)
		if !ok || fd.Name.Name != name || fd.Body == nil {
			continue
		}
		if recvType == "" && fd.Recv == nil {
			return fd
		}
		if recvType != "" && fd.Recv != nil && len(fd.Recv.List) == 1 && typeString(fd.Recv.List[0].Type) == "*"+recvType {
			return fd
		}
	}
	return nil
}

// paramNames: the names of all parameters, in order ("" if one is unnamed)
func ltParamNames(fd *ast.FuncDecl) []string {
	var out []string
	for _, f := range fd.Type.Params.List {
		if len(f.Names) == 0 {
			out = append(out, "")
		}
		for _, n := range f.Names {
			out = append(out, n.Name)
		}
	}
	return out
}

func ltMethodShape(fs *token.FileSet, af *ast.File, m string) string {
	fd := ltFindFunc(af, "LockedOrca", m)
	if fd == nil {
		return ltOther("LOther", "method %s of *LockedOrca not found", m)
	}
	ps := ltParamNames(fd)
	if len(fd.Recv.List[0].Names) != 1 || len(ps) != 1 || ps[0] == "" || ps[0] == "_" {
		return ltOther("LOther", "the method does not have a named receiver and exactly one named parameter")
	}
	if fd.Type.Results == nil || len(fd.Type.Results.List) != 1 || len(fd.Type.Results.List[0].Names) != 0 || typeString(fd.Type.Results.List[0].Type) != "error" {
		return ltOther("LOther", "the result is not a single unnamed error")
	}
	c := &ltCtx{fs: fs, recv: fd.Recv.List[0].Names[0].Name, req: ps[0], method: m}
	var evs []ltEv
	loops := 0
	for _, s := range fd.Body.List {
		e := c.classify(s, "", "")
		if e.kind == "for" {
			loops++
		}
		evs = append(evs, e)
	}
	if loops > 0 {
		return c.perKey(evs)
	}
	return c.whole(evs)
}

// ---- getlock, the constructors, getNewLocks ----

func ltGetlockShape(fs *token.FileSet, af *ast.File) string {
	fd := ltFindFunc(af, "LockedOrca", "getlock")
	if fd == nil {
		return ltOther("GetLockOther", "method getlock not found")
	}
	ps := ltParamNames(fd)
	if len(fd.Recv.List[0].Names) != 1 || len(ps) != 2 || ps[0] == "" || ps[1] == "" {
		return ltOther("GetLockOther", "getlock does not have a named receiver and two named parameters")
	}
	c := &ltCtx{fs: fs, recv: fd.Recv.List[0].Names[0].Name}
	l, key, read := c.recv, ps[0], ps[1]
	st := fd.Body.List
	if len(st) < 3 {
		return ltOther("GetLockOther", "%d statements", len(st))
	}
	head, sel, ret := st[:len(st)-2], st[len(st)-2], st[len(st)-1]
	want := []string{
		fmt.Sprintf("h := %s.hpool.Get().(hash.Hash32)", l),
		fmt.Sprintf("defer %s.hpool.Put(h)", l),
		"h.Reset()",
		fmt.Sprintf("h.Write(%s)", key),
		"bucket := int(h.Sum32())",
		fmt.Sprintf("bucket &= len(%s.locks) - 1", l),
	}
	bucket := "BucketHashMask"
	if len(head) != len(want) {
		bucket = ltOther("BucketOther", "%d statements before the table selection (expected %d)", len(head), len(want))
	} else {
		for i, w := range want {
			if !c.sameStmt(head[i], w) {
				bucket = ltOther("BucketOther", "%s (expected: %s)", c.src(head[i]), w)
				break
			}
		}
	}
	table := func(e ast.Expr) string {
		ix, ok := e.(*ast.IndexExpr)
		if ok && isIdent(ix.Index, "bucket") {
			switch {
			case c.same(ix.X, l+".locks"):
				return "FLocks"
			case c.same(ix.X, l+".rlocks"):
				return "FRlocks"
			}
		}
		return ltOther("FTabOther", "%s", c.src(e))
	}
	ifs, ok := sel.(*ast.IfStmt)
	if !ok || ifs.Init != nil || ifs.Else != nil || !isIdent(ifs.Cond, read) || len(ifs.Body.List) != 1 {
		return ltOther("GetLockOther", "the statement before the final return is not `if %s { return ... }`: %s", read, c.src(sel))
	}
	r1, ok1 := ifs.Body.List[0].(*ast.ReturnStmt)
	r2, ok2 := ret.(*ast.ReturnStmt)
	if !ok1 || !ok2 || len(r1.Results) != 1 || len(r2.Results) != 1 {
		return ltOther("GetLockOther", "table selection is not two single-value returns: %s %s", c.src(sel), c.src(ret))
	}
	return fmt.Sprintf("GetLock %s %s %s", bucket, table(r1.Results[0]), table(r2.Results[0]))
}

func ltCtorShape(fs *token.FileSet, af *ast.File, name string, existing bool) string {
	fd := ltFindFunc(af, "", name)
	if fd == nil {
		return ltOther("CtorOther", "function %s not found", name)
	}
	c := &ltCtx{fs: fs}
	ps := ltParamNames(fd)
	var lits []*ast.CompositeLit
	ast.Inspect(fd.Body, func(n ast.Node) bool {
		if cl, ok := n.(*ast.CompositeLit); ok && isIdent(cl.Type, "LockedOrca") {
			lits = append(lits, cl)
		}
		return true
	})
	if len(lits) != 1 {
		return ltOther("CtorOther", "%d LockedOrca literals", len(lits))
	}
	fields := map[string]ast.Expr{}
	for _, el := range lits[0].Elts {
		kv, ok := el.(*ast.KeyValueExpr)
		var f *ast.Ident
		if ok {
			f, ok = kv.Key.(*ast.Ident)
		}
		if !ok || fields[f.Name] != nil {
			return ltOther("CtorOther", "LockedOrca literal: %s", c.src(lits[0]))
		}
		fields[f.Name] = kv.Value
	}
	if len(fields) != 4 || fields["wrapped"] == nil || fields["locks"] == nil || fields["rlocks"] == nil || fields["hpool"] == nil {
		return ltOther("CtorOther", "LockedOrca literal does not set exactly wrapped, locks, rlocks, hpool: %s", c.src(lits[0]))
	}
	if len(ps) < 1 || !c.same(fields["wrapped"], ps[0]+"(l1, l2, res)") {
		return ltOther("CtorOther", "wrapped: %s", c.src(fields["wrapped"]))
	}
	table := func(e ast.Expr) (string, string) {
		ix, ok := e.(*ast.IndexExpr)
		if !ok {
			return ltOther("GTabOther", "%s", c.src(e)), ""
		}
		switch {
		case isIdent(ix.X, "locks"):
			return "GLocks", c.src(ix.Index)
		case isIdent(ix.X, "rlocks"):
			return "GRlocks", c.src(ix.Index)
		}
		return ltOther("GTabOther", "%s", c.src(e)), c.src(ix.Index)
	}
	lt, li := table(fields["locks"])
	rt, ri := table(fields["rlocks"])
	slot := ""
	switch {
	case li != ri || li == "":
		slot = ltOther("SlotOther", "locks[%s], rlocks[%s]", li, ri)
	case existing:
		if len(ps) == 2 && li == ps[1] {
			slot = "SlotExisting"
		} else {
			slot = ltOther("SlotOther", "%s is not the lock set parameter", li)
		}
	default:
		found := 0
		if len(ps) == 3 {
			for _, s := range fd.Body.List {
				if c.sameStmt(s, fmt.Sprintf("%s := getNewLocks(%s, %s)", li, ps[1], ps[2])) {
					found++
				}
			}
		}
		if found == 1 {
			slot = "SlotNew"
		} else {
			slot = ltOther("SlotOther", "%s is not defined once by getNewLocks(multipleReaders, concurrency)", li)
		}
	}
	// hpool: <id>, <id> := &sync.Pool{New: func() interface{} { return fnv.New32a() }}
	hash := ltOther("HashOther", "hpool: %s", c.src(fields["hpool"]))
	if hp, ok := fields["hpool"].(*ast.Ident); ok {
		n := 0
		for _, s := range fd.Body.List {
			as, ok := s.(*ast.AssignStmt)
			if !ok || len(as.Lhs) != 1 || len(as.Rhs) != 1 || !isIdent(as.Lhs[0], hp.Name) {
				continue
			}
			n++
			hash = ltOther("HashOther", "%s", c.src(as.Rhs[0]))
			ue, ok := as.Rhs[0].(*ast.UnaryExpr)
			if !ok || ue.Op != token.AND || as.Tok != token.DEFINE {
				continue
			}
			cl, ok := ue.X.(*ast.CompositeLit)
			if !ok || !c.same(cl.Type, "sync.Pool") || len(cl.Elts) != 1 {
				continue
			}
			kv, ok := cl.Elts[0].(*ast.KeyValueExpr)
			if !ok || !isIdent(kv.Key, "New") {
				continue
			}
			fn, ok := kv.Value.(*ast.FuncLit)
			if !ok || len(fn.Body.List) != 1 {
				continue
			}
			rs, ok := fn.Body.List[0].(*ast.ReturnStmt)
			if ok && len(rs.Results) == 1 && c.same(rs.Results[0], "fnv.New32a()") {
				hash = "HashFnv32a"
			}
		}
		if n != 1 {
			hash = ltOther("HashOther", "%s is assigned %d times", hp.Name, n)
		}
	}
	return fmt.Sprintf("Ctor %s %s %s %s", lt, rt, slot, hash)
}

func ltNewLocksShape(fs *token.FileSet, af *ast.File) string {
	fd := ltFindFunc(af, "", "getNewLocks")
	if fd == nil {
		return ltOther("NewLocksOther", "function getNewLocks not found")
	}
	c := &ltCtx{fs: fs}
	ps := ltParamNames(fd)
	st := fd.Body.List
	if len(ps) != 2 || len(st) != 6 {
		return ltOther("NewLocksOther", "%d parameters, %d statements (expected 2, 6)", len(ps), len(st))
	}
	multi, conc := ps[0], ps[1]
	if !c.sameStmt(st[0], "slot = atomic.AddUint32(&curslot, 1)") {
		return ltOther("NewLocksOther", "%s", c.src(st[0]))
	}
	if g, ok := st[1].(*ast.IfStmt); !ok || g.Init != nil || g.Else != nil || !c.same(g.Cond, "slot > maxLockSets") || len(g.Body.List) != 1 ||
		!strings.HasPrefix(c.src(g.Body.List[0]), "panic(") {
		return ltOther("NewLocksOther", "%s", c.src(st[1]))
	}
	if r, ok := st[5].(*ast.ReturnStmt); !ok || len(r.Results) != 0 {
		return ltOther("NewLocksOther", "%s", c.src(st[5]))
	}
	size := "SizePow2"
	for i, t := range []string{"locks", "rlocks"} {
		if !c.sameStmt(st[2+i], fmt.Sprintf("%s[slot] = make([]sync.Locker, 1<<%s)", t, conc)) {
			size = ltOther("SizeOther", "%s", c.src(st[2+i]))
			break
		}
	}
	ifs, ok := st[4].(*ast.IfStmt)
	if !ok || ifs.Init != nil || !isIdent(ifs.Cond, multi) {
		return ltOther("NewLocksOther", "%s", c.src(st[4]))
	}
	pair := func(b ast.Stmt) string {
		blk, ok := b.(*ast.BlockStmt)
		if !ok || len(blk.List) != 1 {
			return ltOther("PairOther", "%s", c.src(b))
		}
		rng, ok := blk.List[0].(*ast.RangeStmt)
		if !ok || rng.Value != nil || rng.Tok != token.DEFINE || !c.same(rng.X, "locks[slot]") || len(rng.Body.List) != 3 {
			return ltOther("PairOther", "%s", c.src(b))
		}
		ix, ok := rng.Key.(*ast.Ident)
		if !ok {
			return ltOther("PairOther", "%s", c.src(b))
		}
		i := ix.Name
		is := func(a, b2, d string) bool {
			return c.sameStmt(rng.Body.List[0], a) && c.sameStmt(rng.Body.List[1], fmt.Sprintf("locks[slot][%s] = %s", i, b2)) &&
				c.sameStmt(rng.Body.List[2], fmt.Sprintf("rlocks[slot][%s] = %s", i, d))
		}
		switch {
		case is("temp := &sync.RWMutex{}", "temp", "temp.RLocker()"):
			return "PairRW"
		case is("temp := &sync.Mutex{}", "temp", "temp"):
			return "PairMutex"
		}
		return ltOther("PairOther", "%s", c.src(rng.Body))
	}
	pm := pair(ifs.Body)
	psingle := ltOther("PairOther", "no else branch")
	if ifs.Else != nil {
		psingle = pair(ifs.Else)
	}
	return fmt.Sprintf("NewLocks %s %s %s", size, pm, psingle)
}

func locktrans(e *env) {
	repo := "/repo"
	if v := os.Getenv("VERIF_REPO"); v != "" {
		repo = v
	}
	var sb strings.Builder
	sb.WriteString("(* GENERATED by harness locktrans from the SOURCE of /repo/orcas/locked.go — do not edit.\n" +
		"   The lock discipline of every request method of *LockedOrca, of getlock, of the constructors and of\n" +
		"   getNewLocks, as data (types: conc/LockShape.v, extraction rules: harness/cmd/rendharness/locktrans.go);\n" +
		"   gen/LockedLink.v proves every value equal to the model table of conc/LockShape.v. *)\n")
	sb.WriteString("From Coq Require Import String.\nFrom Rend Require Import conc.LockShape.\n\n")
	fs := token.NewFileSet()
	af, err := parser.ParseFile(fs, filepath.Join(repo, "orcas", "locked.go"), nil, 0)
	other := 0
	emit := func(name, typ, val string) {
		if strings.Contains(val, "Other ") || strings.Contains(val, "PanicHandlerExtra") {
			other++
			fmt.Fprintf(os.Stderr, "locktrans: %s: %s\n", name, val)
		}
		fmt.Fprintf(&sb, "Definition %s : %s :=\n  %s.\n", name, typ, val)
	}
	for _, m := range ltMethods {
		v := ""
		if err != nil {
			v = ltOther("LOther", "orcas/locked.go does not parse: %v", err)
		} else {
			v = ltMethodShape(fs, af, m)
		}
		fmt.Fprintf(&sb, "(* func (l *LockedOrca) %s *)\n", m)
		emit("locked_"+m+"_src", "lock_shape", v)
	}
	sb.WriteString("\n")
	if err != nil {
		msg := fmt.Sprintf("orcas/locked.go does not parse: %v", err)
		emit("getlock_src", "getlock_shape", ltOther("GetLockOther", "%s", msg))
		emit("ctor_Locked_src", "ctor_shape", ltOther("CtorOther", "%s", msg))
		emit("ctor_LockedWithExisting_src", "ctor_shape", ltOther("CtorOther", "%s", msg))
		emit("getNewLocks_src", "newlocks_shape", ltOther("NewLocksOther", "%s", msg))
	} else {
		emit("getlock_src", "getlock_shape", ltGetlockShape(fs, af))
		emit("ctor_Locked_src", "ctor_shape", ltCtorShape(fs, af, "Locked", false))
		emit("ctor_LockedWithExisting_src", "ctor_shape", ltCtorShape(fs, af, "LockedWithExisting", true))
		emit("getNewLocks_src", "newlocks_shape", ltNewLocksShape(fs, af))
	}
	fmt.Fprintf(&sb, "\n(* %d of %d shapes contain an unrecognised part *)\n", other, len(ltMethods)+4)
	root := os.Getenv("VERIF_ROOT")
	if root == "" {
		root = "/verif"
	}
	writeIfChanged(filepath.Join(root, "coq", "gen", "Locked_gen.v"), []byte(sb.String()))
}
