package main

import (
	"bufio"
	"bytes"
	"encoding/binary"
	"encoding/json"
	"fmt"
	"io"
	"net"
	"os"
	"os/exec"
	"runtime"
	"sort"
	"strings"
	"sync"
	"sync/atomic"
	"time"

	"github.com/netflix/rend/common"
	"github.com/netflix/rend/handlers/memcached/chunked"
	"verifharness/fakemc"
	"verifharness/gal"
	"verifharness/rig"
	"verifharness/stack"
)

// c10h: the REAL chunked handler (handlers/memcached/chunked) driven directly over the fake
// memcached with a fault plan armed: one case = one handler call under faults (any backend
// request of the call answered with an error status, or the connection cut before / after the
// request is applied). Compared with the faulty interpreter of coq/handlers/ChunkedFaults.v and
// judged by the oracles of coq/checks/Check10h.v.
//
// The handler calls of the cases run in CHILD processes (sub-command c10hchild): the handler's Get
// does its work in a goroutine of its own, a panic there cannot be recovered by the caller and
// takes the whole process down. The parent enumerates the case descriptions, hands them to a
// child in batches over stdin and reads one line per finished case back; a child that dies is
// an observation about the case it was running (a GoFailure with that case as replay input).
func init() {
	commands["c10h"] = func(e *env) { c10h(e) }
	commands["c10hchild"] = func(e *env) { c10hChild(e) }
}

type c10hFault struct {
	Idx    int    `json:"idx"`   // index of the backend request within the handler call
	Kind   string `json:"fault"` // status | close-before | close-after-apply
	Status uint16 `json:"status,omitempty"`
}

// c10hCase describes one case completely (it is also the replay input).
type c10hCase struct {
	Cmd     string `json:"cmd"`     // set add replace append prepend delete touch get gat get2
	Key     string `json:"key"`     // the client key the command names (get2: the first of the two)
	Present bool   `json:"present"` // the key holds the old value before the call
	OldLen  int    `json:"old_len"`
	SeedOld uint64 `json:"seed_old"`
	NewLen  int    `json:"new_len,omitempty"` // set / add / replace
	SeedNew uint64 `json:"seed_new,omitempty"`
	CatLen  int    `json:"cat_len,omitempty"` // append / prepend
	SeedCat uint64 `json:"seed_cat,omitempty"`
	TTL     uint32 `json:"ttl,omitempty"`
	// get2 only: ONE Get request names Key and then Key2 (opaque 100+i, quiet i%2==1). Of the two,
	// the client key "k2" always holds a value of K2Len bytes (SeedK2, flags 0x33); Present / OldLen /
	// SeedOld describe the other one.
	Key2   string `json:"key2,omitempty"`
	K2Len  int    `json:"k2_len,omitempty"`
	SeedK2 uint64 `json:"seed_k2,omitempty"`
	// Noops: the request indices that are noops in the fault-free run of the call; an injected
	// status reply to one of them carries an empty body (the handler does not drain a noop's body)
	Noops []int       `json:"noop_idx,omitempty"`
	Plan  []c10hFault `json:"plan"`
}

const c10hOther = "zz"
const c10hK2 = "k2"

// named: the client keys the call names, in request order
func (c c10hCase) named() [][]byte {
	ks := [][]byte{[]byte(c.Key)}
	if c.Cmd == "get2" {
		ks = append(ks, []byte(c.Key2))
	}
	return ks
}

// c10hConn wraps the handler's end of the in-memory pipe: once a Read has returned an error every
// Write fails with io.ErrClosedPipe. When the fake backend cuts the connection the two directions
// of the in-memory pipe are closed one after the other ("peer closed" is seen by the reader a
// moment before the writer); without this the outcome of a write that follows a failed read would
// depend on goroutine scheduling. On a socket a write after the peer's close fails as well.
type c10hConn struct {
	net.Conn
	readFailed int32
}

func (c *c10hConn) Read(b []byte) (int, error) {
	n, err := c.Conn.Read(b)
	if err != nil {
		atomic.StoreInt32(&c.readFailed, 1)
	}
	return n, err
}

func (c *c10hConn) Write(b []byte) (int, error) {
	if atomic.LoadInt32(&c.readFailed) != 0 {
		return 0, io.ErrClosedPipe
	}
	return c.Conn.Write(b)
}

func c10hErrOpt(err error) string {
	if err == nil {
		return "None"
	}
	i := errIndex(err)
	if i < 0 || !common.IsAppError(err) {
		return "(Some EIO)"
	}
	return "(Some " + errList[i].name + ")"
}

// c10hGet runs a single-key Get and returns the hres Gallina (both channels drained).
func c10hGet(h chunked.Handler, key []byte, opaque uint32) string {
	return c10hGetReq(h, common.GetRequest{Keys: [][]byte{keyWithSpare(key, 0)}, Opaques: []uint32{opaque}, Quiet: []bool{false}})
}

// c10hGetMulti: one Get naming all of keys, c04 conventions (opaque 100+i, quiet i%2==1)
func c10hGetMulti(h chunked.Handler, keys [][]byte) string {
	var req common.GetRequest
	for i, k := range keys {
		req.Keys = append(req.Keys, keyWithSpare(k, 0))
		req.Opaques = append(req.Opaques, uint32(100+i))
		req.Quiet = append(req.Quiet, i%2 == 1)
	}
	return c10hGetReq(h, req)
}

func c10hGetReq(h chunked.Handler, req common.GetRequest) string {
	dc, ec := h.Get(req)
	var rs []string
	var gerr error
	for dc != nil || ec != nil {
		select {
		case r, ok := <-dc:
			if !ok {
				dc = nil
			} else {
				rs = append(rs, gresGallina(r.Key, r.Data, r.Flags, r.Opaque, r.Quiet, r.Miss))
			}
		case e, ok := <-ec:
			if !ok {
				ec = nil
			} else {
				gerr = e
			}
		}
	}
	return gal.App("HVals", gal.List(rs), c10hErrOpt(gerr))
}

func c10hGat(h chunked.Handler, key []byte, ttl uint32) string {
	r, err := h.GAT(common.GATRequest{Key: keyWithSpare(key, 0), Exptime: ttl, Opaque: 77})
	if err != nil {
		return errGallina(err)
	}
	return gal.App("HVals", gal.List([]string{gresGallina(r.Key, r.Data, r.Flags, r.Opaque, r.Quiet, r.Miss)}), "None")
}

func c10hFaultGallina(f c10hFault) string {
	var g string
	switch f.Kind {
	case "status":
		g = gal.App("CFStatus", gal.N(uint64(f.Status)))
	case "close-before":
		g = gal.App("CFBreak", "false")
	default:
		g = gal.App("CFBreak", "true")
	}
	// the index is a Coq nat (list (nat * cfault)), the case files open N_scope
	return gal.Pair(fmt.Sprintf("%d%%nat", f.Idx), g)
}

// c10hWithin runs f in a goroutine; false when it did not finish within d. panicked reports a
// recovered panic of f.
func c10hWithin(d time.Duration, f func()) (finished, panicked bool) {
	done := make(chan bool, 1)
	go func() {
		p := false
		defer func() {
			if r := recover(); r != nil {
				p = true
			}
			done <- p
		}()
		f()
	}()
	select {
	case p := <-done:
		return true, p
	case <-time.After(d):
		return false, false
	}
}

type c10hOut struct {
	coq   string
	nreq  int   // backend requests logged during the call
	noops []int // which of them are noops
	res   string
}

// c10hPhase, when set (in the child process), is told which part of a case starts: should the
// process die, the parent knows where.
var c10hPhase func(string)

func c10hMark(p string) {
	if c10hPhase != nil {
		c10hPhase(p)
	}
}

// runC10h runs one case. ok=false: the second changed during the case (caller retries).
func runC10h(c c10hCase) (out c10hOut, ok bool, fail *rig.GoFailure) {
	key := []byte(c.Key)
	names := c.named()
	ds := 1184 - 71 - len(key) - 16
	fk := fakemc.New()
	fk.RealClock = func() int64 { return time.Now().Unix() }

	// 1. setup, fault-free, through a real handler
	c10hMark("setup")
	hs := chunked.NewHandler(fk.Pipe())
	fin, pan := c10hWithin(10*time.Second, func() {
		if err := hs.Set(common.SetRequest{Key: []byte(c10hOther), Data: genBytes(99, ds+10), Flags: 9, Exptime: 0}); err != nil {
			rig.Die("c10h setup: set of the bystander key: %v", err)
		}
		varKey := key // the key whose state Present / OldLen describe
		if c.Cmd == "get2" {
			if err := hs.Set(common.SetRequest{Key: []byte(c10hK2), Data: genBytes(c.SeedK2, c.K2Len), Flags: 0x33, Exptime: 0}); err != nil {
				rig.Die("c10h setup: set of the value of k2: %v", err)
			}
			if c.Key == c10hK2 {
				varKey = []byte(c.Key2)
			}
		}
		if c.Present {
			if err := hs.Set(common.SetRequest{Key: keyWithSpare(varKey, 0), Data: genBytes(c.SeedOld, c.OldLen), Flags: 0x2A, Exptime: 0}); err != nil {
				rig.Die("c10h setup: set of the old value: %v", err)
			}
		}
	})
	hs.Close()
	if !fin || pan {
		rig.Die("c10h setup did not complete (finished=%v panicked=%v)", fin, pan)
	}
	fk.TakeLog()

	// 2. state before
	pre := stack.DumpGallina(fk)
	bkeySet := map[string]bool{}
	for _, k := range fk.Keys() {
		bkeySet[k] = true
	}
	if c.Cmd == "get2" {
		// the metadata keys of both named keys, also of an absent one the call never got to
		for _, k := range names {
			bkeySet[string(k)+"-meta"] = true
		}
	}
	before := time.Now().Unix()

	// 3. arm the plan
	noop := map[int]bool{}
	for _, i := range c.Noops {
		noop[i] = true
	}
	base := fk.Seq()
	for _, f := range c.Plan {
		var ff fakemc.Fault
		switch f.Kind {
		case "status":
			ff = fakemc.Fault{Kind: fakemc.FStatus, Status: f.Status}
			if noop[f.Idx] {
				ff.Body = []byte{}
			}
		case "close-before":
			ff = fakemc.Fault{Kind: fakemc.FCloseBefore}
		case "close-after-apply":
			ff = fakemc.Fault{Kind: fakemc.FCloseAfterApply}
		default:
			rig.Die("c10h: unknown fault kind %q", f.Kind)
		}
		fk.SetFault(base+f.Idx, ff)
	}

	// 4. the call under faults
	conn := &c10hConn{Conn: fk.Pipe()}
	h := chunked.NewHandler(conn)
	defer h.Close()
	op := hOp{Kind: c.Cmd, Key: 0, Keys: []int{0}}
	if c.Cmd == "get2" {
		op = hOp{Kind: "get", Key: 0, Keys: []int{0, 1}}
	}
	var data []byte
	switch c.Cmd {
	case "set", "add", "replace":
		data = genBytes(c.SeedNew, c.NewLen)
		op.Flags = 0x51
	case "append", "prepend":
		data = genBytes(c.SeedCat, c.CatLen)
	}
	reqG := hreqGallina(op, names, data, c.TTL)
	var hres string
	c10hMark("call")
	finished, panicked := c10hWithin(10*time.Second, func() {
		k := keyWithSpare(key, 0)
		switch c.Cmd {
		case "set":
			hres = errGallina(h.Set(common.SetRequest{Key: k, Data: data, Flags: op.Flags, Exptime: c.TTL}))
		case "add":
			hres = errGallina(h.Add(common.SetRequest{Key: k, Data: data, Flags: op.Flags, Exptime: c.TTL}))
		case "replace":
			hres = errGallina(h.Replace(common.SetRequest{Key: k, Data: data, Flags: op.Flags, Exptime: c.TTL}))
		case "append":
			hres = errGallina(h.Append(common.SetRequest{Key: k, Data: data}))
		case "prepend":
			hres = errGallina(h.Prepend(common.SetRequest{Key: k, Data: data}))
		case "delete":
			hres = errGallina(h.Delete(common.DeleteRequest{Key: k}))
		case "touch":
			hres = errGallina(h.Touch(common.TouchRequest{Key: k, Exptime: c.TTL}))
		case "gat":
			hres = c10hGat(h, key, c.TTL)
		case "get":
			hres = c10hGet(h, key, 100)
		case "get2":
			hres = c10hGetMulti(h, names)
		default:
			rig.Die("c10h: unknown command %q", c.Cmd)
		}
	})
	if !finished {
		fk.CloseAll()
		return out, true, &rig.GoFailure{Kind: "counterexample", What: "chunked handler call under a backend fault did not return within 10 s",
			Input: c, Detail: fmt.Sprintf("%s with plan %+v", c.Cmd, c.Plan)}
	}
	resG := "CPanic"
	out.res = "panic"
	if !panicked {
		resG = gal.App("CRes", hres)
		switch {
		case hres == "HDone":
			out.res = "done"
		case strings.HasPrefix(hres, "(HErr"):
			out.res = "error"
		case strings.HasSuffix(hres, " None)"):
			out.res = "values"
		default:
			out.res = "values+error"
		}
	}

	// 5. what the backend saw, state after
	after := time.Now().Unix()
	log := fk.TakeLog()
	if after != before {
		return out, false, nil
	}
	var lg []string
	for i, q := range log {
		if q.Now != before {
			return out, false, nil
		}
		if q.Key != "" {
			bkeySet[q.Key] = true
		}
		if q.Op == fakemc.OpNoop {
			out.noops = append(out.noops, i)
		}
		lg = append(lg, gal.Bytes([]byte(q.Key))) // a noop carries no key: []
	}
	out.nreq = len(log)
	fk.ClearFaults()
	post := stack.DumpGallina(fk) // before the follow-up reads (the GAT below resets expiry)
	postDump := fk.Dump()
	for k := range postDump {
		bkeySet[k] = true
	}

	// 6. the token and the handler's clock reading, from the metadata the call stored
	tok := make([]byte, 16)
	cnow := before
	if c.Cmd != "touch" {
		mk := c.Key + "-meta"
		for _, q := range log {
			if (q.Op == fakemc.OpSet || q.Op == fakemc.OpAdd || q.Op == fakemc.OpReplace) && q.Key == mk && q.ValLen == 40 && q.Status == fakemc.StOK {
				if e, ok := postDump[mk]; ok && len(e.Value) == 40 {
					tok = append([]byte(nil), e.Value[24:40]...)
					cnow = int64(binary.BigEndian.Uint32(e.Value[16:20]))
				}
			}
		}
	}
	if cnow != before {
		return out, false, nil
	}

	// 7. follow-up reads, fault-free, on a fresh connection
	var xget, xgat string
	c10hMark("after")
	h2 := chunked.NewHandler(fk.Pipe())
	fin2, pan2 := c10hWithin(10*time.Second, func() {
		xget = c10hGet(h2, key, 7)
		xgat = c10hGat(h2, key, 0)
	})
	h2.Close()
	if !fin2 || pan2 {
		fk.CloseAll()
		what := "a fault-free get / gat on a fresh connection after a chunked handler call under a backend fault did not return within 10 s"
		if pan2 {
			what = "a fault-free get / gat on a fresh connection after a chunked handler call under a backend fault panicked"
		}
		return out, true, &rig.GoFailure{Kind: "counterexample", What: what, Input: c, Detail: fmt.Sprintf("%s with plan %+v", c.Cmd, c.Plan)}
	}

	// 8. the case term
	var bks []string
	for k := range bkeySet {
		bks = append(bks, k)
	}
	sort.Strings(bks)
	bg := make([]string, len(bks))
	for i, k := range bks {
		bg[i] = gal.Bytes([]byte(k))
	}
	plan := make([]string, len(c.Plan))
	for i, f := range c.Plan {
		plan[i] = c10hFaultGallina(f)
	}
	out.coq = gal.App("mkC10h", gal.Bytes(key), gal.Bytes([]byte(c10hOther)), gal.N(uint64(before)), gal.List(bg), pre, reqG,
		gal.Bytes(tok), gal.N(uint64(cnow)), gal.List(plan), resG, post, gal.List(lg), xget, xgat)
	return out, true, nil
}

// runC10hRetry: up to 5 tries (a try is void when the second changes inside it)
func runC10hRetry(c c10hCase) (out c10hOut, ok bool, fail *rig.GoFailure) {
	for try := 0; try < 5 && !ok; try++ {
		out, ok, fail = runC10h(c)
		if fail != nil {
			return out, ok, fail
		}
	}
	return out, ok, nil
}

func c10hLen(n, ds int) int {
	if n <= 0 {
		return 0
	}
	return (n-1)*ds + 7
}

// c10hScenarios: (command, key state, parameters) without plan. thin: fewer key states for
// add / replace / append / prepend.
func c10hScenarios(r *rig.Rand, thin bool) []c10hCase {
	seedOld, seedNew, seedCat := r.U64(), r.U64(), r.U64()
	var out []c10hCase
	type state struct {
		present bool
		n0      int
	}
	all := []state{{false, 0}, {true, 0}, {true, 1}, {true, 2}, {true, 3}}
	thinned := []state{{false, 0}, {true, 1}, {true, 3}}
	gen := func(key string, states []state, cmds map[string]bool) {
		ds := 1184 - 71 - len(key) - 16
		mk := func(st state, cmd string) c10hCase {
			c := c10hCase{Cmd: cmd, Key: key, Present: st.present, SeedOld: seedOld}
			if st.present {
				c.OldLen = c10hLen(st.n0, ds)
			}
			return c
		}
		for _, st := range states {
			sts := func(cmd string) bool { return cmds == nil || cmds[cmd] }
			thinHere := thin && cmds == nil
			skip := func() bool {
				if !thinHere {
					return false
				}
				for _, t := range thinned {
					if t == st {
						return false
					}
				}
				return true
			}
			if sts("set") {
				for n1 := 0; n1 <= 3; n1++ {
					c := mk(st, "set")
					c.NewLen, c.SeedNew = c10hLen(n1, ds), seedNew
					out = append(out, c)
				}
				c := mk(st, "set")
				c.NewLen, c.SeedNew, c.TTL = c10hLen(2, ds), seedNew, 3600
				out = append(out, c)
			}
			for _, cmd := range []string{"add", "replace"} {
				if !sts(cmd) || skip() {
					continue
				}
				for _, n1 := range []int{0, 2} {
					c := mk(st, cmd)
					c.NewLen, c.SeedNew = c10hLen(n1, ds), seedNew
					out = append(out, c)
				}
			}
			for _, cmd := range []string{"append", "prepend"} {
				if !sts(cmd) || skip() {
					continue
				}
				for _, cl := range []int{5, ds} {
					c := mk(st, cmd)
					c.CatLen, c.SeedCat = cl, seedCat
					out = append(out, c)
				}
			}
			if sts("delete") {
				out = append(out, mk(st, "delete"))
			}
			if sts("touch") {
				for _, ttl := range []uint32{0, 3600} {
					c := mk(st, "touch")
					c.TTL = ttl
					out = append(out, c)
				}
			}
			if sts("get") {
				out = append(out, mk(st, "get"))
			}
			if sts("gat") {
				for _, ttl := range []uint32{0, 3600} {
					c := mk(st, "gat")
					c.TTL = ttl
					out = append(out, c)
				}
			}
		}
	}
	gen("key", all, nil)
	gen(strings.Repeat("k", 250), []state{{true, 2}}, map[string]bool{"set": true, "get": true, "delete": true})
	// get2: one Get request names "key" and "k2" (in both orders); k2 holds 2 chunks
	for _, order := range [][2]string{{"key", c10hK2}, {c10hK2, "key"}} {
		for _, st := range []state{{false, 0}, {true, 1}, {true, 3}} {
			c := c10hCase{Cmd: "get2", Key: order[0], Key2: order[1], Present: st.present, SeedOld: seedOld,
				K2Len: c10hLen(2, 1184-71-len(c10hK2)-16), SeedK2: 0x6b32}
			if st.present {
				c.OldLen = c10hLen(st.n0, 1184-71-len("key")-16)
			}
			out = append(out, c)
		}
	}
	return out
}

// ---------------------------------------------------------------- child process

// c10hLine is what the child reports for one finished case (one JSON line on stdout; lines that
// start with '#' announce the part of the case that begins: setup / call / after).
type c10hLine struct {
	Coq   string         `json:"coq"`
	Nreq  int            `json:"nreq"`
	Noops []int          `json:"noops"`
	Res   string         `json:"res"`
	Ok    bool           `json:"ok"` // false without Fail: the clock ticked in each of the 5 tries
	Fail  *rig.GoFailure `json:"fail,omitempty"`
}

// c10hChild: case descriptions (JSON, one after the other) on stdin, one c10hLine per case on
// stdout, written as soon as the case is over.
func c10hChild(e *env) {
	c10hPhase = func(p string) { os.Stdout.WriteString("#" + p + "\n") }
	dec := json.NewDecoder(bufio.NewReader(os.Stdin))
	for {
		var c c10hCase
		if err := dec.Decode(&c); err == io.EOF {
			return
		} else if err != nil {
			rig.Die("c10hchild: cannot read a case description: %v", err)
		}
		out, ok, fail := runC10hRetry(c)
		b, err := json.Marshal(c10hLine{Coq: out.coq, Nreq: out.nreq, Noops: out.noops, Res: out.res, Ok: ok && fail == nil, Fail: fail})
		if err != nil {
			rig.Die("c10hchild: %v", err)
		}
		os.Stdout.Write(append(b, '\n'))
	}
}

// ---------------------------------------------------------------- parent: running cases in children

// c10hDone: what became of one case: the child's line, or the failure "the process died".
type c10hDone struct {
	line  *c10hLine
	crash *rig.GoFailure
}

const c10hBatch = 400

// c10hRunCases runs the cases in child processes, at most c10hBatch consecutive cases per child
// (starting a process costs about 0.25 s: the init of rend's packages), a few children at a time
// (they share nothing; the results are kept by index). When a child dies the first case without
// a line is the one that killed it; the rest of the batch goes to a fresh child.
func c10hRunCases(cases []c10hCase) []c10hDone {
	res := make([]c10hDone, len(cases))
	par := runtime.NumCPU() / 2
	if par > 8 {
		par = 8
	}
	if par < 2 {
		par = 2
	}
	batch := (len(cases) + par - 1) / par
	if batch > c10hBatch {
		batch = c10hBatch
	}
	if batch < 50 {
		batch = 50
	}
	sem := make(chan struct{}, par)
	var wg sync.WaitGroup
	for lo := 0; lo < len(cases); lo += batch {
		hi := lo + batch
		if hi > len(cases) {
			hi = len(cases)
		}
		wg.Add(1)
		sem <- struct{}{}
		go func(lo, hi int) {
			defer func() { <-sem; wg.Done() }()
			c10hRunBatch(cases, res, lo, hi)
		}(lo, hi)
	}
	wg.Wait()
	return res
}

// c10hRunBatch: cases[lo:hi] in one child, in order; after a death the rest in a fresh child
func c10hRunBatch(cases []c10hCase, res []c10hDone, lo, hi int) {
	for next := lo; next < hi; {
		n, phase, stderr, stalled, werr := c10hSpawn(cases[next:hi], res[next:hi])
		next += n
		if next >= hi {
			break
		}
		c := cases[next]
		crashed := strings.Contains(stderr, "panic:") || strings.Contains(stderr, "fatal error:") || strings.Contains(stderr, "SIGSEGV")
		switch {
		case stalled:
			res[next].crash = &rig.GoFailure{Kind: "counterexample", What: "the process running a chunked handler call under a backend fault made no progress for 60 s (the 10 s limit on the call inside the process did not fire) and was killed",
				Input: c, Detail: fmt.Sprintf("%s with plan %+v, part of the case: %s; stderr: %s", c.Cmd, c.Plan, phase, tailStr(stderr, 600))}
		case crashed:
			what := "the chunked handler crashed the process during a call under a backend fault (panic in a goroutine of the code under test)"
			switch {
			case phase == "setup":
				what = "the chunked handler crashed the process during the fault-free sets that prepare the case (panic in a goroutine of the code under test)"
			case phase == "after":
				what = "the chunked handler crashed the process during the fault-free get / gat on a fresh connection that follow a call under a backend fault (panic in a goroutine of the code under test)"
			case len(c.Plan) == 0:
				what = "the chunked handler crashed the process during a fault-free call (panic in a goroutine of the code under test)"
			}
			res[next].crash = &rig.GoFailure{Kind: "counterexample", What: what, Input: c, Detail: c10hCrashDetail(stderr)}
		default:
			rig.Die("c10h: the child process ended (%v) before case %d of %d, not by a crash of the code under test: %s", werr, next, len(cases), tailStr(stderr, 3000))
		}
		next++
	}
}

// c10hCrashDetail: the panic message and the last ~600 bytes of the child's stderr
func c10hCrashDetail(stderr string) string {
	head := ""
	for _, l := range strings.Split(stderr, "\n") {
		if strings.HasPrefix(l, "panic:") || strings.HasPrefix(l, "fatal error:") || strings.HasPrefix(l, "[signal ") {
			head += l + "\n"
		}
	}
	if len(stderr) <= 600 {
		return stderr
	}
	return head + "...\n" + tailStr(stderr, 600)
}

// c10hSpawn runs cases in one child and fills res with the lines it got; n = how many. stalled:
// the child was killed after 60 s without output.
func c10hSpawn(cases []c10hCase, res []c10hDone) (n int, phase, stderr string, stalled bool, werr error) {
	exe, err := os.Executable()
	if err != nil {
		rig.Die("c10h: %v", err)
	}
	var in bytes.Buffer
	enc := json.NewEncoder(&in)
	for _, c := range cases {
		if err := enc.Encode(c); err != nil {
			rig.Die("c10h: %v", err)
		}
	}
	cmd := exec.Command(exe, "c10hchild")
	cmd.Env = append(os.Environ(), "VERIF_CHILD=1", "GOTRACEBACK=single")
	if os.Getenv("GOMAXPROCS") == "" {
		// several children run at a time; with one P per processor in each of them the runtimes
		// spend more time waking and parking threads than the cases take
		cmd.Env = append(cmd.Env, "GOMAXPROCS=4")
	}
	cmd.Stdin = &in
	var errb bytes.Buffer
	cmd.Stderr = &errb
	so, err := cmd.StdoutPipe()
	if err != nil {
		rig.Die("c10h: %v", err)
	}
	if err := cmd.Start(); err != nil {
		rig.Die("c10h: cannot start the child process: %v", err)
	}
	lines := make(chan []byte, 64)
	go func() {
		rd := bufio.NewReaderSize(so, 1<<16)
		for {
			b, err := rd.ReadBytes('\n')
			if err != nil { // a line cut short by the death of the child does not count
				close(lines)
				return
			}
			lines <- b
		}
	}()
	idle := time.NewTimer(60 * time.Second)
	defer idle.Stop()
loop:
	for n < len(cases) {
		select {
		case b, ok := <-lines:
			if !ok {
				break loop
			}
			if !idle.Stop() {
				select {
				case <-idle.C:
				default:
				}
			}
			idle.Reset(60 * time.Second)
			if b[0] == '#' {
				phase = strings.TrimSpace(string(b[1:]))
				continue
			}
			var l c10hLine
			if err := json.Unmarshal(b, &l); err != nil {
				rig.Die("c10h: unreadable line from the child process (%v): %s", err, tailStr(string(b), 300))
			}
			res[n].line = &l
			n++
			phase = ""
		case <-idle.C:
			stalled = true
			cmd.Process.Kill()
			break loop
		}
	}
	for range lines { // until the pipe is at its end (Wait closes it)
	}
	werr = cmd.Wait()
	return n, phase, errb.String(), stalled, werr
}

func c10h(e *env) {
	w := rig.NewWriter(e.out, "C10H", e.tier, e.seed)
	w.Res.Cases = []rig.Case{} // a replay that ends in a failure has no case
	w.Shards = 16
	thorough := e.tier == "thorough"
	r := rig.NewRand(e.seed)

	// emit records what became of case c (run in a child process); false: no case was added
	emit := func(c c10hCase, d c10hDone) bool {
		if d.crash != nil {
			w.Fail(*d.crash)
			w.Count("res=crash")
			return false
		}
		if d.line.Fail != nil {
			f := *d.line.Fail
			f.Input = c
			w.Fail(f)
			w.Count("res=hang")
			return false
		}
		if !d.line.Ok {
			w.Count("dropped=clock-ticked-5-times")
			return false
		}
		nt := c.Present || c.Cmd == "get2" // get2: k2 is always present
		for _, f := range c.Plan {
			if f.Idx > 0 {
				nt = true
			}
			w.Count("fault=" + f.Kind)
		}
		if len(c.Plan) == 0 {
			w.Count("fault=none")
		}
		if len(c.Plan) > 1 {
			w.Count("plan=double-fault")
		}
		w.Count("cmd=" + c.Cmd)
		w.Count("res=" + d.line.Res)
		if len(c.Key) == 250 {
			w.Count("key=250-bytes")
		}
		w.Add(rig.Case{Desc: c, Coq: d.line.Coq, Nontrivial: nt, Tags: nil})
		return true
	}

	if rp := replayArg(e); rp != "" {
		var c c10hCase
		b, err := os.ReadFile(rp)
		if err != nil || json.Unmarshal(b, &c) != nil {
			rig.Die("cannot read replay input %s", rp)
		}
		emit(c, c10hRunCases([]c10hCase{c})[0])
	} else {
		// first the fault-free run of every scenario: how many backend requests the call makes,
		// which of them are noops; then the faulted cases of all scenarios
		scs := c10hScenarios(r, false)
		for si := range scs {
			scs[si].Plan = []c10hFault{}
		}
		dry := c10hRunCases(scs)
		var faulted []c10hCase
		lo := make([]int, len(scs)+1)
		for si, sc := range scs {
			lo[si] = len(faulted)
			if d := dry[si]; d.line == nil || d.line.Fail != nil || !d.line.Ok {
				continue
			}
			n := dry[si].line.Nreq
			sc.Noops = dry[si].line.Noops
			with := func(plan ...c10hFault) {
				c := sc
				c.Plan = plan
				faulted = append(faulted, c)
			}
			for idx := 0; idx < n; idx++ {
				var sts []uint16
				if thorough {
					sts = faultStatuses
				} else {
					sts = []uint16{0x01, 0x05}
					x := faultStatuses[(idx+si)%len(faultStatuses)]
					if x != 0x01 && x != 0x05 {
						sts = append(sts, x)
					}
				}
				for _, st := range sts {
					with(c10hFault{Idx: idx, Kind: "status", Status: st})
				}
				with(c10hFault{Idx: idx, Kind: "close-before"})
				with(c10hFault{Idx: idx, Kind: "close-after-apply"})
			}
			if n >= 3 {
				with(c10hFault{Idx: 1, Kind: "status", Status: 0x82}, c10hFault{Idx: n - 1, Kind: "close-after-apply"})
				with(c10hFault{Idx: 1, Kind: "status", Status: 0x01}, c10hFault{Idx: 2, Kind: "status", Status: 0x85})
			}
		}
		lo[len(scs)] = len(faulted)
		done := c10hRunCases(faulted)
		// recorded in the order scenario, its fault-free run, its faulted cases
		for si := range scs {
			emit(scs[si], dry[si])
			for j := lo[si]; j < lo[si+1]; j++ {
				emit(faulted[j], done[j])
			}
		}
	}
	w.Res.Exhaustive = thorough
	w.Res.Rule = "the real chunked handler called directly over the fake memcached with a fault plan armed, one handler call per case: every command (set with a new value of 0..3 chunks, once with a TTL; add / replace of 0 and 2 chunks; append / prepend of 5 bytes and of one chunk payload; delete; touch and gat with TTL 0 and 3600; single-key get) on client key \"key\" in every key state (absent, present with an old value of 0, 1, 2, 3 chunks), plus set / get / delete on a 250-byte key holding 2 chunks, plus ONE get request naming the two client keys \"key\" and \"k2\" (in both orders; k2 holds 2 chunks, key is absent or holds 1 or 3 chunks; the follow-up reads are on the first named key); for each such scenario the fault-free call, then one case per (backend request index of the fault-free call, fault): thorough = each of the 13 error statuses binprot.DecodeError knows, connection cut before the request is applied, connection cut after it was applied and before its reply; quick = statuses not-found, not-stored and one more (rotating over the 13) plus the two cuts; and for scenarios with >= 3 backend requests two double-fault plans (out-of-memory at request 1 then a cut after apply at the last request; not-found at request 1 then busy at request 2); a bystander key of 2 chunks is stored beforehand; after the call a fault-free get and gat of the key on a fresh connection; the cases run in child processes (a few hundred consecutive cases per process), a child that dies is a failure with the case it was running as replay input; non-trivial = a fault beyond the first request or the key present (a two-key get always: k2 is present)"
	if err := w.Finish([]string{"base.Bytes", "base.Harness", "gen.Consts_gen", "spec.MapSpec", "orca.Types", "handlers.Chunked", "handlers.ChunkedFaults", "checks.Check10h"},
		"case10h", "check10h"); err != nil {
		rig.Die("%v", err)
	}
}
