package main

import (
	"bytes"
	"encoding/binary"
	"encoding/json"
	"fmt"
	"os"
	"sort"
	"time"

	"github.com/netflix/rend/common"
	"github.com/netflix/rend/handlers/memcached/chunked"
	"verifharness/fakemc"
	"verifharness/gal"
	"verifharness/rig"
	"verifharness/stack"
)

func init() {
	commands["c04"] = func(e *env) { chunkedSeq(e, "C04", 4) }
	commands["c05"] = func(e *env) { chunkedSeq(e, "C05", 5) }
	commands["c09c"] = func(e *env) { chunkedSeq(e, "C09", 9) }
}

// one handler call of a chunked-handler history
type hOp struct {
	Kind    string   `json:"kind"`               // set add replace append prepend delete touch get gat sleep
	SleepMs int      `json:"sleep_ms,omitempty"` // kind sleep: real time passes (the handler and the backend read the real clock)
	Key     int      `json:"key"`                // index into the case's client keys
	Keys    []int    `json:"keys,omitempty"`
	Len     int      `json:"len,omitempty"`  // data length (data is generated from Seed)
	Seed    uint64   `json:"seed,omitempty"` // data generator seed
	Flags   uint32   `json:"flags,omitempty"`
	TTL     uint32   `json:"ttl,omitempty"`
	TTLRel  string   `json:"ttl_class,omitempty"` // abs-past / abs-future are computed from the clock at run time
	Lose    []string `json:"lose,omitempty"`      // which backend entries of Key to drop first: "meta", "0", "1", ...
	Put     []rawPut `json:"put,omitempty"`       // backend entries written directly before the call (requests of other writers)
}

// rawPut is one backend set request of some writer, applied directly to the fake backend
type rawPut struct {
	Key   string `json:"key"`
	Value []byte `json:"value"`
	Flags uint32 `json:"flags"`
}

type hCase struct {
	Written []rawWrite `json:"written,omitempty"` // complete writes whose requests are injected via Put
	Keys    []string   `json:"keys"`              // client keys (as strings; may contain any byte)
	Spare   []int      `json:"spare"`             // spare capacity of the key slice handed to the handler
	Ops     []hOp      `json:"ops"`
}

type rawWrite struct {
	Key   string `json:"key"`
	Data  []byte `json:"data"`
	Flags uint32 `json:"flags"`
}

func genBytes(seed uint64, n int) []byte {
	r := rig.NewRand(seed)
	b := make([]byte, n)
	for i := range b {
		b[i] = byte(r.U64())
	}
	return b
}

func hreqGallina(op hOp, keys [][]byte, data []byte, ttl uint32) string {
	k := gal.Bytes(keys[op.Key])
	n := func(v uint32) string { return gal.N(uint64(v)) }
	switch op.Kind {
	case "set", "add", "replace":
		m := map[string]string{"set": "MSet", "add": "MAdd", "replace": "MReplace"}[op.Kind]
		return gal.App("HSet", m, k, gal.Bytes(data), n(op.Flags), n(ttl))
	case "append", "prepend":
		return gal.App("HCat", gal.Bool(op.Kind == "prepend"), k, gal.Bytes(data))
	case "delete":
		return gal.App("HDelete", k)
	case "touch":
		return gal.App("HTouch", k, n(ttl))
	case "gat":
		return gal.App("HGat", k, n(ttl), "77")
	case "get":
		var its []string
		for i, ki := range op.Keys {
			its = append(its, gal.App("mkGI", gal.Bytes(keys[ki]), gal.N(uint64(100+i)), gal.Bool(i%2 == 1)))
		}
		return gal.App("HGet", gal.List(its))
	}
	panic("bad op " + op.Kind)
}

func errGallina(err error) string {
	if err == nil {
		return "HDone"
	}
	i := errIndex(err)
	if i < 0 || !common.IsAppError(err) {
		return gal.App("HErr", "EIO")
	}
	return gal.App("HErr", errList[i].name)
}

func gresGallina(key, data []byte, flags, opaque uint32, quiet, miss bool) string {
	return gal.App("mkGR", gal.Bytes(key), gal.Bytes(data), gal.N(uint64(flags)), "0", gal.N(uint64(opaque)), gal.Bool(quiet), gal.Bool(miss))
}

// keyWithSpare builds a key slice with the requested spare capacity (cap - len)
func keyWithSpare(k []byte, spare int) []byte {
	b := make([]byte, len(k), len(k)+spare)
	copy(b, k)
	return b
}

// runChunkedCase runs one history through the real chunked handler. ok=false: clock ticked
// inside a call (caller retries).
func runChunkedCase(c hCase, w *rig.Writer) (coq string, ok bool, fail *rig.GoFailure, stats map[string]bool) {
	stats = map[string]bool{}
	fk := fakemc.New()
	fk.RealClock = func() int64 { return time.Now().Unix() }
	// in three of four cases the backend's replies reach the handler in pieces (1..n bytes per
	// read): what the handler returns must not depend on how the reply stream is segmented
	fk.Segment = []int{0, 1, 5, 19}[(len(c.Ops)+len(c.Keys[0]))%4]
	conn := fk.Pipe()
	h := chunked.NewHandler(conn)
	defer h.Close()
	keys := make([][]byte, len(c.Keys))
	for i, k := range c.Keys {
		keys[i] = []byte(k)
	}
	bkeySet := map[string]bool{}
	var steps []string
	for i, op := range c.Ops {
		if op.Kind == "sleep" {
			time.Sleep(time.Duration(op.SleepMs) * time.Millisecond)
			continue
		}
		before := time.Now().Unix()
		ttl := op.TTL
		switch op.TTLRel {
		case "abs-past":
			ttl = uint32(before - 1000 - int64(op.TTL%1000))
		case "abs-future":
			ttl = uint32(before + 100 + int64(op.TTL%100000))
		case "abs-far":
			ttl = uint32(before + 40*86400 + int64(op.TTL%1000))
		}
		data := genBytes(op.Seed, op.Len)
		key := keyWithSpare(keys[op.Key], c.Spare[op.Key])
		// losses
		var lost []string
		for _, l := range op.Lose {
			var bk string
			if l == "meta" {
				bk = string(keys[op.Key]) + "-meta"
			} else {
				bk = string(keys[op.Key]) + "-" + l
			}
			fk.Evict(bk)
			lost = append(lost, gal.Bytes([]byte(bk)))
			bkeySet[bk] = true
		}
		var puts []string
		for _, pt := range op.Put {
			fk.Put(pt.Key, fakemc.Entry{Flags: pt.Flags, Value: pt.Value, Deadline: -1})
			bkeySet[pt.Key] = true
			puts = append(puts, gal.Pair(gal.Bytes([]byte(pt.Key)), gal.App("mkE", gal.Bytes(pt.Value), gal.N(uint64(pt.Flags)), "Never")))
		}
		fk.TakeLog()
		var resG string
		done := make(chan struct{})
		go func() {
			defer close(done)
			switch op.Kind {
			case "set":
				resG = errGallina(h.Set(common.SetRequest{Key: key, Data: data, Flags: op.Flags, Exptime: ttl}))
			case "add":
				resG = errGallina(h.Add(common.SetRequest{Key: key, Data: data, Flags: op.Flags, Exptime: ttl}))
			case "replace":
				resG = errGallina(h.Replace(common.SetRequest{Key: key, Data: data, Flags: op.Flags, Exptime: ttl}))
			case "append":
				resG = errGallina(h.Append(common.SetRequest{Key: key, Data: data}))
			case "prepend":
				resG = errGallina(h.Prepend(common.SetRequest{Key: key, Data: data}))
			case "delete":
				resG = errGallina(h.Delete(common.DeleteRequest{Key: key}))
			case "touch":
				resG = errGallina(h.Touch(common.TouchRequest{Key: key, Exptime: ttl}))
			case "gat":
				r, err := h.GAT(common.GATRequest{Key: key, Exptime: ttl, Opaque: 77})
				if err != nil {
					resG = errGallina(err)
				} else {
					resG = gal.App("HVals", gal.List([]string{gresGallina(r.Key, r.Data, r.Flags, r.Opaque, r.Quiet, r.Miss)}), "None")
				}
			case "get":
				req := common.GetRequest{}
				for j, ki := range op.Keys {
					req.Keys = append(req.Keys, keyWithSpare(keys[ki], c.Spare[ki]))
					req.Opaques = append(req.Opaques, uint32(100+j))
					req.Quiet = append(req.Quiet, j%2 == 1)
				}
				dc, ec := h.Get(req)
				var rs []string
				var gerr error
				// every value handed out stays the receiver's: kept with a private copy and compared
				// again when the whole get is over (the orchestrators hold values across backend calls)
				type held struct{ got, saved []byte }
				var kept []held
				defer func() {
					for _, k := range kept {
						if !bytes.Equal(k.got, k.saved) && fail == nil {
							fail = &rig.GoFailure{Kind: "counterexample", What: "a value returned by a multi-key get changed while the handler fetched the following keys (the returned slice is not the receiver's own)",
								Input: c, Detail: fmt.Sprintf("returned %q..., now %q...", trunc(string(k.saved), 40), trunc(string(k.got), 40))}
						}
					}
				}()
				for dc != nil || ec != nil {
					select {
					case r, ok := <-dc:
						if !ok {
							dc = nil
						} else {
							if len(r.Data) > 0 {
								kept = append(kept, held{r.Data, append([]byte(nil), r.Data...)})
							}
							rs = append(rs, gresGallina(r.Key, r.Data, r.Flags, r.Opaque, r.Quiet, r.Miss))
							if !r.Miss {
								stats["hit"] = true
							} else {
								stats["miss"] = true
							}
						}
					case e, ok := <-ec:
						if !ok {
							ec = nil
						} else {
							gerr = e
						}
					}
				}
				eo := "None"
				if gerr != nil {
					i := errIndex(gerr)
					if i < 0 || !common.IsAppError(gerr) {
						eo = "(Some EIO)"
					} else {
						eo = "(Some " + errList[i].name + ")"
					}
				}
				resG = gal.App("HVals", gal.List(rs), eo)
			}
		}()
		select {
		case <-done:
		case <-time.After(15 * time.Second):
			return "", true, &rig.GoFailure{Kind: "counterexample", What: "chunked handler call did not return within 15 s (hang)",
				Input: truncH(c, i+1), Detail: fmt.Sprintf("op %d (%s)", i, op.Kind)}, stats
		}
		after := time.Now().Unix()
		log := fk.TakeLog()
		tok := []byte{}
		cnow := before
		now := before
		for _, q := range log {
			if q.Now != before || after != before {
				return "", false, nil, stats // the second changed during the call: retry
			}
			bkeySet[q.Key] = true
		}
		// recover the token (and the handler's clock) from the metadata it wrote
		d := fk.Dump()
		for _, q := range log {
			if q.Op == fakemc.OpSet || q.Op == fakemc.OpAdd || q.Op == fakemc.OpReplace {
				if e, ok := d[q.Key]; ok && bytes.HasSuffix([]byte(q.Key), []byte("-meta")) && len(e.Value) == 40 && q.ValLen == 40 {
					tok = append([]byte(nil), e.Value[24:40]...)
					cnow = int64(binary.BigEndian.Uint32(e.Value[16:20]))
				}
			}
		}
		if op.Kind == "touch" {
			// touch rewrites the metadata keeping Instime: the clock reading is not recoverable, use the sample
			cnow = before
			tok = []byte{}
		}
		var lg []string
		for _, q := range log {
			if q.Op == fakemc.OpNoop {
				continue // noop carries no key
			}
			lg = append(lg, gal.Bytes([]byte(q.Key)))
		}
		if len(data) > int(1184-71-len(key)-16) {
			stats["multi-chunk"] = true
		}
		if c.Spare[op.Key] > 0 {
			stats["spare-cap"] = true
		}
		w.Count("op=" + op.Kind)
		steps = append(steps, gal.App("mkS4", hreqGallina(op, keys, data, ttl), gal.Bytes(tok), gal.N(uint64(cnow)), gal.N(uint64(now)),
			gal.List(lost), gal.List(puts), resG, stack.DumpGallina(fk), gal.List(lg)))
	}
	var bks []string
	for k := range bkeySet {
		bks = append(bks, k)
	}
	for _, k := range fk.Keys() {
		if !bkeySet[k] {
			bks = append(bks, k)
		}
	}
	sort.Strings(bks)
	bg := make([]string, len(bks))
	for i, k := range bks {
		bg[i] = gal.Bytes([]byte(k))
	}
	cg := make([]string, len(keys))
	for i, k := range keys {
		cg[i] = gal.Bytes(k)
	}
	var wr []string
	for _, x := range c.Written {
		wr = append(wr, gal.Tuple(gal.Bytes([]byte(x.Key)), gal.Bytes(x.Data), gal.N(uint64(x.Flags))))
	}
	return gal.App("mkC4", gal.List(bg), gal.List(cg), gal.List(wr), gal.List(steps)), true, nil, stats
}

func truncH(c hCase, n int) hCase {
	d := c
	if n < len(c.Ops) {
		d.Ops = c.Ops[:n]
	}
	return d
}

var keyLens = []int{1, 2, 3, 9, 50, 249, 250}
var spares = []int{0, 0, 1, 5, 8, 16}

func genKeys(r *rig.Rand) ([]string, []int) {
	var ks []string
	var sp []int
	switch r.Intn(4) {
	case 0: // keys that look like each other's backend keys
		ks = []string{"a", "a-0", "a-meta"}
	default:
		seen := map[string]bool{}
		for len(ks) < 3 {
			n := keyLens[r.Intn(len(keyLens))]
			b := make([]byte, n)
			for i := range b {
				b[i] = byte('a' + r.Intn(26))
			}
			if r.Chance(20) {
				b[r.Intn(n)] = byte(r.U64()) // arbitrary byte
			}
			if !seen[string(b)] {
				seen[string(b)] = true
				ks = append(ks, string(b))
			}
		}
	}
	for range ks {
		sp = append(sp, spares[r.Intn(len(spares))])
	}
	return ks, sp
}

func genLen(r *rig.Rand, klen int, thorough bool, w *rig.Writer) int {
	ds := 1184 - 71 - klen - 16
	switch r.Intn(10) {
	case 0:
		w.Count("len=0")
		return 0
	case 1:
		w.Count("len=1")
		return 1
	case 2, 3, 4, 5:
		k := 1 + r.Intn(6)
		w.Count("len=boundary")
		return k*ds + r.Intn(3) - 1
	case 6:
		if thorough && r.Chance(30) {
			w.Count("len=999-chunks")
			return 999*ds - r.Intn(2)
		}
		if !thorough && !r.Chance(3) {
			w.Count("len=boundary")
			return 7*ds + r.Intn(3) - 1
		}
		w.Count("len=100-chunks")
		return 100*ds + r.Intn(3) - 1
	}
	w.Count("len=small")
	return 2 + r.Intn(300)
}

func genTTLop(r *rig.Rand, op *hOp, mode int, w *rig.Writer) {
	p := 30
	if mode == 9 {
		p = 80
	}
	if !r.Chance(p) {
		w.Count("ttl=0")
		return
	}
	switch r.Intn(6) {
	case 0:
		op.TTL = uint32(100 + r.Intn(100000))
		w.Count("ttl=relative")
	case 1:
		op.TTL = uint32(2592000 - r.Intn(2))
		w.Count("ttl=30d-boundary")
	case 2:
		op.TTLRel, op.TTL = "abs-future", uint32(r.U64())
		w.Count("ttl=abs-future")
	case 3:
		op.TTLRel, op.TTL = "abs-far", uint32(r.U64())
		w.Count("ttl=abs-far")
	case 4:
		op.TTLRel, op.TTL = "abs-past", uint32(r.U64())
		w.Count("ttl=abs-past")
	case 5:
		op.TTL = uint32(3600)
		w.Count("ttl=relative")
	}
}

func genChunkedCase(r *rig.Rand, mode int, thorough bool, w *rig.Writer) hCase {
	ks, sp := genKeys(r)
	c := hCase{Keys: ks, Spare: sp}
	n := 3 + r.Intn(10)
	for i := 0; i < n; i++ {
		op := hOp{Key: r.Intn(len(ks)), Seed: r.U64(), Flags: genU32(r)}
		klen := len(ks[op.Key])
		switch r.Intn(14) {
		case 0, 1, 2, 3:
			op.Kind = "set"
			op.Len = genLen(r, klen, thorough, w)
			genTTLop(r, &op, mode, w)
		case 4:
			op.Kind = "add"
			op.Len = genLen(r, klen, thorough, w)
			genTTLop(r, &op, mode, w)
		case 5:
			op.Kind = "replace"
			op.Len = genLen(r, klen, thorough, w)
			genTTLop(r, &op, mode, w)
		case 6:
			op.Kind = "append"
			op.Len = r.Intn(1500)
		case 7:
			op.Kind = "prepend"
			op.Len = r.Intn(1500)
		case 8:
			op.Kind = "delete"
		case 9:
			op.Kind = "touch"
			genTTLop(r, &op, mode, w)
		case 10:
			op.Kind = "gat"
			genTTLop(r, &op, mode, w)
		default:
			op.Kind = "get"
			nk := 1 + r.Intn(3)
			for j := 0; j < nk; j++ {
				op.Keys = append(op.Keys, r.Intn(len(ks)))
			}
			op.Key = op.Keys[0]
		}
		if op.TTLRel == "abs-past" && (op.Kind == "set" || op.Kind == "add" || op.Kind == "replace") {
			// known finding: acknowledged without effect — kept in a separate stream (below)
			op.TTLRel, op.TTL = "", 0
		}
		c.Ops = append(c.Ops, op)
	}
	return c
}

// lossCases: for n chunks, every subset of {meta, chunk 0..n-1} removed, then get and gat (C05)
func lossCases(maxN int) []hCase {
	var out []hCase
	for n := 0; n <= maxN; n++ {
		for mask := 0; mask < 1<<(n+1); mask++ {
			var lose []string
			if mask&1 != 0 {
				lose = append(lose, "meta")
			}
			for i := 0; i < n; i++ {
				if mask&(2<<i) != 0 {
					lose = append(lose, fmt.Sprint(i))
				}
			}
			ds := 1184 - 71 - 3 - 16
			l := 0
			if n > 0 {
				l = (n-1)*ds + 7
			}
			for _, rd := range []string{"get", "gat"} {
				c := hCase{Keys: []string{"key"}, Spare: []int{0}}
				// an older, longer value first, so that stale chunks of another write exist
				c.Ops = append(c.Ops, hOp{Kind: "set", Key: 0, Len: l + 2*ds, Seed: uint64(1000 + n), Flags: 1})
				c.Ops = append(c.Ops, hOp{Kind: "set", Key: 0, Len: l, Seed: uint64(n), Flags: 2})
				c.Ops = append(c.Ops, hOp{Kind: rd, Key: 0, Keys: []int{0}, Lose: lose})
				out = append(out, c)
			}
		}
	}
	return out
}

// captureSet runs one Set through the real handler against a scratch backend and returns the
// backend requests it made (metadata first, then the chunks), as raw puts.
func captureSet(key string, data []byte, flags uint32) []rawPut {
	fk := fakemc.New()
	fk.RealClock = func() int64 { return time.Now().Unix() }
	h := chunked.NewHandler(fk.Pipe())
	defer h.Close()
	if err := h.Set(common.SetRequest{Key: []byte(key), Data: data, Flags: flags}); err != nil {
		rig.Die("captureSet: %v", err)
	}
	d := fk.Dump()
	var out []rawPut
	for _, q := range fk.TakeLog() {
		if q.Op == fakemc.OpSet {
			out = append(out, rawPut{Key: q.Key, Value: d[q.Key].Value, Flags: q.Flags})
		}
	}
	return out
}

// captureCat runs a Set of a and then an Append / Prepend of x through the real handler against a
// scratch backend and returns the backend set requests of the set and of the rewrite the
// append / prepend performs (metadata first, then the chunks), each with the value it stored.
func captureCat(key string, a []byte, flags uint32, cat string, x []byte) (pa, pc []rawPut) {
	fk := fakemc.New()
	fk.RealClock = func() int64 { return time.Now().Unix() }
	h := chunked.NewHandler(fk.Pipe())
	defer h.Close()
	take := func() []rawPut {
		d := fk.Dump()
		var out []rawPut
		for _, q := range fk.TakeLog() {
			if q.Op == fakemc.OpSet {
				out = append(out, rawPut{Key: q.Key, Value: d[q.Key].Value, Flags: q.Flags})
			}
		}
		return out
	}
	if err := h.Set(common.SetRequest{Key: []byte(key), Data: a, Flags: flags}); err != nil {
		rig.Die("captureCat: %v", err)
	}
	pa = take()
	var err error
	if cat == "append" {
		err = h.Append(common.SetRequest{Key: []byte(key), Data: x})
	} else {
		err = h.Prepend(common.SetRequest{Key: []byte(key), Data: x})
	}
	if err != nil {
		rig.Die("captureCat: %v", err)
	}
	pc = take()
	return pa, pc
}

// rewriteCases: an append / prepend re-stores the whole value with several backend requests. A
// reader on another connection (or the loss of the writer's connection) can fall between any two
// of them: after every prefix of the rewrite's requests a get and a gat must return the old
// value, the new value or a miss — never a mix of the two (C05). Chunk count kept and grown.
func rewriteCases(maxN int) []hCase {
	var out []hCase
	ds := 1184 - 71 - 3 - 16
	for n := 1; n <= maxN; n++ {
		for _, grow := range []bool{false, true} {
			la, lx := (n-1)*ds+40, 100
			if grow {
				lx = ds // one more chunk afterwards
			}
			for _, cat := range []string{"append", "prepend"} {
				a, x := genBytes(uint64(500+n), la), genBytes(uint64(600+n), lx)
				pa, pc := captureCat("key", a, 0x2A, cat, x)
				nv := append(append([]byte(nil), a...), x...)
				if cat == "prepend" {
					nv = append(append([]byte(nil), x...), a...)
				}
				wr := []rawWrite{{"key", a, 0x2A}, {"key", nv, 0x2A}}
				for _, rd := range []string{"get", "gat"} {
					c := hCase{Keys: []string{"key"}, Spare: []int{0}, Written: wr}
					c.Ops = append(c.Ops, hOp{Kind: rd, Key: 0, Keys: []int{0}, Put: pa})
					for _, pt := range pc {
						c.Ops = append(c.Ops, hOp{Kind: rd, Key: 0, Keys: []int{0}, Put: []rawPut{pt}})
					}
					out = append(out, c)
				}
			}
		}
	}
	return out
}

// interleavings of two request sequences (order-preserving merges), as strings over {A,B}
func merges(a, b int) []string {
	if a == 0 && b == 0 {
		return []string{""}
	}
	var out []string
	if a > 0 {
		for _, m := range merges(a-1, b) {
			out = append(out, "A"+m)
		}
	}
	if b > 0 {
		for _, m := range merges(a, b-1) {
			out = append(out, "B"+m)
		}
	}
	return out
}

// interleavingCases: two complete sets A and B of the same key (n chunks each, different
// lengths inside the same chunk count, different flags), their backend requests merged in every
// order; after every prefix of every merge a get and a gat through the real handler (C05)
func interleavingCases(maxN int) []hCase {
	var out []hCase
	ds := 1184 - 71 - 3 - 16
	for n := 1; n <= maxN; n++ {
		la, lb := (n-1)*ds+9, (n-1)*ds+200
		if n >= 2 {
			lb = (n-2)*ds + 30 // B has one chunk less: stale chunk of A beyond B's last
		}
		da, db := genBytes(uint64(100+n), la), genBytes(uint64(200+n), lb)
		pa, pb := captureSet("key", da, 0xAAAA), captureSet("key", db, 0xBBBB)
		wr := []rawWrite{{"key", da, 0xAAAA}, {"key", db, 0xBBBB}}
		for _, m := range merges(len(pa), len(pb)) {
			for _, rd := range []string{"get", "gat"} {
				c := hCase{Keys: []string{"key"}, Spare: []int{0}, Written: wr}
				ia, ib := 0, 0
				for _, ch := range m {
					var pt rawPut
					if ch == 'A' {
						pt = pa[ia]
						ia++
					} else {
						pt = pb[ib]
						ib++
					}
					// a read after every single request
					c.Ops = append(c.Ops, hOp{Kind: rd, Key: 0, Keys: []int{0}, Put: []rawPut{pt}, TTL: 0})
				}
				out = append(out, c)
			}
		}
	}
	// the same with an append / a prepend at every position: a modification that succeeds extends
	// one write's whole value (both sets with the same number of chunks, so that all chunks of a
	// mixed state are present)
	for n := 1; n <= maxN && n <= 2; n++ {
		la, lb := (n-1)*ds+9, (n-1)*ds+200
		da, db := genBytes(uint64(300+n), la), genBytes(uint64(400+n), lb)
		pa, pb := captureSet("key", da, 0xAAAA), captureSet("key", db, 0xBBBB)
		wr := []rawWrite{{"key", da, 0xAAAA}, {"key", db, 0xBBBB}}
		for _, m := range merges(len(pa), len(pb)) {
			for pos := 1; pos <= len(m); pos++ {
				for _, cat := range []string{"append", "prepend"} {
					c := hCase{Keys: []string{"key"}, Spare: []int{0}, Written: wr}
					ia, ib := 0, 0
					for _, ch := range m[:pos] {
						var pt rawPut
						if ch == 'A' {
							pt = pa[ia]
							ia++
						} else {
							pt = pb[ib]
							ib++
						}
						c.Ops = append(c.Ops, hOp{Kind: "get", Key: 0, Keys: []int{0}, Put: []rawPut{pt}})
					}
					c.Ops = append(c.Ops, hOp{Kind: cat, Key: 0, Len: 5, Seed: 77}, hOp{Kind: "get", Key: 0, Keys: []int{0}})
					out = append(out, c)
				}
			}
		}
	}
	return out
}

func chunkedSeq(e *env, prop string, mode int) {
	w := rig.NewWriter(e.out, prop, e.tier, e.seed)
	w.Shards = 16
	r := rig.NewRand(e.seed + uint64(mode)*7919)
	thorough := e.tier == "thorough"
	var cases []hCase
	if rp := replayArg(e); rp != "" {
		var c hCase
		b, err := os.ReadFile(rp)
		if err != nil || json.Unmarshal(b, &c) != nil {
			rig.Die("cannot read replay input %s", rp)
		}
		cases = append(cases, c)
	} else if mode == 5 {
		maxN := 4
		if thorough {
			maxN = 6
		}
		cases = lossCases(maxN)
		im := 2
		if thorough {
			im = 3
		}
		cases = append(cases, interleavingCases(im)...)
		cases = append(cases, rewriteCases(im+1)...)
		// multi-key gets: every value handed out must still be, when the whole get is over, the
		// value one set wrote (the receiver keeps them while the handler fetches the next keys)
		ds5 := 1184 - 71 - 3 - 16
		for _, lens := range [][2]int{{3 * ds5, 2*ds5 - 7}, {2*ds5 + 1, 2*ds5 + 1}, {ds5 + 9, 5}, {40, 40}, {5, 3 * ds5}} {
			for _, order := range [][]int{{0, 1}, {1, 0}, {0, 0, 1}, {0, 1, 0, 1}} {
				cases = append(cases, hCase{Keys: []string{"alpha", "b"}, Spare: []int{0, 0}, Ops: []hOp{
					{Kind: "set", Key: 0, Len: lens[0], Seed: 21, TTL: 0}, {Kind: "set", Key: 1, Len: lens[1], Seed: 22, TTL: 0},
					{Kind: "get", Key: 0, Keys: order}}})
			}
		}
		w.Res.Exhaustive = true
	} else {
		// corpus: directed cases kept from earlier findings run first
		ds := 1184 - 71 - 3 - 16
		cases = append(cases,
			// get-and-touch does not rewrite the metadata's Exptime; a later append re-sets the key with the stale one
			hCase{Keys: []string{"key"}, Spare: []int{0}, Ops: []hOp{
				{Kind: "set", Key: 0, Len: 10, Seed: 1, TTL: 1000}, {Kind: "gat", Key: 0, TTL: 5000}, {Kind: "append", Key: 0, Len: 5, Seed: 2},
				{Kind: "get", Key: 0, Keys: []int{0}}}},
			// touch rewrites the metadata's Exptime; a later append/prepend must keep the touched expiry
			hCase{Keys: []string{"key"}, Spare: []int{0}, Ops: []hOp{
				{Kind: "set", Key: 0, Len: 2*ds + 5, Seed: 6, TTL: 1000}, {Kind: "touch", Key: 0, TTL: 5000}, {Kind: "append", Key: 0, Len: 5, Seed: 7},
				{Kind: "get", Key: 0, Keys: []int{0}}, {Kind: "touch", Key: 0, TTL: 0}, {Kind: "prepend", Key: 0, Len: 3, Seed: 8}, {Kind: "get", Key: 0, Keys: []int{0}}}},
			// real time passes between the write and an append/prepend/touch: the expiry asked for stays
			hCase{Keys: []string{"key"}, Spare: []int{0}, Ops: []hOp{
				{Kind: "set", Key: 0, Len: ds + 5, Seed: 11, TTL: 1000}, {Kind: "sleep", SleepMs: 1100}, {Kind: "append", Key: 0, Len: 5, Seed: 12},
				{Kind: "get", Key: 0, Keys: []int{0}}, {Kind: "sleep", SleepMs: 1100}, {Kind: "prepend", Key: 0, Len: 4, Seed: 13}, {Kind: "get", Key: 0, Keys: []int{0}}}},
			hCase{Keys: []string{"k2"}, Spare: []int{0}, Ops: []hOp{
				{Kind: "add", Key: 0, Len: 9, Seed: 14, TTL: 50}, {Kind: "sleep", SleepMs: 1100}, {Kind: "touch", Key: 0, TTL: 700}, {Kind: "sleep", SleepMs: 1100},
				{Kind: "append", Key: 0, Len: 2 * ds, Seed: 15}, {Kind: "touch", Key: 0, TTL: 300}, {Kind: "sleep", SleepMs: 1100}, {Kind: "get", Key: 0, Keys: []int{0}},
				{Kind: "replace", Key: 0, Len: 3, Seed: 16, TTL: 20}, {Kind: "sleep", SleepMs: 1100}, {Kind: "prepend", Key: 0, Len: 3, Seed: 17}, {Kind: "get", Key: 0, Keys: []int{0}}}},
			// get-and-touch prolongs a short expiry; once the old expiry has passed the key must still be
			// readable (the expiry recorded inside the metadata is stale after a gat - nothing may trust it)
			hCase{Keys: []string{"sess"}, Spare: []int{0}, Ops: []hOp{
				{Kind: "set", Key: 0, Len: 2*ds + 9, Seed: 31, TTL: 2}, {Kind: "gat", Key: 0, TTL: 3600}, {Kind: "sleep", SleepMs: 3100},
				{Kind: "get", Key: 0, Keys: []int{0}}, {Kind: "gat", Key: 0, TTL: 3600}, {Kind: "touch", Key: 0, TTL: 0}, {Kind: "get", Key: 0, Keys: []int{0}}}},
			// a set with an absolute TTL in the past is acknowledged without effect
			hCase{Keys: []string{"key"}, Spare: []int{0}, Ops: []hOp{
				{Kind: "set", Key: 0, Len: 2*ds + 1, Seed: 3}, {Kind: "set", Key: 0, Len: 7, Seed: 4, TTLRel: "abs-past", TTL: 5},
				{Kind: "get", Key: 0, Keys: []int{0}}}},
			// touch of a key whose slice has spare capacity (aliasing, fixed)
			hCase{Keys: []string{"foo"}, Spare: []int{13}, Ops: []hOp{
				{Kind: "set", Key: 0, Len: 2*ds + 1, Seed: 5, TTL: 100}, {Kind: "touch", Key: 0, TTL: 9000}, {Kind: "get", Key: 0, Keys: []int{0}}}},
		)
		n := 150
		if thorough {
			n = 3000
		}
		for i := 0; i < n; i++ {
			cases = append(cases, genChunkedCase(r, mode, thorough, w))
		}
	}
	for _, c := range cases {
		var coq string
		var fail *rig.GoFailure
		var stats map[string]bool
		ok := false
		for try := 0; try < 5 && !ok; try++ {
			coq, ok, fail, stats = runChunkedCase(c, w)
		}
		if fail != nil {
			w.Fail(*fail)
			continue
		}
		if !ok {
			continue
		}
		nt := stats["multi-chunk"]
		if mode == 5 {
			nt = true
		}
		var tags []string
		sawGat := map[int]bool{}
		for _, op := range c.Ops {
			if op.Kind == "gat" {
				sawGat[op.Key] = true
			}
			if (op.Kind == "append" || op.Kind == "prepend") && sawGat[op.Key] {
				tags = append(tags, "chunked-gat-then-append-stale-exptime")
			}
			if op.TTLRel == "abs-past" && (op.Kind == "set" || op.Kind == "add" || op.Kind == "replace") {
				tags = append(tags, "chunked-set-absolute-past-ttl")
			}
		}
		w.Add(rig.Case{Desc: c, Coq: coq, Nontrivial: nt, Tags: tags})
	}
	w.Res.Rule = "chunked handler over a fake backend: random operation sequences over 3 client keys (lengths 1..250, with and without spare slice capacity, keys resembling each other's backend keys), value lengths 0/1/k*payload±1/100/999 chunks; non-trivial = some value spans >= 2 chunks; C05: every subset of {meta, chunk i} of an n-chunk value removed before a get and a gat, with stale chunks of an older longer value present (exhaustive in n); and the backend requests of two complete sets of one key merged in every order, with a get (resp. gat) after every single request (exhaustive for n <= 2 chunks quick, <= 3 thorough); the backend requests of the rewrite an append / a prepend performs (chunk count kept and grown) with a get (resp. gat) after every single request; multi-key gets of two keys with values of 1..3 chunks in every order, each value checked again when the whole get is over"
	if err := w.Finish([]string{"base.Bytes", "base.Harness", "gen.Consts_gen", "spec.MapSpec", "orca.Types", "handlers.Chunked", "checks.Check04"}, "case04",
		fmt.Sprintf("check04 %d", mode)); err != nil {
		rig.Die("%v", err)
	}
}
