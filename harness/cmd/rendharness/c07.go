package main

import (
	"bufio"
	"bytes"
	"encoding/hex"
	"encoding/json"
	"fmt"
	"io"
	"log"
	"net"
	"os"
	"runtime"
	"sort"
	"strings"
	"sync"
	"time"

	"github.com/netflix/rend/common"
	"github.com/netflix/rend/handlers"
	"github.com/netflix/rend/orcas"
	"github.com/netflix/rend/protocol"
	"github.com/netflix/rend/protocol/binprot"
	"github.com/netflix/rend/protocol/textprot"
	"github.com/netflix/rend/server"
	"verifharness/gal"
	"verifharness/rig"
	"verifharness/wire"
)

func init() { commands["c07"] = c07 }

// ---------------------------------------------------------------- running the real parsers

// counted is a reader that knows how many of its bytes were not handed out yet.
type counted interface {
	io.Reader
	Left() int
}

// segReader returns the stream in the segments given by cuts (sorted offsets): one Read never
// crosses a cut. No cuts = the whole stream at once.
type segReader struct {
	data []byte
	cuts []int
	pos  int
	ci   int
}

func (s *segReader) Read(p []byte) (int, error) {
	if s.pos >= len(s.data) {
		return 0, io.EOF
	}
	end := len(s.data)
	for s.ci < len(s.cuts) && s.cuts[s.ci] <= s.pos {
		s.ci++
	}
	if s.ci < len(s.cuts) && s.cuts[s.ci] < end {
		end = s.cuts[s.ci]
	}
	n := copy(p, s.data[s.pos:end])
	s.pos += n
	return n, nil
}
func (s *segReader) Left() int { return len(s.data) - s.pos }

// yieldReader delivers the stream in pieces of 1..max bytes and yields the processor before every
// read, so that other goroutines run while the reader's owner is in the middle of a request.
type yieldReader struct {
	data  []byte
	pos   int
	state uint32
	max   int
}

func (y *yieldReader) Read(p []byte) (int, error) {
	runtime.Gosched()
	if y.pos >= len(y.data) {
		return 0, io.EOF
	}
	y.state = y.state*1664525 + 1013904223
	n := 1 + int(y.state>>16)%y.max
	if n > len(p) {
		n = len(p)
	}
	n = copy(p[:n], y.data[y.pos:])
	y.pos += n
	return n, nil
}
func (y *yieldReader) Left() int { return len(y.data) - y.pos }

// connReader reads from a net.Conn fed by a writer goroutine (segments written one by one).
type connReader struct {
	c     net.Conn
	total int
	got   int
}

func (c *connReader) Read(p []byte) (int, error) {
	n, err := c.c.Read(p)
	c.got += n
	return n, err
}
func (c *connReader) Left() int { return c.total - c.got }

func newParser(proto string, br *bufio.Reader) protocol.RequestParser {
	if proto == "bin" {
		return binprot.NewBinaryParser(br)
	}
	return textprot.NewTextParser(br)
}

// fromRepo turns what Parse returned into the harness's own request form.
func fromRepo(req common.Request, rt common.RequestType) (wire.Req, string) {
	items := func(g common.GetRequest) ([]wire.Item, string) {
		if len(g.Keys) != len(g.Opaques) || len(g.Keys) != len(g.Quiet) {
			return nil, "GetRequest slices of different lengths"
		}
		its := make([]wire.Item, len(g.Keys))
		for i := range g.Keys {
			its[i] = wire.Item{Key: wire.Hex(g.Keys[i]), Opaque: g.Opaques[i], Quiet: g.Quiet[i]}
		}
		return its, ""
	}
	switch v := req.(type) {
	case common.SetRequest:
		k := map[common.RequestType]wire.Kind{common.RequestSet: wire.Set, common.RequestAdd: wire.Add,
			common.RequestReplace: wire.Replace, common.RequestAppend: wire.Append, common.RequestPrepend: wire.Prepend}[rt]
		if k == "" {
			return wire.Req{Kind: wire.Unknown}, fmt.Sprintf("SetRequest with request type %d", rt)
		}
		return wire.Req{Kind: k, Key: wire.Hex(v.Key), Data: wire.Hex(v.Data), Flags: v.Flags, TTL: v.Exptime, Opaque: v.Opaque, Quiet: v.Quiet}, ""
	case common.GetRequest:
		its, bad := items(v)
		k := wire.Get
		if rt == common.RequestGetE {
			k = wire.GetE
		} else if rt != common.RequestGet {
			bad = fmt.Sprintf("GetRequest with request type %d", rt)
		}
		return wire.Req{Kind: k, Items: its, NoopOpaque: v.NoopOpaque, NoopEnd: v.NoopEnd}, bad
	case common.DeleteRequest:
		bad := ""
		if v.Quiet || rt != common.RequestDelete {
			bad = "DeleteRequest quiet or wrong type"
		}
		return wire.Req{Kind: wire.Delete, Key: wire.Hex(v.Key), Opaque: v.Opaque}, bad
	case common.TouchRequest:
		bad := ""
		if v.Quiet || rt != common.RequestTouch {
			bad = "TouchRequest quiet or wrong type"
		}
		return wire.Req{Kind: wire.Touch, Key: wire.Hex(v.Key), TTL: v.Exptime, Opaque: v.Opaque}, bad
	case common.GATRequest:
		bad := ""
		if v.Quiet || rt != common.RequestGat {
			bad = "GATRequest quiet or wrong type"
		}
		return wire.Req{Kind: wire.Gat, Key: wire.Hex(v.Key), TTL: v.Exptime, Opaque: v.Opaque}, bad
	case common.NoopRequest:
		return wire.Req{Kind: wire.Noop, Opaque: v.Opaque}, ""
	case common.QuitRequest:
		return wire.Req{Kind: wire.Quit, Opaque: v.Opaque, Quiet: v.Quiet}, ""
	case common.VersionRequest:
		return wire.Req{Kind: wire.Version, Opaque: v.Opaque}, ""
	case common.StatRequest:
		return wire.Req{Kind: wire.Stat, Opaque: v.Opaque}, ""
	case nil:
		if rt == common.RequestUnknown {
			return wire.Req{Kind: wire.Unknown}, ""
		}
		return wire.Req{Kind: wire.Unknown}, fmt.Sprintf("nil request with request type %d", rt)
	}
	return wire.Req{Kind: wire.Unknown}, fmt.Sprintf("unexpected request value %T", req)
}

type decoded struct {
	Seen   []wire.Req
	Status int    // 0 = n requests parsed with nil errors, 1 = a Parse failed
	Err    string // the failing error
	ErrIdx int    // its number in the generated error numbering (-1: not a common.Err*)
	Unread int
	Bad    []string // structural oddities of the returned values
}

// parseSeq calls Parse n times the way a client of the parser would.
func parseSeq(proto string, rd counted, n int) decoded {
	br := bufio.NewReader(rd)
	p := newParser(proto, br)
	var d decoded
	d.ErrIdx = -1
	for i := 0; i < n; i++ {
		req, rt, _, err := p.Parse()
		if err != nil {
			d.Status = 1
			d.Err = err.Error()
			d.ErrIdx = errIndex(err)
			break
		}
		r, bad := fromRepo(req, rt)
		if bad != "" {
			d.Bad = append(d.Bad, bad)
		}
		d.Seen = append(d.Seen, r)
	}
	d.Unread = br.Buffered() + rd.Left()
	return d
}

func sameDecode(a, b decoded) bool {
	if a.Status != b.Status || len(a.Seen) != len(b.Seen) || (a.Status == 0 && a.Unread != b.Unread) {
		return false
	}
	for i := range a.Seen {
		if !wire.Equal(a.Seen[i], b.Seen[i]) {
			return false
		}
	}
	return true
}

// ---------------------------------------------------------------- generators

type gen07 struct{ r *rig.Rand }

func (g gen07) u32() uint32 {
	switch g.r.Intn(6) {
	case 0:
		return 0
	case 1:
		return 1
	case 2:
		return 1 << 31
	case 3:
		return 0xffffffff
	}
	return uint32(g.r.U64())
}

var specialBytes = []byte{0, '\r', '\n', ' ', 0x80, 0x81, 0xff, '\t', 0xc2, 0xa0}

func (g gen07) rawBytes(n int) []byte {
	b := g.r.Bytes(n)
	for i := 0; i < n/8+1 && n > 0; i++ {
		b[g.r.Intn(n)] = specialBytes[g.r.Intn(len(specialBytes))]
	}
	return b
}

func (g gen07) keyLen() int {
	switch g.r.Intn(10) {
	case 0:
		return 1
	case 1:
		return 250
	case 2:
		return 249
	case 3:
		return []int{2, 3, 8, 16, 24, 100}[g.r.Intn(6)]
	}
	return 1 + g.r.Intn(40)
}

func (g gen07) binKey() []byte { return g.rawBytes(g.keyLen()) }
func (g gen07) textKey() []byte {
	n := g.keyLen()
	b := make([]byte, n)
	for i := range b {
		b[i] = byte(33 + g.r.Intn(94))
	}
	if n >= 8 && g.r.Chance(6) {
		// a key that is legal UTF-8 with a Unicode white-space rune inside (not at its ends): no
		// byte of it is 0x20, \t, \r or \n, so it is one key
		sp := []string{"\u3000", "\u00a0", "\u2003", "\u0085", "\u2028"}[g.r.Intn(5)]
		k := append([]byte("uk"), []byte(sp)...)
		k = append(k, b[:n-len(k)-0]...)
		if len(k) > 250 {
			k = k[:250]
		}
		k[len(k)-1] = 'z'
		return k
	}
	return b
}

func (g gen07) data(big bool) []byte {
	var n int
	if big {
		n = []int{4095, 4096, 4097, 65535, 65536, 1000 + g.r.Intn(64000)}[g.r.Intn(6)]
	} else {
		switch g.r.Intn(8) {
		case 0:
			n = 0
		case 1:
			n = 1
		case 2:
			n = 2
		default:
			n = g.r.Intn(120)
		}
	}
	d := g.rawBytes(n)
	if n >= 2 && g.r.Chance(30) {
		i := g.r.Intn(n - 1)
		d[i], d[i+1] = '\r', '\n'
	}
	if n >= 2 && g.r.Chance(10) { // ends like a terminator
		d[n-2], d[n-1] = '\r', '\n'
	}
	return d
}

func (g gen07) batch(kind wire.Kind, key func() []byte) wire.Req {
	n := 1 + g.r.Intn(5)
	r := wire.Req{Kind: kind}
	closedByNoop := g.r.Chance(40)
	for i := 0; i < n; i++ {
		r.Items = append(r.Items, wire.Item{Key: key(), Opaque: g.u32(), Quiet: closedByNoop || i < n-1})
	}
	if closedByNoop {
		r.NoopEnd = true
		r.NoopOpaque = g.u32()
	}
	return r
}

func (g gen07) binReq(big bool) wire.Req {
	switch g.r.Intn(16) {
	case 0, 1, 2:
		return wire.Req{Kind: []wire.Kind{wire.Set, wire.Add, wire.Replace}[g.r.Intn(3)], Key: g.binKey(), Data: g.data(big),
			Flags: g.u32(), TTL: g.u32(), Opaque: g.u32(), Quiet: g.r.Chance(30)}
	case 3, 4:
		return wire.Req{Kind: []wire.Kind{wire.Append, wire.Prepend}[g.r.Intn(2)], Key: g.binKey(), Data: g.data(big),
			Opaque: g.u32(), Quiet: g.r.Chance(30)}
	case 5:
		return wire.Req{Kind: wire.Delete, Key: g.binKey(), Opaque: g.u32()}
	case 6:
		return wire.Req{Kind: wire.Touch, Key: g.binKey(), TTL: g.u32(), Opaque: g.u32()}
	case 7:
		return wire.Req{Kind: wire.Gat, Key: g.binKey(), TTL: g.u32(), Opaque: g.u32()}
	case 8, 9, 10:
		return g.batch(wire.Get, g.binKey)
	case 11:
		return g.batch(wire.GetE, g.binKey)
	case 12:
		return wire.Req{Kind: wire.Noop, Opaque: g.u32()}
	case 13:
		return wire.Req{Kind: wire.Quit, Opaque: g.u32(), Quiet: g.r.Bool()}
	case 14:
		return wire.Req{Kind: wire.Version, Opaque: g.u32()}
	}
	return wire.Req{Kind: wire.Stat, Opaque: g.u32()}
}

func (g gen07) textReq(big bool) wire.Req {
	switch g.r.Intn(14) {
	case 0, 1, 2, 3:
		return wire.Req{Kind: []wire.Kind{wire.Set, wire.Add, wire.Replace}[g.r.Intn(3)], Key: g.textKey(), Data: g.data(big),
			Flags: g.u32(), TTL: g.u32()}
	case 4, 5:
		return wire.Req{Kind: []wire.Kind{wire.Append, wire.Prepend}[g.r.Intn(2)], Key: g.textKey(), Data: g.data(big)}
	case 6, 7, 8:
		n := 1 + g.r.Intn(5)
		r := wire.Req{Kind: wire.Get}
		if g.r.Chance(6) {
			// a command line longer than the connection's 4096-byte read buffer: 17..40 keys of 250 bytes
			n = 17 + g.r.Intn(24)
			for i := 0; i < n; i++ {
				k := g.textKey()
				for len(k) < 250 {
					k = append(k, g.textKey()...)
				}
				r.Items = append(r.Items, wire.Item{Key: k[:250]})
			}
			return r
		}
		for i := 0; i < n; i++ {
			r.Items = append(r.Items, wire.Item{Key: g.textKey()})
		}
		return r
	case 9:
		return wire.Req{Kind: wire.Delete, Key: g.textKey()}
	case 10:
		return wire.Req{Kind: wire.Touch, Key: g.textKey(), TTL: g.u32()}
	case 11:
		return wire.Req{Kind: wire.Noop}
	case 12:
		return wire.Req{Kind: []wire.Kind{wire.Version, wire.Stat}[g.r.Intn(2)]}
	}
	return wire.Req{Kind: wire.Quit}
}

// ---------------------------------------------------------------- cases

type pipeDesc struct {
	Tier  string     `json:"tier"` // "pipe"
	Proto string     `json:"proto"`
	Reqs  []wire.Req `json:"reqs"`
	Junk  wire.Hex   `json:"junk,omitempty"`
	Cuts  []int      `json:"cuts,omitempty"` // only in Go-side segmentation failures
}
type rawDesc struct {
	Tier  string   `json:"tier"` // "raw"
	Proto string   `json:"proto"`
	Wire  wire.Hex `json:"wire"`
	Note  string   `json:"note,omitempty"`
}
type firstDesc struct {
	Tier string `json:"tier"` // "first"
	Byte int    `json:"byte"`
}

func protoCoq(p string) string {
	if p == "bin" {
		return "Bin"
	}
	return "Text"
}

func reqsCoq(rs []wire.Req) string {
	it := make([]string, len(rs))
	for i, r := range rs {
		it[i] = r.Coq()
	}
	return gal.List(it)
}

func encode(proto string, r wire.Req) []byte {
	if proto == "bin" {
		return wire.Binary(r)
	}
	return wire.Text(r)
}

type run07 struct {
	w     *rig.Writer
	r     *rig.Rand
	segs  int // segmentations tried
	nreq  int
	pipes int
}

// field boundaries of a stream (for the "split inside a field" statistic): offsets where a
// request starts; every other offset is inside a request.
func (x *run07) doPipe(d pipeDesc, viaConnEvery bool) {
	w := x.w
	var stream []byte
	starts := map[int]bool{}
	for _, q := range d.Reqs {
		starts[len(stream)] = true
		stream = append(stream, encode(d.Proto, q)...)
	}
	starts[len(stream)] = true
	stream = append(stream, d.Junk...)
	n := len(d.Reqs)
	base := parseSeq(d.Proto, &segReader{data: stream}, n)
	for _, b := range base.Bad {
		w.Fail(rig.GoFailure{Kind: "counterexample", What: "parser returned a malformed request value: " + b, Input: d, Detail: base.Err})
	}
	// Go-side intent check for what the Coq request type cannot carry (flags/ttl of text append)
	if base.Status == 0 {
		for i := range d.Reqs {
			if d.Reqs[i].Coq() == base.Seen[i].Coq() && !wire.Equal(d.Reqs[i], base.Seen[i]) {
				w.Fail(rig.GoFailure{Kind: "counterexample", What: "decoded request differs from the one sent in a field outside the model's request type",
					Input: d, Detail: fmt.Sprintf("sent %+v got %+v", d.Reqs[i], base.Seen[i])})
			}
		}
	}
	// segmentations
	splitInside := false
	try := func(cuts []int, how string) {
		x.segs++
		var got decoded
		if how == "pipe" {
			got = parseOverPipe(d.Proto, stream, cuts, n)
		} else {
			got = parseSeq(d.Proto, &segReader{data: stream, cuts: cuts}, n)
		}
		for _, c := range cuts {
			if !starts[c] {
				splitInside = true
			}
		}
		if !sameDecode(base, got) {
			dd := d
			dd.Cuts = cuts
			w.Fail(rig.GoFailure{Kind: "counterexample", What: "the decoded sequence depends on how the stream is split into reads (" + how + ")",
				Input: dd, Detail: fmt.Sprintf("unsplit: status %d, %d requests, %d unread, err %q; split: status %d, %d requests, %d unread, err %q",
					base.Status, len(base.Seen), base.Unread, base.Err, got.Status, len(got.Seen), got.Unread, got.Err)})
		}
	}
	L := len(stream)
	if len(d.Cuts) > 0 { // replay of a segmentation failure: exactly those cuts first
		cuts := append([]int{}, d.Cuts...)
		d.Cuts = nil
		try(cuts, "reader")
		try(cuts, "pipe")
	}
	if L <= 64 {
		for c := 1; c < L; c++ {
			try([]int{c}, "reader")
		}
		for k := 0; k < 8 && L > 2; k++ {
			a, b := 1+x.r.Intn(L-1), 1+x.r.Intn(L-1)
			if a > b {
				a, b = b, a
			}
			try([]int{a, b}, "reader")
		}
		w.Count("segmentation=every-split-point")
	} else {
		for k := 0; k < 3; k++ {
			m := 1 + x.r.Intn(6)
			cuts := make([]int, m)
			for i := range cuts {
				cuts[i] = 1 + x.r.Intn(L-1)
			}
			sort.Ints(cuts)
			try(cuts, "reader")
		}
		// around every request boundary: one byte before / after
		var cuts []int
		for s := range starts {
			for _, c := range []int{s - 1, s + 1, s + 23, s + 25} {
				if c > 0 && c < L {
					cuts = append(cuts, c)
				}
			}
		}
		sort.Ints(cuts)
		try(cuts, "reader")
		w.Count("segmentation=random-splits")
	}
	if L <= 4096 {
		cuts := make([]int, 0, L)
		for c := 1; c < L; c++ {
			cuts = append(cuts, c)
		}
		try(cuts, "reader")
		w.Count("segmentation=one-byte-at-a-time")
	}
	if viaConnEvery && L > 1 {
		m := 1 + x.r.Intn(4)
		cuts := make([]int, m)
		for i := range cuts {
			cuts[i] = 1 + x.r.Intn(L-1)
		}
		sort.Ints(cuts)
		try(cuts, "pipe")
		w.Count("segmentation=net.Pipe")
	}

	// statistics and non-triviality
	nontrivial := splitInside
	for _, q := range d.Reqs {
		w.Count("cmd=" + d.Proto + ":" + string(q.Kind))
		if q.Quiet {
			w.Count("quiet-variant")
		}
		if len(q.Key) > 0 && len(q.Data) > 0 {
			nontrivial = true
		}
		if (q.Kind == wire.Get || q.Kind == wire.GetE) && len(q.Items) > 1 {
			nontrivial = true
			w.Count("batch-closed-by=" + map[bool]string{true: "noop", false: "get"}[q.NoopEnd])
		}
		switch {
		case q.Data == nil && q.Kind != wire.Set && q.Kind != wire.Add && q.Kind != wire.Replace && q.Kind != wire.Append && q.Kind != wire.Prepend:
		case len(q.Data) == 0:
			w.Count("data=0")
		case len(q.Data) <= 120:
			w.Count("data=1..120")
		case len(q.Data) <= 4097:
			w.Count("data=121..4097")
		default:
			w.Count("data=4098..65536")
		}
		if bytes.Contains(q.Data, []byte("\r\n")) {
			w.Count("data-contains-CRLF")
		}
		if l := len(q.Key); l >= 249 {
			w.Count("key>=249")
		}
	}
	w.Count(fmt.Sprintf("pipeline-length=%d", min(n, 4)))
	if len(d.Junk) > 0 {
		w.Count("trailing-bytes-after-pipeline")
	}
	x.nreq += n
	x.pipes++
	w.Add(rig.Case{
		Desc: d,
		Coq: gal.App("KPipe", protoCoq(d.Proto), reqsCoq(d.Reqs), gal.Bytes(d.Junk), gal.Bytes(stream), reqsCoq(base.Seen),
			gal.N(uint64(base.Status)), gal.N(uint64(base.Unread))),
		Nontrivial: nontrivial,
	})
}

func min(a, b int) int {
	if a < b {
		return a
	}
	return b
}

// parseOverPipe feeds the segments through a net.Pipe, one Write per segment.
func parseOverPipe(proto string, stream []byte, cuts []int, n int) decoded {
	cl, sv := net.Pipe()
	go func() {
		prev := 0
		for _, c := range append(append([]int{}, cuts...), len(stream)) {
			if c > prev {
				cl.Write(stream[prev:c])
				prev = c
			}
		}
		cl.Close()
	}()
	d := parseSeq(proto, &connReader{c: sv, total: len(stream)}, n)
	// drain so the writer goroutine ends
	go func() { io.Copy(io.Discard, sv); sv.Close() }()
	return d
}

func (x *run07) doRaw(d rawDesc) {
	w := x.w
	got := parseSeq(d.Proto, &segReader{data: d.Wire}, 1)
	class, detail := 0, 0
	seen := "None"
	if got.Status == 1 {
		class = 2
		if got.ErrIdx >= 0 && isContinueErr(got.ErrIdx) {
			class, detail = 1, got.ErrIdx
		}
	} else {
		seen = "(Some " + got.Seen[0].Coq() + ")"
		w.Count("raw-decoded-as=" + string(got.Seen[0].Kind))
	}
	w.Count(fmt.Sprintf("raw-class=%d", class))
	unread := got.Unread
	if class == 2 {
		unread = 0
	}
	// one-byte-at-a-time must give the same
	cuts := make([]int, 0, len(d.Wire))
	for c := 1; c < len(d.Wire); c++ {
		cuts = append(cuts, c)
	}
	x.segs++
	if got2 := parseSeq(d.Proto, &segReader{data: d.Wire, cuts: cuts}, 1); !sameDecode(got, got2) || got.Err != got2.Err {
		w.Fail(rig.GoFailure{Kind: "counterexample", What: "the decode of near-valid input depends on how the stream is split into reads",
			Input: d, Detail: fmt.Sprintf("whole: %+v; byte-wise: %+v", got, got2)})
	}
	w.Add(rig.Case{
		Desc:       d,
		Coq:        gal.App("KRaw", protoCoq(d.Proto), gal.Bytes(d.Wire), gal.N(uint64(class)), gal.N(uint64(detail)), seen, gal.N(uint64(unread))),
		Nontrivial: class != 2,
	})
}

func isContinueErr(idx int) bool {
	e := errList[idx].err
	return e == common.ErrBadRequest || e == common.ErrBadLength || e == common.ErrBadFlags || e == common.ErrBadExptime
}

// ---------------------------------------------------------------- first byte, through the real listener

type pipeListener struct{ ch chan net.Conn }

func (l *pipeListener) Accept() (net.Conn, error)              { return <-l.ch, nil }
func (l *pipeListener) Configure(c net.Conn) (net.Conn, error) { return c, nil }

type chosen struct{ parser, responder string }

type firstByteRig struct {
	ln  *pipeListener
	sel chan chosen
	cur chosen
}

func newFirstByteRig() *firstByteRig {
	f := &firstByteRig{ln: &pipeListener{ch: make(chan net.Conn)}, sel: make(chan chosen, 4)}
	var respKind string
	oc := func(l1, l2 handlers.Handler, res protocol.Responder) orcas.Orca {
		switch res.(type) {
		case binprot.BinaryResponder:
			respKind = "bin"
		case textprot.TextResponder:
			respKind = "text"
		default:
			respKind = fmt.Sprintf("%T", res)
		}
		return orcas.L1Only(l1, l2, res)
	}
	sc := func(conns []io.Closer, rp protocol.RequestParser, o orcas.Orca) server.Server {
		pk := fmt.Sprintf("%T", rp)
		switch rp.(type) {
		case binprot.BinaryParser:
			pk = "bin"
		case textprot.TextParser:
			pk = "text"
		}
		f.sel <- chosen{pk, respKind}
		return server.Default(conns, rp, o)
	}
	// exactly the list of app/memproxy.go and app/memandra.go
	ps := []protocol.Components{binprot.Components, textprot.Components}
	go server.ListenAndServe(func() (server.Listener, error) { return f.ln, nil }, ps, sc, oc, handlers.NilHandler, handlers.NilHandler)
	return f
}

// probe opens a connection whose first byte is b and reports what the listener chose and how
// the first reply looked.
func (f *firstByteRig) probe(b byte) (chosen, string, error) {
	// b, then what would complete a binary no-op header (opcode 0x0a is also a line feed),
	// then a line end
	payload := append([]byte{b, 0x0a}, make([]byte, 22)...)
	payload = append(payload, '\r', '\n')
	return f.probePayload(payload)
}

// probePayload opens a connection that sends payload and reports what the listener chose and how
// the first reply looked.
func (f *firstByteRig) probePayload(payload []byte) (chosen, string, error) {
	cl, sv := net.Pipe()
	f.ln.ch <- sv
	go func() {
		cl.SetWriteDeadline(time.Now().Add(5 * time.Second))
		cl.Write(payload)
	}()
	var ch chosen
	select {
	case ch = <-f.sel:
	case <-time.After(10 * time.Second):
		cl.Close()
		return ch, "", fmt.Errorf("no protocol was selected within 10 s")
	}
	cl.SetReadDeadline(time.Now().Add(5 * time.Second))
	buf := make([]byte, 64)
	n, err := cl.Read(buf)
	reply := "closed-without-reply"
	if n > 0 {
		switch {
		case buf[0] == 0x81:
			reply = "binary-frame"
		case buf[0] >= 'A' && buf[0] <= 'Z':
			reply = "text-line"
		default:
			reply = "other:" + hex.EncodeToString(buf[:n])
		}
	} else if err != nil && !strings.Contains(err.Error(), "EOF") && !strings.Contains(err.Error(), "closed") {
		reply = "error:" + err.Error()
	}
	cl.Close()
	return ch, reply, nil
}

func (x *run07) doFirst(f *firstByteRig, b int) {
	w := x.w
	ch, reply, err := f.probe(byte(b))
	d := firstDesc{Tier: "first", Byte: b}
	if err != nil {
		w.Fail(rig.GoFailure{Kind: "counterexample", What: "connection not served", Input: d, Detail: err.Error()})
		return
	}
	if ch.parser != ch.responder {
		w.Fail(rig.GoFailure{Kind: "counterexample", What: "parser and responder of different protocols", Input: d, Detail: fmt.Sprintf("%+v", ch)})
	}
	// the reply format must fit the choice: text always answers the first line; binary answers a
	// valid no-op (b = 0x80) with a frame and closes on any other first byte (bad magic)
	fits := (ch.parser == "text" && reply == "text-line") ||
		(ch.parser == "bin" && ((b == 0x80 && reply == "binary-frame") || (b != 0x80 && reply == "closed-without-reply")))
	if !fits {
		w.Fail(rig.GoFailure{Kind: "broken-correspondence", What: "reply format does not fit the protocol the listener selected", Input: d,
			Detail: fmt.Sprintf("selected %+v, reply %s", ch, reply)})
	}
	w.Count("first-byte->" + ch.parser)
	w.Add(rig.Case{Desc: d, Coq: gal.App("KFirst", gal.N(uint64(b)), protoCoq(ch.parser)), Nontrivial: b == 0x80 || (b >= 'a' && b <= 'z') || b == 0x81 || b == 'A'})
}

// ---------------------------------------------------------------- near-valid inputs

var rawText = []string{
	"get k\xc2\xa0\r\n", "get k \r\n", "  get k\r\n", "get  k\r\n", "get\r\n", "get \r\n", "GET k\r\n", "get k\n", "get k\r\r\n",
	"set k 1 2 3\r\nabc\r\n", "set k 01 002 3\r\nabc\r\n", "set k +1 2 3\r\n", "set k 1 2 3 \r\nabc\r\n", "set k 1 2\t3\r\n",
	"set k 1\t 2 3\r\nabc\r\n", "set k 4294967296 0 1\r\n", "set k 4294967295 4294967295 1\r\nx\r\n", "set k 0 0 -1\r\n",
	"set k 0 99999999999999999999999 1\r\n", "set k 0 0 1x\r\n", "set k x y z\r\n", "set k 0 0\r\n", "set k 0 0 1 noreply\r\n",
	"set k 0 0 00000000000000000000000000001\r\nx\r\n", "set k 0 0 1_0\r\n", "set k 0x1 0 1\r\n", "set  k 0 0 1\r\n",
	"set k 0 0 3\r\nabcdefgh\r\nget x\r\n", "set k 0 0 3\r\nab", "set k 0 0 3\r\nabc", "set k 0 0 3\r\nabcd", "set k 0 0 0\r\n\r\n", "set k 0 0 0\r\n",
	"append k 5 6 2\r\nhi\r\n", "prepend k 4294967295 1 2\r\nhi\r\n", "append k x 6 2\r\n", "add k 1 2 2\r\n\r\n\r\n", "replace k 1 2 1\r\n\n\r\n",
	"touch k 1x\r\n", "touch k\r\n", "touch k 1 2\r\n", "touch k 4294967296\r\n", "touch k  1\r\n", "touch k 1\t\r\n", "touch k \t1\r\n",
	"delete\r\n", "delete a b\r\n", "delete k\r\n", "delete k \r\n", "noop x\r\n", "noop\n", "quit\n", "quit now\r\n", "version \r\n", "stats\t\r\n", "stats x\r\n",
	"\r\n", "\n", " \r\n", "\t\n", "x\r\n", "gets k\r\n", "incr k 1\r\n", "set\r\n", "se t k 0 0 1\r\n",
	"get k\xe2\x80\x80\r\n", "get k\xe3\x80\x80\r\n", "\xe1\x9a\x80get k\r\n", "get k\xa0\r\n", "get k\x85\r\n", "get k\xc2\x85\r\n", "get k\xe2\x80\xa8\r\n",
	"get k\xe2\x80\xa9\r\n", "get k\xe2\x80\x8a\r\n", "get k\xe2\x80\x8b\r\n", "get k\xe2\x81\x9f\r\n", "get k\xe2\x80\xaf\r\n", "get k\x1c\r\n", "get k\v\f\r\n",
	"get k\xe2\x80\r\n", "get k\xc2\r\n", "get k\x80\x80\xe2\x80\x80\r\n", "get k\xe2\x80\x80\x80\r\n", "get k\xf0\xe2\x80\x80\r\n", "get k\xc2\xa0\xc2\xa0 \xe3\x80\x80\r\n",
	"\xc2\xa0get k\r\n", "\xc2get k\r\n", "\xe2\x80\x80 \xc2\x85get k\r\n", "get \xc2\xa0k\r\n", "get k\xe1\x9a\x80\r\n", "get k\xe1\x9a\x81\r\n", "get k\xef\xbb\xbf\r\n",
	"set k 0 0 1\xc2\xa0\r\nx\r\n", "set k \xc2\xa00 0 1\r\nx\r\n", "set k 0\xe2\x80\x80 0 1\r\nx\r\n", "set k 0 0 \xe3\x80\x801\r\nx\r\n", "touch k 5\xc2\xa0\r\n",
	"get k", "", "get a b c d e f g h\r\n", "get " + strings.Repeat("k", 300) + "\r\n",
}

// ---------------------------------------------------------------- the sub-command

func c07(e *env) {
	log.SetOutput(io.Discard)
	if dn, err := os.OpenFile(os.DevNull, os.O_WRONLY, 0); err == nil {
		os.Stdout = dn // binprot prints the header bytes on a bad magic
	}
	w := rig.NewWriter(e.out, "C07", e.tier, e.seed)
	w.Shards = 8
	if e.tier == "thorough" {
		w.Shards = 16
	}
	r := rig.NewRand(e.seed)
	x := &run07{w: w, r: r}
	g := gen07{r}
	imports := []string{"base.Bytes", "base.Harness", "spec.MapSpec", "orca.Types", "proto.Resp", "checks.Check07"}
	w.Res.Rule = "a pipeline counts as non-trivial when a request has key and data, or is a get batch of >= 2 keys, or some tried segmentation cut the stream inside a request; " +
		"concurrent tier: 3..8 streams (binary ones starting with a quiet-get batch, every fourth text) decoded at the same time by separate parsers, delivered in pieces of 1..23 bytes with a yield before every read, half the rounds on one processor: each must decode as it does alone; " +
		"raw near-valid inputs count when the parser answered with a request or a client error; first bytes 0x80/0x81/'A'/'a'..'z' count"

	for _, a := range e.args {
		if strings.HasPrefix(a, "replay=") {
			c07replay(x, strings.TrimPrefix(a, "replay="))
			w.Res.Stats["extra_evaluations"] = x.segs
			if err := w.Finish(imports, "case07", "check07"); err != nil {
				rig.Die("%v", err)
			}
			return
		}
	}

	target := 2000
	if e.tier == "thorough" {
		target = 50000
	}
	// tier A: pipelines, both protocols
	bigBudget := 6
	if e.tier == "thorough" {
		bigBudget = 40
	}
	t0 := time.Now()
	for x.nreq < target {
		proto := "bin"
		if x.pipes%2 == 1 {
			proto = "text"
		}
		n := 1
		switch r.Intn(10) {
		case 0, 1, 2:
			n = 2
		case 3, 4:
			n = 3
		case 5:
			n = 4 + r.Intn(5)
		}
		d := pipeDesc{Tier: "pipe", Proto: proto}
		for i := 0; i < n; i++ {
			big := bigBudget > 0 && r.Intn(150) == 0
			var q wire.Req
			if proto == "bin" {
				q = g.binReq(big)
			} else {
				q = g.textReq(big)
			}
			if big && len(q.Data) > 4000 {
				bigBudget--
			}
			d.Reqs = append(d.Reqs, q)
		}
		if r.Chance(30) {
			d.Junk = wire.Hex(g.rawBytes(1 + r.Intn(8)))
		}
		x.doPipe(d, x.pipes%40 == 0)
	}
	// a few binary keys beyond the 250 bytes the property names (the theorem covers 1..65535)
	for _, kl := range []int{251, 1000, 65535} {
		k := g.rawBytes(kl)
		x.doPipe(pipeDesc{Tier: "pipe", Proto: "bin", Reqs: []wire.Req{
			{Kind: wire.Set, Key: k, Data: []byte("v"), Flags: 1, TTL: 2, Opaque: 3},
			{Kind: wire.Get, Items: []wire.Item{{Key: k, Opaque: 9}}}}}, false)
		w.Count("key>250")
	}

	w.Res.Stats["seconds_pipelines"] = time.Since(t0).Seconds()
	t0 = time.Now()
	// tier B: near-valid inputs (model vs parser, full decode)
	for _, s := range rawText {
		x.doRaw(rawDesc{Tier: "raw", Proto: "text", Wire: []byte(s), Note: "fixed list"})
	}
	nraw := 300
	if e.tier == "thorough" {
		nraw = 5000
	}
	for i := 0; i < nraw; i++ {
		x.doRaw(rawDesc{Tier: "raw", Proto: "text", Wire: g.nearText(), Note: "token soup"})
		x.doRaw(rawDesc{Tier: "raw", Proto: "bin", Wire: g.nearBin(), Note: "header field edit"})
	}

	// tier B2: proper prefixes of one well-formed request followed by end of stream. The
	// property's "decodes to that same request" has a converse the parser must respect: a
	// request whose bytes have not all arrived is not a request, whatever the field boundary
	// the stream ends at. Oracle on the Go side (no request may be returned), model compared
	// through the ordinary raw case.
	nprefix := 120
	if e.tier == "thorough" {
		nprefix = 1500
	}
	for i := 0; i < nprefix; i++ {
		proto := "bin"
		if i%3 == 2 {
			proto = "text"
		}
		var q wire.Req
		for {
			if proto == "bin" {
				q = g.binReq(false)
			} else {
				q = g.textReq(false)
			}
			if len(q.Items) == 0 {
				break
			}
		}
		enc := encode(proto, q)
		cutset := map[int]bool{len(enc) - 1: true, len(enc) - len(q.Data): true, len(enc) - len(q.Data) - len(q.Key): true,
			len(enc) - len(q.Data) - 2: true, 24: true, 1 + r.Intn(len(enc)): true, 1 + r.Intn(len(enc)): true}
		for c := range cutset {
			if c <= 0 || c >= len(enc) {
				continue
			}
			d := rawDesc{Tier: "raw", Proto: proto, Wire: wire.Hex(append([]byte{}, enc[:c]...)), Note: fmt.Sprintf("proper prefix (%d of %d bytes) of %s", c, len(enc), q.Kind)}
			// the text parser discards the "\r\n" after a data block without looking at it, so a
			// text store command whose data arrived in full is decoded, field for field as sent,
			// even when that terminator is cut: the property does not forbid that
			onlyTerminatorMissing := proto == "text" && c >= len(enc)-2 && len(enc) >= 2 && enc[len(enc)-2] == '\r' &&
				(q.Kind == wire.Set || q.Kind == wire.Add || q.Kind == wire.Replace || q.Kind == wire.Append || q.Kind == wire.Prepend)
			if got := parseSeq(proto, &segReader{data: d.Wire}, 1); got.Status != 1 && !(onlyTerminatorMissing && wire.Equal(got.Seen[0], q)) {
				w.Fail(rig.GoFailure{Kind: "counterexample", What: "the parser returned a request although the stream ended before the request's last byte",
					Input: d, Detail: fmt.Sprintf("sent the first %d of %d bytes of %+v; decoded %+v", c, len(enc), q, got.Seen)})
			}
			w.Count("prefix-cases")
			x.doRaw(d)
		}
	}

	w.Res.Stats["seconds_near_valid"] = time.Since(t0).Seconds()
	t0 = time.Now()
	// tier C: first byte, all 256 values through server.ListenAndServe
	f := newFirstByteRig()
	for b := 0; b < 256; b++ {
		x.doFirst(f, b)
	}
	// ... and every supported command as the FIRST request of a connection (the protocol is decided
	// by the first byte alone: 0x80 is binary whatever opcode follows, a lowercase letter is text)
	for i := 0; i < 60; i++ {
		for _, proto := range []string{"bin", "text"} {
			var q wire.Req
			if proto == "bin" {
				q = g.binReq(false)
				if i < 16 { // every arm of the generator at least once
					q = []wire.Req{
						{Kind: wire.Set, Key: []byte("k"), Data: []byte("v"), Opaque: 1}, {Kind: wire.Add, Key: []byte("k"), Data: []byte("v"), Opaque: 1},
						{Kind: wire.Replace, Key: []byte("k"), Data: []byte("v"), Opaque: 1}, {Kind: wire.Append, Key: []byte("k"), Data: []byte("v"), Opaque: 1},
						{Kind: wire.Prepend, Key: []byte("k"), Data: []byte("v"), Opaque: 1}, {Kind: wire.Delete, Key: []byte("k"), Opaque: 1},
						{Kind: wire.Touch, Key: []byte("k"), TTL: 5, Opaque: 1}, {Kind: wire.Gat, Key: []byte("k"), TTL: 5, Opaque: 1},
						{Kind: wire.Get, Items: []wire.Item{{Key: []byte("k"), Opaque: 1}}}, {Kind: wire.Get, Items: []wire.Item{{Key: []byte("k"), Opaque: 1, Quiet: true}}, NoopEnd: true, NoopOpaque: 2},
						{Kind: wire.GetE, Items: []wire.Item{{Key: []byte("k"), Opaque: 1}}}, {Kind: wire.GetE, Items: []wire.Item{{Key: []byte("k"), Opaque: 1, Quiet: true}}, NoopEnd: true, NoopOpaque: 2},
						{Kind: wire.Noop, Opaque: 1}, {Kind: wire.Version, Opaque: 1}, {Kind: wire.Stat, Opaque: 1}, {Kind: wire.Quit, Opaque: 1},
					}[i]
				}
			} else {
				q = g.textReq(false)
			}
			q.Quiet = false
			payload := encode(proto, q)
			if proto == "bin" {
				payload = append(payload, encode(proto, wire.Req{Kind: wire.Noop, Opaque: 77})...) // something is answered in any case
			} else {
				payload = append(payload, []byte("version\r\n")...)
			}
			ch, reply, err := f.probePayload(payload)
			d := map[string]interface{}{"tier": "first-request", "proto": proto, "request": fmt.Sprintf("%+v", q), "wire": wire.Hex(payload)}
			// (the rig's handlers are nil handlers: only the selection is judged, not the reply)
			switch {
			case err != nil:
				w.Fail(rig.GoFailure{Kind: "counterexample", What: "connection not served", Input: d, Detail: err.Error()})
			case ch.parser != proto || ch.responder != proto:
				w.Fail(rig.GoFailure{Kind: "counterexample", What: "the protocol of a connection was not decided by the first byte of its first request", Input: d,
					Detail: fmt.Sprintf("first byte %#x; selected %+v; the first reply is a %s", payload[0], ch, reply)})
			}
			w.Count("first-request->" + ch.parser)
		}
	}
	w.Res.Stats["seconds_first_byte"] = time.Since(t0).Seconds()
	// tier D: several connections being decoded at the same time. Each stream starts with a quiet-get
	// batch and arrives in small pieces with the goroutine yielding before every read, so that the
	// parsers of the other streams run while this one is in the middle of a request. What a stream
	// decodes to must be what it decodes to alone: whatever the parsers share (header pools) must
	// not carry one connection's request into another's.
	t0 = time.Now()
	rounds := 40
	if e.tier == "thorough" {
		rounds = 600
	}
	for round := 0; round < rounds; round++ {
		old := runtime.GOMAXPROCS(0)
		if round%2 == 0 {
			runtime.GOMAXPROCS(1) // one P: its pool cache is shared by all the parsing goroutines
		}
		np := 3 + r.Intn(6)
		type stream struct {
			proto string
			reqs  []wire.Req
			data  []byte
			alone decoded
			got   decoded
			seed  uint32
		}
		ss := make([]*stream, np)
		for i := range ss {
			st := &stream{proto: "bin", seed: uint32(r.U64())}
			if i%4 == 3 {
				st.proto = "text"
			}
			n := 2 + r.Intn(5)
			for j := 0; j < n; j++ {
				var q wire.Req
				switch {
				case st.proto == "text":
					q = g.textReq(false)
				case j == 0:
					q = g.batch(wire.Get, g.binKey)
				default:
					q = g.binReq(false)
				}
				if q.Kind == wire.Quit {
					q = wire.Req{Kind: wire.Noop, Opaque: g.u32()}
				}
				st.reqs = append(st.reqs, q)
				st.data = append(st.data, encode(st.proto, q)...)
			}
			st.alone = parseSeq(st.proto, &segReader{data: st.data}, len(st.reqs))
			ss[i] = st
		}
		var wg sync.WaitGroup
		for _, st := range ss {
			wg.Add(1)
			go func(st *stream) {
				defer wg.Done()
				st.got = parseSeq(st.proto, &yieldReader{data: st.data, state: st.seed | 1, max: 1 + int(st.seed%23)}, len(st.reqs))
			}(st)
		}
		wg.Wait()
		runtime.GOMAXPROCS(old)
		for i, st := range ss {
			if !sameDecode(st.alone, st.got) {
				w.Fail(rig.GoFailure{Kind: "counterexample", What: "a request stream decodes differently while other connections are being decoded at the same time than it does alone",
					Input: map[string]interface{}{"tier": "concurrent", "round": round, "stream": i, "proto": st.proto, "wire": wire.Hex(st.data), "streams": np},
					Detail: fmt.Sprintf("alone: %d requests, status %d, %d bytes unread; concurrently: %d requests, status %d (%s), %d bytes unread; sent %+v; decoded %+v",
						len(st.alone.Seen), st.alone.Status, st.alone.Unread, len(st.got.Seen), st.got.Status, st.got.Err, st.got.Unread, st.reqs, st.got.Seen)})
				break
			}
		}
		w.Count("concurrent-decoding-rounds")
	}
	w.Res.Stats["seconds_concurrent"] = time.Since(t0).Seconds()
	w.Res.Exhaustive = true // for the first-byte tier
	w.Res.Stats["extra_evaluations"] = x.segs
	w.Res.Stats["requests"] = x.nreq
	w.Res.Stats["pipelines"] = x.pipes
	w.Res.Stats["segmentations_compared"] = x.segs
	if err := w.Finish(imports, "case07", "check07"); err != nil {
		rig.Die("%v", err)
	}
}

var textTokens = []string{"set", "add", "replace", "append", "prepend", "get", "delete", "touch", "noop", "quit", "version", "stats",
	"k", "key2", "0", "1", "5", "007", "4294967295", "4294967296", "-1", "1x", "", " ", "  ", "\t", "\r", "\xc2\xa0", "\xe2\x80\x80", "\xa0", "\x80", "abc", "\r\n", "\n", "xy\r\n"}

func (g gen07) nearText() []byte {
	var sb strings.Builder
	n := 1 + g.r.Intn(7)
	for i := 0; i < n; i++ {
		if i > 0 && g.r.Chance(85) {
			sb.WriteString(" ")
		}
		sb.WriteString(textTokens[g.r.Intn(len(textTokens))])
	}
	if g.r.Chance(90) {
		sb.WriteString("\r\n")
	}
	if g.r.Chance(60) {
		sb.Write(g.rawBytes(g.r.Intn(8)))
		sb.WriteString("\r\n")
	}
	return []byte(sb.String())
}

// a valid binary request with one header field edited, possibly followed by another request
func (g gen07) nearBin() []byte {
	q := g.binReq(false)
	b := wire.Binary(q)
	switch g.r.Intn(7) {
	case 0:
		b[wire.OffExtraLen] = byte(g.r.Intn(20))
	case 1:
		b[wire.OffTotal+3] += byte(1 + g.r.Intn(12)) // total a little larger
	case 2:
		if b[wire.OffTotal+3] > 0 {
			b[wire.OffTotal+3]-- // total a little smaller (may become inconsistent: closed)
		}
	case 3:
		b[wire.OffKeyLen+1] = byte(g.r.Intn(6)) // key length edited
	case 4:
		b[5], b[6], b[7] = byte(g.r.U64()), byte(g.r.U64()), byte(g.r.U64()) // data type, vbucket: ignored
		copy(b[16:24], g.r.Bytes(8))                                         // CAS: ignored
	case 5:
		b[1] = []byte{0x09, 0x41, 0x0a, 0x00, 0x40, 0x0c, 0x05}[g.r.Intn(7)] // opcode swapped
	case 6:
		if len(b) > 24 {
			b = b[:24+g.r.Intn(len(b)-24)] // truncated body
		}
	}
	if wire.Inconsistent(b) {
		// contradictory length fields are C11's subject (and cost 4 GiB each on code without the
		// length guard); here: the unedited request
		b = wire.Binary(q)
	}
	if g.r.Chance(50) {
		b = append(b, wire.Binary(g.binReq(false))...)
	}
	return b
}

func c07replay(x *run07, path string) {
	raw, err := os.ReadFile(path)
	if err != nil {
		rig.Die("replay: %v", err)
	}
	var head struct {
		Tier string `json:"tier"`
	}
	if err := json.Unmarshal(raw, &head); err != nil {
		rig.Die("replay: %v", err)
	}
	switch head.Tier {
	case "pipe":
		var d pipeDesc
		json.Unmarshal(raw, &d)
		x.doPipe(d, true)
	case "raw":
		var d rawDesc
		json.Unmarshal(raw, &d)
		x.doRaw(d)
	case "first":
		var d firstDesc
		json.Unmarshal(raw, &d)
		x.doFirst(newFirstByteRig(), d.Byte)
	default:
		rig.Die("replay: unknown tier %q", head.Tier)
	}
}
