package main

// gotrans: a translator from a small subset of Go (integer functions without loops) to Gallina.
// It reads the SOURCE of /repo (go/parser), so the functions it covers are re-stated in Coq from
// what the code says now; coq/gen/FuncsLink.v proves each generated function equal to the
// hand-written model function the theorems are about. A change to one of these functions changes
// the generated definition and breaks its link lemma.
//
// Covered subset: parameters and results of integer types; `var x T`, `x := e`, `x = e`, `x++`,
// `x--`, `x op= e`, `if` / `else` (with or without returns inside), `return`; expressions: integer
// literals, identifiers, constants (resolved by the Coq side: gen/Consts_gen.v), + - * / % << >>
// & | ^, comparisons, && || !, conversions between integer types, calls of other translated
// functions or of functions declared as parameters, indexing of generated tables, and three
// idioms given by rule (trusted, see DESIGN.md): time.Now().Unix() -> the parameter now_unix;
// int(math.Min(float64(a), float64(b))) -> signed minimum; they are exact for |values| < 2^53.
//
// Values are natural numbers: an unsigned w-bit value is itself, a signed 64-bit value (int,
// int64) is its two's complement. Arithmetic wraps as in Go (coq/gen/GoSem.v).

import (
	"fmt"
	"go/ast"
	"go/parser"
	"go/token"
	"os"
	"path/filepath"
	"sort"
	"strings"
)

func init() { commands["gotrans"] = gotrans }

type gtype struct {
	w      int  // width in bits
	signed bool // two's complement at width w
	isBool bool
	untyp  bool // untyped constant
}

var (
	tUntyped = gtype{untyp: true}
	tBool    = gtype{isBool: true}
)

func parseType(e ast.Expr) (gtype, bool) {
	id, ok := e.(*ast.Ident)
	if !ok {
		return gtype{}, false
	}
	switch id.Name {
	case "uint64", "uint":
		return gtype{w: 64}, true
	case "uint32":
		return gtype{w: 32}, true
	case "uint16":
		return gtype{w: 16}, true
	case "uint8", "byte":
		return gtype{w: 8}, true
	case "int", "int64":
		return gtype{w: 64, signed: true}, true
	case "bool":
		return tBool, true
	}
	return gtype{}, false
}

type gtFunc struct {
	File   string   // path below /repo
	Name   string   // Go function name
	Coq    string   // Gallina name
	Extern []string // called functions that become parameters (name:resultType)
	Tables []string // indexable tables (name:elemType), defined in gen/Tables_gen.v
	Recv   string   // method: name of the receiver's struct type (declared in the same file); its integer fields become parameters <recv>_<field>
}

var gtFuncs = []gtFunc{
	{File: "metrics/lzcnt.go", Name: "lzcnt", Coq: "lzcnt_src"},
	{File: "metrics/histograms.go", Name: "getBucket", Coq: "getBucket_src", Extern: []string{"lzcnt:uint64"}, Tables: []string{"powerOf4Index:int"}},
	{File: "handlers/memcached/chunked/handler.go", Name: "chunkSize", Coq: "chunkSize_src"},
	{File: "handlers/memcached/chunked/handler.go", Name: "exptime", Coq: "exptime_src"},
	{File: "handlers/memcached/chunked/keys.go", Name: "chunkSliceIndices", Coq: "chunkSliceIndices_src"},
	{File: "handlers/inmem/inmem.go", Name: "isExpired", Coq: "isExpired_src", Recv: "entry"},
}

type gtCtx struct {
	fn      gtFunc
	vars    map[string]gtype // variables in scope
	extern  map[string]gtype
	tables  map[string]gtype
	results []gtype
	named   []string // named results
	usesNow bool
	recv    string // receiver name of a method
	consts  map[string]bool // identifiers left to the Coq side (constants)
	err     error
}

func (c *gtCtx) fail(pos token.Pos, fs *token.FileSet, format string, a ...interface{}) {
	if c.err == nil {
		c.err = fmt.Errorf("%s: %s", fs.Position(pos), fmt.Sprintf(format, a...))
	}
}

// coqName renames identifiers that are Gallina keywords.
func coqName(n string) string {
	switch n {
	case "end", "in", "let", "fun", "match", "with", "if", "then", "else", "as", "at", "fix", "cofix", "return", "forall", "exists", "using", "where", "for", "Type", "Prop", "Set":
		return n + "_"
	}
	return n
}

func opName(t gtype, base string) string {
	if t.w == 64 || t.untyp {
		return base + "64"
	}
	return fmt.Sprintf("%s%d", base, t.w)
}

// expr translates e; want is the type an untyped constant should take.
func (c *gtCtx) expr(fs *token.FileSet, e ast.Expr, want gtype) (string, gtype) {
	switch x := e.(type) {
	case *ast.ParenExpr:
		return c.expr(fs, x.X, want)
	case *ast.BasicLit:
		if x.Kind != token.INT {
			c.fail(x.Pos(), fs, "literal %s not supported", x.Value)
			return "0", tUntyped
		}
		return x.Value, tUntyped
	case *ast.Ident:
		if t, ok := c.vars[x.Name]; ok {
			return coqName(x.Name), t
		}
		if x.Name == "true" || x.Name == "false" {
			return x.Name, tBool
		}
		c.consts[x.Name] = true
		return x.Name, tUntyped
	case *ast.SelectorExpr:
		if id, ok := x.X.(*ast.Ident); ok && c.recv != "" && id.Name == c.recv {
			n := c.recv + "_" + x.Sel.Name
			if t, ok := c.vars[n]; ok {
				return n, t
			}
		}
		c.fail(x.Pos(), fs, "selector not supported")
		return "0", tUntyped
	case *ast.UnaryExpr:
		s, t := c.expr(fs, x.X, want)
		switch x.Op {
		case token.NOT:
			return "(negb " + s + ")", tBool
		case token.SUB:
			tt := t
			if tt.untyp {
				tt = want
			}
			return fmt.Sprintf("(%s 0 %s)", opName(tt, "sub"), s), tt
		}
		c.fail(x.Pos(), fs, "unary %s not supported", x.Op)
		return s, t
	case *ast.BinaryExpr:
		switch x.Op {
		case token.LAND, token.LOR:
			a, _ := c.expr(fs, x.X, tBool)
			b, _ := c.expr(fs, x.Y, tBool)
			if x.Op == token.LAND {
				return "(" + a + " && " + b + ")", tBool
			}
			return "(" + a + " || " + b + ")", tBool
		}
		a, ta := c.expr(fs, x.X, want)
		b, tb := c.expr(fs, x.Y, want)
		t := ta
		if t.untyp {
			t = tb
		}
		isShift := x.Op == token.SHL || x.Op == token.SHR
		if isShift {
			t = ta
			if t.untyp {
				t = want
			}
		}
		if !isShift && !ta.untyp && !tb.untyp && ta != tb {
			c.fail(x.Pos(), fs, "operands of %s have different types", x.Op)
		}
		if t.untyp {
			// constant expression: exact arithmetic, typed where it is used
			switch x.Op {
			case token.ADD:
				return "(" + a + " + " + b + ")", tUntyped
			case token.SUB:
				return "(" + a + " - " + b + ")", tUntyped
			case token.MUL:
				return "(" + a + " * " + b + ")", tUntyped
			}
			t = want
			if t.untyp || t.isBool {
				t = gtype{w: 64, signed: true}
			}
		}
		cmp := func(u, s string) (string, gtype) {
			if t.signed {
				return fmt.Sprintf("(%s %s %s)", s, a, b), tBool
			}
			return fmt.Sprintf("(%s %s %s)", a, u, b), tBool
		}
		switch x.Op {
		case token.ADD:
			return fmt.Sprintf("(%s %s %s)", opName(t, "add"), a, b), t
		case token.SUB:
			return fmt.Sprintf("(%s %s %s)", opName(t, "sub"), a, b), t
		case token.MUL:
			return fmt.Sprintf("(%s %s %s)", opName(t, "mul"), a, b), t
		case token.QUO:
			if t.signed {
				return fmt.Sprintf("(divs64 %s %s)", a, b), t
			}
			return fmt.Sprintf("(%s / %s)", a, b), t
		case token.REM:
			if t.signed {
				return fmt.Sprintf("(rems64 %s %s)", a, b), t
			}
			return fmt.Sprintf("(%s mod %s)", a, b), t
		case token.SHL:
			return fmt.Sprintf("(%s %s %s)", opName(t, "shl"), a, b), t
		case token.SHR:
			if t.signed {
				return fmt.Sprintf("(shrs64 %s %s)", a, b), t
			}
			return fmt.Sprintf("(shr64 %s %s)", a, b), t
		case token.AND:
			return fmt.Sprintf("(N.land %s %s)", a, b), t
		case token.OR:
			return fmt.Sprintf("(N.lor %s %s)", a, b), t
		case token.XOR:
			return fmt.Sprintf("(N.lxor %s %s)", a, b), t
		case token.EQL:
			return fmt.Sprintf("(%s =? %s)", a, b), tBool
		case token.NEQ:
			return fmt.Sprintf("(negb (%s =? %s))", a, b), tBool
		case token.LSS:
			return cmp("<?", "lts64")
		case token.LEQ:
			return cmp("<=?", "les64")
		case token.GTR:
			a, b = b, a
			return cmp("<?", "lts64")
		case token.GEQ:
			a, b = b, a
			return cmp("<=?", "les64")
		}
		c.fail(x.Pos(), fs, "operator %s not supported", x.Op)
		return a, t
	case *ast.IndexExpr:
		id, ok := x.X.(*ast.Ident)
		if !ok {
			c.fail(x.Pos(), fs, "indexing of a non-table")
			return "0", tUntyped
		}
		et, ok := c.tables[id.Name]
		if !ok {
			c.fail(x.Pos(), fs, "table %s not declared for this function", id.Name)
			return "0", tUntyped
		}
		i, _ := c.expr(fs, x.Index, gtype{w: 64, signed: true})
		return fmt.Sprintf("(tab %s %s)", id.Name, i), et
	case *ast.CallExpr:
		// time.Now().Unix()
		if sel, ok := x.Fun.(*ast.SelectorExpr); ok && sel.Sel.Name == "Unix" {
			if inner, ok := sel.X.(*ast.CallExpr); ok {
				if s2, ok := inner.Fun.(*ast.SelectorExpr); ok && s2.Sel.Name == "Now" {
					if p, ok := s2.X.(*ast.Ident); ok && p.Name == "time" {
						c.usesNow = true
						return "now_unix", gtype{w: 64, signed: true}
					}
				}
			}
		}
		// conversions and the math.Min idiom
		if id, ok := x.Fun.(*ast.Ident); ok && len(x.Args) == 1 {
			if t, ok := parseType(id); ok && !t.isBool {
				if in, ok := x.Args[0].(*ast.CallExpr); ok {
					if sel, ok := in.Fun.(*ast.SelectorExpr); ok && sel.Sel.Name == "Min" && len(in.Args) == 2 {
						if p, ok := sel.X.(*ast.Ident); ok && p.Name == "math" {
							var ops [2]string
							for i, a := range in.Args {
								fc, ok := a.(*ast.CallExpr)
								fid, ok2 := fc.Fun.(*ast.Ident)
								if !ok || !ok2 || fid.Name != "float64" || len(fc.Args) != 1 {
									c.fail(a.Pos(), fs, "math.Min argument is not float64(<int>)")
									return "0", t
								}
								s, ta := c.expr(fs, fc.Args[0], gtype{w: 64, signed: true})
								if !(ta.signed && ta.w == 64) {
									c.fail(a.Pos(), fs, "math.Min idiom: int operands only")
								}
								ops[i] = s
							}
							if t.w == 64 {
								return fmt.Sprintf("(mins64 %s %s)", ops[0], ops[1]), t
							}
							return fmt.Sprintf("(conv%d (mins64 %s %s))", t.w, ops[0], ops[1]), t
						}
					}
				}
				s, from := c.expr(fs, x.Args[0], t)
				if from.untyp || from == t {
					return s, t
				}
				if t.w == from.w || (t.w > from.w && !from.signed) {
					return s, t // same width (two's complement kept) or widening of an unsigned value: the number itself
				}
				return fmt.Sprintf("(conv%d %s)", t.w, s), t
			}
			if rt, ok := c.extern[id.Name]; ok {
				a, _ := c.expr(fs, x.Args[0], rt)
				return fmt.Sprintf("(%s %s)", id.Name, a), rt
			}
		}
		c.fail(x.Pos(), fs, "call not supported")
		return "0", tUntyped
	}
	c.fail(e.Pos(), fs, "expression %T not supported", e)
	return "0", tUntyped
}

// returns reports whether every path through the statements ends in a return.
func alwaysReturns(stmts []ast.Stmt) bool {
	for _, s := range stmts {
		switch x := s.(type) {
		case *ast.ReturnStmt:
			return true
		case *ast.IfStmt:
			if x.Else != nil {
				var els []ast.Stmt
				switch e := x.Else.(type) {
				case *ast.BlockStmt:
					els = e.List
				case *ast.IfStmt:
					els = []ast.Stmt{e}
				}
				if alwaysReturns(x.Body.List) && alwaysReturns(els) {
					return true
				}
			}
		}
	}
	return false
}

func hasReturn(stmts []ast.Stmt) bool {
	found := false
	for _, s := range stmts {
		ast.Inspect(s, func(n ast.Node) bool {
			if _, ok := n.(*ast.ReturnStmt); ok {
				found = true
			}
			return true
		})
	}
	return found
}

// assigned lists (sorted) the already declared variables assigned somewhere in stmts.
func (c *gtCtx) assigned(stmts []ast.Stmt) []string {
	set := map[string]bool{}
	for _, s := range stmts {
		ast.Inspect(s, func(n ast.Node) bool {
			switch x := n.(type) {
			case *ast.AssignStmt:
				if x.Tok != token.DEFINE {
					for _, l := range x.Lhs {
						if id, ok := l.(*ast.Ident); ok {
							if _, ok := c.vars[id.Name]; ok {
								set[id.Name] = true
							}
						}
					}
				}
			case *ast.IncDecStmt:
				if id, ok := x.X.(*ast.Ident); ok {
					set[id.Name] = true
				}
			}
			return true
		})
	}
	var l []string
	for k := range set {
		l = append(l, k)
	}
	sort.Strings(l)
	return l
}

func tuple(vs []string) string {
	ws := make([]string, len(vs))
	for i, v := range vs {
		ws[i] = coqName(v)
	}
	if len(ws) == 1 {
		return ws[0]
	}
	return "(" + strings.Join(ws, ", ") + ")"
}

func letPat(vs []string) string {
	if len(vs) == 1 {
		return coqName(vs[0])
	}
	return "'" + tuple(vs)
}

// block translates stmts followed by the continuation `tail` (a Gallina term for what follows
// when the statements fall through).
func (c *gtCtx) block(fs *token.FileSet, stmts []ast.Stmt, tail string, ind string) string {
	if len(stmts) == 0 {
		if !strings.HasPrefix(tail, " ") {
			return ind + tail
		}
		return tail
	}
	s, rest := stmts[0], stmts[1:]
	switch x := s.(type) {
	case *ast.ReturnStmt:
		var vals []string
		for _, n := range c.named {
			if len(x.Results) == 0 {
				vals = append(vals, coqName(n))
			}
		}
		for i, r := range x.Results {
			want := tUntyped
			if i < len(c.results) {
				want = c.results[i]
			}
			v, _ := c.expr(fs, r, want)
			vals = append(vals, v)
		}
		if len(vals) == 1 {
			return ind + vals[0]
		}
		return ind + "(" + strings.Join(vals, ", ") + ")"
	case *ast.DeclStmt:
		gd, ok := x.Decl.(*ast.GenDecl)
		if !ok || gd.Tok != token.VAR {
			c.fail(x.Pos(), fs, "declaration not supported")
			return tail
		}
		out := ""
		for _, sp := range gd.Specs {
			vs := sp.(*ast.ValueSpec)
			t, ok := parseType(vs.Type)
			if !ok || len(vs.Values) != 0 {
				c.fail(x.Pos(), fs, "var declaration form not supported")
				return tail
			}
			for _, n := range vs.Names {
				c.vars[n.Name] = t
				out += fmt.Sprintf("%slet %s := 0 in\n", ind, coqName(n.Name))
			}
		}
		return out + c.block(fs, rest, tail, ind)
	case *ast.IncDecStmt:
		id, ok := x.X.(*ast.Ident)
		if !ok {
			c.fail(x.Pos(), fs, "inc/dec of a non-variable")
			return tail
		}
		t := c.vars[id.Name]
		op := "add"
		if x.Tok == token.DEC {
			op = "sub"
		}
		return fmt.Sprintf("%slet %s := %s %s 1 in\n", ind, coqName(id.Name), opName(t, op), coqName(id.Name)) + c.block(fs, rest, tail, ind)
	case *ast.AssignStmt:
		if len(x.Lhs) != 1 || len(x.Rhs) != 1 {
			c.fail(x.Pos(), fs, "multiple assignment not supported")
			return tail
		}
		id, ok := x.Lhs[0].(*ast.Ident)
		if !ok {
			c.fail(x.Pos(), fs, "assignment to a non-variable")
			return tail
		}
		var v string
		switch x.Tok {
		case token.DEFINE:
			var t gtype
			v, t = c.expr(fs, x.Rhs[0], gtype{w: 64, signed: true})
			if t.untyp {
				t = gtype{w: 64, signed: true}
			}
			c.vars[id.Name] = t
		case token.ASSIGN:
			v, _ = c.expr(fs, x.Rhs[0], c.vars[id.Name])
		default:
			bin := map[token.Token]token.Token{token.ADD_ASSIGN: token.ADD, token.SUB_ASSIGN: token.SUB, token.MUL_ASSIGN: token.MUL,
				token.AND_ASSIGN: token.AND, token.OR_ASSIGN: token.OR, token.SHL_ASSIGN: token.SHL, token.SHR_ASSIGN: token.SHR, token.QUO_ASSIGN: token.QUO}
			op, ok := bin[x.Tok]
			if !ok {
				c.fail(x.Pos(), fs, "assignment operator %s not supported", x.Tok)
				return tail
			}
			v, _ = c.expr(fs, &ast.BinaryExpr{X: id, Op: op, Y: x.Rhs[0], OpPos: x.Pos()}, c.vars[id.Name])
		}
		return fmt.Sprintf("%slet %s := %s in\n", ind, coqName(id.Name), v) + c.block(fs, rest, tail, ind)
	case *ast.IfStmt:
		if x.Init != nil {
			c.fail(x.Pos(), fs, "if with an init statement not supported")
			return tail
		}
		cond, _ := c.expr(fs, x.Cond, tBool)
		var els []ast.Stmt
		switch e := x.Else.(type) {
		case *ast.BlockStmt:
			els = e.List
		case *ast.IfStmt:
			els = []ast.Stmt{e}
		}
		saved := map[string]gtype{}
		for k, v := range c.vars {
			saved[k] = v
		}
		restore := func() {
			c.vars = map[string]gtype{}
			for k, v := range saved {
				c.vars[k] = v
			}
		}
		if !hasReturn(x.Body.List) && !hasReturn(els) {
			// no return inside: join the assigned variables
			vs := c.assigned(append(append([]ast.Stmt{}, x.Body.List...), els...))
			if len(vs) == 0 {
				return c.block(fs, rest, tail, ind)
			}
			a := c.block(fs, x.Body.List, tuple(vs), ind+"    ")
			restore()
			b := c.block(fs, els, tuple(vs), ind+"    ")
			restore()
			return fmt.Sprintf("%slet %s :=\n%s  if %s then\n%s\n%s  else\n%s in\n", ind, letPat(vs), ind, cond, indent(a, ind+"    "), ind, indent(b, ind+"    ")) +
				c.block(fs, rest, tail, ind)
		}
		// a return inside: the continuation is duplicated into the branches that fall through
		cont := c.block(fs, rest, tail, ind+"  ")
		restore()
		a := c.block(fs, x.Body.List, cont, ind+"  ")
		restore()
		b := c.block(fs, els, cont, ind+"  ")
		restore()
		return fmt.Sprintf("%sif %s then\n%s\n%selse\n%s", ind, cond, indent(a, ind+"  "), ind, indent(b, ind+"  "))
	case *ast.BlockStmt:
		return c.block(fs, append(append([]ast.Stmt{}, x.List...), rest...), tail, ind)
	}
	c.fail(s.Pos(), fs, "statement %T not supported", s)
	return tail
}

// indent makes sure a (possibly single-line) term starts with the indentation.
func indent(s, ind string) string {
	if strings.HasPrefix(s, ind) {
		return strings.TrimRight(s, "\n")
	}
	return ind + strings.TrimRight(s, "\n")
}

func translateFunc(repo string, f gtFunc) (string, error) {
	fs := token.NewFileSet()
	af, err := parser.ParseFile(fs, filepath.Join(repo, f.File), nil, 0)
	if err != nil {
		return "", err
	}
	var fd *ast.FuncDecl
	for _, d := range af.Decls {
		if x, ok := d.(*ast.FuncDecl); ok && x.Name.Name == f.Name && (x.Recv == nil) == (f.Recv == "") {
			fd = x
		}
	}
	if fd == nil {
		return "", fmt.Errorf("%s: function %s not found", f.File, f.Name)
	}
	c := &gtCtx{fn: f, vars: map[string]gtype{}, extern: map[string]gtype{}, tables: map[string]gtype{}, consts: map[string]bool{}}
	parseDecl := func(l []string, into map[string]gtype) {
		for _, d := range l {
			p := strings.SplitN(d, ":", 2)
			t, _ := parseType(ast.NewIdent(p[1]))
			into[p[0]] = t
		}
	}
	parseDecl(f.Extern, c.extern)
	parseDecl(f.Tables, c.tables)
	var params []string
	for _, n := range sortedKeys(c.extern) {
		params = append(params, fmt.Sprintf("(%s : N -> N)", n))
	}
	var plain []string
	if f.Recv != "" {
		if len(fd.Recv.List) != 1 || len(fd.Recv.List[0].Names) != 1 {
			return "", fmt.Errorf("%s: receiver form not supported", f.Name)
		}
		rn := fd.Recv.List[0].Names[0].Name
		c.recv = rn
		found := false
		for _, d := range af.Decls {
			gd, ok := d.(*ast.GenDecl)
			if !ok || gd.Tok != token.TYPE {
				continue
			}
			for _, sp := range gd.Specs {
				ts := sp.(*ast.TypeSpec)
				st, ok := ts.Type.(*ast.StructType)
				if ts.Name.Name != f.Recv || !ok {
					continue
				}
				found = true
				for _, fl := range st.Fields.List {
					t, ok := parseType(fl.Type)
					if !ok {
						continue
					}
					for _, n := range fl.Names {
						c.vars[rn+"_"+n.Name] = t
						plain = append(plain, rn+"_"+n.Name)
					}
				}
			}
		}
		if !found {
			return "", fmt.Errorf("%s: struct type %s not found", f.Name, f.Recv)
		}
	}
	for _, fl := range fd.Type.Params.List {
		t, ok := parseType(fl.Type)
		if !ok {
			return "", fmt.Errorf("%s: parameter type not supported", f.Name)
		}
		for _, n := range fl.Names {
			c.vars[n.Name] = t
			plain = append(plain, coqName(n.Name))
		}
	}
	var resT []string
	pre := ""
	if fd.Type.Results != nil {
		for _, fl := range fd.Type.Results.List {
			t, ok := parseType(fl.Type)
			if !ok {
				return "", fmt.Errorf("%s: result type not supported", f.Name)
			}
			k := len(fl.Names)
			if k == 0 {
				k = 1
			}
			for i := 0; i < k; i++ {
				c.results = append(c.results, t)
				if t.isBool {
					resT = append(resT, "bool")
				} else {
					resT = append(resT, "N")
				}
			}
			for _, n := range fl.Names {
				c.vars[n.Name] = t
				c.named = append(c.named, n.Name)
				z := "0"
				if t.isBool {
					z = "false"
				}
				pre += fmt.Sprintf("  let %s := %s in\n", coqName(n.Name), z)
			}
		}
	}
	fallthroughTail := "0"
	if len(c.named) > 0 {
		fallthroughTail = tuple(c.named)
	}
	body := c.block(fs, fd.Body.List, fallthroughTail, "  ")
	if c.err != nil {
		return "", c.err
	}
	if c.usesNow {
		params = append(params, "(now_unix : N)")
	}
	if len(plain) > 0 {
		params = append(params, "("+strings.Join(plain, " ")+" : N)")
	}
	var sb strings.Builder
	fmt.Fprintf(&sb, "(* %s: func %s *)\n", f.File, f.Name)
	fmt.Fprintf(&sb, "Definition %s %s : %s :=\n%s%s.\n", f.Coq, strings.Join(params, " "), strings.Join(resT, " * "), pre, indent(body, "  "))
	return sb.String(), nil
}

func sortedKeys(m map[string]gtype) []string {
	var l []string
	for k := range m {
		l = append(l, k)
	}
	sort.Strings(l)
	return l
}

func gotrans(e *env) {
	repo := "/repo"
	if v := os.Getenv("VERIF_REPO"); v != "" {
		repo = v
	}
	var sb strings.Builder
	sb.WriteString("(* GENERATED by harness gotrans from the SOURCE of /repo — do not edit.\n   One Gallina definition per translated Go function; gen/FuncsLink.v proves each equal to the\n   model function the theorems use. Semantics of the operators: gen/GoSem.v. *)\n")
	sb.WriteString("From Rend Require Import base.Bytes gen.Consts_gen gen.Tables_gen gen.GoSem.\nOpen Scope N_scope.\n\n")
	for _, f := range gtFuncs {
		s, err := translateFunc(repo, f)
		if err != nil {
			// the function left the translatable subset: say so in the generated file; the link
			// lemma then fails to compile and the check reports it
			fmt.Fprintf(&sb, "(* %s.%s could not be translated: %s *)\n\n", f.File, f.Name, strings.ReplaceAll(err.Error(), "*)", "* )"))
			fmt.Fprintf(os.Stderr, "gotrans: %s: %v\n", f.Name, err)
			continue
		}
		sb.WriteString(s + "\n")
	}
	root := os.Getenv("VERIF_ROOT")
	if root == "" {
		root = "/verif"
	}
	writeIfChanged(filepath.Join(root, "coq", "gen", "Funcs_gen.v"), []byte(sb.String()))
}
