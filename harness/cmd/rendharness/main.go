// rendharness: runs rend's real code on generated inputs and writes Coq case files in which
// the Gallina model is evaluated on the same inputs (the correspondence check), plus the
// translator (constgen) that regenerates constants and tables from /repo.
package main

import (
	"bytes"
	"encoding/json"
	"flag"
	"fmt"
	"io"
	"log"
	"os"
	"os/exec"
	"path/filepath"
	"strconv"
	"strings"
)

type env struct {
	tier string
	seed uint64
	out  string
	args []string
}

var commands = map[string]func(e *env){}

func main() {
	if os.Getenv("VERIF_REND_LOG") == "" {
		log.SetOutput(io.Discard) // rend logs every closed connection
	}
	if len(os.Args) < 2 {
		fmt.Fprintln(os.Stderr, "usage: rendharness <cmd> [-tier quick|thorough] [-seed n] [-out dir] [args]")
		os.Exit(2)
	}
	cmd := os.Args[1]
	fs := flag.NewFlagSet(cmd, flag.ExitOnError)
	tier := fs.String("tier", "quick", "quick or thorough")
	seed := fs.String("seed", "1", "seed")
	out := fs.String("out", ".", "output directory")
	fs.Parse(os.Args[2:])
	s, _ := strconv.ParseUint(*seed, 10, 64)
	f, ok := commands[cmd]
	if !ok {
		fmt.Fprintln(os.Stderr, "unknown command", cmd)
		os.Exit(2)
	}
	// The code under test runs in a child process: if it crashes the process (an unrecovered
	// panic in one of rend's goroutines, a runtime fatal error) that is an observation about
	// rend, reported as a violation, not a failure of the harness.
	if os.Getenv("VERIF_CHILD") == "" && cmd != "constgen" {
		exe, _ := os.Executable()
		c := exec.Command(exe, os.Args[1:]...)
		c.Env = append(os.Environ(), "VERIF_CHILD=1")
		c.Stdout = os.Stdout
		var errb bytes.Buffer
		c.Stderr = &errb
		err := c.Run()
		os.Stderr.Write(errb.Bytes())
		if err == nil {
			return
		}
		es := errb.String()
		crashed := strings.Contains(es, "panic:") || strings.Contains(es, "fatal error:") || strings.Contains(es, "SIGSEGV")
		if !crashed || !strings.Contains(es, "github.com/netflix/rend/") {
			if ee, ok := err.(*exec.ExitError); ok {
				os.Exit(ee.ExitCode())
			}
			os.Exit(3)
		}
		if len(es) > 4000 {
			es = es[:1500] + "\n...\n" + es[len(es)-2500:]
		}
		res := map[string]interface{}{"property": strings.ToUpper(cmd), "tier": *tier, "seed": s, "cases": []interface{}{}, "distinct_nontrivial": 0,
			"stats": map[string]interface{}{}, "rule": "the process running rend's code crashed before the run completed",
			"go_failures": []map[string]interface{}{{"kind": "counterexample", "what": "the process running rend's code crashed (unrecovered panic / runtime fatal error in repository code)",
				"input": map[string]interface{}{"cmd": cmd, "tier": *tier, "seed": s}, "detail": es}}}
		b, _ := json.MarshalIndent(res, "", " ")
		os.MkdirAll(*out, 0o755)
		// remove partial case files of the crashed child
		if ms, _ := filepath.Glob(filepath.Join(*out, "cases*.v")); ms != nil {
			for _, m := range ms {
				os.Remove(m)
			}
		}
		os.WriteFile(filepath.Join(*out, "result.json"), b, 0o644)
		os.WriteFile(filepath.Join(*out, "cases.v"), []byte("Definition bad : list (nat * nat) := nil.\nPrint bad.\n"), 0o644)
		return
	}
	f(&env{tier: *tier, seed: s, out: *out, args: fs.Args()})
}
