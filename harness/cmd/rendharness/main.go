// rendharness: runs rend's real code on generated inputs and writes Coq case files in which
// the Gallina model is evaluated on the same inputs (the correspondence check), plus the
// translator (constgen) that regenerates constants and tables from /repo.
package main

import (
	"flag"
	"fmt"
	"io"
	"log"
	"os"
	"strconv"
)

type env struct {
	tier string
	seed uint64
	out  string
	args []string
}

var commands = map[string]func(e *env){}

func main() {
	if os.Getenv("VERIF_REND_LOG") == "" {
		log.SetOutput(io.Discard) // rend logs every closed connection
	}
	if len(os.Args) < 2 {
		fmt.Fprintln(os.Stderr, "usage: rendharness <cmd> [-tier quick|thorough] [-seed n] [-out dir] [args]")
		os.Exit(2)
	}
	cmd := os.Args[1]
	fs := flag.NewFlagSet(cmd, flag.ExitOnError)
	tier := fs.String("tier", "quick", "quick or thorough")
	seed := fs.String("seed", "1", "seed")
	out := fs.String("out", ".", "output directory")
	fs.Parse(os.Args[2:])
	s, _ := strconv.ParseUint(*seed, 10, 64)
	f, ok := commands[cmd]
	if !ok {
		fmt.Fprintln(os.Stderr, "unknown command", cmd)
		os.Exit(2)
	}
	f(&env{tier: *tier, seed: s, out: *out, args: fs.Args()})
}
