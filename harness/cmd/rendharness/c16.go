package main

import (
	"bytes"
	"fmt"

	"github.com/netflix/rend/common"
	"github.com/netflix/rend/handlers/memcached/chunked"
	"verifharness/fakemc"
	"verifharness/gal"
	"verifharness/rig"
)

func init() { commands["c16"] = c16 }

// c16: exhaustive over key lengths 1..250 x value lengths at every chunk boundary (+-1) for a
// set of chunk counts; the real chunked handler performs a Set against the fake backend and the
// (key length, value length) of every set request the backend saw is recorded.
func c16(e *env) {
	w := rig.NewWriter(e.out, "C16", e.tier, e.seed)
	fk := fakemc.New()
	ks := []int{0, 1, 2, 3, 6}
	if e.tier == "thorough" {
		ks = []int{0, 1, 2, 3, 4, 5, 6, 10, 11, 99, 100, 101, 998, 999}
	}
	r := rig.NewRand(e.seed)
	conn := fk.Pipe()
	h := chunked.NewHandler(conn)
	defer h.Close()
	for klen := 1; klen <= 250; klen++ {
		ds, fs := chunked.VerifChunkSize(klen)
		key := bytes.Repeat([]byte{'k'}, klen)
		key[klen-1] = byte('a' + klen%26)
		lens := map[int]bool{}
		kk := ks
		if e.tier != "thorough" && (klen == 1 || klen == 125 || klen == 250) {
			// the chunk-key suffix grows at 10 and at 100 chunks: those boundaries and the maximum
			// for a few key lengths in the quick tier too
			kk = append(append([]int{}, ks...), 10, 11, 100, 101, 999)
		}
		for _, k := range kk {
			if (k > 11) && e.tier == "thorough" && klen%25 != 0 && klen != 1 && klen != 249 {
				continue // the very long values only for a subset of key lengths
			}
			for _, d := range []int{-1, 0, 1} {
				l := k*int(ds) + d
				if l >= 0 && l <= 999*int(ds) {
					lens[l] = true
				}
			}
		}
		lens[r.Intn(6*int(ds))] = true
		for l := range lens {
			data := bytes.Repeat([]byte{byte(l)}, l)
			fk.Reset()
			if err := h.Set(common.SetRequest{Key: key, Data: data, Flags: 7, Exptime: 0}); err != nil {
				w.Fail(rig.GoFailure{Kind: "broken-correspondence", What: "chunked Set returned an error on a healthy backend",
					Input: map[string]int{"keylen": klen, "datalen": l}, Detail: err.Error()})
				continue
			}
			var obs []string
			for _, q := range fk.TakeLog() {
				if q.Op == fakemc.OpSet {
					obs = append(obs, gal.Pair(gal.N(uint64(len(q.Key))), gal.N(uint64(q.ValLen))))
				}
			}
			nch := len(obs) - 1
			w.Count(fmt.Sprintf("chunks=%s", bucketName(nch)))
			w.Add(rig.Case{
				Desc:       map[string]int{"keylen": klen, "datalen": l, "set_requests_seen": len(obs)},
				Coq:        gal.Tuple(gal.N(uint64(klen)), gal.N(uint64(l)), gal.List(obs), gal.Pair(gal.N(uint64(ds)), gal.N(uint64(fs)))),
				Nontrivial: true,
			})
		}
	}
	w.Res.Exhaustive = true
	w.Res.Rule = "every key length 1..250 x value lengths k*payload+{-1,0,1} for the tier's chunk counts k (plus one random length); every case is a distinct (keylen, datalen) pair and counts as non-trivial (the space is enumerated, not sampled)"
	if err := w.Finish([]string{"base.Bytes", "base.Harness", "checks.Check16"}, "case16", "check16"); err != nil {
		rig.Die("%v", err)
	}
}

func bucketName(n int) string {
	switch {
	case n == 0:
		return "0"
	case n == 1:
		return "1"
	case n <= 3:
		return "2-3"
	case n <= 10:
		return "4-10"
	case n <= 100:
		return "11-100"
	}
	return ">100"
}
