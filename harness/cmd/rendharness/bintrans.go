package main

// bintrans: translates the request parser of the binary protocol — (BinaryParser).Parse in
// /repo/protocol/binprot/parser.go and every function of package binprot it reaches that reads
// from the connection (setRequest, appendPrependRequest, readBatchGet, readBatchGetE, readString,
// readUInt32; readRequestHeader of headers.go) — from its SOURCE (go/parser, on every run) into
// coq/gen/BinParser_gen.v: one Gallina definition per Go function, statement by statement, in the
// reader monad of coq/proto/ReaderSem.v (which gives every emitted operator its meaning).
// coq/gen/BinParserLink.v proves `parse_bin_src s = parse_bin s` (proto/BinReq.v, the model the
// theorems of C07/C11 are about), result and allocation trace.
//
// The translation goes by the structure of the AST; no function is compared with an expected
// text. Anything without a rule becomes `untranslatable "<what> (file:line)"` (stuck in
// ReaderSem: the link lemma fails on every input that reaches it) and is also listed in
// `bintrans_untranslated`, which the link file proves empty.
//
// RULES
//   functions  a function with a parameter of type io.Reader / *bufio.Reader (or a method whose
//     receiver has such a field) is a computation `rd (results)`; the reader is the implicit
//     stream, and every call has to pass on the caller's own reader. The other parameters are
//     the Gallina parameters.
//   dropped    expression statements calling metrics.*, log.*, fmt.*, <pool>.Put; `defer
//     <pool>.Put(..)`; their arguments must be free of calls other than conversions. timer.Now()
//     is 0 (clock readings are not part of the model).
//   pools      `P.Get().(T)` for `var P = &sync.Pool{New: func() interface{} { return E }}` is E
//     (new(T) = the zero struct, make([]byte, n, n) = n zero bytes): what a recycled object still
//     holds, and who else holds it, is outside a value-level translation.
//   statements `x, y := f(r, a)` (f as above) -> do (x, y) <- f_src a; `n, err :=
//     io.ReadAtLeast(r, buf, m)` -> do (buf, n, err) <- io_ReadAtLeast EV buf m (Go fills buf in
//     place), EV the trace item from where buf comes from: the pool of 24-byte buffers -> AHdr;
//     make([]byte, 4) -> AWord; make([]byte, l) with l uint16 -> AKey l; make([]byte, v) with
//     v := H.TotalBodyLength [- uint32(H.ExtraLength)] [- uint32(H.KeyLength)] -> AData total
//     extras key v (0 for a field that is not subtracted) — ReaderSem checks that the item states
//     the size demanded; other assignments -> let; `p.F = e` (p from a pool in this function) ->
//     let p := set_T_F e p; `var x T` -> let x := zero; if / else -> if-then-else with the
//     statements that follow copied into both branches; `switch tag { case c: .. }` -> the chain
//     of tests in source order, the statements after the switch behind every case that does not
//     return; `for cond { body }` -> ReaderSem.while_ over the variables (in order of declaration) declared before the loop
//     that the body assigns; return -> ret (..), nil / T{} by the result type, a struct returned
//     as common.Request wrapped in Req_T.
//   expressions  integer operators by operand type (add32/sub32/.. of gen/GoSem.v; widening
//     conversions are the identity; int compares signed), == / != on errors -> is_nil / gerr_eqb,
//     b[i] -> idx, b[i:j] -> slice, binary.BigEndian.Uint16/32 -> be_Uint16/32, append(s, x) ->
//     s ++ [x], T{F: e} -> mkT by the declared field order (zero for a field not named), []T{x}
//     -> [x], h.F -> T_F h; constants: OpcodeX -> opX, MagicRequest, ReqHeaderLen (gen/Consts_gen
//     .v), common.RequestX -> RtX, common.ErrX -> GCommon EX, io.EOF.. -> GEOF.., a package-level
//     `var ErrX = errors.New(..)` -> GLocal "ErrX", any other integer constant by its literal.
//   structs    the field lists of RequestHeader and of common's *Request structs are emitted as
//     `struct_decls_src` (the link file proves them equal to the lists ReaderSem's records were
//     written from).

import (
	"fmt"
	"go/ast"
	"go/parser"
	"go/token"
	"go/types"
	"os"
	"path/filepath"
	"sort"
	"strings"
)

func init() { commands["bintrans"] = bintrans }

type btUntrans struct{ msg string }

type btVar struct {
	coq string
	typ string
	seq int // order of declaration within the function
}

type btProv struct {
	pool   bool
	lenAst ast.Expr
	lenCoq string
	lenTyp string
}

type btField struct{ name, typ string }

type btConst struct {
	typ string
	lit string // literal value (decimal) if known
}

type btCtx struct {
	fs        *token.FileSet
	funcs     map[string]*ast.FuncDecl
	structs   map[string][]btField
	structOrd []string
	pools     map[string]ast.Expr
	localErrs map[string]bool
	consts    map[string]btConst
	recvField map[string]map[string]string // struct name -> field -> type (for receiver readers)
	notes     []string

	// per function
	fn      *ast.FuncDecl
	results []string
	scopes  []map[string]btVar
	readers map[string]bool
	prov    map[string]btProv
	defs    map[string]ast.Expr
	inLoop  bool
	seq     int
}

func btStr(s string) string {
	s = strings.Join(strings.Fields(s), " ")
	if len(s) > 200 {
		s = s[:200] + "..."
	}
	return "\"" + strings.ReplaceAll(s, "\"", "'") + "\""
}

func (c *btCtx) at(n ast.Node) string {
	pos := c.fs.Position(n.Pos())
	return fmt.Sprintf("%s:%d", filepath.Base(pos.Filename), pos.Line)
}

func (c *btCtx) fail(n ast.Node, format string, a ...interface{}) {
	panic(btUntrans{fmt.Sprintf(format, a...) + " (" + c.at(n) + ")"})
}

func (c *btCtx) marker(msg string) string {
	c.notes = append(c.notes, msg)
	return "untranslatable " + btStr(msg)
}

// ---- types ----

func btStructName(t string) string {
	t = strings.TrimPrefix(t, "*")
	t = strings.TrimPrefix(t, "common.")
	return t
}

func btIntWidth(t string) (w int, signed, ok bool) {
	switch t {
	case "uint8", "byte":
		return 8, false, true
	case "uint16":
		return 16, false, true
	case "uint32":
		return 32, false, true
	case "uint64":
		return 64, false, true
	case "int", "int64":
		return 64, true, true
	case "common.RequestType":
		return 64, true, true
	}
	return 0, false, false
}

func (c *btCtx) coqType(n ast.Node, t string) string {
	if _, _, ok := btIntWidth(t); ok || t == "untyped int" {
		return "N"
	}
	switch t {
	case "bool":
		return "bool"
	case "[]byte":
		return "bytes"
	case "[][]byte":
		return "(list bytes)"
	case "[]uint32":
		return "(list N)"
	case "[]bool":
		return "(list bool)"
	case "error":
		return "gerr"
	case "common.Request":
		return "Request"
	}
	if _, ok := c.structs[btStructName(t)]; ok {
		return btStructName(t)
	}
	c.fail(n, "no Gallina type for Go type %s", t)
	return ""
}

func (c *btCtx) zero(n ast.Node, t string) string {
	if _, _, ok := btIntWidth(t); ok {
		return "0"
	}
	switch t {
	case "bool":
		return "false"
	case "[]byte", "[][]byte", "[]uint32", "[]bool":
		return "[]"
	case "error":
		return "GNil"
	case "common.Request":
		return "Req_nil"
	}
	if fs, ok := c.structs[btStructName(t)]; ok {
		parts := []string{"mk" + btStructName(t)}
		for _, f := range fs {
			parts = append(parts, c.zero(n, f.typ))
		}
		return "(" + strings.Join(parts, " ") + ")"
	}
	c.fail(n, "no zero value for Go type %s", t)
	return ""
}

// ---- scopes ----

func (c *btCtx) push() { c.scopes = append(c.scopes, map[string]btVar{}) }
func (c *btCtx) pop()  { c.scopes = c.scopes[:len(c.scopes)-1] }

func (c *btCtx) lookup(name string) (btVar, bool) {
	for i := len(c.scopes) - 1; i >= 0; i-- {
		if v, ok := c.scopes[i][name]; ok {
			return v, true
		}
	}
	return btVar{}, false
}

var btReserved = map[string]bool{"end": true, "in": true, "as": true, "at": true, "fix": true, "fun": true, "let": true,
	"match": true, "with": true, "return": true, "if": true, "then": true, "else": true, "using": true, "where": true,
	"len": true, "ret": true, "bind": true, "idx": true, "slice": true, "take": true, "drop": true, "nth": true, "rd": true}

func (c *btCtx) declare(name, typ string) string {
	if name == "_" {
		return "_"
	}
	used := map[string]bool{}
	for _, s := range c.scopes {
		for _, v := range s {
			used[v.coq] = true
		}
	}
	cand := name
	if btReserved[cand] {
		cand = name + "_"
	}
	for i := 1; used[cand]; i++ {
		cand = fmt.Sprintf("%s_%d", name, i)
	}
	c.seq++
	c.scopes[len(c.scopes)-1][name] = btVar{cand, typ, c.seq}
	return cand
}

// ---- expressions ----

func (c *btCtx) isReader(e ast.Expr) bool { return c.readers[types.ExprString(e)] }

func btIsReaderType(t string) bool { return t == "io.Reader" || t == "*bufio.Reader" }

// callsIn: true if e contains a call that is not a conversion to a basic type or len
func (c *btCtx) impure(e ast.Node) bool {
	bad := false
	ast.Inspect(e, func(n ast.Node) bool {
		if call, ok := n.(*ast.CallExpr); ok {
			if id, isId := call.Fun.(*ast.Ident); isId {
				if _, _, isInt := btIntWidth(id.Name); isInt || id.Name == "len" {
					return true
				}
			}
			bad = true
		}
		return true
	})
	return bad
}

func btDroppedPkg(p string) bool { return p == "metrics" || p == "log" || p == "fmt" }

// droppedCall: metrics.*/log.*/fmt.* or <pool>.Put
func (c *btCtx) droppedCall(call *ast.CallExpr) bool {
	pkg, name, ok := lpPkgSel(call.Fun)
	if !ok {
		return false
	}
	if _, shadow := c.lookup(pkg); shadow {
		return false
	}
	if btDroppedPkg(pkg) {
		return true
	}
	if _, isPool := c.pools[pkg]; isPool && name == "Put" {
		return true
	}
	return false
}

func (c *btCtx) constName(name string) (string, string, bool) {
	k, ok := c.consts[name]
	if !ok {
		return "", "", false
	}
	switch {
	case strings.HasPrefix(name, "Opcode"):
		return "op" + name[6:], k.typ, true
	case name == "MagicRequest":
		return "magicRequest", k.typ, true
	case name == "MagicResponse":
		return "magicResponse", k.typ, true
	case name == "ReqHeaderLen":
		return "reqHeaderLen", k.typ, true
	}
	if k.lit != "" {
		return k.lit, k.typ, true
	}
	return "", "", false
}

// expr translates a pure expression: Gallina text and Go type
func (c *btCtx) expr(e ast.Expr) (string, string) {
	switch x := e.(type) {
	case *ast.ParenExpr:
		return c.expr(x.X)
	case *ast.BasicLit:
		if x.Kind == token.INT {
			var v uint64
			if _, err := fmt.Sscan(x.Value, &v); err == nil {
				return fmt.Sprintf("%d", v), "untyped int"
			}
		}
	case *ast.Ident:
		if v, ok := c.lookup(x.Name); ok {
			return v.coq, v.typ
		}
		switch x.Name {
		case "true", "false":
			return x.Name, "bool"
		}
		if n, t, ok := c.constName(x.Name); ok {
			return n, t
		}
		if c.localErrs[x.Name] {
			return "(GLocal " + btStr(x.Name) + ")", "error"
		}
	case *ast.SelectorExpr:
		if pkg, name, ok := lpPkgSel(x); ok {
			if v, isVar := c.lookup(pkg); isVar {
				sn := btStructName(v.typ)
				for _, f := range c.structs[sn] {
					if f.name == name {
						return fmt.Sprintf("(%s_%s %s)", sn, name, v.coq), f.typ
					}
				}
				c.fail(e, "no field %s in %s", name, v.typ)
			}
			switch {
			case pkg == "common" && strings.HasPrefix(name, "Request") && name != "Request":
				return "Rt" + name[7:], "common.RequestType"
			case pkg == "common" && strings.HasPrefix(name, "Err"):
				return "(GCommon E" + name[3:] + ")", "error"
			case pkg == "io" && name == "EOF":
				return "GEOF", "error"
			case pkg == "io" && name == "ErrUnexpectedEOF":
				return "GUnexpectedEOF", "error"
			case pkg == "io" && name == "ErrShortBuffer":
				return "GShortBuffer", "error"
			}
		}
	case *ast.UnaryExpr:
		if x.Op == token.NOT {
			a, t := c.expr(x.X)
			if t == "bool" {
				return "(negb " + a + ")", "bool"
			}
		}
	case *ast.IndexExpr:
		a, t := c.expr(x.X)
		i, it := c.expr(x.Index)
		if _, _, ok := btIntWidth(it); t == "[]byte" && (ok || it == "untyped int") {
			return fmt.Sprintf("(idx %s %s)", a, i), "uint8"
		}
	case *ast.SliceExpr:
		if x.Low != nil && x.High != nil && !x.Slice3 {
			a, t := c.expr(x.X)
			lo, _ := c.expr(x.Low)
			hi, _ := c.expr(x.High)
			if t == "[]byte" {
				return fmt.Sprintf("(slice %s %s %s)", a, lo, hi), "[]byte"
			}
		}
	case *ast.CompositeLit:
		t := types.ExprString(x.Type)
		if at, ok := x.Type.(*ast.ArrayType); ok && at.Len == nil {
			et := types.ExprString(at.Elt)
			var items []string
			for _, el := range x.Elts {
				items = append(items, c.coerce(el, et))
			}
			c.coqType(e, t)
			return "[" + strings.Join(items, "; ") + "]", t
		}
		if fs, ok := c.structs[btStructName(t)]; ok && (strings.HasPrefix(t, "common.") || t == btStructName(t)) {
			vals := map[string]string{}
			for _, el := range x.Elts {
				kv, isKV := el.(*ast.KeyValueExpr)
				if !isKV {
					c.fail(e, "struct literal of %s without field names", t)
				}
				k, isId := kv.Key.(*ast.Ident)
				if !isId {
					c.fail(e, "struct literal key %s", types.ExprString(kv.Key))
				}
				found := false
				for _, f := range fs {
					if f.name == k.Name {
						vals[k.Name] = c.coerce(kv.Value, f.typ)
						found = true
					}
				}
				if !found {
					c.fail(e, "no field %s in %s", k.Name, t)
				}
			}
			parts := []string{"mk" + btStructName(t)}
			for _, f := range fs {
				if v, ok := vals[f.name]; ok {
					parts = append(parts, v)
				} else {
					parts = append(parts, c.zero(e, f.typ))
				}
			}
			return "(" + strings.Join(parts, " ") + ")", t
		}
	case *ast.CallExpr:
		if id, ok := x.Fun.(*ast.Ident); ok {
			if _, shadow := c.lookup(id.Name); !shadow {
				if w, signed, isInt := btIntWidth(id.Name); isInt && len(x.Args) == 1 && id.Name != "common.RequestType" {
					a, t := c.expr(x.Args[0])
					if t == "untyped int" {
						return a, id.Name
					}
					sw, ssigned, sok := btIntWidth(t)
					if !sok {
						c.fail(e, "conversion %s of a %s", id.Name, t)
					}
					if !ssigned && (sw < w || (sw == w && !signed)) {
						return a, id.Name // widening (or same type): the identity
					}
					if sw == w && ssigned == signed {
						return a, id.Name
					}
					return fmt.Sprintf("(conv%d %s)", w, a), id.Name
				}
				switch id.Name {
				case "len":
					if len(x.Args) == 1 {
						a, t := c.expr(x.Args[0])
						if strings.HasPrefix(t, "[]") {
							return "(len " + a + ")", "int"
						}
					}
				case "append":
					if len(x.Args) == 2 && x.Ellipsis == token.NoPos {
						a, t := c.expr(x.Args[0])
						if strings.HasPrefix(t, "[]") {
							b := c.coerce(x.Args[1], t[2:])
							return fmt.Sprintf("(%s ++ [%s])", a, b), t
						}
					}
				case "make":
					if len(x.Args) >= 2 && types.ExprString(x.Args[0]) == "[]byte" {
						n, nt := c.expr(x.Args[1])
						if _, _, ok := btIntWidth(nt); !ok && nt != "untyped int" {
							c.fail(e, "make with a length of type %s", nt)
						}
						if len(x.Args) == 3 && types.ExprString(x.Args[2]) != types.ExprString(x.Args[1]) {
							c.fail(e, "make with a capacity different from the length")
						}
						return "(make_bytes " + n + ")", "[]byte"
					}
				case "new":
					if len(x.Args) == 1 {
						t := types.ExprString(x.Args[0])
						if _, ok := c.structs[t]; ok {
							return c.zero(e, t), "*" + t
						}
					}
				}
			}
		}
		if s := types.ExprString(x.Fun); len(x.Args) == 1 && (s == "binary.BigEndian.Uint32" || s == "binary.BigEndian.Uint16") {
			a, t := c.expr(x.Args[0])
			if t == "[]byte" {
				if s == "binary.BigEndian.Uint32" {
					return "(be_Uint32 " + a + ")", "uint32"
				}
				return "(be_Uint16 " + a + ")", "uint16"
			}
		}
		if pkg, name, ok := lpPkgSel(x.Fun); ok && pkg == "timer" && name == "Now" && len(x.Args) == 0 {
			return "0", "uint64"
		}
	case *ast.BinaryExpr:
		return c.binary(x)
	}
	c.fail(e, "expression %s", types.ExprString(e))
	return "", ""
}

func btIsNil(e ast.Expr) bool { return lpIsIdent(e, "nil") }

func (c *btCtx) binary(x *ast.BinaryExpr) (string, string) {
	switch x.Op {
	case token.LAND, token.LOR:
		a, ta := c.expr(x.X)
		b, tb := c.expr(x.Y)
		if ta == "bool" && tb == "bool" {
			op := "&&"
			if x.Op == token.LOR {
				op = "||"
			}
			return fmt.Sprintf("(%s %s %s)", a, op, b), "bool"
		}
		c.fail(x, "%s on %s, %s", x.Op, ta, tb)
	case token.EQL, token.NEQ:
		neg := func(s string) string {
			if x.Op == token.NEQ {
				return "(negb " + s + ")"
			}
			return s
		}
		l, r := x.X, x.Y
		if btIsNil(l) {
			l, r = r, l
		}
		if btIsNil(r) {
			a, t := c.expr(l)
			if t == "error" {
				return neg("(is_nil " + a + ")"), "bool"
			}
			c.fail(x, "comparison of a %s with nil", t)
		}
		a, ta := c.expr(l)
		b, tb := c.expr(r)
		if ta == "error" && tb == "error" {
			return neg(fmt.Sprintf("(gerr_eqb %s %s)", a, b)), "bool"
		}
		_, _, ia := btIntWidth(ta)
		_, _, ib := btIntWidth(tb)
		if (ia || ta == "untyped int") && (ib || tb == "untyped int") && (ta == tb || ta == "untyped int" || tb == "untyped int") {
			return neg(fmt.Sprintf("(%s =? %s)", a, b)), "bool"
		}
		c.fail(x, "%s on %s, %s", x.Op, ta, tb)
	case token.LSS, token.LEQ, token.GTR, token.GEQ:
		a, ta := c.expr(x.X)
		b, tb := c.expr(x.Y)
		t := ta
		if t == "untyped int" {
			t = tb
		}
		_, signed, ok := btIntWidth(t)
		if !ok || (ta != tb && ta != "untyped int" && tb != "untyped int") {
			c.fail(x, "%s on %s, %s", x.Op, ta, tb)
		}
		if x.Op == token.GTR || x.Op == token.GEQ {
			a, b = b, a
		}
		strict := x.Op == token.LSS || x.Op == token.GTR
		switch {
		case signed && strict:
			return fmt.Sprintf("(lts64 %s %s)", a, b), "bool"
		case signed:
			return fmt.Sprintf("(les64 %s %s)", a, b), "bool"
		case strict:
			return fmt.Sprintf("(%s <? %s)", a, b), "bool"
		}
		return fmt.Sprintf("(%s <=? %s)", a, b), "bool"
	case token.ADD, token.SUB, token.MUL:
		a, ta := c.expr(x.X)
		b, tb := c.expr(x.Y)
		t := ta
		if t == "untyped int" {
			t = tb
		}
		if ta == "untyped int" && tb == "untyped int" {
			c.fail(x, "constant arithmetic %s", types.ExprString(x))
		}
		w, _, ok := btIntWidth(t)
		if !ok || t == "common.RequestType" || (ta != tb && ta != "untyped int" && tb != "untyped int") {
			c.fail(x, "%s on %s, %s", x.Op, ta, tb)
		}
		op := map[token.Token]string{token.ADD: "add", token.SUB: "sub", token.MUL: "mul"}[x.Op]
		if x.Op == token.MUL && (w == 8 || w == 16) {
			c.fail(x, "* on %s", t)
		}
		return fmt.Sprintf("(%s%d %s %s)", op, w, a, b), t
	}
	c.fail(x, "operator %s", x.Op)
	return "", ""
}

// coerce translates e where a value of Go type target is expected
func (c *btCtx) coerce(e ast.Expr, target string) string {
	if btIsNil(e) {
		if _, isVar := c.lookup("nil"); !isVar {
			switch {
			case target == "error", target == "common.Request", strings.HasPrefix(target, "[]"), strings.HasPrefix(target, "*"):
				return c.zero(e, target)
			}
			c.fail(e, "nil as a %s", target)
		}
	}
	a, t := c.expr(e)
	if t == target {
		return a
	}
	if t == "untyped int" {
		if _, _, ok := btIntWidth(target); ok {
			return a
		}
	}
	if target == "common.Request" && strings.HasPrefix(t, "common.") {
		if _, ok := c.structs[btStructName(t)]; ok {
			return "(Req_" + btStructName(t) + " " + a + ")"
		}
	}
	c.fail(e, "a %s where a %s is expected: %s", t, target, types.ExprString(e))
	return ""
}

// ---- functions ----

func btKey(fd *ast.FuncDecl) string {
	if fd.Recv != nil && len(fd.Recv.List) == 1 {
		return btStructName(typeString(fd.Recv.List[0].Type)) + "." + fd.Name.Name
	}
	return fd.Name.Name
}

func btCoqFn(key string) string { return strings.ReplaceAll(key, ".", "_") + "_src" }

func btResults(fd *ast.FuncDecl) []string {
	var out []string
	if fd.Type.Results == nil {
		return nil
	}
	for _, f := range fd.Type.Results.List {
		n := len(f.Names)
		if n == 0 {
			n = 1
		}
		for i := 0; i < n; i++ {
			out = append(out, types.ExprString(f.Type))
		}
	}
	return out
}

type btParam struct {
	name, typ string
	reader    bool
}

func btParams(fd *ast.FuncDecl) []btParam {
	var out []btParam
	for _, f := range fd.Type.Params.List {
		t := types.ExprString(f.Type)
		for _, n := range f.Names {
			out = append(out, btParam{n.Name, t, btIsReaderType(t)})
		}
		if len(f.Names) == 0 {
			out = append(out, btParam{"_", t, btIsReaderType(t)})
		}
	}
	return out
}

// monadic: the function reads from the connection
func (c *btCtx) monadic(fd *ast.FuncDecl) bool {
	for _, p := range btParams(fd) {
		if p.reader {
			return true
		}
	}
	if fd.Recv != nil && len(fd.Recv.List) == 1 {
		for _, t := range c.recvField[btStructName(typeString(fd.Recv.List[0].Type))] {
			if btIsReaderType(t) {
				return true
			}
		}
	}
	return false
}

// localCall: call of a monadic function of the package
func (c *btCtx) localCall(e ast.Expr) (*ast.FuncDecl, *ast.CallExpr) {
	call, ok := e.(*ast.CallExpr)
	if !ok {
		return nil, nil
	}
	id, ok := call.Fun.(*ast.Ident)
	if !ok {
		return nil, nil
	}
	if _, shadow := c.lookup(id.Name); shadow {
		return nil, nil
	}
	fd, ok := c.funcs[id.Name]
	if !ok || !c.monadic(fd) {
		return nil, nil
	}
	return fd, call
}

func (c *btCtx) callTerm(fd *ast.FuncDecl, call *ast.CallExpr) string {
	ps := btParams(fd)
	if len(ps) != len(call.Args) || call.Ellipsis != token.NoPos {
		c.fail(call, "call of %s with %d arguments", fd.Name.Name, len(call.Args))
	}
	parts := []string{btCoqFn(btKey(fd))}
	for i, p := range ps {
		if p.reader {
			if !c.isReader(call.Args[i]) {
				c.fail(call, "%s is called on %s, not on the caller's reader", fd.Name.Name, types.ExprString(call.Args[i]))
			}
			continue
		}
		parts = append(parts, c.coerce(call.Args[i], p.typ))
	}
	if len(parts) == 1 {
		return parts[0]
	}
	return "(" + strings.Join(parts, " ") + ")"
}

func btTuple(items []string) string {
	if len(items) == 1 {
		return items[0]
	}
	return "(" + strings.Join(items, ", ") + ")"
}

func btPat(items []string) string {
	if len(items) == 1 {
		return items[0]
	}
	return "'(" + strings.Join(items, ", ") + ")"
}

func (c *btCtx) tupleType(n ast.Node, ts []string) string {
	var out []string
	for _, t := range ts {
		out = append(out, c.coqType(n, t))
	}
	return strings.Join(out, " * ")
}

// ---- statements ----

func btInd(n int) string { return strings.Repeat("  ", n) }

// retTerm wraps the function's result tuple
func (c *btCtx) retTerm(v string) string {
	if c.inLoop {
		return "ret (inr " + v + ")"
	}
	return "ret " + v
}

// lhsNames declares / resolves the left-hand sides of an assignment whose right-hand side has
// the Go types ts; returns the Gallina binder names
func (c *btCtx) lhsNames(x *ast.AssignStmt, ts []string) []string {
	if len(x.Lhs) != len(ts) {
		c.fail(x, "assignment of %d values to %d variables", len(ts), len(x.Lhs))
	}
	var out []string
	for i, l := range x.Lhs {
		id, ok := l.(*ast.Ident)
		if !ok {
			c.fail(x, "assignment to %s", types.ExprString(l))
		}
		if id.Name == "_" {
			out = append(out, "_")
			continue
		}
		if x.Tok == token.DEFINE {
			if v, ok := c.scopes[len(c.scopes)-1][id.Name]; ok {
				if v.typ != ts[i] {
					c.fail(x, "%s redeclared with type %s", id.Name, ts[i])
				}
				out = append(out, v.coq)
			} else {
				out = append(out, c.declare(id.Name, ts[i]))
			}
		} else {
			v, ok := c.lookup(id.Name)
			if !ok {
				c.fail(x, "assignment to %s, which is not a local variable", id.Name)
			}
			if v.typ != ts[i] && !(ts[i] == "untyped int") {
				c.fail(x, "assignment of a %s to %s (%s)", ts[i], id.Name, v.typ)
			}
			out = append(out, v.coq)
		}
		delete(c.defs, out[len(out)-1])
		delete(c.prov, out[len(out)-1])
	}
	return out
}

// event: the trace item of io.ReadAtLeast into buf
func (c *btCtx) event(n ast.Node, buf string) string {
	p, ok := c.prov[buf]
	if !ok {
		c.fail(n, "io.ReadAtLeast into %s, which is neither made nor taken from a pool in this function", buf)
	}
	if p.pool {
		if p.lenCoq == "24" {
			return "AHdr"
		}
		c.fail(n, "no trace item for a pooled buffer of %s bytes", p.lenCoq)
	}
	if lit, ok := p.lenAst.(*ast.BasicLit); ok && lit.Value == "4" {
		return "AWord"
	}
	if p.lenTyp == "uint16" {
		return "(AKey " + p.lenCoq + ")"
	}
	if id, ok := p.lenAst.(*ast.Ident); ok && p.lenTyp == "uint32" {
		if def, ok := c.defs[p.lenCoq]; ok {
			// def: H.TotalBodyLength - s1 - s2 .., each s a field of the same header, possibly in uint32(..)
			var subs []ast.Expr
			cur := def
			for {
				if pe, isP := cur.(*ast.ParenExpr); isP {
					cur = pe.X
					continue
				}
				b, isB := cur.(*ast.BinaryExpr)
				if !isB || b.Op != token.SUB {
					break
				}
				subs = append(subs, b.Y)
				cur = b.X
			}
			field := func(e ast.Expr) (string, string, string) {
				if call, isC := e.(*ast.CallExpr); isC && len(call.Args) == 1 && lpIsIdent(call.Fun, "uint32") {
					e = call.Args[0]
				}
				if h, f, ok := lpPkgSel(e); ok {
					if v, isVar := c.lookup(h); isVar && btStructName(v.typ) == "RequestHeader" {
						a, _ := c.expr(e)
						return h, f, a
					}
				}
				return "", "", ""
			}
			h0, f0, total := field(cur)
			if f0 == "TotalBodyLength" {
				extras, key, good := "0", "0", true
				for _, s := range subs {
					h, f, a := field(s)
					switch {
					case h == h0 && f == "ExtraLength" && extras == "0":
						extras = a
					case h == h0 && f == "KeyLength" && key == "0":
						key = a
					default:
						good = false
					}
				}
				if good {
					return fmt.Sprintf("(AData %s %s %s %s)", total, extras, key, p.lenCoq)
				}
			}
			c.fail(n, "no trace item for a buffer of length %s := %s", id.Name, types.ExprString(def))
		}
	}
	c.fail(n, "no trace item for a buffer of length %s (%s)", types.ExprString(p.lenAst), p.lenTyp)
	return ""
}

// poolGet matches P.Get().(T)
func (c *btCtx) poolGet(e ast.Expr) (ast.Expr, string, bool) {
	ta, ok := e.(*ast.TypeAssertExpr)
	if !ok || ta.Type == nil {
		return nil, "", false
	}
	call, ok := ta.X.(*ast.CallExpr)
	if !ok || len(call.Args) != 0 {
		return nil, "", false
	}
	pkg, name, ok := lpPkgSel(call.Fun)
	if !ok || name != "Get" {
		return nil, "", false
	}
	if _, shadow := c.lookup(pkg); shadow {
		return nil, "", false
	}
	nw, ok := c.pools[pkg]
	if !ok {
		return nil, "", false
	}
	return nw, types.ExprString(ta.Type), true
}

// stmts translates a statement list followed by the continuation k
func (c *btCtx) stmts(list []ast.Stmt, k func(ind int) string, ind int) string {
	if len(list) == 0 {
		return k(ind)
	}
	s, rest := list[0], list[1:]
	depth := len(c.scopes)
	next := func(i int) string {
		// the statements that follow, in the scope of this statement list
		saved := c.scopes
		c.scopes = c.scopes[:depth:depth]
		inner := append([]map[string]btVar{}, c.scopes...)
		for j := range inner { // copy: a duplicated continuation must not leak declarations
			m := map[string]btVar{}
			for kk, v := range inner[j] {
				m[kk] = v
			}
			inner[j] = m
		}
		c.scopes = inner
		savedDefs, savedProv := c.defs, c.prov
		c.defs, c.prov = map[string]ast.Expr{}, map[string]btProv{}
		for kk, v := range savedDefs {
			c.defs[kk] = v
		}
		for kk, v := range savedProv {
			c.prov[kk] = v
		}
		out := c.stmts(rest, k, i)
		c.scopes, c.defs, c.prov = saved, savedDefs, savedProv
		return out
	}
	var out string
	func() {
		defer func() {
			if r := recover(); r != nil {
				u, ok := r.(btUntrans)
				if !ok {
					panic(r)
				}
				out = btInd(ind) + c.marker(u.msg)
			}
		}()
		out = c.stmt(s, next, ind)
	}()
	return out
}

// block translates the statements of a nested block (own scope), then k
func (c *btCtx) block(list []ast.Stmt, k func(ind int) string, ind int) string {
	c.push()
	defer c.pop()
	return c.stmts(list, k, ind)
}

func (c *btCtx) stmt(s ast.Stmt, next func(ind int) string, ind int) string {
	in := btInd(ind)
	switch x := s.(type) {
	case *ast.EmptyStmt:
		return next(ind)
	case *ast.BlockStmt:
		return c.block(x.List, next, ind)
	case *ast.DeclStmt:
		gd, ok := x.Decl.(*ast.GenDecl)
		if !ok || gd.Tok != token.VAR {
			break
		}
		var sb strings.Builder
		for _, sp := range gd.Specs {
			vs := sp.(*ast.ValueSpec)
			if vs.Type == nil || len(vs.Values) != 0 {
				c.fail(x, "var declaration with an initialiser")
			}
			t := types.ExprString(vs.Type)
			for _, n := range vs.Names {
				z, ct := c.zero(x, t), c.coqType(x, t)
				fmt.Fprintf(&sb, "%slet %s : %s := %s in\n", in, c.declare(n.Name, t), ct, z)
			}
		}
		return sb.String() + next(ind)
	case *ast.ExprStmt:
		call, ok := x.X.(*ast.CallExpr)
		if ok && c.droppedCall(call) {
			for _, a := range call.Args {
				if c.impure(a) {
					c.fail(x, "a dropped call with a call in its arguments: %s", types.ExprString(call))
				}
			}
			return next(ind)
		}
	case *ast.DeferStmt:
		if _, name, ok := lpPkgSel(x.Call.Fun); ok && name == "Put" && c.droppedCall(x.Call) {
			for _, a := range x.Call.Args {
				if c.impure(a) {
					c.fail(x, "a dropped call with a call in its arguments")
				}
			}
			return next(ind)
		}
	case *ast.AssignStmt:
		return c.assign(x, next, ind)
	case *ast.ReturnStmt:
		if len(x.Results) == 1 && len(c.results) > 1 {
			if fd, call := c.localCall(x.Results[0]); fd != nil {
				rs := btResults(fd)
				if len(rs) != len(c.results) {
					c.fail(x, "return of the %d results of %s", len(rs), fd.Name.Name)
				}
				term := c.callTerm(fd, call)
				same := true
				var names, vals []string
				for i, t := range rs {
					n := fmt.Sprintf("r%d", i)
					names = append(names, n)
					switch {
					case t == c.results[i]:
						vals = append(vals, n)
					case c.results[i] == "common.Request" && strings.HasPrefix(t, "common.") && c.structs[btStructName(t)] != nil:
						vals = append(vals, "Req_"+btStructName(t)+" "+n)
						same = false
					default:
						c.fail(x, "result %d of %s is a %s, returned as a %s", i, fd.Name.Name, t, c.results[i])
					}
				}
				if same && !c.inLoop {
					return in + term
				}
				return fmt.Sprintf("%sdo %s <- %s ;\n%s%s", in, btTuple(names), term, in, c.retTerm(btTuple(vals)))
			}
		}
		if len(x.Results) != len(c.results) {
			c.fail(x, "return of %d values from a function with %d results", len(x.Results), len(c.results))
		}
		var vals []string
		for i, r := range x.Results {
			vals = append(vals, c.coerce(r, c.results[i]))
		}
		return in + c.retTerm(btTuple(vals))
	case *ast.IfStmt:
		if x.Init != nil {
			c.fail(x, "if with an init statement: %s", types.ExprString(x.Cond))
		}
		cond, t := c.expr(x.Cond)
		if t != "bool" {
			c.fail(x, "condition of type %s", t)
		}
		th := c.block(x.Body.List, next, ind+1)
		var el string
		switch e := x.Else.(type) {
		case nil:
			el = next(ind + 1)
		case *ast.BlockStmt:
			el = c.block(e.List, next, ind+1)
		case *ast.IfStmt:
			el = c.block([]ast.Stmt{e}, next, ind+1)
		default:
			c.fail(x, "else %T", x.Else)
		}
		return fmt.Sprintf("%sif %s then\n%s\n%selse\n%s", in, cond, th, in, el)
	case *ast.SwitchStmt:
		if x.Init != nil || x.Tag == nil {
			c.fail(x, "switch without a tag or with an init statement")
		}
		tag, tt := c.expr(x.Tag)
		if _, _, ok := btIntWidth(tt); !ok {
			c.fail(x, "switch on a %s", tt)
		}
		var deflt *ast.CaseClause
		var sb strings.Builder
		for _, cl := range x.Body.List {
			cc := cl.(*ast.CaseClause)
			if cc.List == nil {
				deflt = cc
				continue
			}
			var tests []string
			for _, e := range cc.List {
				v, vt := c.expr(e)
				if vt != tt && vt != "untyped int" {
					c.fail(e, "case %s of type %s in a switch on a %s", types.ExprString(e), vt, tt)
				}
				tests = append(tests, fmt.Sprintf("(%s =? %s)", tag, v))
			}
			for _, st := range cc.Body {
				if b, ok := st.(*ast.BranchStmt); ok {
					c.fail(b, "%s in a switch", b.Tok)
				}
			}
			fmt.Fprintf(&sb, "%sif %s then\n%s\n%selse\n", in, strings.Join(tests, " || "), c.block(cc.Body, next, ind+1), in)
		}
		if deflt != nil {
			sb.WriteString(c.block(deflt.Body, next, ind+1))
		} else {
			sb.WriteString(next(ind + 1))
		}
		return sb.String()
	case *ast.ForStmt:
		return c.loop(x, next, ind)
	}
	c.fail(s, "statement %T", s)
	return ""
}

func (c *btCtx) assign(x *ast.AssignStmt, next func(ind int) string, ind int) string {
	in := btInd(ind)
	if x.Tok != token.DEFINE && x.Tok != token.ASSIGN {
		c.fail(x, "assignment operator %s", x.Tok)
	}
	if len(x.Rhs) == 1 {
		// a function of the package that reads from the connection
		if fd, call := c.localCall(x.Rhs[0]); fd != nil {
			term := c.callTerm(fd, call)
			names := c.lhsNames(x, btResults(fd))
			return fmt.Sprintf("%sdo %s <- %s ;\n%s", in, btTuple(names), term, next(ind))
		}
		// io.ReadAtLeast(r, buf, min)
		if call, ok := x.Rhs[0].(*ast.CallExpr); ok {
			if pkg, name, ok := lpPkgSel(call.Fun); ok && pkg == "io" && name == "ReadAtLeast" {
				if _, shadow := c.lookup("io"); shadow || len(call.Args) != 3 {
					c.fail(x, "io.ReadAtLeast")
				}
				if !c.isReader(call.Args[0]) {
					c.fail(x, "io.ReadAtLeast on %s, not on the function's reader", types.ExprString(call.Args[0]))
				}
				bid, ok := call.Args[1].(*ast.Ident)
				if !ok {
					c.fail(x, "io.ReadAtLeast into %s", types.ExprString(call.Args[1]))
				}
				bv, ok := c.lookup(bid.Name)
				if !ok || bv.typ != "[]byte" {
					c.fail(x, "io.ReadAtLeast into %s", bid.Name)
				}
				ev := c.event(x, bv.coq)
				min, mt := c.expr(call.Args[2])
				if _, _, ok := btIntWidth(mt); !ok && mt != "untyped int" {
					c.fail(x, "io.ReadAtLeast with a minimum of type %s", mt)
				}
				names := c.lhsNames(x, []string{"int", "error"})
				return fmt.Sprintf("%sdo (%s, %s, %s) <- io_ReadAtLeast %s %s %s ;\n%s", in, bv.coq, names[0], names[1], ev, bv.coq, min, next(ind))
			}
		}
		// P.Get().(T)
		if nw, t, ok := c.poolGet(x.Rhs[0]); ok {
			v, vt := c.expr(nw)
			if vt != t {
				c.fail(x, "pool of %s asserted to be a %s", vt, t)
			}
			names := c.lhsNames(x, []string{t})
			if t == "[]byte" {
				if mk, ok := nw.(*ast.CallExpr); ok && len(mk.Args) >= 2 {
					n, _ := c.expr(mk.Args[1])
					c.prov[names[0]] = btProv{pool: true, lenCoq: n}
				}
			} else {
				c.prov[names[0]] = btProv{pool: true}
			}
			return fmt.Sprintf("%slet %s := %s in\n%s", in, names[0], v, next(ind))
		}
	}
	// p.F = e
	if len(x.Lhs) == 1 && len(x.Rhs) == 1 && x.Tok == token.ASSIGN {
		if h, f, ok := lpPkgSel(x.Lhs[0]); ok {
			v, isVar := c.lookup(h)
			if !isVar {
				c.fail(x, "assignment to %s", types.ExprString(x.Lhs[0]))
			}
			if p, ok := c.prov[v.coq]; !ok || !p.pool {
				c.fail(x, "assignment to a field of %s, which does not come from a pool in this function", h)
			}
			sn := btStructName(v.typ)
			for _, fl := range c.structs[sn] {
				if fl.name == f {
					val := c.coerce(x.Rhs[0], fl.typ)
					return fmt.Sprintf("%slet %s := set_%s_%s %s %s in\n%s", in, v.coq, sn, f, val, v.coq, next(ind))
				}
			}
			c.fail(x, "no field %s in %s", f, v.typ)
		}
	}
	// pure
	if len(x.Lhs) != len(x.Rhs) {
		c.fail(x, "assignment %s", types.ExprString(x.Rhs[0]))
	}
	var vals, ts []string
	for i, r := range x.Rhs {
		var a, t string
		if id, ok := x.Lhs[i].(*ast.Ident); ok && x.Tok == token.ASSIGN {
			if v, ok := c.lookup(id.Name); ok {
				a, t = c.coerce(r, v.typ), v.typ
			}
		}
		if t == "" {
			a, t = c.expr(r)
			if t == "untyped int" {
				t = "int"
			}
		}
		vals, ts = append(vals, a), append(ts, t)
	}
	names := c.lhsNames(x, ts)
	if len(names) == 1 {
		if mk, ok := x.Rhs[0].(*ast.CallExpr); ok && lpIsIdent(mk.Fun, "make") && len(mk.Args) >= 2 {
			n, nt := c.expr(mk.Args[1])
			c.prov[names[0]] = btProv{lenAst: mk.Args[1], lenCoq: n, lenTyp: nt}
		} else {
			c.defs[names[0]] = x.Rhs[0]
		}
		return fmt.Sprintf("%slet %s := %s in\n%s", in, names[0], vals[0], next(ind))
	}
	return fmt.Sprintf("%slet %s := %s in\n%s", in, btPat(names), btTuple(vals), next(ind))
}

// assignedOuter: the variables declared outside body that body assigns, in order of declaration
func (c *btCtx) assignedOuter(body []ast.Stmt) []string {
	var out []string
	seen := map[string]bool{}
	var walk func(list []ast.Stmt, declared map[string]bool)
	note := func(e ast.Expr, declared map[string]bool) {
		id, ok := e.(*ast.Ident)
		if !ok {
			if h, _, isSel := lpPkgSel(e); isSel {
				id = ast.NewIdent(h)
			} else {
				return
			}
		}
		if id.Name == "_" || declared[id.Name] || seen[id.Name] {
			return
		}
		if _, ok := c.lookup(id.Name); ok {
			seen[id.Name] = true
			out = append(out, id.Name)
		}
	}
	var one func(s ast.Stmt, declared map[string]bool)
	cp := func(m map[string]bool) map[string]bool {
		n := map[string]bool{}
		for k, v := range m {
			n[k] = v
		}
		return n
	}
	one = func(s ast.Stmt, declared map[string]bool) {
		switch x := s.(type) {
		case *ast.AssignStmt:
			for _, l := range x.Lhs {
				if x.Tok == token.DEFINE {
					if id, ok := l.(*ast.Ident); ok {
						declared[id.Name] = true
					}
				} else {
					note(l, declared)
				}
			}
		case *ast.IncDecStmt:
			note(x.X, declared)
		case *ast.DeclStmt:
			if gd, ok := x.Decl.(*ast.GenDecl); ok {
				for _, sp := range gd.Specs {
					if vs, ok := sp.(*ast.ValueSpec); ok {
						for _, n := range vs.Names {
							declared[n.Name] = true
						}
					}
				}
			}
		case *ast.BlockStmt:
			walk(x.List, cp(declared))
		case *ast.IfStmt:
			d := cp(declared)
			if x.Init != nil {
				one(x.Init, d)
			}
			walk(x.Body.List, cp(d))
			if x.Else != nil {
				one(x.Else, cp(d))
			}
		case *ast.ForStmt:
			walk(x.Body.List, cp(declared))
		case *ast.SwitchStmt:
			for _, cl := range x.Body.List {
				walk(cl.(*ast.CaseClause).Body, cp(declared))
			}
		}
	}
	walk = func(list []ast.Stmt, declared map[string]bool) {
		for _, s := range list {
			one(s, declared)
		}
	}
	walk(body, map[string]bool{})
	// in order of declaration: the order in which the body assigns them does not matter
	sort.SliceStable(out, func(i, j int) bool {
		a, _ := c.lookup(out[i])
		b, _ := c.lookup(out[j])
		return a.seq < b.seq
	})
	return out
}

func (c *btCtx) loop(x *ast.ForStmt, next func(ind int) string, ind int) string {
	in := btInd(ind)
	if x.Init != nil || x.Post != nil || x.Cond == nil {
		c.fail(x, "for loop that is not `for cond { }`")
	}
	if c.inLoop {
		c.fail(x, "nested loop")
	}
	bad := ""
	ast.Inspect(x.Body, func(n ast.Node) bool {
		if b, ok := n.(*ast.BranchStmt); ok {
			bad = b.Tok.String()
		}
		return true
	})
	if bad != "" {
		c.fail(x, "%s in a loop", bad)
	}
	vars := c.assignedOuter(x.Body.List)
	if len(vars) == 0 {
		c.fail(x, "loop whose body assigns no variable declared before it")
	}
	var names, tys []string
	for _, v := range vars {
		bv, _ := c.lookup(v)
		names = append(names, bv.coq)
		tys = append(tys, bv.typ)
		delete(c.defs, bv.coq)
		delete(c.prov, bv.coq)
	}
	cond, ct := c.expr(x.Cond)
	if ct != "bool" {
		c.fail(x, "loop condition of type %s", ct)
	}
	c.inLoop = true
	body := c.block(x.Body.List, func(i int) string { return btInd(i) + "ret (inl " + btTuple(names) + ")" }, ind+2)
	c.inLoop = false
	st, rt := c.tupleType(x, tys), c.tupleType(x, c.results)
	pat := btPat(names)
	return fmt.Sprintf("%sdo r <- while_ (St := %s) (R := %s)\n%s  (fun %s => %s)\n%s  (fun %s =>\n%s)\n%s  %s ;\n%smatch r with\n%s| inr v => ret v\n%s| inl %s =>\n%s\n%send",
		in, st, rt, in, pat, cond, in, pat, body, in, btTuple(names), in, in, in, strings.TrimPrefix(pat, "'"), next(ind+1), in)
}

// ---- one function ----

func (c *btCtx) function(fd *ast.FuncDecl) string {
	c.fn, c.results = fd, btResults(fd)
	c.scopes, c.readers, c.prov, c.defs, c.inLoop, c.seq = nil, map[string]bool{}, map[string]btProv{}, map[string]ast.Expr{}, false, 0
	c.push()
	var params []string
	var body string
	func() {
		defer func() {
			if r := recover(); r != nil {
				u, ok := r.(btUntrans)
				if !ok {
					panic(r)
				}
				body = "  " + c.marker(u.msg)
			}
		}()
		if fd.Recv != nil && len(fd.Recv.List) == 1 && len(fd.Recv.List[0].Names) == 1 {
			rn := fd.Recv.List[0].Names[0].Name
			for f, t := range c.recvField[btStructName(typeString(fd.Recv.List[0].Type))] {
				if btIsReaderType(t) {
					c.readers[rn+"."+f] = true
				}
			}
		}
		for _, p := range btParams(fd) {
			if p.reader {
				c.readers[p.name] = true
				continue
			}
			params = append(params, fmt.Sprintf("(%s : %s)", c.declare(p.name, p.typ), c.coqType(fd, p.typ)))
		}
		c.push()
		body = c.stmts(fd.Body.List, func(i int) string {
			c.fail(fd, "the end of %s is reached without a return", fd.Name.Name)
			return ""
		}, 1)
		c.pop()
	}()
	rt := "?"
	func() {
		defer func() {
			if r := recover(); r != nil {
				if _, ok := r.(btUntrans); !ok {
					panic(r)
				}
			}
		}()
		rt = c.tupleType(fd, c.results)
	}()
	pos := c.fs.Position(fd.Pos())
	ps := ""
	if len(params) > 0 {
		ps = " " + strings.Join(params, " ")
	}
	return fmt.Sprintf("(* %s: func %s (line %d) *)\nDefinition %s%s : rd (%s) :=\n%s.\n", filepath.Base(pos.Filename), btKey(fd), pos.Line,
		btCoqFn(btKey(fd)), ps, rt, body)
}

// ---- package level ----

func (c *btCtx) readStructs(af *ast.File, keep func(name string) bool) {
	for _, d := range af.Decls {
		gd, ok := d.(*ast.GenDecl)
		if !ok || gd.Tok != token.TYPE {
			continue
		}
		for _, sp := range gd.Specs {
			ts := sp.(*ast.TypeSpec)
			st, ok := ts.Type.(*ast.StructType)
			if !ok {
				continue
			}
			var fs []btField
			for _, f := range st.Fields.List {
				for _, n := range f.Names {
					fs = append(fs, btField{n.Name, types.ExprString(f.Type)})
				}
			}
			if keep(ts.Name.Name) {
				c.structs[ts.Name.Name] = fs
				c.structOrd = append(c.structOrd, ts.Name.Name)
			} else {
				m := map[string]string{}
				for _, f := range fs {
					m[f.name] = f.typ
				}
				c.recvField[ts.Name.Name] = m
			}
		}
	}
}

func (c *btCtx) readPackage(af *ast.File) {
	for _, d := range af.Decls {
		switch x := d.(type) {
		case *ast.FuncDecl:
			if x.Body != nil {
				c.funcs[btKey(x)] = x
			}
		case *ast.GenDecl:
			for _, sp := range x.Specs {
				vs, ok := sp.(*ast.ValueSpec)
				if !ok {
					continue
				}
				for i, n := range vs.Names {
					if i >= len(vs.Values) {
						continue
					}
					v := vs.Values[i]
					if x.Tok == token.CONST {
						k := btConst{typ: "untyped int"}
						if call, ok := v.(*ast.CallExpr); ok && len(call.Args) == 1 {
							if id, ok := call.Fun.(*ast.Ident); ok {
								if _, _, isInt := btIntWidth(id.Name); isInt {
									k.typ = id.Name
									v = call.Args[0]
								}
							}
						}
						if vs.Type != nil {
							k.typ = types.ExprString(vs.Type)
						}
						if lit, ok := v.(*ast.BasicLit); ok && lit.Kind == token.INT {
							var u uint64
							if _, err := fmt.Sscan(lit.Value, &u); err == nil {
								k.lit = fmt.Sprintf("%d", u)
							}
						}
						if _, _, isInt := btIntWidth(k.typ); isInt || k.typ == "untyped int" {
							c.consts[n.Name] = k
						}
						continue
					}
					// var X = errors.New(..)
					if call, ok := v.(*ast.CallExpr); ok && types.ExprString(call.Fun) == "errors.New" {
						c.localErrs[n.Name] = true
					}
					// var P = &sync.Pool{New: func() interface{} { return E }}
					if u, ok := v.(*ast.UnaryExpr); ok && u.Op == token.AND {
						if cl, ok := u.X.(*ast.CompositeLit); ok && types.ExprString(cl.Type) == "sync.Pool" && len(cl.Elts) == 1 {
							if kv, ok := cl.Elts[0].(*ast.KeyValueExpr); ok && lpIsIdent(kv.Key, "New") {
								if fl, ok := kv.Value.(*ast.FuncLit); ok && len(fl.Body.List) == 1 {
									if r, ok := fl.Body.List[0].(*ast.ReturnStmt); ok && len(r.Results) == 1 {
										c.pools[n.Name] = r.Results[0]
									}
								}
							}
						}
					}
				}
			}
		}
	}
}

func bintrans(e *env) {
	repo := "/repo"
	if v := os.Getenv("VERIF_REPO"); v != "" {
		repo = v
	}
	c := &btCtx{fs: token.NewFileSet(), funcs: map[string]*ast.FuncDecl{}, structs: map[string][]btField{}, pools: map[string]ast.Expr{},
		localErrs: map[string]bool{}, consts: map[string]btConst{}, recvField: map[string]map[string]string{}}
	var perrs []string
	dir := filepath.Join(repo, "protocol", "binprot")
	ents, err := os.ReadDir(dir)
	if err != nil {
		perrs = append(perrs, err.Error())
	}
	var files []string
	for _, en := range ents {
		n := en.Name()
		if strings.HasSuffix(n, ".go") && !strings.HasSuffix(n, "_test.go") && n != "verif_hooks.go" {
			files = append(files, n)
		}
	}
	sort.Strings(files)
	for _, f := range files {
		af, err := parser.ParseFile(c.fs, filepath.Join(dir, f), nil, 0)
		if err != nil {
			perrs = append(perrs, err.Error())
			continue
		}
		c.readStructs(af, func(n string) bool { return n == "RequestHeader" })
		c.readPackage(af)
	}
	if af, err := parser.ParseFile(c.fs, filepath.Join(repo, "common", "datatypes.go"), nil, 0); err != nil {
		perrs = append(perrs, err.Error())
	} else {
		c.readStructs(af, func(n string) bool { return strings.HasSuffix(n, "Request") })
	}

	// the functions reached from Parse, callees first
	var order []string
	state := map[string]int{}
	var visit func(key string)
	visit = func(key string) {
		if state[key] != 0 {
			if state[key] == 1 {
				perrs = append(perrs, "recursion through "+key)
			}
			return
		}
		state[key] = 1
		fd := c.funcs[key]
		ast.Inspect(fd.Body, func(n ast.Node) bool {
			if call, ok := n.(*ast.CallExpr); ok {
				if id, ok := call.Fun.(*ast.Ident); ok {
					if g, ok := c.funcs[id.Name]; ok && c.monadic(g) {
						visit(id.Name)
					}
				}
			}
			return true
		})
		state[key] = 2
		order = append(order, key)
	}
	root := "BinaryParser.Parse"
	if _, ok := c.funcs[root]; ok {
		visit(root)
	} else {
		perrs = append(perrs, "method Parse of BinaryParser not found in protocol/binprot")
	}

	var defs strings.Builder
	for _, key := range order {
		defs.WriteString(c.function(c.funcs[key]))
		defs.WriteString("\n")
	}
	for _, pe := range perrs {
		c.notes = append(c.notes, pe)
	}

	var sb strings.Builder
	sb.WriteString("(* GENERATED by harness bintrans from the SOURCE of /repo/protocol/binprot (parser.go, headers.go) and\n" +
		"   /repo/common/datatypes.go — do not edit. BinaryParser.Parse and the functions it reaches, one\n" +
		"   Gallina definition per Go function, statement by statement, in the reader monad of\n" +
		"   proto/ReaderSem.v (which gives every operator its meaning); gen/BinParserLink.v proves\n" +
		"   parse_bin_src equal to proto/BinReq.v parse_bin, result and allocation trace.\n" +
		"   Rules (full text: harness/cmd/rendharness/bintrans.go):\n" +
		"   - dropped: calls of metrics.*, log.*, fmt.*, <sync.Pool>.Put (also deferred); timer.Now() = 0;\n" +
		"   - <sync.Pool>.Get().(T) = the value of the pool's New function (recycled contents and sharing\n" +
		"     of pooled objects are outside a value-level translation);\n" +
		"   - the io.Reader / *bufio.Reader is the implicit stream of the monad; io.ReadAtLeast carries the\n" +
		"     trace item that says where its buffer comes from (pool of 24 -> AHdr, make 4 -> AWord, make of a\n" +
		"     uint16 -> AKey, make of total [- extras] [- key] -> AData);\n" +
		"   - if/switch: the statements that follow are copied behind every branch that does not return;\n" +
		"     for cond {..}: ReaderSem.while_ over the outer variables the body assigns;\n" +
		"   - nil / T{} by the expected type; a struct returned as common.Request is wrapped in Req_T;\n" +
		"   - anything else: untranslatable \"..\" (stuck), listed in bintrans_untranslated. *)\n")
	sb.WriteString("From Coq Require Import String.\nFrom Rend Require Import base.Bytes gen.Consts_gen proto.ReqCommon proto.ReaderSem.\n" +
		"Open Scope string_scope.\nOpen Scope list_scope.\nOpen Scope N_scope.\n\n")
	sb.WriteString("(* the struct declarations the records of proto/ReaderSem.v stand for *)\n")
	sb.WriteString("Definition struct_decls_src : list (string * list (string * string)) := [\n")
	for i, sn := range c.structOrd {
		var fs []string
		for _, f := range c.structs[sn] {
			fs = append(fs, fmt.Sprintf("(%s, %s)", btStr(f.name), btStr(f.typ)))
		}
		sep := ";"
		if i == len(c.structOrd)-1 {
			sep = ""
		}
		fmt.Fprintf(&sb, "  (%s, [%s])%s\n", btStr(sn), strings.Join(fs, "; "), sep)
	}
	sb.WriteString("].\n\n")
	sb.WriteString(defs.String())
	sb.WriteString("(* what the translator had no rule for (the link file proves this list empty) *)\n")
	var ns []string
	for _, n := range c.notes {
		ns = append(ns, btStr(n))
	}
	fmt.Fprintf(&sb, "Definition bintrans_untranslated : list string := [%s].\n\n", strings.Join(ns, ";\n  "))
	sb.WriteString("(* the functions translated, in order *)\n")
	var fl []string
	for _, k := range order {
		fl = append(fl, btStr(k))
	}
	fmt.Fprintf(&sb, "Definition bintrans_functions : list string := [%s].\n\n", strings.Join(fl, "; "))
	if _, ok := c.funcs[root]; ok {
		sb.WriteString("(* one call of BinaryParser.Parse on the bytes still to come, as DefaultServer.Loop sees it *)\n")
		sb.WriteString("Definition parse_bin_src (s : bytes) : pout := run_parse " + btCoqFn(root) + " s.\n")
	}

	outDir := e.out
	if outDir == "" || outDir == "." {
		rootDir := os.Getenv("VERIF_ROOT")
		if rootDir == "" {
			rootDir = "/verif"
		}
		outDir = filepath.Join(rootDir, "coq", "gen")
	}
	writeIfChanged(filepath.Join(outDir, "BinParser_gen.v"), []byte(sb.String()))
}
