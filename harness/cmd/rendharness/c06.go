package main

import (
	"bytes"
	"encoding/binary"
	"encoding/json"
	"fmt"
	"os"
	"path/filepath"
	"sort"
	"sync"
	"sync/atomic"
	"time"

	"github.com/netflix/rend/common"
	"github.com/netflix/rend/handlers"
	"github.com/netflix/rend/handlers/memcached/batched"
	"github.com/netflix/rend/handlers/memcached/std"
	"verifharness/fakemc"
	"verifharness/gal"
	"verifharness/rig"
	"verifharness/stack"
)

func init() {
	commands["c06"] = c06
	commands["c13"] = c13
	commands["c09r"] = c09r
}

// hCall is one handler call in replayable form.
type hCall struct {
	Kind  string        `json:"kind"`
	Key   string        `json:"key,omitempty"`
	Data  []byte        `json:"data,omitempty"`
	Flags uint32        `json:"flags,omitempty"`
	TTL   uint32        `json:"ttl,omitempty"`
	Items []stack.GItem `json:"items,omitempty"`
}

func (c hCall) hreq() string {
	k := gal.Bytes([]byte(c.Key))
	n := func(v uint32) string { return gal.N(uint64(v)) }
	switch c.Kind {
	case "set", "add", "replace":
		m := map[string]string{"set": "MSet", "add": "MAdd", "replace": "MReplace"}[c.Kind]
		return gal.App("HSet", m, k, gal.Bytes(c.Data), n(c.Flags), n(c.TTL))
	case "append", "prepend":
		return gal.App("HCat", gal.Bool(c.Kind == "prepend"), k, gal.Bytes(c.Data))
	case "delete":
		return gal.App("HDelete", k)
	case "touch":
		return gal.App("HTouch", k, n(c.TTL))
	case "gat":
		return gal.App("HGat", k, n(c.TTL), "77")
	case "get", "gete":
		var its []string
		for _, it := range c.Items {
			its = append(its, gal.App("mkGI", gal.Bytes(it.Key), gal.N(uint64(it.Opaque)), gal.Bool(it.Quiet)))
		}
		if c.Kind == "gete" {
			return gal.App("HGetE", gal.List(its))
		}
		return gal.App("HGet", gal.List(its))
	}
	panic("bad call " + c.Kind)
}

func (c hCall) common() (common.Request, common.RequestType) {
	switch c.Kind {
	case "set":
		return common.SetRequest{Key: []byte(c.Key), Data: c.Data, Flags: c.Flags, Exptime: c.TTL}, common.RequestSet
	case "add":
		return common.SetRequest{Key: []byte(c.Key), Data: c.Data, Flags: c.Flags, Exptime: c.TTL}, common.RequestAdd
	case "replace":
		return common.SetRequest{Key: []byte(c.Key), Data: c.Data, Flags: c.Flags, Exptime: c.TTL}, common.RequestReplace
	case "append":
		return common.SetRequest{Key: []byte(c.Key), Data: c.Data}, common.RequestAppend
	case "prepend":
		return common.SetRequest{Key: []byte(c.Key), Data: c.Data}, common.RequestPrepend
	case "delete":
		return common.DeleteRequest{Key: []byte(c.Key)}, common.RequestDelete
	case "touch":
		return common.TouchRequest{Key: []byte(c.Key), Exptime: c.TTL}, common.RequestTouch
	case "gat":
		return common.GATRequest{Key: []byte(c.Key), Exptime: c.TTL, Opaque: 77}, common.RequestGat
	}
	g := common.GetRequest{}
	for _, it := range c.Items {
		g.Keys = append(g.Keys, it.Key)
		g.Opaques = append(g.Opaques, it.Opaque)
		g.Quiet = append(g.Quiet, it.Quiet)
	}
	if c.Kind == "gete" {
		return g, common.RequestGetE
	}
	return g, common.RequestGet
}

// callHandler performs the call on any handlers.Handler and returns the Gallina hres.
// Values handed to a caller stay the caller's: every Data slice a get/gat/gete returned is kept
// together with a private copy; after later traffic went through the pool they must still agree
// (the orchestrators keep such values while they talk to the other tier).
type retItem struct {
	key        string
	got, saved []byte
}

var (
	retMu    sync.Mutex
	retItems []retItem
)

func retain(key, data []byte) {
	if len(data) == 0 {
		return
	}
	retMu.Lock()
	retItems = append(retItems, retItem{string(key), data, append([]byte(nil), data...)})
	retMu.Unlock()
}

// checkRetained reports (once per call) a retained value that no longer equals its copy and
// forgets everything retained so far.
func checkRetained(w *rig.Writer, input interface{}) bool {
	retMu.Lock()
	defer retMu.Unlock()
	bad := false
	for _, it := range retItems {
		if !bytes.Equal(it.got, it.saved) {
			if !bad {
				w.Fail(rig.GoFailure{Kind: "counterexample", What: "a value returned to a caller of the batching pool changed after later replies were read (the returned slice is not the caller's own)",
					Input: input, Detail: fmt.Sprintf("key %q: returned %q, now %q", it.key, trunc(string(it.saved), 60), trunc(string(it.got), 60))})
			}
			bad = true
		}
	}
	retItems = nil
	return bad
}

func callHandler(h handlers.Handler, c hCall) string {
	errG := func(err error) string { return errGallina(err) }
	switch c.Kind {
	case "set":
		r, _ := c.common()
		return errG(h.Set(r.(common.SetRequest)))
	case "add":
		r, _ := c.common()
		return errG(h.Add(r.(common.SetRequest)))
	case "replace":
		r, _ := c.common()
		return errG(h.Replace(r.(common.SetRequest)))
	case "append":
		r, _ := c.common()
		return errG(h.Append(r.(common.SetRequest)))
	case "prepend":
		r, _ := c.common()
		return errG(h.Prepend(r.(common.SetRequest)))
	case "delete":
		r, _ := c.common()
		return errG(h.Delete(r.(common.DeleteRequest)))
	case "touch":
		r, _ := c.common()
		return errG(h.Touch(r.(common.TouchRequest)))
	case "gat":
		r, _ := c.common()
		g, err := h.GAT(r.(common.GATRequest))
		if err != nil {
			return errG(err)
		}
		retain(g.Key, g.Data)
		return gal.App("HVals", gal.List([]string{gresGallina(g.Key, g.Data, g.Flags, g.Opaque, g.Quiet, g.Miss)}), "None")
	case "get":
		r, _ := c.common()
		dc, ec := h.Get(r.(common.GetRequest))
		var rs []string
		var gerr error
		for dc != nil || ec != nil {
			select {
			case g, ok := <-dc:
				if !ok {
					dc = nil
				} else {
					retain(g.Key, g.Data)
					rs = append(rs, gresGallina(g.Key, g.Data, g.Flags, g.Opaque, g.Quiet, g.Miss))
				}
			case e, ok := <-ec:
				if !ok {
					ec = nil
				} else {
					gerr = e
				}
			}
		}
		return gal.App("HVals", gal.List(rs), errOpt(gerr))
	case "gete":
		r, _ := c.common()
		dc, ec := h.GetE(r.(common.GetRequest))
		var rs []string
		var gerr error
		for dc != nil || ec != nil {
			select {
			case g, ok := <-dc:
				if !ok {
					dc = nil
				} else {
					retain(g.Key, g.Data)
					rs = append(rs, gal.App("mkGR", gal.Bytes(g.Key), gal.Bytes(g.Data), gal.N(uint64(g.Flags)), gal.N(uint64(g.Exptime)),
						gal.N(uint64(g.Opaque)), gal.Bool(g.Quiet), gal.Bool(g.Miss)))
				}
			case e, ok := <-ec:
				if !ok {
					ec = nil
				} else {
					gerr = e
				}
			}
		}
		return gal.App("HVals", gal.List(rs), errOpt(gerr))
	}
	panic("bad call")
}

func errOpt(err error) string {
	if err == nil {
		return "None"
	}
	i := errIndex(err)
	if i < 0 || !common.IsAppError(err) {
		return "(Some EIO)"
	}
	return "(Some " + errList[i].name + ")"
}

var sockCounter int32

func newSock(e *env) string {
	n := atomic.AddInt32(&sockCounter, 1)
	return filepath.Join(e.out, fmt.Sprintf("b%d.sock", n))
}

func genCall(r *rig.Rand, keys []string, w *rig.Writer) hCall {
	key := keys[r.Intn(len(keys))]
	kinds := []string{"set", "set", "add", "replace", "append", "prepend", "delete", "touch", "gat", "get", "get", "gete"}
	c := hCall{Kind: kinds[r.Intn(len(kinds))], Key: key}
	switch c.Kind {
	case "set", "add", "replace":
		c.Data = r.Bytes(r.Intn(40))
		c.Flags = genU32(r)
		c.TTL = []uint32{0, 0, 100, 5000, 2592000}[r.Intn(5)]
	case "append", "prepend":
		c.Data = r.Bytes(1 + r.Intn(8))
	case "touch", "gat":
		c.TTL = []uint32{0, 100, 5000}[r.Intn(3)]
	case "get", "gete":
		c.Key = ""
		n := 1 + r.Intn(4)
		for i := 0; i < n; i++ {
			k := keys[r.Intn(len(keys))] // duplicates happen
			c.Items = append(c.Items, stack.GItem{Key: []byte(k), Opaque: uint32(r.Intn(5)), Quiet: r.Bool()})
		}
		if n > 1 {
			w.Count("get=multi-key")
		}
	}
	w.Count("call=" + c.Kind)
	return c
}

func parseWire(b []byte) []string {
	var out []string
	for len(b) >= 24 {
		op := b[1]
		keylen := int(binary.BigEndian.Uint16(b[2:4]))
		extlen := int(b[4])
		total := int(binary.BigEndian.Uint32(b[8:12]))
		opaque := binary.BigEndian.Uint32(b[12:16])
		if len(b) < 24+total {
			break
		}
		key := b[24+extlen : 24+extlen+keylen]
		out = append(out, gal.Tuple(gal.N(uint64(opaque)), gal.N(uint64(op)), gal.Bytes(key)))
		b = b[24+total:]
	}
	return out
}

func c06(e *env) {
	w := rig.NewWriter(e.out, "C06", e.tier, e.seed)
	w.Shards = 8
	r := rig.NewRand(e.seed*131 + 6)
	thorough := e.tier == "thorough"
	keys := []string{"a", "bb", "key3"}

	// (A) function level: batchIntoBuffer
	nb := 300
	if thorough {
		nb = 5000
	}
	for i := 0; i < nb; i++ {
		n := 1 + r.Intn(10)
		var reqs []batched.VerifReq
		var qs []string
		var calls []hCall
		for j := 0; j < n; j++ {
			c := genCall(r, keys, w)
			cr, ct := c.common()
			reqs = append(reqs, batched.VerifReq{Type: ct, Req: cr, Chan: j})
			qs = append(qs, gal.App("mkQ", fmt.Sprintf("%d%%nat", j), c.hreq()))
			calls = append(calls, c)
		}
		wire, tab, counts := batched.VerifBatchIntoBuffer(int64(r.U64()), reqs)
		ws := parseWire(wire)
		var base uint32
		if len(wire) >= 24 {
			base = binary.BigEndian.Uint32(wire[12:16]) - 1
		}
		var tg []string
		var os_ []uint32
		for o := range tab {
			os_ = append(os_, o)
		}
		sort.Slice(os_, func(a, b int) bool { return os_[a] < os_[b] })
		for _, o := range os_ {
			h := tab[o]
			tg = append(tg, gal.Pair(gal.N(uint64(o)), gal.App("mkHd", gal.Bytes(h.Key), gal.N(uint64(h.Opaque)), gal.Bool(h.Quiet), fmt.Sprintf("%d%%nat", h.Chan))))
		}
		var cg []string
		for ch := 0; ch < n; ch++ {
			cg = append(cg, gal.Pair(fmt.Sprintf("%d%%nat", ch), fmt.Sprintf("%d%%nat", counts[ch])))
		}
		w.Add(rig.Case{Desc: map[string]interface{}{"kind": "batch", "calls": calls}, Coq: gal.App("K6Batch", gal.N(uint64(base)), gal.List(qs), gal.List(ws), gal.List(tg), gal.List(cg)),
			Nontrivial: n >= 2})
	}

	// (B) handler level, one caller: the real batched handler and the real direct handler on twin backends
	nseq := 40
	if thorough {
		nseq = 600
	}
	for i := 0; i < nseq; i++ {
		fb, fs := fakemc.New(), fakemc.New()
		fb.SetNow(cNow)
		fs.SetNow(cNow)
		sock := newSock(e)
		l, err := fb.ListenUnix(sock)
		if err != nil {
			rig.Die("listen: %v", err)
		}
		hb := batched.NewHandler(sock, batched.Opts{BatchSize: uint32(1 + r.Intn(10)), BatchDelayMicros: uint32(50 + r.Intn(500))})
		hs := std.NewHandler(fs.Pipe())
		var steps []string
		var calls []hCall
		n := 5 + r.Intn(25)
		for j := 0; j < n; j++ {
			c := genCall(r, keys, w)
			calls = append(calls, c)
			done := make(chan string, 1)
			go func() { done <- callHandler(hb, c) }()
			var rb string
			select {
			case rb = <-done:
			case <-time.After(10 * time.Second):
				w.Fail(rig.GoFailure{Kind: "counterexample", What: "a call through the batching pool did not return within 10 s", Input: map[string]interface{}{"kind": "seq", "calls": calls}})
				j = n
				continue
			}
			rs := callHandler(hs, c)
			if rb != rs {
				w.Fail(rig.GoFailure{Kind: "counterexample", What: "the batching pool and a direct connection gave different results for the same command sequence",
					Input: map[string]interface{}{"kind": "seq", "calls": calls}, Detail: "batched: " + trunc(rb, 300) + "\ndirect:  " + trunc(rs, 300),
					Tags: []string{"batched-result-differs:" + c.Kind}})
			}
			steps = append(steps, gal.Tuple(c.hreq(), rb, stack.DumpGallina(fb)))
		}
		l.Close()
		fb.CloseAll()
		hs.Close()
		var kg []string
		for _, k := range keys {
			kg = append(kg, gal.Bytes([]byte(k)))
		}
		checkRetained(w, map[string]interface{}{"kind": "seq", "calls": calls})
		w.Add(rig.Case{Desc: map[string]interface{}{"kind": "seq", "calls": calls}, Coq: gal.App("K6Seq", gal.N(cNow), gal.List(kg), gal.List(steps)), Nontrivial: true})
	}

	// (B2) one batch whose replies and requests are larger than the socket buffers: a multi-key get
	// of 4 x 256 KiB values and, in the same batch, a 1 MiB set (both arrival orders). Each caller
	// gets its own correct outcome (the pool must read replies while it is still writing requests).
	for _, getFirst := range []bool{true, false} {
		fb := fakemc.New()
		fb.SetNow(cNow)
		fb.LogOn = false
		sock := newSock(e)
		l, _ := fb.ListenUnix(sock)
		bigKeys := []string{"big0", "big1", "big2", "big3"}
		for i, k := range bigKeys {
			fb.Put(k, fakemc.Entry{Flags: uint32(i), Value: bytes.Repeat([]byte{byte('A' + i)}, 256<<10), Deadline: -1})
		}
		opts := batched.Opts{BatchSize: 8, BatchDelayMicros: 30000}
		batched.NewHandler(sock, opts)
		type outc struct {
			who string
			res string
		}
		done := make(chan outc, 2)
		doGet := func() {
			h := batched.NewHandler(sock, opts)
			req := common.GetRequest{}
			for i, k := range bigKeys {
				req.Keys = append(req.Keys, []byte(k))
				req.Opaques = append(req.Opaques, uint32(10+i))
				req.Quiet = append(req.Quiet, false)
			}
			dc, ec := h.Get(req)
			okAll, n := true, 0
			var gerr error
			for dc != nil || ec != nil {
				select {
				case g, ok := <-dc:
					if !ok {
						dc = nil
						continue
					}
					i := int(g.Opaque) - 10
					if g.Miss || i < 0 || i > 3 || len(g.Data) != 256<<10 || g.Data[0] != byte('A'+i) || g.Data[len(g.Data)-1] != byte('A'+i) || g.Flags != uint32(i) {
						okAll = false
					}
					n++
				case er, ok := <-ec:
					if !ok {
						ec = nil
						continue
					}
					gerr = er
				}
			}
			done <- outc{"get", fmt.Sprintf("values=%d correct=%v err=%v", n, okAll, gerr)}
		}
		doSet := func() {
			h := batched.NewHandler(sock, opts)
			err := h.Set(common.SetRequest{Key: []byte("huge"), Data: bytes.Repeat([]byte{'z'}, 1<<20), Flags: 9})
			done <- outc{"set", fmt.Sprintf("err=%v", err)}
		}
		if getFirst {
			go doGet()
			time.Sleep(3 * time.Millisecond)
			go doSet()
		} else {
			go doSet()
			time.Sleep(3 * time.Millisecond)
			go doGet()
		}
		got := map[string]string{}
		timeout := time.After(30 * time.Second)
	waitBig:
		for len(got) < 2 {
			select {
			case o := <-done:
				got[o.who] = o.res
			case <-timeout:
				break waitBig
			}
		}
		in := map[string]interface{}{"kind": "big-batch", "get_first": getFirst}
		if len(got) < 2 {
			w.Fail(rig.GoFailure{Kind: "counterexample", What: "callers of one batch with values larger than the socket buffers got no outcome within 30 s", Input: in, Detail: fmt.Sprint(got)})
		} else {
			if got["get"] != "values=4 correct=true err=<nil>" || got["set"] != "err=<nil>" {
				w.Fail(rig.GoFailure{Kind: "counterexample", What: "callers of one batch with large values did not get their own correct outcome", Input: in, Detail: fmt.Sprint(got)})
			}
			if d := fb.Dump(); len(d["huge"].Value) != 1<<20 {
				w.Fail(rig.GoFailure{Kind: "counterexample", What: "the 1 MiB set of a large batch was acknowledged but is not stored", Input: in})
			}
		}
		w.Count("big-batch")
		l.Close()
		fb.CloseAll()
	}

	// (C) many callers at once on private keys through one pool
	nconc := 6
	if thorough {
		nconc = 60
	}
	for i := 0; i < nconc; i++ {
		fb := fakemc.New()
		fb.SetNow(cNow)
		sock := newSock(e)
		l, _ := fb.ListenUnix(sock)
		opts := batched.Opts{BatchSize: uint32(1 + r.Intn(10)), BatchDelayMicros: uint32(50 + r.Intn(2000))}
		batched.NewHandler(sock, opts)
		pool := 1 + r.Intn(4)
		if i%2 == 1 {
			// bodies arrive after their headers, on several pooled connections at once: a reader is
			// in the middle of a reply while the readers of the other connections start theirs
			fb.BodyDelay = 300 * time.Microsecond
			if pool < 2 {
				pool = 2 + r.Intn(3)
			}
			w.Count("concurrent-round-with-delayed-bodies")
		}
		for p := 1; p < pool; p++ {
			batched.VerifAddConn(sock)
		}
		ncallers := []int{1, 2, 4, 8, 16, 32, 64}[r.Intn(7)]
		if fb.BodyDelay > 0 && ncallers < 8 {
			ncallers = 8
		}
		if !thorough && ncallers > 16 {
			ncallers = 16
		}
		type cr struct {
			calls []hCall
			res   []string
		}
		callers := make([]*cr, ncallers)
		for c := range callers {
			callers[c] = &cr{}
			ks := []string{fmt.Sprintf("c%d-a", c), fmt.Sprintf("c%d-b", c)}
			for j := 0; j < 6+r.Intn(10); j++ {
				callers[c].calls = append(callers[c].calls, genCall(r, ks, w))
			}
		}
		var wg sync.WaitGroup
		var hung int32
		for c := range callers {
			wg.Add(1)
			go func(x *cr) {
				defer wg.Done()
				h := batched.NewHandler(sock, opts)
				for _, cl := range x.calls {
					done := make(chan string, 1)
					go func() { done <- callHandler(h, cl) }()
					select {
					case s := <-done:
						x.res = append(x.res, s)
					case <-time.After(15 * time.Second):
						atomic.AddInt32(&hung, 1)
						return
					}
				}
			}(callers[c])
		}
		wg.Wait()
		l.Close()
		fb.CloseAll()
		if hung > 0 {
			w.Fail(rig.GoFailure{Kind: "counterexample", What: "a caller of the batching pool did not get its outcome within 15 s", Input: map[string]interface{}{"kind": "conc", "callers": ncallers}})
			continue
		}
		var cg []string
		var desc [][]hCall
		for _, x := range callers {
			var st []string
			for j, cl := range x.calls {
				st = append(st, gal.Pair(cl.hreq(), x.res[j]))
			}
			cg = append(cg, gal.List(st))
			desc = append(desc, x.calls)
		}
		w.Count(fmt.Sprintf("concurrent-callers=%d", ncallers))
		w.Count(fmt.Sprintf("pool=%d", pool))
		checkRetained(w, map[string]interface{}{"kind": "conc", "pool": pool, "callers": desc})
		w.Add(rig.Case{Desc: map[string]interface{}{"kind": "conc", "pool": pool, "callers": desc}, Coq: gal.App("K6Conc", gal.N(cNow), gal.List(cg)), Nontrivial: ncallers >= 2})
	}
	w.Res.Rule = "(A) conn.batchIntoBuffer on random request lists (1..10 requests, every kind, multi-key gets with duplicate keys and mixed quiet flags) compared with the model's opaque numbering and routing table; (B) command sequences through the real batched handler (batch size 1..10, delay 50..550us) and the real direct handler on twin fake backends: results and backend contents; (C) 1..64 concurrent callers on private keys through pools of 1..4 connections: each caller's results against the sequential model of that caller; non-trivial = batch of >= 2 requests / >= 2 callers"
	if err := w.Finish([]string{"base.Bytes", "base.Harness", "gen.Consts_gen", "spec.MapSpec", "orca.Types", "handlers.Batched", "checks.Check06"}, "case06", "check06"); err != nil {
		rig.Die("%v", err)
	}
}

func trunc(s string, n int) string {
	if len(s) > n {
		return s[:n] + "..."
	}
	return s
}

// ---------------------------------------------------------------- C13
type cutCase struct {
	Pool    int       `json:"pool"`
	Callers [][]hCall `json:"callers"`
	CutAt   int       `json:"cut_at"`   // backend request index at which the connection is cut
	CutKind string    `json:"cut_kind"` // close-before | close-after-apply | close-after-reply | close-mid | idle
	Repeat  int       `json:"repeat"`   // cut again this many requests later (0 = no)
	// DelayMicros: batch delay of the pool (0 = 200): a long delay puts the callers' requests into one batch
	DelayMicros uint32 `json:"batch_delay_micros,omitempty"`
	// Status: cut kind "status": the backend answers that request with this error status instead
	Status uint16 `json:"status,omitempty"`
	// SlowMs: a caller of get/gete pauses this long after every response it receives (a slow
	// consumer: it is not waiting on its response channel when the connection is cut)
	SlowMs int `json:"slow_consumer_ms,omitempty"`
}

func c13(e *env) {
	w := rig.NewWriter(e.out, "C13", e.tier, e.seed)
	w.Shards = 8
	r := rig.NewRand(e.seed*733 + 13)
	thorough := e.tier == "thorough"
	if rp := replayArg(e); rp != "" {
		var c cutCase
		b, err := os.ReadFile(rp)
		if err == nil && json.Unmarshal(b, &c) == nil && len(c.Callers) > 0 {
			runCutCase(e, w, c)
			finishC13(w)
			return
		}
	}
	// (A) the retry bookkeeping, function level
	nf := 400
	if thorough {
		nf = 5000
	}
	keys := []string{"a", "bb", "key3"}
	for i := 0; i < nf; i++ {
		n := 1 + r.Intn(6)
		g := common.GetRequest{}
		var items []string
		for j := 0; j < n; j++ {
			k := keys[r.Intn(len(keys))]
			o := uint32(r.Intn(3))
			q := r.Chance(60)
			g.Keys = append(g.Keys, []byte(k))
			g.Opaques = append(g.Opaques, o)
			g.Quiet = append(g.Quiet, q)
			items = append(items, gal.App("mkGI", gal.Bytes([]byte(k)), gal.N(uint64(o)), gal.Bool(q)))
		}
		// a prefix (in request order) was served before the cut
		ns := r.Intn(n + 1)
		var served []common.GetEResponse
		var sg []string
		for j := 0; j < ns; j++ {
			served = append(served, common.GetEResponse{Key: g.Keys[j], Opaque: g.Opaques[j], Quiet: g.Quiet[j], Miss: r.Bool()})
			sg = append(sg, gal.App("mkGR", gal.Bytes(g.Keys[j]), "[]", "0", "0", gal.N(uint64(g.Opaques[j])), gal.Bool(g.Quiet[j]), "true"))
		}
		retry := batched.VerifTrackerRetry(g, served)
		var rg []string
		for j := range retry.Keys {
			rg = append(rg, gal.App("mkGI", gal.Bytes(retry.Keys[j]), gal.N(uint64(retry.Opaques[j])), gal.Bool(retry.Quiet[j])))
		}
		nonquietPending := 0
		for j := ns; j < n; j++ {
			if !g.Quiet[j] {
				nonquietPending++
			}
		}
		var tags []string
		if nonquietPending >= 2 {
			tags = []string{"batched-get-retry-drops-nonquiet-keys"}
		}
		w.Count(fmt.Sprintf("retry:pending-nonquiet=%d", nonquietPending))
		w.Add(rig.Case{Desc: map[string]interface{}{"kind": "retry", "keys": g.Keys, "opaques": g.Opaques, "quiet": g.Quiet, "served": ns},
			Coq: gal.App("K6Retry", gal.List(items), gal.List(sg), gal.List(rg)), Nontrivial: ns > 0 && ns < n, Tags: tags})
	}
	// (A2) start-up: handlers created while the pool's first backend connection cannot be
	// established yet (the backend starts listening later). Whatever such a handler acknowledges
	// must have reached the backend; nothing may hang once the backend is up.
	nstart := 3
	if thorough {
		nstart = 15
	}
	for i := 0; i < nstart; i++ {
		fb := fakemc.New()
		fb.SetNow(cNow)
		sock := newSock(e)
		os.Remove(sock)
		opts := batched.Opts{BatchSize: 4, BatchDelayMicros: 200}
		type res struct {
			who   int
			err   error
			early bool
		}
		listening := int32(0)
		out := make(chan res, 4)
		for who := 0; who < 3; who++ {
			go func(who int) {
				time.Sleep(time.Duration(who*40) * time.Millisecond) // the first one blocks dialling, the others arrive in that window
				h := batched.NewHandler(sock, opts)
				err := h.Set(common.SetRequest{Key: []byte(fmt.Sprintf("startup-%d", who)), Data: []byte(fmt.Sprintf("value-%d", who)), Flags: uint32(who)})
				out <- res{who, err, atomic.LoadInt32(&listening) == 0}
			}(who)
		}
		time.Sleep(time.Duration(200+r.Intn(200)) * time.Millisecond)
		l, lerr := fb.ListenUnix(sock)
		if lerr != nil {
			rig.Die("listen: %v", lerr)
		}
		atomic.StoreInt32(&listening, 1)
		in := map[string]interface{}{"kind": "startup", "handlers": 3}
		for k := 0; k < 3; k++ {
			select {
			case x := <-out:
				if x.err == nil {
					if ent, ok := fb.Dump()[fmt.Sprintf("startup-%d", x.who)]; !ok || string(ent.Value) != fmt.Sprintf("value-%d", x.who) {
						w.Fail(rig.GoFailure{Kind: "counterexample", What: "a set through a handler created while the pool had no backend connection yet was acknowledged but never reached the backend",
							Input: in, Detail: fmt.Sprintf("handler %d: err=nil, returned before the backend was listening: %v, stored: %v", x.who, x.early, ok)})
					}
				}
			case <-time.After(30 * time.Second):
				w.Fail(rig.GoFailure{Kind: "counterexample", What: "a handler created before the backend was reachable got no outcome within 30 s after the backend came up", Input: in})
				k = 3
			}
		}
		w.Count("startup-round")
		l.Close()
		fb.CloseAll()
	}
	// (B) cuts of pooled connections under load
	ncut := 30
	if thorough {
		ncut = 400
	}
	kinds := []string{"close-before", "close-after-apply", "close-after-reply", "close-mid", "idle"}
	// directed: the connection breaks in the middle of a hit reply (after its header, inside the
	// value) that is the caller's last outstanding reply - for a gat once, for a get on the retry too
	big := bytes.Repeat([]byte("v"), 256)
	for _, dc := range []cutCase{
		{Pool: 1, CutAt: 1, CutKind: "close-mid", Callers: [][]hCall{{{Kind: "set", Key: "d-a", Data: big, Flags: 7}, {Kind: "gat", Key: "d-a", TTL: 100}}}},
		{Pool: 1, CutAt: 1, CutKind: "close-mid", Repeat: 1, Callers: [][]hCall{{{Kind: "set", Key: "d-a", Data: big, Flags: 7},
			{Kind: "get", Items: []stack.GItem{{Key: []byte("d-a"), Opaque: 1}}}}}},
		{Pool: 1, CutAt: 1, CutKind: "close-mid", Callers: [][]hCall{{{Kind: "set", Key: "d-a", Data: big, Flags: 7},
			{Kind: "get", Items: []stack.GItem{{Key: []byte("d-a"), Opaque: 0}, {Key: []byte("d-a"), Opaque: 0}}}}}},
		// a gete whose connection breaks: the transparent retry must again be a gete (the remaining
		// lifetime is part of the caller's result; L1 is re-populated with it)
		{Pool: 1, CutAt: 1, CutKind: "close-before", Callers: [][]hCall{{{Kind: "set", Key: "d-e", Data: big, Flags: 3, TTL: 500},
			{Kind: "gete", Items: []stack.GItem{{Key: []byte("d-e"), Opaque: 1}}}}}},
		{Pool: 1, CutAt: 1, CutKind: "close-mid", Callers: [][]hCall{{{Kind: "set", Key: "d-e", Data: big, Flags: 3, TTL: 500},
			{Kind: "gete", Items: []stack.GItem{{Key: []byte("d-e"), Opaque: 1}}}}}},
		{Pool: 1, CutAt: 1, CutKind: "close-after-reply", Callers: [][]hCall{{{Kind: "set", Key: "d-e", Data: big, Flags: 3, TTL: 500},
			{Kind: "gete", Items: []stack.GItem{{Key: []byte("d-e"), Opaque: 1}}}}}},
		{Pool: 2, CutAt: 2, CutKind: "close-before", Callers: [][]hCall{{{Kind: "set", Key: "d-e", Data: big, Flags: 3, TTL: 500}, {Kind: "set", Key: "d-f", Data: []byte("f"), Flags: 4, TTL: 7000},
			{Kind: "gete", Items: []stack.GItem{{Key: []byte("d-e"), Opaque: 1, Quiet: true}, {Key: []byte("d-f"), Opaque: 2}}}}}},
		{Pool: 1, CutAt: 3, CutKind: "close-mid", Callers: [][]hCall{{{Kind: "set", Key: "d-e", Data: big, Flags: 3, TTL: 500}, {Kind: "set", Key: "d-f", Data: []byte("f"), Flags: 4, TTL: 7000},
			{Kind: "gete", Items: []stack.GItem{{Key: []byte("d-e"), Opaque: 1}, {Key: []byte("d-f"), Opaque: 2}}}}}},
		// one batch (long batch delay) holding a get that is fully answered and a set whose reply is lost
		{Pool: 1, CutAt: 2, CutKind: "close-before", DelayMicros: 30000, Callers: [][]hCall{
			{{Kind: "get", Items: []stack.GItem{{Key: []byte("d-missing"), Opaque: 1}}}},
			{{Kind: "set", Key: "d-b", Data: []byte("x")}, {Kind: "set", Key: "d-c", Data: []byte("y")}}}},
		{Pool: 1, CutAt: 1, CutKind: "close-before", DelayMicros: 30000, Callers: [][]hCall{
			{{Kind: "get", Items: []stack.GItem{{Key: []byte("d-missing"), Opaque: 1}}}},
			{{Kind: "set", Key: "d-b", Data: []byte("x")}}}},
		// the backend refuses a key that is not the last one of a multi-key get with an error status
		{Pool: 1, CutAt: 2, CutKind: "status", Status: 0x82, Callers: [][]hCall{{{Kind: "set", Key: "d-a", Data: big, Flags: 7},
			{Kind: "get", Items: []stack.GItem{{Key: []byte("d-a"), Opaque: 1}, {Key: []byte("d-a"), Opaque: 2}, {Key: []byte("d-a"), Opaque: 3}}}}}},
		{Pool: 1, CutAt: 2, CutKind: "status", Status: 0x85, Repeat: 3, Callers: [][]hCall{{{Kind: "set", Key: "d-a", Data: big, Flags: 7},
			{Kind: "get", Items: []stack.GItem{{Key: []byte("d-a"), Opaque: 1}, {Key: []byte("d-a"), Opaque: 2}, {Key: []byte("d-a"), Opaque: 3}}}}}},
	} {
		runCutCase(e, w, dc)
	}
	// a multi-key get (every key non-quiet: each hit is delivered at once) whose connection is cut
	// between two replies while the caller is busy with the hit it just received (slow consumer), on
	// the first try and again on the retries: whatever the caller gets in the end is all the keys or an error
	for _, kd := range []string{"get", "gete"} {
		for _, at := range []int{4, 5} {
			for _, rep := range []int{0, 1, 2, 3} {
				for _, ck := range []string{"close-before", "close-after-apply"} {
					runCutCase(e, w, cutCase{Pool: 1, CutAt: at, CutKind: ck, Repeat: rep, SlowMs: 15, Callers: [][]hCall{{
						{Kind: "set", Key: "s-a", Data: []byte("value-a"), Flags: 1, TTL: 600}, {Kind: "set", Key: "s-b", Data: []byte("value-b"), Flags: 2, TTL: 600}, {Kind: "set", Key: "s-c", Data: []byte("value-c"), Flags: 3, TTL: 600},
						{Kind: kd, Items: []stack.GItem{{Key: []byte("s-a"), Opaque: 1}, {Key: []byte("s-b"), Opaque: 2}, {Key: []byte("s-c"), Opaque: 3}}}}}})
				}
			}
		}
	}
	// (B2) Handler.doRequest against its model (handlers/BatchedRetry.v): one single-key call,
	// each of its (at most two) submissions cut before or after the backend applied it
	for _, kd := range []string{"set", "add", "replace", "append", "prepend", "delete", "touch"} {
		for _, present := range []bool{true, false} {
			for _, cuts := range [][]string{{"", ""}, {"before", ""}, {"after", ""}, {"before", "before"}, {"before", "after"}, {"after", "before"}, {"after", "after"}} {
				runDoCase(e, w, kd, present, cuts)
			}
		}
	}
	kinds = append(kinds, "status")
	for i := 0; i < ncut; i++ {
		c := cutCase{Pool: 1 + r.Intn(3), CutAt: r.Intn(12), CutKind: kinds[r.Intn(len(kinds))], Status: []uint16{0x82, 0x85, 0x86, 0x84}[r.Intn(4)]}
		if r.Chance(30) {
			c.Repeat = 1 + r.Intn(5)
		}
		ncallers := 1 + r.Intn(4)
		for cl := 0; cl < ncallers; cl++ {
			ks := []string{fmt.Sprintf("c%d-a", cl), fmt.Sprintf("c%d-b", cl)}
			var calls []hCall
			// values first so that gets can hit; only idempotent commands (a retried append would
			// legitimately be applied twice)
			calls = append(calls, hCall{Kind: "set", Key: ks[0], Data: []byte(fmt.Sprintf("v-%d", cl)), Flags: uint32(cl)})
			for j := 0; j < 4+r.Intn(6); j++ {
				k := ks[r.Intn(2)]
				switch r.Intn(4) {
				case 0:
					calls = append(calls, hCall{Kind: "set", Key: k, Data: []byte(fmt.Sprintf("w-%d-%d", cl, j)), Flags: uint32(j), TTL: []uint32{0, 300, 9000}[r.Intn(3)]})
				case 1:
					calls = append(calls, hCall{Kind: "touch", Key: k, TTL: 100})
				case 2:
					if r.Bool() {
						calls = append(calls, hCall{Kind: "gat", Key: ks[0], TTL: 100}) // ks[0] always holds a non-empty value
						break
					}
					fallthrough
				default:
					n := 1 + r.Intn(3)
					cc := hCall{Kind: "get"}
					same := r.Chance(30) // the same key several times with identical opaque and quiet flag (as a text `get a a` arrives)
					for x := 0; x < n; x++ {
						it := stack.GItem{Key: []byte(ks[r.Intn(2)]), Opaque: uint32(x), Quiet: x < n-1 && r.Bool()}
						if same {
							it = stack.GItem{Key: []byte(ks[0]), Opaque: 0, Quiet: false}
						}
						cc.Items = append(cc.Items, it)
					}
					if !same && r.Chance(40) {
						cc.Kind = "gete"
					}
					calls = append(calls, cc)
				}
			}
			c.Callers = append(c.Callers, calls)
		}
		runCutCase(e, w, c)
	}
	finishC13(w)
}

// c09r (C09): L2's remaining lifetime reaches the caller of a GetE — and through it the L1 copy a
// get re-populates — also when the pooled backend connection breaks while the gete is in flight
// and the pool retries on its own. Go-side oracle only (the cut runs of C13, restricted to gete).
func c09r(e *env) {
	w := rig.NewWriter(e.out, "C09", e.tier, e.seed)
	if rp := replayArg(e); rp != "" {
		var c cutCase
		b, err := os.ReadFile(rp)
		if err == nil && json.Unmarshal(b, &c) == nil && len(c.Callers) > 0 {
			runCutCase(e, w, c)
		}
	} else {
		val := bytes.Repeat([]byte("v"), 300)
		for _, kind := range []string{"close-before", "close-after-apply", "close-mid", "close-after-reply"} {
			for _, ttl := range []uint32{500, 2592000, 0} {
				for pool := 1; pool <= 2; pool++ {
					runCutCase(e, w, cutCase{Pool: pool, CutAt: 2, CutKind: kind, Callers: [][]hCall{{
						{Kind: "set", Key: "r-a", Data: val, Flags: 3, TTL: ttl}, {Kind: "set", Key: "r-b", Data: []byte("b"), Flags: 4, TTL: 7000},
						{Kind: "gete", Items: []stack.GItem{{Key: []byte("r-a"), Opaque: 1, Quiet: pool == 2}, {Key: []byte("r-b"), Opaque: 2}}}}}})
				}
			}
		}
	}
	w.Res.Rule = "GetE through the batching pool with the pooled connection cut while the gete is in flight (before / after applying / inside / after the reply; TTL 500 s, 30 days, never; pools of 1 and 2): a gete that reports no error returns the stored data, flags and remaining lifetime (fixed backend clock)"
	if err := w.Finish([]string{"base.Bytes", "base.Harness"}, "unit", "(fun _ => 0%N)"); err != nil {
		rig.Die("%v", err)
	}
}

func finishC13(w *rig.Writer) {
	w.Res.Rule = "(A) the get retry bookkeeping (tracker map -> re-submitted request) on random multi-key gets with a served prefix, compared with the model and with 'pending = requested - served'; (B) 1..4 concurrent callers with private keys through a pool of 1..3 connections whose backend connection is cut at a chosen request (before / after applying / after the reply / inside the reply / while idle), optionally again a few requests later: every call must return exactly one outcome in time, a successful get must carry exactly the requested keys with the caller's own values, and afterwards the pool must serve normally; (B2) Handler.doRequest: each of set/add/replace/append/prepend/delete/touch on a present or absent key through a pool of one connection, each of its two possible submissions cut before or after the backend applied it (7 plans): result and backend contents compared with handlers/BatchedRetry.v, oracle = applied at most once and an acknowledged call was applied; non-trivial = part of the get was served before the cut / a cut with >= 2 callers"
	if err := w.Finish([]string{"base.Bytes", "base.Harness", "gen.Consts_gen", "spec.MapSpec", "orca.Types", "handlers.Batched", "checks.Check06"}, "case06", "check06"); err != nil {
		rig.Die("%v", err)
	}
}

// runDoCase: a pool of one connection (doRequest tries twice), a backend holding key "do-k" or not,
// one call whose i-th submission is cut as cuts[i] says; result and backend contents go to the model.
func runDoCase(e *env, w *rig.Writer, kind string, present bool, cuts []string) {
	fb := fakemc.New()
	fb.SetNow(cNow)
	sock := newSock(e)
	l, _ := fb.ListenUnix(sock)
	defer func() { l.Close(); fb.CloseAll() }()
	opts := batched.Opts{BatchSize: 4, BatchDelayMicros: 200}
	h := batched.NewHandler(sock, opts)
	key := "do-k"
	if present {
		if r := callHandler(h, hCall{Kind: "set", Key: key, Data: []byte("OLD"), Flags: 5}); r != "HDone" {
			w.Fail(rig.GoFailure{Kind: "broken-correspondence", What: "doRequest case: the fault-free set-up call failed", Input: map[string]interface{}{"kind": kind}, Detail: r})
			return
		}
	}
	setup := stack.DumpGallina(fb)
	base := fb.Seq()
	var cg []string
	for i, c := range cuts {
		switch c {
		case "before":
			fb.SetFault(base+i, fakemc.Fault{Kind: fakemc.FCloseBefore})
			cg = append(cg, "(Some (0%nat, 0%nat))")
		case "after":
			fb.SetFault(base+i, fakemc.Fault{Kind: fakemc.FCloseAfterApply})
			cg = append(cg, "(Some (0%nat, 1%nat))")
		default:
			cg = append(cg, "None")
		}
	}
	call := hCall{Kind: kind, Key: key, Data: []byte("+x"), Flags: 9, TTL: 100}
	in := map[string]interface{}{"kind": "doRequest", "call": call, "key_present": present, "cuts": cuts}
	done := make(chan string, 1)
	go func() { done <- callHandler(h, call) }()
	var res string
	select {
	case res = <-done:
	case <-time.After(20 * time.Second):
		w.Fail(rig.GoFailure{Kind: "counterexample", What: "a single call through the pool got no outcome within 20 s after its connection was cut", Input: in})
		return
	}
	time.Sleep(2 * time.Millisecond)
	w.Count("doRequest:" + kind)
	w.Add(rig.Case{Desc: in, Coq: gal.App("K6Do", gal.N(uint64(cNow)), gal.List([]string{gal.Bytes([]byte(key))}), setup, "2%nat", gal.List(cg), call.hreq(), res, stack.DumpGallina(fb)),
		Nontrivial: cuts[0] != ""})
}

// runCutCase: Go-side oracles only (timing-dependent: per-caller outcomes, ownership, completeness)
func runCutCase(e *env, w *rig.Writer, c cutCase) {
	fb := fakemc.New()
	fb.SetNow(cNow)
	sock := newSock(e)
	l, _ := fb.ListenUnix(sock)
	defer func() { l.Close(); fb.CloseAll() }()
	opts := batched.Opts{BatchSize: 4, BatchDelayMicros: 200}
	if c.DelayMicros > 0 {
		opts.BatchDelayMicros = c.DelayMicros
	}
	batched.NewHandler(sock, opts)
	for p := 1; p < c.Pool; p++ {
		batched.VerifAddConn(sock)
	}
	if c.CutKind == "status" {
		fb.SetFault(c.CutAt, fakemc.Fault{Kind: fakemc.FStatus, Status: c.Status})
		if c.Repeat > 0 {
			fb.SetFault(c.CutAt+c.Repeat, fakemc.Fault{Kind: fakemc.FStatus, Status: c.Status})
		}
	}
	fk := map[string]fakemc.FaultKind{"close-before": fakemc.FCloseBefore, "close-after-apply": fakemc.FCloseAfterApply,
		"close-after-reply": fakemc.FCloseAfterReply, "close-mid": fakemc.FCloseMid}
	if c.CutKind == "idle" {
		fb.CloseAll()
	} else if c.CutKind != "status" {
		fb.SetFault(c.CutAt, fakemc.Fault{Kind: fk[c.CutKind]})
		if c.Repeat > 0 {
			fb.SetFault(c.CutAt+c.Repeat, fakemc.Fault{Kind: fk[c.CutKind]})
		}
	}
	type outcome struct {
		res string
		ok  bool
	}
	var wg sync.WaitGroup
	var mu sync.Mutex
	problems := []string{}
	for ci, calls := range c.Callers {
		wg.Add(1)
		go func(ci int, calls []hCall) {
			defer wg.Done()
			h := batched.NewHandler(sock, opts)
			// what this caller's own keys hold (callers use private keys and work sequentially): known
			// after an acknowledged set, unknown again after any write whose outcome was an error
			// (it may or may not have been applied). A read that reports no error must return exactly
			// this for a key whose state is known: "its own correct result".
			type kstate struct {
				data  []byte
				flags uint32
				ttl   uint32
			}
			known := map[string]*kstate{}
			for j, cl := range calls {
				done := make(chan string, 1)
				if cl.Kind == "gete" || (cl.Kind == "get" && len(cl.Items) > 0) {
					go func() {
						var hits []common.GetEResponse
						var gerr error
						n := 0
						rq, _ := cl.common()
						if cl.Kind == "gete" {
							dc, ec := h.GetE(rq.(common.GetRequest))
							for dc != nil || ec != nil {
								select {
								case g, ok := <-dc:
									if !ok {
										dc = nil
									} else {
										n++
										hits = append(hits, g)
										if c.SlowMs > 0 {
											time.Sleep(time.Duration(c.SlowMs) * time.Millisecond)
										}
									}
								case e, ok := <-ec:
									if !ok {
										ec = nil
									} else {
										gerr = e
									}
								}
							}
						} else {
							dc, ec := h.Get(rq.(common.GetRequest))
							for dc != nil || ec != nil {
								select {
								case g, ok := <-dc:
									if !ok {
										dc = nil
									} else {
										n++
										hits = append(hits, common.GetEResponse{Key: g.Key, Data: g.Data, Flags: g.Flags, Miss: g.Miss, Opaque: g.Opaque, Quiet: g.Quiet})
										if c.SlowMs > 0 {
											time.Sleep(time.Duration(c.SlowMs) * time.Millisecond)
										}
									}
								case e, ok := <-ec:
									if !ok {
										ec = nil
									} else {
										gerr = e
									}
								}
							}
						}
						if gerr == nil {
							var msg string
							if n != len(cl.Items) {
								msg = fmt.Sprintf("a %s of %d keys returned %d results and no error (partial answer presented as complete)", cl.Kind, len(cl.Items), n)
							}
							for _, g := range hits {
								st := known[string(g.Key)]
								if st == nil || msg != "" {
									continue
								}
								switch {
								case g.Miss:
									msg = fmt.Sprintf("%s of key %q, which holds an acknowledged value, reported a miss and no error", cl.Kind, g.Key)
								case !bytes.Equal(g.Data, st.data) || g.Flags != st.flags:
									msg = fmt.Sprintf("%s of key %q returned data %q flags %d, the key holds %q flags %d", cl.Kind, g.Key, trunc(string(g.Data), 40), g.Flags, trunc(string(st.data), 40), st.flags)
								case cl.Kind == "gete" && g.Exptime != st.ttl:
									msg = fmt.Sprintf("gete of key %q reported a remaining lifetime of %d s, the key was stored with %d s (fixed clock)", g.Key, g.Exptime, st.ttl)
								}
							}
							if msg != "" {
								mu.Lock()
								problems = append(problems, fmt.Sprintf("caller %d call %d: %s", ci, j, msg))
								mu.Unlock()
							}
						}
						done <- ""
					}()
				} else if cl.Kind == "gat" {
					// a get-and-touch across a cut: an error, or the stored value (never an empty phantom hit)
					go func() {
						g, err := h.GAT(common.GATRequest{Key: []byte(cl.Key), Exptime: cl.TTL, Opaque: 5})
						if err == nil && !g.Miss && len(g.Data) == 0 {
							mu.Lock()
							problems = append(problems, fmt.Sprintf("caller %d call %d: gat of a key holding a non-empty value returned an empty hit without error (key %q in reply)", ci, j, g.Key))
							mu.Unlock()
						}
						done <- "gat"
					}()
				} else {
					go func() { done <- callHandler(h, cl) }()
				}
				select {
				case s := <-done:
					// ownership and completeness for gets
					if cl.Kind == "get" && len(s) > 0 {
						if msg := checkGetOutcome(ci, cl, s); msg != "" {
							mu.Lock()
							problems = append(problems, fmt.Sprintf("caller %d call %d: %s", ci, j, msg))
							mu.Unlock()
						}
					}
					switch cl.Kind {
					case "set":
						if s == "HDone" {
							known[cl.Key] = &kstate{data: cl.Data, flags: cl.Flags, ttl: cl.TTL}
						} else {
							delete(known, cl.Key)
						}
					case "touch":
						if st := known[cl.Key]; st != nil && s == "HDone" {
							st.ttl = cl.TTL
						} else {
							delete(known, cl.Key)
						}
					case "gat":
						delete(known, cl.Key) // its outcome is not reported back here
					case "get", "gete":
					default:
						delete(known, cl.Key)
					}
				case <-time.After(20 * time.Second):
					mu.Lock()
					problems = append(problems, fmt.Sprintf("caller %d call %d (%s): no outcome within 20 s", ci, j, cl.Kind))
					mu.Unlock()
					return
				}
			}
		}(ci, calls)
	}
	wg.Wait()
	// afterwards the pool must serve normally
	fb.ClearFaults()
	h := batched.NewHandler(sock, opts)
	okAfter := false
	for try := 0; try < 50 && !okAfter; try++ {
		done := make(chan string, 1)
		go func() { done <- callHandler(h, hCall{Kind: "set", Key: "after", Data: []byte("x")}) }()
		select {
		case s := <-done:
			okAfter = s == "HDone"
		case <-time.After(5 * time.Second):
		}
		if !okAfter {
			time.Sleep(100 * time.Millisecond)
		}
	}
	if !okAfter {
		problems = append(problems, "the pool did not serve a new call after the backend accepted connections again")
	}
	w.Count("cut=" + c.CutKind)
	w.Count(fmt.Sprintf("cut-pool=%d", c.Pool))
	w.CountN("extra_evaluations", 0)
	if len(problems) > 0 {
		w.Fail(rig.GoFailure{Kind: "counterexample", What: "pool misbehaved after a connection cut: " + problems[0], Input: c, Detail: fmt.Sprint(problems)})
	}
	w.Res.Stats["cut_cases"] = toInt(w.Res.Stats["cut_cases"]) + 1
}

func toInt(v interface{}) int {
	if i, ok := v.(int); ok {
		return i
	}
	return 0
}

// checkGetOutcome: a get that reports no error must answer exactly its keys with the caller's own data
func checkGetOutcome(caller int, cl hCall, res string) string {
	// res is Gallina text: (HVals [ (mkGR key data flags exp opaque quiet miss); ... ] None|(Some E))
	if !contains(res, "None)") || contains(res, "(Some ") {
		return "" // an error outcome is allowed
	}
	n := countOccurrences(res, "(mkGR ")
	if n != len(cl.Items) {
		return fmt.Sprintf("a get of %d keys returned %d results and no error (partial answer presented as complete)", len(cl.Items), n)
	}
	return ""
}

func contains(s, sub string) bool { return len(s) >= len(sub) && (indexOf(s, sub) >= 0) }
func indexOf(s, sub string) int {
	for i := 0; i+len(sub) <= len(s); i++ {
		if s[i:i+len(sub)] == sub {
			return i
		}
	}
	return -1
}
func countOccurrences(s, sub string) int {
	n := 0
	for i := 0; i+len(sub) <= len(s); {
		if s[i:i+len(sub)] == sub {
			n++
			i += len(sub)
		} else {
			i++
		}
	}
	return n
}
