package main

// c03app: the deployment as app/memproxy.go wires it - the REAL binary, built from the working
// tree, with both listening ports, the locking wrapper requested by its flags and fake memcached
// servers behind its L1 and L2 sockets. The orchestrator-level runs (c03) build the locked
// orchestrators themselves, so the lock set shared between the main and the batch port, the
// multi-reader flag and the order of wrapping - all decided in package main - are out of their
// reach. Here a main-port command is held inside L2 (the fake withholds the reply after reading the value) while a batch-port command
// on the same key is sent; afterwards both ports are read. Oracle: what is read at the end must
// be explained by one of the two serial orders of the two commands (C03), and L1 must not hold
// what L2 does not (C02 is what a stale back-fill breaks).

import (
	"bufio"
	"fmt"
	"net"
	"os"
	"os/exec"
	"path/filepath"
	"strings"
	"sync/atomic"
	"time"

	"verifharness/fakemc"
	"verifharness/rig"
)

func init() { commands["c03app"] = c03app; commands["c02app"] = c02app }

// c02app (C02 / C01): the two ports of the REAL memproxy binary work on ONE L1. Which handler
// constructor each listener gets is decided in package main (plain, chunked, in-memory ...): a key
// made hot through the main port and then overwritten or deleted through the batch port must read
// as the new value / as absent through the main port - L1 must not keep what L2 no longer has.
// Sequential, no scheduling involved; run for the plain and for the -chunked L1.
func c02app(e *env) {
	w := rig.NewWriter(e.out, "C02", e.tier, e.seed)
	w.Res.Cases = []rig.Case{}
	finish := func() {
		w.Res.Rule = "the real memproxy binary (go build app/memproxy.go) with -l2-enabled, with and without -chunked and -locked, fake memcached servers behind its L1 and L2 sockets: a key set through the main port (hot in L1), then set / deleted through the batch port, then read through both ports; values of 5 and 3000 bytes"
		if err := w.Finish([]string{"base.Bytes", "base.Harness"}, "unit", "(fun _ => 0%N)"); err != nil {
			rig.Die("%v", err)
		}
	}
	repo := c18Repo()
	bin := filepath.Join(e.out, "memproxy-real2")
	bld := exec.Command("go", "build", "-o", bin, "app/memproxy.go")
	bld.Dir = repo
	bld.Env = append(os.Environ(), "GOFLAGS=-mod=mod", "GOPROXY=off", "GOSUMDB=off", "GOTOOLCHAIN=local")
	if out, err := bld.CombinedOutput(); err != nil {
		w.Fail(rig.GoFailure{Kind: "broken-correspondence", What: "app/memproxy.go does not build", Input: map[string]string{"cmd": "c02app"}, Detail: string(out)})
		finish()
		return
	}
	defer os.Remove(bin)
	for _, extra := range [][]string{{}, {"-chunked"}, {"-chunked", "-locked"}, {"-locked"}} {
		l1, l2 := fakemc.New(), fakemc.New()
		l1.RealClock = func() int64 { return time.Now().Unix() }
		l2.RealClock = l1.RealClock
		s1, s2 := newSock(e), newSock(e)
		ln1, err1 := l1.ListenUnix(s1)
		ln2, err2 := l2.ListenUnix(s2)
		if err1 != nil || err2 != nil {
			rig.Die("listen: %v %v", err1, err2)
		}
		p, bp := freePort(), freePort()
		flags := append([]string{"-l1-sock", s1, "-l2-enabled", "-l2-sock", s2, "-p", fmt.Sprint(p), "-bp", fmt.Sprint(bp)}, extra...)
		proc := exec.Command(bin, flags...)
		proc.Stdout, proc.Stderr = nil, nil
		if err := proc.Start(); err != nil {
			rig.Die("start memproxy: %v", err)
		}
		in := map[string]interface{}{"cmd": "c02app", "memproxy_flags": append([]string{"-l2-enabled"}, extra...)}
		func() {
			defer func() { proc.Process.Kill(); proc.Wait(); ln1.Close(); ln2.Close(); l1.CloseAll(); l2.CloseAll() }()
			mainC, err := dialText(p)
			if err != nil {
				w.Fail(rig.GoFailure{Kind: "broken-correspondence", What: "the real memproxy did not accept connections on its main port", Input: in, Detail: err.Error()})
				return
			}
			defer mainC.c.Close()
			batchC, err := dialText(bp)
			if err != nil {
				w.Fail(rig.GoFailure{Kind: "broken-correspondence", What: "the real memproxy did not accept connections on its batch port", Input: in, Detail: err.Error()})
				return
			}
			defer batchC.c.Close()
			for _, n := range []int{5, 3000} {
				k := fmt.Sprintf("hot%d", n)
				v1, v2 := strings.Repeat("a", n), strings.Repeat("b", n)
				var log []string
				do := func(c *textClient, port, req string) string {
					r, err := c.cmd(req, 10*time.Second)
					if err != nil {
						r += " <" + err.Error() + ">"
					}
					short := req
					if len(short) > 40 {
						short = short[:40] + "..."
					}
					rs := r
					if len(rs) > 60 {
						rs = rs[:60] + "..."
					}
					log = append(log, fmt.Sprintf("%s: %q -> %q", port, short, rs))
					return r
				}
				val := func(f int, v string) string { return fmt.Sprintf("VALUE %s %d %d\r\n%s\r\nEND\r\n", k, f, len(v), v) }
				bad := func(what string) {
					w.Fail(rig.GoFailure{Kind: "counterexample", What: what, Input: in, Detail: strings.Join(log, " | ")})
				}
				if do(mainC, "main", fmt.Sprintf("set %s 5 0 %d\r\n%s\r\n", k, n, v1)) != "STORED\r\n" {
					bad("a set through the main port of the real memproxy failed")
					continue
				}
				if do(mainC, "main", "get "+k+"\r\n") != val(5, v1) {
					bad("a value set through the main port is not read back through it")
					continue
				}
				if do(batchC, "batch", fmt.Sprintf("set %s 7 0 %d\r\n%s\r\n", k, n, v2)) != "STORED\r\n" {
					bad("a set through the batch port of the real memproxy failed")
					continue
				}
				if do(mainC, "main", "get "+k+"\r\n") != val(7, v2) {
					bad("after an acknowledged set through the batch port the main port still serves the value from before it (the two ports do not work on one L1)")
					continue
				}
				if do(batchC, "batch", "get "+k+"\r\n") != val(7, v2) {
					bad("the batch port does not read back the value it stored")
					continue
				}
				if do(batchC, "batch", "delete "+k+"\r\n") != "DELETED\r\n" {
					bad("a delete through the batch port failed")
					continue
				}
				if do(mainC, "main", "get "+k+"\r\n") != "END\r\n" {
					bad("after an acknowledged delete through the batch port the main port still serves the key (L1 holds what L2 no longer has)")
					continue
				}
			}
			w.Count("app-sequential=" + strings.Join(extra, ","))
			w.Add(rig.Case{Desc: in, Coq: "tt", Nontrivial: true})
		}()
	}
	finish()
}

func freePort() int {
	l, err := net.Listen("tcp", "127.0.0.1:0")
	if err != nil {
		rig.Die("no free port: %v", err)
	}
	p := l.Addr().(*net.TCPAddr).Port
	l.Close()
	return p
}

type textClient struct {
	c  net.Conn
	rd *bufio.Reader
}

func dialText(port int) (*textClient, error) {
	var c net.Conn
	var err error
	for i := 0; i < 100; i++ {
		c, err = net.DialTimeout("tcp", fmt.Sprintf("127.0.0.1:%d", port), time.Second)
		if err == nil {
			return &textClient{c: c, rd: bufio.NewReader(c)}, nil
		}
		time.Sleep(50 * time.Millisecond)
	}
	return nil, err
}

// cmd sends one text command and reads lines up to a terminator; "" + error on timeout
func (t *textClient) cmd(req string, timeout time.Duration) (string, error) {
	t.c.SetDeadline(time.Now().Add(timeout))
	if _, err := t.c.Write([]byte(req)); err != nil {
		return "", err
	}
	return t.read(timeout)
}

func (t *textClient) read(timeout time.Duration) (string, error) {
	t.c.SetDeadline(time.Now().Add(timeout))
	var sb strings.Builder
	for {
		ln, err := t.rd.ReadString('\n')
		sb.WriteString(ln)
		if err != nil {
			return sb.String(), err
		}
		if strings.HasPrefix(ln, "VALUE ") {
			var k string
			var f, n int
			fmt.Sscanf(ln, "VALUE %s %d %d", &k, &f, &n)
			buf := make([]byte, n+2)
			if _, err := readFull(t.rd, buf); err != nil {
				return sb.String(), err
			}
			sb.Write(buf)
			continue
		}
		return sb.String(), nil
	}
}

func readFull(r *bufio.Reader, b []byte) (int, error) {
	n := 0
	for n < len(b) {
		m, err := r.Read(b[n:])
		n += m
		if err != nil {
			return n, err
		}
	}
	return n, nil
}

type appScenario struct {
	Name        string   `json:"scenario"`
	Flags       []string `json:"memproxy_flags"`
	Held        string   `json:"held_on_main_port"`
	Concurrent  string   `json:"sent_on_batch_port_meanwhile"`
	AnsweredDur bool     `json:"batch_command_answered_while_main_command_was_held"`
	Replies     []string `json:"replies"`
}

func c03app(e *env) {
	w := rig.NewWriter(e.out, "C03", e.tier, e.seed)
	w.Res.Cases = []rig.Case{}
	repo := c18Repo()
	bin := filepath.Join(e.out, "memproxy-real")
	bld := exec.Command("go", "build", "-o", bin, "app/memproxy.go")
	bld.Dir = repo
	bld.Env = append(os.Environ(), "GOFLAGS=-mod=mod", "GOPROXY=off", "GOSUMDB=off", "GOTOOLCHAIN=local")
	if out, err := bld.CombinedOutput(); err != nil {
		w.Fail(rig.GoFailure{Kind: "broken-correspondence", What: "app/memproxy.go does not build", Input: map[string]string{"cmd": "c03app"}, Detail: string(out)})
		finishApp(w)
		return
	}
	defer os.Remove(bin)
	rounds := 2
	if e.tier == "thorough" {
		rounds = 6
	}
	for round := 0; round < rounds; round++ {
		for _, extra := range [][]string{{}, {"-multi-reader=false"}} {
			for _, sc := range []struct{ name, held, conc string }{
				// main get misses L1 and is held inside L2's GetE; batch delete of the same key
				{"get-vs-batch-delete", "get", "delete"},
				// main get held inside L2; batch set of a new value
				{"get-vs-batch-set", "get", "set"},
			} {
				runAppScenario(e, w, bin, extra, sc.name, sc.held, sc.conc)
			}
		}
	}
	finishApp(w)
}

func finishApp(w *rig.Writer) {
	w.Res.Rule = "the real memproxy binary (go build app/memproxy.go from the working tree) with -locked -l2-enabled, with and without -multi-reader=false, fake memcached servers behind its L1 and L2 sockets; a key present in L2 only; a main-port get of it is held inside L2 (gate in the fake) while the batch port deletes / overwrites the key; after both completed both ports are read: the reads must be those of one of the two serial orders, and L1 must not hold a value L2 does not hold"
	if err := w.Finish([]string{"base.Bytes", "base.Harness"}, "unit", "(fun _ => 0%N)"); err != nil {
		rig.Die("%v", err)
	}
}

func runAppScenario(e *env, w *rig.Writer, bin string, extra []string, name, held, conc string) {
	l1, l2 := fakemc.New(), fakemc.New()
	now := time.Now().Unix()
	l1.SetNow(now)
	l2.SetNow(now)
	s1, s2 := newSock(e), newSock(e)
	ln1, err1 := l1.ListenUnix(s1)
	ln2, err2 := l2.ListenUnix(s2)
	if err1 != nil || err2 != nil {
		rig.Die("listen: %v %v", err1, err2)
	}
	defer func() { ln1.Close(); ln2.Close(); l1.CloseAll(); l2.CloseAll() }()
	p, bp := freePort(), freePort()
	flags := append([]string{"-l1-sock", s1, "-l2-enabled", "-l2-sock", s2, "-locked", "-p", fmt.Sprint(p), "-bp", fmt.Sprint(bp)}, extra...)
	proc := exec.Command(bin, flags...)
	logf, _ := os.Create(filepath.Join(e.out, "memproxy.log"))
	proc.Stdout, proc.Stderr = logf, logf
	if err := proc.Start(); err != nil {
		rig.Die("start memproxy: %v", err)
	}
	defer func() { proc.Process.Kill(); proc.Wait(); logf.Close() }()
	sc := appScenario{Name: name, Flags: append([]string{"-locked", "-l2-enabled"}, extra...), Held: held + " k", Concurrent: conc + " k"}
	in := &sc
	fail := func(kind, what, detail string) {
		w.Fail(rig.GoFailure{Kind: kind, What: what, Input: *in, Detail: detail})
	}
	mainC, err := dialText(p)
	if err != nil {
		fail("broken-correspondence", "the real memproxy did not accept connections on its main port", err.Error())
		return
	}
	defer mainC.c.Close()
	batchC, err := dialText(bp)
	if err != nil {
		fail("broken-correspondence", "the real memproxy did not accept connections on its batch port", err.Error())
		return
	}
	defer batchC.c.Close()
	// k in L2 only
	if r, err := batchC.cmd("set k 5 0 2\r\nV1\r\n", 10*time.Second); err != nil || r != "STORED\r\n" {
		fail("broken-correspondence", "set-up set through the batch port failed", fmt.Sprintf("%q %v", r, err))
		return
	}
	l1.Evict("k")
	// hold the main port's GetE inside L2
	var holding int32 = 1
	reached := make(chan struct{}, 4)
	release := make(chan struct{})
	l2.GateAfter = func(conn int, r *fakemc.Req) { // the value has been read; the reply is withheld
		if atomic.LoadInt32(&holding) == 1 && r.Key == "k" && (r.Op == 0x40 || r.Op == 0x00) {
			atomic.StoreInt32(&holding, 0)
			reached <- struct{}{}
			<-release
		}
	}
	heldDone := make(chan string, 1)
	go func() {
		r, err := mainC.cmd("get k\r\n", 30*time.Second)
		if err != nil {
			r += " <" + err.Error() + ">"
		}
		heldDone <- r
	}()
	select {
	case <-reached:
	case <-time.After(10 * time.Second):
		fail("broken-correspondence", "the main-port get never reached L2", "")
		close(release)
		return
	}
	creq := "delete k\r\n"
	if conc == "set" {
		creq = "set k 7 0 2\r\nV2\r\n"
	}
	concDone := make(chan string, 1)
	go func() {
		r, err := batchC.cmd(creq, 30*time.Second)
		if err != nil {
			r += " <" + err.Error() + ">"
		}
		concDone <- r
	}()
	var concRep string
	select {
	case concRep = <-concDone:
		sc.AnsweredDur = true
	case <-time.After(1200 * time.Millisecond):
	}
	close(release)
	heldRep := <-heldDone
	if !sc.AnsweredDur {
		concRep = <-concDone
	}
	time.Sleep(20 * time.Millisecond)
	finalMain, _ := mainC.cmd("get k\r\n", 10*time.Second)
	finalBatch, _ := batchC.cmd("get k\r\n", 10*time.Second)
	sc.Replies = []string{"main get (held): " + heldRep, "batch " + conc + ": " + concRep, "main get afterwards: " + finalMain, "batch get afterwards: " + finalBatch}
	w.Count("app-scenario=" + name)
	if sc.AnsweredDur {
		w.Count("batch-command-answered-during-hold")
	} else {
		w.Count("batch-command-waited-for-the-key")
	}
	d1, d2 := l1.Dump(), l2.Dump()
	// serial orders. delete: get;delete and delete;get both end with k absent everywhere.
	// set V2: get;set and set;get both end with V2 in L2 and L1 either absent or V2.
	switch conc {
	case "delete":
		if finalMain != "END\r\n" || finalBatch != "END\r\n" {
			fail("counterexample", "main-port get and batch-port delete of one key ran at the same time; afterwards the deleted key is still served: no serial order of the two commands explains it",
				strings.Join(sc.Replies, " | "))
			return
		}
		if _, ok := d1["k"]; ok {
			fail("counterexample", "after a batch-port delete that overlapped a main-port get, L1 holds the key and L2 does not", strings.Join(sc.Replies, " | "))
			return
		}
	case "set":
		want := "VALUE k 7 2\r\nV2\r\nEND\r\n"
		if finalMain != want || finalBatch != want {
			fail("counterexample", "main-port get and batch-port set of one key ran at the same time; afterwards a read does not return the value that was set: no serial order of the two commands explains it",
				strings.Join(sc.Replies, " | "))
			return
		}
		if x, ok := d1["k"]; ok && string(x.Value) != string(d2["k"].Value) {
			fail("counterexample", "after a batch-port set that overlapped a main-port get, L1 holds a value that differs from L2's", strings.Join(sc.Replies, " | "))
			return
		}
	}
	w.Add(rig.Case{Desc: sc, Coq: "tt", Nontrivial: true})
}
