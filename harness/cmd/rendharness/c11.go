package main

import (
	"bufio"
	"bytes"
	"encoding/binary"
	"encoding/hex"
	"encoding/json"
	"fmt"
	"io"
	"log"
	"os"
	"os/exec"
	"regexp"
	"runtime"
	"runtime/debug"
	"runtime/metrics"
	"strconv"
	"strings"
	"sync"
	"sync/atomic"
	"syscall"
	"time"

	"github.com/netflix/rend/common"
	"github.com/netflix/rend/server"
	"verifharness/gal"
	"verifharness/rig"
	"verifharness/wire"
)

func init() {
	commands["c11"] = c11
	commands["c11worker"] = c11worker
}

// One input of the C11 run: arbitrary bytes for one of the two parsers, followed by EOF.
type in11 struct {
	Proto  string   `json:"proto"`
	Wire   wire.Hex `json:"wire"`
	Origin string   `json:"origin"`
}

// step classes (coq/checks/Check11.v)
const (
	clReq    = 0
	clErr    = 1
	clClose  = 2
	clDied   = 3
	clPanic  = 4
	clNoProg = 5
)

type step11 struct {
	Class  int    `json:"c"`
	Detail int    `json:"d"`
	Unread int    `json:"u"`
	Alloc  uint64 `json:"a"`
	Err    string `json:"e,omitempty"`
}

// a line of the worker's result file
type line11 struct {
	I     int     `json:"i"`
	Step  *step11 `json:"s,omitempty"`
	Done  bool    `json:"done,omitempty"`
	Hello bool    `json:"hello,omitempty"` // the child is set up and starts working
	Skip  bool    `json:"skip,omitempty"`  // not run: see violationCap
	Loop  string  `json:"loop,omitempty"`  // non-empty: DefaultServer.Loop behaved differently from the rule applied here
}

// ---------------------------------------------------------------- worker (child process)

// Headroom of the child's RLIMIT_AS above what the Go runtime has mapped at start-up. A make()
// of a GiB or more kills the child at once ("out of memory: cannot allocate N-byte block"); that
// death is the observation (class 3 with the block size), and a new child continues with the
// next input. Letting such a block be allocated instead is not an option: most of the time a
// fresh 4 GiB block is neither zeroed nor touched, but when the allocator places it next to a
// freed page it clears all of it (15 s, 4 GiB resident).
const workerHeadroom = 768 << 20

func limitAddressSpace() {
	b, err := os.ReadFile("/proc/self/statm")
	if err != nil {
		return
	}
	pages, _ := strconv.ParseUint(strings.Fields(string(b))[0], 10, 64)
	v := pages*uint64(os.Getpagesize()) + workerHeadroom
	lim := syscall.Rlimit{Cur: v, Max: v}
	syscall.Setrlimit(syscall.RLIMIT_AS, &lim)
}

func callParse(p interface {
	Parse() (common.Request, common.RequestType, uint64, error)
}) (req common.Request, rt common.RequestType, err error, panicked interface{}) {
	defer func() {
		if r := recover(); r != nil {
			panicked = r
		}
	}()
	req, rt, _, err = p.Parse()
	return
}

// recOrca records what DefaultServer.Loop asks of the orchestrator.
type recOrca struct{ calls []string }

func (o *recOrca) rec(rt common.RequestType) error {
	o.calls = append(o.calls, fmt.Sprintf("0:%d", rt))
	return nil
}
func (o *recOrca) Set(r common.SetRequest) error         { return o.rec(common.RequestSet) }
func (o *recOrca) Add(r common.SetRequest) error         { return o.rec(common.RequestAdd) }
func (o *recOrca) Replace(r common.SetRequest) error     { return o.rec(common.RequestReplace) }
func (o *recOrca) Append(r common.SetRequest) error      { return o.rec(common.RequestAppend) }
func (o *recOrca) Prepend(r common.SetRequest) error     { return o.rec(common.RequestPrepend) }
func (o *recOrca) Delete(r common.DeleteRequest) error   { return o.rec(common.RequestDelete) }
func (o *recOrca) Touch(r common.TouchRequest) error     { return o.rec(common.RequestTouch) }
func (o *recOrca) Get(r common.GetRequest) error         { return o.rec(common.RequestGet) }
func (o *recOrca) GetE(r common.GetRequest) error        { return o.rec(common.RequestGetE) }
func (o *recOrca) Gat(r common.GATRequest) error         { return o.rec(common.RequestGat) }
func (o *recOrca) Noop(r common.NoopRequest) error       { return o.rec(common.RequestNoop) }
func (o *recOrca) Quit(r common.QuitRequest) error       { return o.rec(common.RequestQuit) }
func (o *recOrca) Version(r common.VersionRequest) error { return o.rec(common.RequestVersion) }
func (o *recOrca) Stat(r common.StatRequest) error       { return o.rec(common.RequestStat) }
func (o *recOrca) Unknown(r common.Request) error {
	o.rec(common.RequestUnknown)
	return common.ErrUnknownCmd // what every orchestrator of rend answers
}
func (o *recOrca) Error(r common.Request, rt common.RequestType, err error) {
	if err == common.ErrUnknownCmd && r == nil {
		return // the reply to Unknown above
	}
	o.calls = append(o.calls, fmt.Sprintf("1:%d", errIndex(err)))
}

type flagCloser struct{ closed bool }

func (f *flagCloser) Close() error { f.closed = true; return nil }

func c11worker(e *env) {
	runtime.GOMAXPROCS(2)
	debug.SetGCPercent(100) // (the parent starts the child with GOGC=off to make package initialisation cheap)
	log.SetOutput(io.Discard)
	if dn, err := os.OpenFile(os.DevNull, os.O_WRONLY, 0); err == nil {
		os.Stdout = dn
	}
	from, to, loopEvery, stride := 0, -1, 0, 1
	violationCap, violations := 1<<30, 0
	var inPath, outPath string
	for _, a := range e.args {
		switch {
		case strings.HasPrefix(a, "from="):
			from, _ = strconv.Atoi(a[5:])
		case strings.HasPrefix(a, "to="):
			to, _ = strconv.Atoi(a[3:])
		case strings.HasPrefix(a, "loop="):
			loopEvery, _ = strconv.Atoi(a[5:])
		case strings.HasPrefix(a, "stride="):
			stride, _ = strconv.Atoi(a[7:])
		case strings.HasPrefix(a, "cap="):
			violationCap, _ = strconv.Atoi(a[4:])
		case strings.HasPrefix(a, "in="):
			inPath = a[3:]
		case strings.HasPrefix(a, "res="):
			outPath = a[4:]
		}
	}
	inputs := readInputs(inPath, from, to, stride)
	if to < 0 || to > len(inputs) {
		to = len(inputs)
	}
	out, err := os.OpenFile(outPath, os.O_APPEND|os.O_CREATE|os.O_WRONLY, 0o644)
	if err != nil {
		rig.Die("worker: %v", err)
	}
	emit := func(l line11) {
		b, _ := json.Marshal(l)
		out.Write(append(b, '\n')) // unbuffered: the process may die in the next step
	}
	limitAddressSpace()
	emit(line11{I: -1, Hello: true})
	var cur int64 = -1
	var lastProgress int64 = time.Now().UnixNano()
	go func() { // watchdog: a Parse that does not return
		for {
			time.Sleep(300 * time.Millisecond)
			if time.Now().UnixNano()-atomic.LoadInt64(&lastProgress) > int64(15*time.Second) {
				emit(line11{I: int(atomic.LoadInt64(&cur)), Step: &step11{Class: clNoProg, Err: "no progress for 15 s"}})
				os.Exit(7)
			}
		}
	}()
	// bytes allocated on the heap so far (cumulative); large blocks are accounted at once,
	// small objects when their per-P cache is refilled — precise enough for a 1 MiB slack,
	// and it does not stop the world
	sample := []metrics.Sample{{Name: "/gc/heap/allocs:bytes"}}
	allocated := func() uint64 {
		metrics.Read(sample)
		return sample[0].Value.Uint64()
	}
	for i := from; i < to; i += stride {
		atomic.StoreInt64(&cur, int64(i))
		in := inputs[i]
		inconsistent := in.Proto == "bin" && wire.Inconsistent(in.Wire)
		if violations >= violationCap && inconsistent {
			emit(line11{I: i, Skip: true, Done: true})
			continue
		}
		rd := &segReader{data: in.Wire}
		br := bufio.NewReader(rd)
		p := newParser(in.Proto, br)
		var seq []string
		noProgress := false
		for step := 0; ; step++ {
			atomic.StoreInt64(&lastProgress, time.Now().UnixNano())
			if step > len(in.Wire)+2 {
				emit(line11{I: i, Step: &step11{Class: clNoProg, Err: "more Parse calls than input bytes"}})
				noProgress = true
				break
			}
			a0 := allocated()
			_, rt, perr, pan := callParse(p)
			st := step11{Alloc: allocated() - a0, Unread: br.Buffered() + rd.Left()}
			switch {
			case pan != nil:
				st.Class, st.Err = clPanic, fmt.Sprint(pan)
			case perr == nil:
				st.Class, st.Detail = clReq, int(rt)
			case perr == common.ErrBadRequest || perr == common.ErrBadLength || perr == common.ErrBadFlags || perr == common.ErrBadExptime:
				st.Class, st.Detail = clErr, errIndex(perr)
			default:
				st.Class, st.Err = clClose, perr.Error()
			}
			emit(line11{I: i, Step: &st})
			if inconsistent && step == 0 && st.Alloc >= 1<<28 {
				violations++
			}
			if st.Class == clReq || st.Class == clErr {
				seq = append(seq, fmt.Sprintf("%d:%d", st.Class, st.Detail))
			}
			if st.Class == clClose || st.Class == clPanic || (st.Class == clReq && rt == common.RequestQuit) {
				break
			}
		}
		done := line11{I: i, Done: true}
		sawErr := false
		for _, c := range seq {
			if strings.HasPrefix(c, "1:") {
				sawErr = true
			}
		}
		if loopEvery > 0 && (i%loopEvery == 0 || sawErr) && !noProgress { // (the real loop would spin as well)
			// the same bytes through the real DefaultServer.Loop: it must dispatch the same
			// requests / error replies in the same order and then close its connections
			rd2 := &segReader{data: in.Wire}
			o := &recOrca{}
			fc := &flagCloser{}
			server.Default([]io.Closer{fc}, newParser(in.Proto, bufio.NewReader(rd2)), o).Loop()
			if strings.Join(o.calls, ",") != strings.Join(seq, ",") {
				done.Loop = fmt.Sprintf("Loop dispatched [%s], the rule applied by the harness gives [%s]", strings.Join(o.calls, ","), strings.Join(seq, ","))
			} else if !fc.closed {
				done.Loop = "Loop returned without closing its connections"
			}
		}
		emit(done)
	}
}

// readInputs decodes the lines from, from+stride, .. (< to; to < 0: to the end) of the inputs
// file; the slice is indexed by line number.
func readInputs(path string, from, to, stride int) []in11 {
	f, err := os.Open(path)
	if err != nil {
		rig.Die("inputs: %v", err)
	}
	defer f.Close()
	var ins []in11
	sc := bufio.NewScanner(f)
	sc.Buffer(make([]byte, 1<<20), 1<<26)
	for i := 0; sc.Scan(); i++ {
		var in in11
		if i >= from && (to < 0 || i < to) && (i-from)%stride == 0 {
			if err := json.Unmarshal(sc.Bytes(), &in); err != nil {
				rig.Die("inputs: %v", err)
			}
		}
		ins = append(ins, in)
	}
	return ins
}

// ---------------------------------------------------------------- parent: run the workers

var oomRe = regexp.MustCompile(`cannot allocate (\d+)-byte block`)

type outcome11 struct {
	skipped bool
	steps   []step11
	loop    string
	died    string // stderr of the worker when it died on this input
}

// runWorkers processes inputs[lo:hi) in child processes; a child that dies is an observation
// about the input it was working on, and a new child continues after it.
//
// violationCap: a frame with contradictory length fields on which the child dies allocating is a
// violation of C11 by itself (and costs a process start); once one of the parallel slots has seen
// that many, it skips the remaining frames of that kind (reported in the statistics), the verdict
// being settled.
func runWorkers(e *env, ins []in11, inPath string, par int, loopEvery int, violationCap int) ([]outcome11, int) {
	n := len(ins)
	res := make([]outcome11, n)
	var crashes int64
	var wg sync.WaitGroup
	// child k works on the inputs k, k+par, k+2*par, ... (the expensive ones are neighbours)
	for k := 0; k < par && k < n; k++ {
		wg.Add(1)
		go func(k int) {
			defer wg.Done()
			resPath := fmt.Sprintf("%s/results_%d.jsonl", e.out, k)
			os.Remove(resPath)
			next := k
			viol := 0 // deaths on frames with contradictory length fields in this slot
			for next < n {
				var off int64
				if fi, serr := os.Stat(resPath); serr == nil {
					off = fi.Size()
				}
				cmd := exec.Command(os.Args[0], "c11worker", "-out", e.out, "in="+inPath, "res="+resPath,
					fmt.Sprintf("from=%d", next), fmt.Sprintf("to=%d", n), fmt.Sprintf("stride=%d", par), fmt.Sprintf("loop=%d", loopEvery))
				left := violationCap - viol
				if left < 0 {
					left = 0
				}
				cmd.Args = append(cmd.Args, fmt.Sprintf("cap=%d", left))
				cmd.Env = append(os.Environ(), "GOMAXPROCS=2", "GOGC=off")
				var stderr bytes.Buffer
				cmd.Stderr = &stderr
				tc := time.Now()
				err := cmd.Run()
				if os.Getenv("VERIF_DEBUG") != "" {
					fmt.Fprintf(os.Stderr, "worker %d from %d: %v in %v\n", k, next, err, time.Since(tc))
				}
				// read what this child reported
				last, lastDone := -1, true
				cur := map[int]*outcome11{}
				hello := false
				if f, ferr := os.Open(resPath); ferr == nil {
					f.Seek(off, io.SeekStart)
					sc := bufio.NewScanner(f)
					sc.Buffer(make([]byte, 1<<16), 1<<22)
					for sc.Scan() {
						var l line11
						if json.Unmarshal(sc.Bytes(), &l) != nil {
							continue
						}
						if l.Hello {
							hello = true
							continue
						}
						o := cur[l.I]
						if o == nil {
							o = &outcome11{}
							cur[l.I] = o
						}
						if l.Step != nil {
							o.steps = append(o.steps, *l.Step)
						}
						if l.I > last {
							last, lastDone = l.I, false
						}
						if l.Skip {
							o.skipped = true
						}
						if l.Done {
							o.loop = l.Loop
							if l.I == last {
								lastDone = true
							}
						}
					}
					f.Close()
				}
				for i, o := range cur {
					res[i] = *o
				}
				if err == nil {
					break
				}
				if !hello {
					rig.Die("c11 worker could not start: %v %s", err, tail(stderr.String(), 600))
				}
				// the child died: on the input after the last finished one
				atomic.AddInt64(&crashes, 1)
				victim := next
				if last >= 0 {
					victim = last
					if lastDone {
						victim = last + par
					}
				}
				if victim >= n {
					break
				}
				o := res[victim]
				if len(o.steps) == 0 || o.steps[len(o.steps)-1].Class != clNoProg {
					st := step11{Class: clDied, Err: tail(stderr.String(), 400)}
					if m := oomRe.FindStringSubmatch(stderr.String()); m != nil {
						st.Alloc, _ = strconv.ParseUint(m[1], 10, 64)
					}
					o.steps = append(o.steps, st)
				}
				o.died = tail(stderr.String(), 400)
				res[victim] = o
				if ins[victim].Proto == "bin" && wire.Inconsistent(ins[victim].Wire) {
					viol++
				}
				next = victim + par
			}
		}(k)
	}
	wg.Wait()
	return res, int(crashes)
}

func tail(s string, n int) string {
	s = strings.TrimSpace(s)
	if i := strings.Index(s, "\n\n"); i > 0 { // the first paragraph of a Go fatal error says it all
		s = s[:i]
	}
	if len(s) > n {
		return s[:n]
	}
	return s
}

// ---------------------------------------------------------------- generators

func gridInputs(tier string) []in11 {
	var ins []in11
	full := struct {
		k []int
		e []int
		t []uint32
	}{[]int{0, 1, 2, 3, 8, 250, 65535}, []int{0, 1, 4, 8, 255}, []uint32{0, 1, 7, 8, 9, 24, 65535, 0xffffffff}}
	reduced := struct {
		k []int
		e []int
		t []uint32
	}{[]int{0, 1, 250}, []int{0, 8, 255}, []uint32{0, 7, 9, 65535, 0xffffffff}}
	body := func(k int) []byte {
		// what a consistent sender would put first: 8 bytes of extras, the key (cut at 300), 3 bytes
		n := k
		if n > 300 {
			n = 300
		}
		b := append(make([]byte, 8), bytes.Repeat([]byte{'k'}, n)...)
		return append(b, 'a', 'b', 'c')
	}
	add := func(op, k, e int, t uint32, withBody bool) {
		w := wire.Header(byte(op), uint16(k), byte(e), t, 0x01020304)
		o := fmt.Sprintf("grid opcode=0x%02x keylen=%d extras=%d total=%d", op, k, e, t)
		if withBody {
			w = append(w, body(k)...)
			o += " +extras,key,3 bytes"
		} else {
			o += " header only"
		}
		ins = append(ins, in11{Proto: "bin", Wire: w, Origin: o})
	}
	for op := 0; op < 256; op++ {
		g := reduced
		if tier == "thorough" || op <= 0x42 {
			g = full
		}
		for _, k := range g.k {
			for _, e := range g.e {
				for _, t := range g.t {
					if tier != "thorough" && t == 0xffffffff && !(inInts(reduced.k, k) && inInts(reduced.e, e)) {
						continue // a consistent 4 GiB declaration costs as much as a bogus one; quick keeps 9 per opcode
					}
					add(op, k, e, t, true)
				}
			}
		}
	}
	for op := 0; op < 256; op++ {
		for _, k := range reduced.k {
			for _, t := range reduced.t {
				if tier != "thorough" && t == 0xffffffff {
					continue
				}
				add(op, k, 8, t, false)
			}
		}
	}
	return ins
}

func inInts(l []int, x int) bool {
	for _, y := range l {
		if x == y {
			return true
		}
	}
	return false
}

var lengthEdits = []uint32{0, 1, 2, 7, 8, 9, 23, 24, 255, 256, 65535, 65536, 0xffffffff, 0xfffffff7, 0x80000000}

func mutationInputs(g gen07, count int) []in11 {
	var ins []in11
	for len(ins) < count {
		proto := "bin"
		if g.r.Bool() {
			proto = "text"
		}
		var q wire.Req
		if proto == "bin" {
			q = g.binReq(false)
		} else {
			q = g.textReq(false)
		}
		valid := encode(proto, q)
		if g.r.Chance(40) { // followed by a second valid request: what happens after the damage
			var q2 wire.Req
			if proto == "bin" {
				q2 = g.binReq(false)
			} else {
				q2 = g.textReq(false)
			}
			valid = append(valid, encode(proto, q2)...)
		}
		name := proto + " " + string(q.Kind)
		ins = append(ins, in11{Proto: proto, Wire: valid, Origin: "valid " + name})
		// truncation at every offset (long requests: a sample)
		stepT := 1
		if len(valid) > 80 {
			stepT = len(valid)/40 + 1
		}
		for cut := 0; cut < len(valid); cut += stepT {
			ins = append(ins, in11{Proto: proto, Wire: append([]byte{}, valid[:cut]...), Origin: fmt.Sprintf("%s truncated at %d", name, cut)})
		}
		// bit flips: the header / command line mostly
		for k := 0; k < 10; k++ {
			m := append([]byte{}, valid...)
			zone := len(m)
			if zone > 32 && g.r.Chance(80) {
				zone = 32
			}
			pos, bit := g.r.Intn(zone), uint(g.r.Intn(8))
			if proto == "bin" && pos == wire.OffTotal && g.r.Chance(80) {
				pos++ // the top byte of the total body length makes 16 MiB .. 2 GiB blocks: a few are enough
			}
			m[pos] ^= 1 << bit
			ins = append(ins, in11{Proto: proto, Wire: m, Origin: fmt.Sprintf("%s bit %d of byte %d flipped", name, bit, pos)})
		}
		// length-field edits
		if proto == "bin" {
			for k := 0; k < 6; k++ {
				m := append([]byte{}, valid...)
				v := lengthEdits[g.r.Intn(len(lengthEdits))]
				var what string
				switch g.r.Intn(3) {
				case 0:
					binary.BigEndian.PutUint16(m[wire.OffKeyLen:], uint16(v))
					what = fmt.Sprintf("key length := %d", uint16(v))
				case 1:
					m[wire.OffExtraLen] = byte(v)
					what = fmt.Sprintf("extras length := %d", byte(v))
				default:
					binary.BigEndian.PutUint32(m[wire.OffTotal:], v)
					what = fmt.Sprintf("total body := %d", v)
				}
				ins = append(ins, in11{Proto: proto, Wire: m, Origin: name + " " + what})
			}
		} else if i := bytes.Index(valid, []byte("\r\n")); i > 0 {
			line := strings.Split(string(valid[:i]), " ")
			for k := 0; k < 4 && len(line) > 1; k++ {
				l2 := append([]string{}, line...)
				f := 1 + g.r.Intn(len(l2)-1)
				l2[f] = []string{"0", "1", "4294967295", "4294967296", "99999999999999999999", "-1", "", "1 1", "x", "65536", "1\t"}[g.r.Intn(11)]
				m := append([]byte(strings.Join(l2, " ")), valid[i:]...)
				ins = append(ins, in11{Proto: proto, Wire: m, Origin: fmt.Sprintf("%s field %d := %q", name, f, l2[f])})
			}
		}
	}
	return ins
}

func randomInputs(g gen07, count int) []in11 {
	var ins []in11
	for i := 0; i < count; i++ {
		n := g.r.Intn(100)
		b := g.rawBytes(n)
		proto := "text"
		if i%2 == 0 {
			proto = "bin"
			if n > 0 && g.r.Chance(70) {
				b[0] = 0x80
			}
			if n > 1 && g.r.Chance(50) {
				b[1] = byte(g.r.Intn(0x42))
			}
			if n > 11 && g.r.Chance(70) { // keep the declared lengths small most of the time
				b[2], b[8], b[9] = 0, 0, 0
			}
		} else if g.r.Chance(50) {
			b = append([]byte(textTokens[g.r.Intn(12)]+" "), b...)
		}
		ins = append(ins, in11{Proto: proto, Wire: b, Origin: "random bytes"})
	}
	return ins
}

// ---------------------------------------------------------------- the sub-command

func c11(e *env) {
	log.SetOutput(io.Discard)
	w := rig.NewWriter(e.out, "C11", e.tier, e.seed)
	w.Shards = 16
	g := gen07{rig.NewRand(e.seed)}
	imports := []string{"base.Bytes", "base.Harness", "proto.Resp", "checks.Check11"}
	w.Res.Rule = "binary: the input has a complete header that passes the magic check and either its length fields contradict each other or the loop did not end on a clean end of input; " +
		"text: the loop answered a client error, met an unknown command, or closed with bytes pending"

	var ins []in11
	replay := false
	for _, a := range e.args {
		if strings.HasPrefix(a, "replay=") {
			raw, err := os.ReadFile(strings.TrimPrefix(a, "replay="))
			if err != nil {
				rig.Die("replay: %v", err)
			}
			var in in11
			if err := json.Unmarshal(raw, &in); err != nil {
				rig.Die("replay: %v", err)
			}
			ins = []in11{in}
			replay = true
		}
	}
	if !replay {
		ins = append(ins, gridInputs(e.tier)...)
		w.Res.Stats["grid_inputs"] = len(ins)
		nm, nr := 5000, 2000
		if e.tier == "thorough" {
			nm, nr = 100000, 40000
		}
		ins = append(ins, mutationInputs(g, nm)...)
		ins = append(ins, randomInputs(g, nr)...)
		// the witnesses of coq/proto/BinReqOld.v
		ins = append(ins,
			in11{Proto: "bin", Wire: append(append(wire.Header(0x01, 1, 8, 0, 0), make([]byte, 8)...), 'k'), Origin: "witness: set keylen=1 extras=8 total=0"},
			in11{Proto: "bin", Wire: append(wire.Header(0x0e, 2, 0, 1, 0), 'k', 'k'), Origin: "witness: append keylen=2 total=1"})
		// contradictory frames with key lengths at the top of the 16-bit range, followed by
		// enough bytes to satisfy extras + key: a parser that does not reject them from the
		// header goes on to allocate/wait for the wrapped value length
		for _, op := range []uint8{0x01, 0x02, 0x03, 0x11, 0x12, 0x13, 0x0e, 0x0f, 0x19, 0x1a} {
			for _, kl := range []int{65535, 65534, 65529, 65528, 65527, 32768} {
				for _, total := range []uint32{0, 7, 8, 100, 65000} {
					ext := 8
					if op == 0x0e || op == 0x0f || op == 0x19 || op == 0x1a {
						ext = 0
					}
					if int(total) >= kl+ext {
						continue
					}
					body := make([]byte, ext+kl+16)
					for i := range body {
						body[i] = byte('a' + i%26)
					}
					ins = append(ins, in11{Proto: "bin", Wire: append(wire.Header(op, uint16(kl), byte(ext), total, 7), body...),
						Origin: fmt.Sprintf("long-key contradictory frame opcode=0x%02x keylen=%d extras=%d total=%d with %d body bytes", op, kl, ext, total, len(body))})
				}
			}
		}
	}
	inPath := e.out + "/inputs.jsonl"
	{
		var sb bytes.Buffer
		for _, in := range ins {
			b, _ := json.Marshal(in)
			sb.Write(b)
			sb.WriteByte('\n')
		}
		if err := os.WriteFile(inPath, sb.Bytes(), 0o644); err != nil {
			rig.Die("%v", err)
		}
	}
	par := 13 // prime: the grid is periodic in 8 and 40
	if len(ins) < 64 {
		par = 1
	}
	loopEvery := 7
	if replay {
		loopEvery = 1
	}
	t0 := time.Now()
	violationCap := 3 // per child
	if e.tier == "thorough" {
		violationCap = 60
	}
	res, crashes := runWorkers(e, ins, inPath, par, loopEvery, violationCap)
	w.Res.Stats["seconds_workers"] = time.Since(t0).Seconds()
	w.Res.Stats["worker_processes_died"] = crashes

	reported := map[string]bool{}
	skipped := 0
	for i, in := range ins {
		o := res[i]
		if o.skipped {
			skipped++
			continue
		}
		if len(o.steps) == 0 {
			w.Fail(rig.GoFailure{Kind: "broken-correspondence", What: "the worker reported nothing for this input", Input: in, Detail: o.died})
			continue
		}
		if o.loop != "" {
			w.Fail(rig.GoFailure{Kind: "broken-correspondence", What: "DefaultServer.Loop does not follow the continue/abort rule the harness (and the model) apply", Input: in, Detail: o.loop})
		}
		steps := make([]string, len(o.steps))
		sawErr, sawUnknown, pendingAtClose := false, false, false
		before := len(in.Wire)
		for k, s := range o.steps {
			steps[k] = gal.Tuple(gal.N(uint64(s.Class)), gal.N(uint64(s.Detail)), gal.N(uint64(s.Unread)), gal.N(s.Alloc))
			switch s.Class {
			case clReq:
				w.Count(fmt.Sprintf("step=request:%s", in.Proto))
				if s.Detail == int(common.RequestUnknown) {
					sawUnknown = true
				}
			case clErr:
				sawErr = true
				w.Count("step=client-error:" + errList[s.Detail].name)
			case clClose:
				w.Count("step=close:" + closeKind(s.Err))
				if before > 0 {
					pendingAtClose = true
				}
			case clDied:
				w.Count("step=process-died")
			case clPanic:
				w.Count("step=panic")
			case clNoProg:
				w.Count("step=no-progress")
			}
			switch {
			case s.Alloc >= 1<<30:
				w.Count("alloc>=1GiB")
			case s.Alloc >= 1<<20:
				w.Count("alloc=1MiB..1GiB")
			case s.Alloc >= 1<<16:
				w.Count("alloc=64KiB..1MiB")
			}
			before = s.Unread
			// Go-side findings that need no model: the process died / no progress
			if s.Class == clNoProg && !reported["noprog"] {
				reported["noprog"] = true
				w.Fail(rig.GoFailure{Kind: "counterexample", What: "the parse loop makes no progress on this input (spins or hangs)", Input: in, Detail: s.Err})
			}
			if s.Class == clDied && s.Alloc == 0 && !reported["died"] {
				reported["died"] = true
				w.Fail(rig.GoFailure{Kind: "counterexample", What: "the server process died while parsing this input", Input: in, Detail: s.Err})
			}
		}
		nontrivial := false
		if in.Proto == "bin" {
			hdrOK := len(in.Wire) >= wire.HeaderLen && in.Wire[0] == 0x80
			if hdrOK && wire.Inconsistent(in.Wire) {
				w.Count("binary-header-lengths-inconsistent")
			}
			nontrivial = hdrOK && (wire.Inconsistent(in.Wire) || pendingAtClose || sawErr)
		} else {
			nontrivial = sawErr || sawUnknown || pendingAtClose
		}
		w.Count("input=" + in.Proto + ":" + strings.SplitN(in.Origin, " ", 2)[0])
		w.Add(rig.Case{
			Desc:       in,
			Coq:        gal.Tuple(protoCoq(in.Proto), gal.Bytes(in.Wire), gal.List(steps)),
			Nontrivial: nontrivial,
		})
	}
	w.Res.Stats["inconsistent_frames_skipped_after_violation_cap"] = skipped
	w.Res.Exhaustive = !replay && skipped == 0
	if err := w.Finish(imports, "case11", "check11"); err != nil {
		rig.Die("%v", err)
	}
	_ = hex.EncodeToString
}

func closeKind(err string) string {
	switch {
	case err == "EOF":
		return "EOF"
	case strings.Contains(err, "unexpected EOF"):
		return "unexpected-EOF"
	case strings.Contains(err, "magic"):
		return "bad-magic"
	case strings.Contains(err, "Unknown command"):
		return "unknown-opcode"
	case strings.Contains(err, "Internal"):
		return "text-data-short"
	}
	return "other:" + err
}
