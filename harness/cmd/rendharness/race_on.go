//go:build race
// +build race

package main

const raceEnabled = true
