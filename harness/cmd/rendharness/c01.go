package main

import (
	"bytes"
	"encoding/json"
	"fmt"
	"os"
	"strings"
	"time"

	"verifharness/gal"
	"verifharness/rig"
	"verifharness/stack"
)

func init() {
	commands["c01"] = func(e *env) { fullStack(e, "C01", 1) }
	commands["c02"] = func(e *env) { fullStack(e, "C02", 2) }
	commands["c09"] = func(e *env) { fullStack(e, "C09", 9) }
	commands["c08"] = func(e *env) { fullStack(e, "C08", 8) }
	commands["c01c"] = func(e *env) { fullStack(e, "C01", 21) } // L1 = chunked handler, real clock
	commands["c01b"] = func(e *env) { fullStack(e, "C01", 22) } // both tiers through the batching pools
	commands["c09b"] = func(e *env) { fullStack(e, "C09", 29) } // the same for the TTL histories
	commands["c02c"] = func(e *env) { fullStack(e, "C02", 23) } // L1 = chunked handler, with L1 evictions
}

// one step of a full-stack history, as written into replays and evidence
type fsStep struct {
	Port  string    `json:"port"` // main | batch
	Now   int64     `json:"now"`
	Evict []string  `json:"evict,omitempty"`
	Req   stack.Req `json:"req"`
}

type fsCase struct {
	Deploy string   `json:"deploy"` // l1only | l1l2 | l1l2+batch
	Locked bool     `json:"locked"`
	Proto  string   `json:"proto"`
	Keys   []string `json:"keys"`
	Steps  []fsStep `json:"steps"`
	// SingleRd: the locking wrapper in single-reader mode (plain mutexes) instead of multi-reader
	SingleRd bool `json:"single_reader,omitempty"`
}

const t0 = 1700000000 // logical clock origin (a realistic unix time; absolute-past TTLs 2592001..t0 exist)

var fsKeys = []string{"a", "bb", "key3", "k-4", "r%dt%s%%"}

func cfgGallina(orca string, locked bool) string {
	k := map[string]string{"l1only": "KL1Only", "l1l2": "KL1L2", "l1l2batch": "KL1L2Batch"}[orca]
	return gal.App("mkCfg", k, gal.Bool(locked))
}

// genTTL draws from the TTL classes of DESIGN.md §5.5
// withStat adds stat/stats requests to the pipelines (C08 runs)
var withStat bool

// ttlBeyond enables the TTL class "absolute expiry further away than the clock value itself"
// (only in the C09 runs): it triggers the known finding on the L1 back-fill.
var ttlBeyond bool

func genTTL(r *rig.Rand, now int64, w *rig.Writer) uint32 {
	if ttlBeyond && r.Chance(4) {
		w.Count("ttl=absolute-beyond-2now")
		return uint32(2*now + 1000 + int64(r.Intn(100000)))
	}
	switch r.Intn(10) {
	case 0, 1, 2:
		w.Count("ttl=0")
		return 0
	case 3:
		w.Count("ttl=small")
		return uint32(1 + r.Intn(4))
	case 4:
		w.Count("ttl=large-relative")
		return uint32(1000 + r.Intn(100000))
	case 5:
		w.Count("ttl=30d-boundary")
		if chunkedL1 {
			return uint32(2592000 - 1 + r.Intn(2)) // 2592001 is an absolute time in the past
		}
		return uint32(2592000 - 1 + r.Intn(3))
	case 6:
		if chunkedL1 {
			// the clock is the real one there: an absolute near-future TTL would not replay
			w.Count("ttl=medium")
			return uint32(5 + r.Intn(50))
		}
		w.Count("ttl=absolute-near")
		return uint32(now + 1 + int64(r.Intn(6)))
	case 7:
		w.Count("ttl=absolute-far")
		return uint32(now + 40*86400 + int64(r.Intn(1000)))
	case 8:
		if chunkedL1 {
			// acknowledged without effect by the chunked handler (known finding): not generated here
			w.Count("ttl=0")
			return 0
		}
		w.Count("ttl=absolute-past")
		return uint32(now - 1 - int64(r.Intn(1000)))
	}
	w.Count("ttl=medium")
	return uint32(5 + r.Intn(50))
}

func genU32(r *rig.Rand) uint32 {
	switch r.Intn(6) {
	case 0:
		return 0
	case 1:
		return 1
	case 2:
		return 1 << 31
	case 3:
		return 0xFFFFFFFF
	}
	return uint32(r.U64())
}

func genData(r *rig.Rand, w *rig.Writer) []byte {
	switch r.Intn(12) {
	case 0:
		w.Count("data=empty")
		return []byte{}
	case 1:
		if r.Chance(40) {
			// longer than the 4096-byte buffers of the connection's bufio.Reader/Writer: the request
			// is parsed across a refill of the read buffer, the reply written across a flush
			w.Count("data=beyond-io-buffer")
			return r.Bytes(3900 + r.Intn(5000))
		}
		w.Count("data=large")
		return r.Bytes(1000 + r.Intn(2500))
	case 2:
		w.Count("data=crlf")
		return []byte("x\r\ny\n\x80\r")
	}
	w.Count("data=small")
	return r.Bytes(1 + r.Intn(12))
}

func genReq(r *rig.Rand, proto string, deploy string, now int64, w *rig.Writer) stack.Req {
	key := func() []byte { return []byte(fsKeys[r.Intn(len(fsKeys))]) }
	opq := func() uint32 {
		if proto == "text" {
			return 0
		}
		return genU32(r)
	}
	quiet := func() bool { return proto == "bin" && r.Chance(15) }
	if withStat && proto == "bin" && r.Chance(4) {
		// a key longer than memcached's 250 bytes: rend passes it on (the backend decides); whatever
		// the reply, the value bytes that follow the key belong to this request
		w.Count("key=longer-than-250")
		kinds := []string{"set", "add", "append", "replace"}
		return stack.Req{Kind: kinds[r.Intn(len(kinds))], Key: bytes.Repeat([]byte("K"), 251+r.Intn(60)), Data: genData(r, w), Flags: genU32(r), TTL: 0, Opaque: opq(), Quiet: quiet()}
	}
	for {
		switch r.Intn(16) {
		case 0, 1, 2:
			return stack.Req{Kind: "set", Key: key(), Data: genData(r, w), Flags: genU32(r), TTL: genTTL(r, now, w), Opaque: opq(), Quiet: quiet()}
		case 3:
			return stack.Req{Kind: "add", Key: key(), Data: genData(r, w), Flags: genU32(r), TTL: genTTL(r, now, w), Opaque: opq(), Quiet: quiet()}
		case 4:
			return stack.Req{Kind: "replace", Key: key(), Data: genData(r, w), Flags: genU32(r), TTL: genTTL(r, now, w), Opaque: opq(), Quiet: quiet()}
		case 5:
			return stack.Req{Kind: "append", Key: key(), Data: genData(r, w), Opaque: opq(), Quiet: quiet()}
		case 6:
			return stack.Req{Kind: "prepend", Key: key(), Data: genData(r, w), Opaque: opq(), Quiet: quiet()}
		case 7:
			return stack.Req{Kind: "delete", Key: key(), Opaque: opq()}
		case 8:
			return stack.Req{Kind: "touch", Key: key(), TTL: genTTL(r, now, w), Opaque: opq()}
		case 9:
			if proto == "text" {
				continue
			}
			return stack.Req{Kind: "gat", Key: key(), TTL: genTTL(r, now, w), Opaque: opq()}
		case 10, 11:
			return stack.Req{Kind: "get", Items: []stack.GItem{{Key: key(), Opaque: opq()}}}
		case 12, 13:
			n := 2 + r.Intn(3)
			its := make([]stack.GItem, n)
			if proto == "text" {
				for i := range its {
					its[i] = stack.GItem{Key: key()}
				}
				w.Count("get=multi-text")
				return stack.Req{Kind: "get", Items: its}
			}
			// binary: getq* closed by get or noop
			noop := r.Bool()
			for i := range its {
				its[i] = stack.GItem{Key: key(), Opaque: opq(), Quiet: true}
			}
			if noop {
				w.Count("get=quiet-batch-noop")
				return stack.Req{Kind: "get", Items: its, NoopEnd: true, NoopOpq: opq()}
			}
			its[n-1].Quiet = false
			w.Count("get=quiet-batch-get")
			return stack.Req{Kind: "get", Items: its}
		case 14:
			if proto == "bin" && deploy == "l1only" && !chunkedL1 && r.Chance(50) { // GetE is documented as unsupported (panics) in the chunked handler
				return stack.Req{Kind: "gete", Items: []stack.GItem{{Key: key(), Opaque: opq()}}}
			}
			if proto == "text" {
				continue // a text noop reply is indistinguishable from the harness's sentinel
			}
			return stack.Req{Kind: "noop", Opaque: opq()}
		case 15:
			if withStat && r.Chance(40) {
				return stack.Req{Kind: "stat", Opaque: opq()}
			}
			if r.Bool() {
				return stack.Req{Kind: "version", Opaque: opq()}
			}
			if proto == "text" {
				return stack.Req{Kind: "unknown"}
			}
			continue
		}
	}
}

func genCase(r *rig.Rand, mode int, deploy string, locked bool, proto string, nsteps int, w *rig.Writer) fsCase {
	c := fsCase{Deploy: deploy, Locked: locked, Proto: proto, Keys: fsKeys, SingleRd: locked && r.Bool()}
	now := int64(t0)
	if chunkedL1 {
		now = time.Now().Unix() // only used for the absolute-far TTL class
	}
	evp := map[int]int{1: 10, 2: 40, 9: 25}[mode]
	if evictChunked {
		evp = 40
	}
	for i := 0; i < nsteps; i++ {
		switch r.Intn(10) {
		case 0, 1:
			now++
		case 2:
			now += int64(2 + r.Intn(4))
		case 3:
			if r.Chance(10) {
				now += int64(3000 + r.Intn(3000000))
			}
		}
		st := fsStep{Port: "main", Now: now}
		if deploy == "l1l2+batch" && r.Chance(45) {
			st.Port = "batch"
		}
		if deploy != "l1only" && r.Chance(evp) {
			for _, k := range fsKeys {
				if r.Chance(50) {
					st.Evict = append(st.Evict, k)
				}
			}
		}
		st.Req = genReq(r, proto, deploy, now, w)
		if chunkedL1 && locked && proto == "text" && st.Req.Kind == "get" && len(st.Req.Items) > 1 {
			// known finding (one END per key under the locking wrapper), decided by the c01 runs
			st.Req.Items = st.Req.Items[:1]
		}
		c.Steps = append(c.Steps, st)
	}
	return c
}

// runCase executes one history on fresh backends and returns the Gallina case plus flags.
func runCase(c fsCase, w *rig.Writer, refReplies [][]byte, noEvict bool) (coq string, nontrivial bool, failure *rig.GoFailure, replies [][]byte) {
	b := stack.NewBackends()
	b.L1.LogOn, b.L2.LogOn = false, false
	// in half of the histories the backends' replies reach the handlers in small pieces
	if sg := []int{0, 3, 0, 17}[len(c.Steps)%4]; sg > 0 {
		b.L1.Segment, b.L2.Segment = sg, sg
	}
	l1kind := "std"
	if chunkedL1 {
		l1kind = "chunked"
		b.L1.RealClock = func() int64 { return time.Now().Unix() }
		b.L2.RealClock = b.L1.RealClock
	}
	sock1, sock2 := "", ""
	if batchedTiers {
		// both tiers are served by handlers/memcached/batched over unix sockets of the fakes
		sock1, sock2 = newSock(sockEnv), newSock(sockEnv)
		ln1, err1 := b.L1.ListenUnix(sock1)
		ln2, err2 := b.L2.ListenUnix(sock2)
		if err1 != nil || err2 != nil {
			rig.Die("listen: %v %v", err1, err2)
		}
		defer func() { ln1.Close(); ln2.Close(); b.L1.CloseAll(); b.L2.CloseAll() }()
	}
	mainOrca := "l1l2"
	if c.Deploy == "l1only" {
		mainOrca = "l1only"
	}
	conns := map[string]*stack.Conn{}
	orcaOf := map[string]string{"main": mainOrca, "batch": "l1l2batch"}
	dial := func(port string) *stack.Conn {
		if cn, ok := conns[port]; ok {
			return cn
		}
		cn := stack.Dial(b, stack.Config{Orca: orcaOf[port], Locked: c.Locked, MultiRd: !chunkedL1 && !c.SingleRd, L1: l1kind, Proto: c.Proto, L1Sock: sock1, L2Sock: sock2})
		cn.Strict = true
		conns[port] = cn
		return cn
	}
	defer func() {
		for _, cn := range conns {
			cn.Close()
		}
	}()
	var steps []string
	hit, miss, refused, multi, evictedLive := false, false, false, false, false
	for i, st := range c.Steps {
		b.L1.SetNow(st.Now)
		b.L2.SetNow(st.Now)
		if chunkedL1 {
			st.Now = time.Now().Unix()
		}
		if len(st.Evict) > 0 && !noEvict {
			live := b.L1.Dump()
			for _, k := range st.Evict {
				if _, ok := live[k]; ok {
					evictedLive = true
				}
				b.L1.Evict(k)
				if chunkedL1 {
					// the chunked handler keeps key k as k-meta, k-0, k-1, ...: L1 loses all of them
					for _, bk := range b.L1.Keys() {
						if strings.HasPrefix(bk, k+"-") {
							rest := bk[len(k)+1:]
							if rest == "meta" || (len(rest) > 0 && strings.Trim(rest, "0123456789") == "") {
								if rest == "meta" {
									evictedLive = true
								}
								b.L1.Evict(bk)
							}
						}
					}
				}
			}
		}
		cn := dial(st.Port)
		var bytesReq []byte
		if c.Proto == "text" {
			bytesReq = st.Req.EncodeText()
		} else {
			bytesReq = st.Req.EncodeBin()
		}
		reply, closed, err := cn.Exchange(bytesReq, 10*time.Second)
		if chunkedL1 && time.Now().Unix() != st.Now {
			return "", false, nil, nil // the second changed during the command: the caller retries the case
		}
		if cn.Unflushed > 0 {
			return "", false, &rig.GoFailure{Kind: "counterexample", What: "reply bytes were still unflushed in the server's write buffer when it went back to waiting for the next request",
				Input: truncCase(c, i+1), Detail: fmt.Sprintf("step %d: %d bytes unflushed", i, cn.Unflushed)}, nil
		}
		if err != nil {
			return "", false, &rig.GoFailure{Kind: "counterexample", What: "no complete reply within 10 s (hang)",
				Input: truncCase(c, i+1), Detail: fmt.Sprintf("step %d: got %d bytes then timeout", i, len(reply))}, nil
		}
		if closed {
			delete(conns, st.Port) // a later step on this port dials again
		}
		switch st.Req.Kind {
		case "get":
			if len(st.Req.Items) > 1 {
				multi = true
			}
			if len(reply) > 30 || strings.HasPrefix(string(reply), "VALUE") {
				hit = true
			} else {
				miss = true
			}
		case "add", "replace", "append", "prepend", "delete", "touch":
			if c.Proto == "text" && strings.HasPrefix(string(reply), "NOT_") || c.Proto == "bin" && len(reply) >= 8 && reply[7] != 0 {
				refused = true
			}
		}
		replies = append(replies, reply)
		ref := reply
		if refReplies != nil && i < len(refReplies) {
			ref = refReplies[i]
		}
		if !noEvict {
			w.Count("cmd=" + st.Req.Kind)
		}
		ev := make([]string, len(st.Evict))
		for j, k := range st.Evict {
			ev[j] = gal.Bytes([]byte(k))
		}
		steps = append(steps, gal.App("mkStep", cfgGallina(orcaOf[st.Port], c.Locked), gal.N(uint64(st.Now)), gal.List(ev),
			st.Req.Gallina(), gal.Bytes(reply), gal.Bytes(ref), gal.Bool(closed), stack.DumpGallina(b.L1), stack.DumpGallina(b.L2)))
	}
	keys := make([]string, len(c.Keys))
	for i, k := range c.Keys {
		keys[i] = gal.Bytes([]byte(k))
	}
	p := "Bin"
	if c.Proto == "text" {
		p = "Text"
	}
	coq = gal.App("mkCase01", p, gal.Bool(c.Deploy != "l1only"), gal.List(keys), gal.List(steps))
	nontrivial = hit && miss && refused && multi
	if evictedLive {
		w.Count("history-with-live-eviction")
	}
	if mode2NT && !evictedLive {
		nontrivial = false
	}
	return coq, nontrivial, nil, replies
}

// for C02 a history is non-trivial only if an eviction removed a live L1 entry
var mode2NT bool

// chunkedL1: full-stack runs with the chunked handler as L1; the backends then follow the real
// clock (the handler reads time.Now() itself)
var chunkedL1 bool

// evictChunked: mode 21 histories with L1 evictions (C02 over the chunked handler)
var evictChunked bool

// batchedTiers: full-stack runs in which L1 and L2 are served by the batching pools
var (
	batchedTiers bool
	sockEnv      *env
)

func truncCase(c fsCase, n int) fsCase {
	d := c
	if n < len(c.Steps) {
		d.Steps = c.Steps[:n]
	}
	return d
}

func caseTags(c fsCase) []string {
	var tags []string
	for _, st := range c.Steps {
		if int64(st.Req.TTL) > 2*st.Now {
			tags = append(tags, "backfill-remaining-over-30d-still-future")
		}
		if c.Locked && c.Proto == "text" && st.Req.Kind == "get" && len(st.Req.Items) > 1 {
			tags = append(tags, "locked-text-multiget-end-per-key")
		}
		if c.Proto == "text" && st.Req.Kind == "stat" {
			tags = append(tags, "text-stats-bare-lf")
		}
	}
	return tags
}

func fullStack(e *env, prop string, mode int) {
	pooled := false
	if mode == 29 { // the TTL histories of mode 9 with both tiers through the batching pools
		pooled, mode = true, 9
	}
	chunkedEvict := false
	if mode == 23 { // C02 with the chunked handler as L1: mode 21 plus evictions of whole keys from L1
		chunkedEvict, mode = true, 21
	}
	w := rig.NewWriter(e.out, prop, e.tier, e.seed)
	w.Shards = 16
	r := rig.NewRand(e.seed + uint64(mode)*1000003)
	ttlBeyond = mode == 9
	withStat = mode == 8
	chunkedL1 = mode == 21
	evictChunked = chunkedEvict
	batchedTiers = mode == 22 || pooled
	sockEnv = e
	var cases []fsCase
	if rp := replayArg(e); rp != "" {
		var c fsCase
		b, err := os.ReadFile(rp)
		if err != nil || json.Unmarshal(b, &c) != nil {
			rig.Die("cannot read replay input %s", rp)
		}
		cases = append(cases, c)
	} else {
		per := 40
		maxLen := 40
		if e.tier == "thorough" {
			per, maxLen = 250, 60 // 3 000 histories per run (several runs per property: direct, chunked, pooled handlers)
		}
		if batchedTiers { // every case leaves two pools behind (they keep trying to reconnect)
			per = 8
			if e.tier == "thorough" {
				per = 50
			}
		}
		deploys := []string{"l1only", "l1l2", "l1l2+batch"}
		if mode == 2 || chunkedEvict {
			deploys = []string{"l1l2", "l1l2+batch"}
		}
		for _, deploy := range deploys {
			for _, locked := range []bool{false, true} {
				for _, proto := range []string{"bin", "text"} {
					for i := 0; i < per; i++ {
						n := 3 + r.Intn(maxLen)
						if i%10 == 0 {
							n = 2 + r.Intn(6) // short histories make small replays
						}
						cases = append(cases, genCase(r, mode, deploy, locked, proto, n, w))
					}
					if e.tier == "thorough" && !batchedTiers {
						cases = append(cases, genCase(r, mode, deploy, locked, proto, 1500, w))
					}
				}
			}
		}
	}
	if replayArg(e) == "" && (mode == 1 || mode == 2 || mode == 9) && !chunkedL1 && !batchedTiers {
		// directed: a command that changes a key's expiry (touch / get-and-touch, to "never", to a
		// shorter and to a longer time), then the clock passes the key's EARLIER expiry and the new one:
		// both tiers must have taken the new expiry (random histories rarely let time pass at the right moment)
		for _, port := range []string{"main", "batch"} {
			for _, kd := range []string{"touch", "gat"} {
				for _, nt := range []uint32{0, 4, 100} {
					for _, locked := range []bool{false, true} {
						k := []byte(fsKeys[0])
						mk := func(q stack.Req, pt string, now int64) fsStep { return fsStep{Port: pt, Now: now, Req: q} }
						get := stack.Req{Kind: "get", Items: []stack.GItem{{Key: k, Opaque: 3}}}
						c := fsCase{Deploy: "l1l2+batch", Locked: locked, Proto: "bin", Keys: fsKeys}
						c.Steps = []fsStep{
							mk(stack.Req{Kind: "set", Key: k, Data: []byte("value"), Flags: 7, TTL: 10, Opaque: 1}, "main", t0),
							mk(get, "main", t0+1),
							mk(stack.Req{Kind: kd, Key: k, TTL: nt, Opaque: 2}, port, t0+2),
							mk(get, "main", t0+8),
							mk(get, "main", t0+13),
							mk(get, "batch", t0+14),
							mk(get, "main", t0+150),
						}
						cases = append(cases, c)
						w.Count("directed=expiry-change-then-time-passes")
					}
				}
			}
		}
	}
	mode2NT = mode == 2
	for _, c := range cases {
		var ref [][]byte
		if mode == 2 {
			// reference run: the same history without the evictions
			_, _, f0, r0 := runCase(c, w, nil, true)
			if f0 != nil {
				w.Fail(*f0)
				continue
			}
			ref = r0
		}
		coq, nt, fail, _ := runCase(c, w, ref, false)
		for try := 0; chunkedL1 && coq == "" && fail == nil && try < 5; try++ {
			coq, nt, fail, _ = runCase(c, w, ref, false)
		}
		if chunkedL1 && coq == "" && fail == nil {
			continue
		}
		if fail != nil {
			w.Fail(*fail)
			continue
		}
		w.Count(fmt.Sprintf("config=%s/locked=%v/%s", c.Deploy, c.Locked, c.Proto))
		w.Add(rig.Case{Desc: c, Coq: coq, Nontrivial: nt, Tags: caseTags(c)})
	}
	w.Res.Rule = "random histories (one PRNG) over 4 colliding keys, all nine data commands + multi-key/quiet gets + noop/version, TTL classes {0, small, large, 30d±1, absolute near/far/past}, logical clock, L1 evictions; non-trivial = history has a hit, a miss, a refused write and a multi-key get; distinct = different Gallina case term"
	fn := fmt.Sprintf("check01 %d", mode)
	if mode == 21 {
		fn = "check01c"
	}
	if mode == 22 {
		fn = "check01 1" // the batching pools behave like the direct handlers (C06): same step model
	}
	if err := w.Finish([]string{"base.Bytes", "base.Harness", "spec.MapSpec", "orca.Types", "proto.Resp", "checks.Check01"}, "case01", fn); err != nil {
		rig.Die("%v", err)
	}
}

func replayArg(e *env) string {
	for _, a := range e.args {
		if strings.HasPrefix(a, "replay=") {
			return strings.TrimPrefix(a, "replay=")
		}
	}
	return ""
}

func hasArg(e *env, s string) bool {
	for _, a := range e.args {
		if a == s {
			return true
		}
	}
	return false
}
