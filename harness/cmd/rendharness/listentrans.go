package main

// listentrans: extracts the SHAPE of the accept loop — ListenAndServe in /repo/server/listen.go —
// from its source (go/parser, on every run) into coq/gen/Listen_gen.v as a value
// `listen_src : listen_shape` (types and their meaning: coq/server/ListenShape.v).
// coq/gen/ListenLink.v proves listen_src = listen_model, the value the hand-written transition
// system server/Listen.v is proved to follow (server/ListenShapeProofs.v). The extraction is
// syntactic and decides nothing: whether an error branch closes what was opened, what a goroutine
// reads through its closure, whether EOF aborts — all of that is computed in Coq from the
// statements recorded here.
//
// Rules:
//   - variables are identified by ROLE, not by name. The parameters of ListenAndServe by position
//     (l, ps, s, o, h1, h2). listener := the variable assigned from l(); RRemote := the variable
//     assigned from listener.Accept(); RL1 / RL2 := the variables assigned from h1() / h2() at the
//     top level of the for body; inside the goroutine a parameter takes the role of its argument
//     (RRemote becomes RConn), a name declared inside the goroutine has no role. An identifier
//     without a role where one is needed becomes (RResOther "name").
//   - scope of the variable a call result is assigned to (SAccept / SMake): `:=` at the top level
//     of the for body, or `=` to a name declared there -> InLoop; `=` to a name declared before
//     the for statement (var or :=) -> Hoisted; anything else -> ScopeOther.
//   - statements: listener, err := l() -> SListen; X, err :=/= listener.Accept() -> SAccept;
//     X, err = listener.Configure(X) -> SConfigure; X, err :=/= h1() / h2() -> SMake RL1 / RL2;
//     if err != nil {..} -> SIfErr; if X != nil {..} -> SIfNonNil; if err == io.EOF {..} else {..}
//     -> SIfEOF; if match {..} -> SIfMatch (match: the first result of CanParse); if !matched {..}
//     -> SIfUnmatched (matched: the variable set by `matched = true`); X.Close() -> SClose;
//     continue / break / return / panic(_) -> SContinue / SBreak / SReturn / SPanic;
//     go func(ps){body}(args) -> SGo args captures body (captures: the roles RRemote, RL1, RL2 that
//     occur free in the function literal, in this fixed order); for _, p := range ps {..} ->
//     SDetect; match, err := p.NewDisambiguator(peeker).CanParse() -> SCanParse (p the range
//     variable, peeker a protocol.Peeker of a bufio.NewReader of RConn);
//     abort([]io.Closer{..}, err) -> SAbort; v = p.NewRequestParser(reader) -> SSetParser;
//     v = p.NewResponder(writer) -> SSetResponder; v = true -> SSetMatched;
//     x := s([]io.Closer{..}, parser, o(a, b, responder)) -> SServer [..] [a; b] (parser /
//     responder: the variables of SSetParser / SSetResponder); go x.Loop() -> SGoLoop.
//   - inlined (no statement): inside the goroutine the definitions `x := bufio.NewReader(c)`,
//     `x := bufio.NewWriter(c)`, `x := protocol.Peeker(reader)`, `p := ps[len(ps)-1]`, provided x
//     is assigned nowhere else in the function literal.
//   - dropped: expression statements calling log.* / metrics.* / fmt.* whose arguments contain no
//     call other than err.Error(); `var x T` without values (the names are recorded for the scope
//     rule); an if statement of one of the forms above in which nothing remains.
//   - anything else -> SOther "<what> (file:line)".
//   - every method named Configure in listen.go: does each return statement return the parameter
//     as its first result (lsh_configure).

import (
	"fmt"
	"go/ast"
	"go/parser"
	"go/token"
	"go/types"
	"os"
	"path/filepath"
	"strings"
)

func init() { commands["listentrans"] = listentrans }

type lsnCtx struct {
	fs       *token.FileSet
	params   []string
	listener string
	errVar   string
	roles    map[string]string
	outer    map[string]bool // declared before the for statement
	inLoop   map[string]bool // declared at the top level of the for body
	depth    int             // 0: function body, 1: top level of the for body, >1: nested
	// goroutine
	inGo      bool
	goLit     *ast.FuncLit
	goRoles   map[string]string
	goLocals  map[string]bool
	readers   map[string]string
	writers   map[string]string
	peekers   map[string]string
	protos    map[string]string
	parserVar string
	respVar   string
	matched   string
	matchVar  string
	detErr    string
	serverVar string
}

func lsnStr(s string) string {
	s = strings.Join(strings.Fields(s), " ")
	if len(s) > 160 {
		s = s[:160] + "..."
	}
	return "\"" + strings.ReplaceAll(s, "\"", "'") + "\""
}

func (c *lsnCtx) at(p token.Pos) string {
	pos := c.fs.Position(p)
	return fmt.Sprintf("%s:%d", filepath.Base(pos.Filename), pos.Line)
}

func (c *lsnCtx) other(n ast.Node, what string) []string {
	return []string{fmt.Sprintf("SOther %s", lsnStr(fmt.Sprintf("%s (%s)", what, c.at(n.Pos()))))}
}

func lsnList(items []string) string { return "[" + strings.Join(items, "; ") + "]" }

func lsnIdent(e ast.Expr) string {
	if id, ok := e.(*ast.Ident); ok {
		return id.Name
	}
	return ""
}

func (c *lsnCtx) param(i int) string {
	if i < len(c.params) {
		return c.params[i]
	}
	return "\x00"
}

// roleOf: the role of the variable an identifier refers to at this point, "" if none
func (c *lsnCtx) roleOf(name string) string {
	if name == "" || name == "_" {
		return ""
	}
	if c.inGo {
		if c.goLocals[name] {
			return ""
		}
		if r, ok := c.goRoles[name]; ok {
			return r
		}
	}
	return c.roles[name]
}

func (c *lsnCtx) res(e ast.Expr) string {
	if r := c.roleOf(lsnIdent(e)); r != "" {
		return r
	}
	return "(RResOther " + lsnStr(types.ExprString(e)) + ")"
}

func (c *lsnCtx) isErr(name string) bool {
	return name != "" && ((name == c.errVar && !(c.inGo && c.goLocals[name] && name != c.detErr)) || (c.inGo && name == c.detErr))
}

// pkgCall matches pkg.Name(args)
func lsnPkgCall(e ast.Expr) (pkg, name string, args []ast.Expr, ok bool) {
	call, isCall := e.(*ast.CallExpr)
	if !isCall {
		return
	}
	sel, isSel := call.Fun.(*ast.SelectorExpr)
	if !isSel {
		return
	}
	x := lsnIdent(sel.X)
	if x == "" {
		return
	}
	return x, sel.Sel.Name, call.Args, true
}

// impureCalls: the calls inside e other than X.Error() and len/cap
func lsnImpureCalls(e ast.Node) []string {
	var out []string
	if e == nil {
		return nil
	}
	ast.Inspect(e, func(n ast.Node) bool {
		call, ok := n.(*ast.CallExpr)
		if !ok {
			return true
		}
		if sel, isSel := call.Fun.(*ast.SelectorExpr); isSel && sel.Sel.Name == "Error" && len(call.Args) == 0 && lsnIdent(sel.X) != "" {
			return true
		}
		if f := lsnIdent(call.Fun); f == "len" || f == "cap" {
			return true
		}
		out = append(out, types.ExprString(call.Fun))
		return true
	})
	return out
}

func (c *lsnCtx) shadowed(name string) bool {
	return c.roles[name] != "" || name == c.listener || (c.inGo && (c.goLocals[name] || c.goRoles[name] != ""))
}

// droppedCall: log.* / metrics.* / fmt.* with harmless arguments
func (c *lsnCtx) droppedCall(e ast.Expr) bool {
	pkg, _, args, ok := lsnPkgCall(e)
	if !ok || !(pkg == "log" || pkg == "metrics" || pkg == "fmt") || c.shadowed(pkg) {
		return false
	}
	for _, a := range args {
		if len(lsnImpureCalls(a)) > 0 {
			return false
		}
	}
	return true
}

// closers matches []io.Closer{a, b, c}
func (c *lsnCtx) closers(e ast.Expr) ([]string, bool) {
	cl, ok := e.(*ast.CompositeLit)
	if !ok {
		return nil, false
	}
	at, ok := cl.Type.(*ast.ArrayType)
	if !ok || at.Len != nil || types.ExprString(at.Elt) != "io.Closer" {
		return nil, false
	}
	var out []string
	for _, el := range cl.Elts {
		if _, isKV := el.(*ast.KeyValueExpr); isKV {
			return nil, false
		}
		out = append(out, c.res(el))
	}
	return out, true
}

// assignCount: how often name is the target of an assignment / definition / declaration inside the goroutine
func (c *lsnCtx) assignCount(name string) int {
	n := 0
	ast.Inspect(c.goLit, func(m ast.Node) bool {
		switch x := m.(type) {
		case *ast.AssignStmt:
			for _, l := range x.Lhs {
				if lsnIdent(l) == name {
					n++
				}
			}
		case *ast.ValueSpec:
			for _, id := range x.Names {
				if id.Name == name {
					n++
				}
			}
		case *ast.RangeStmt:
			if lsnIdent(x.Key) == name || lsnIdent(x.Value) == name {
				n++
			}
		case *ast.UnaryExpr:
			if x.Op == token.AND && lsnIdent(x.X) == name {
				n += 2 // its address is taken: not a plain definition
			}
		case *ast.IncDecStmt:
			if lsnIdent(x.X) == name {
				n++
			}
		}
		return true
	})
	return n
}

func (c *lsnCtx) scopeOf(n ast.Node, name string, tok token.Token) string {
	if c.inGo {
		return "(ScopeOther " + lsnStr("assigned inside the goroutine ("+c.at(n.Pos())+")") + ")"
	}
	if c.depth != 1 {
		return "(ScopeOther " + lsnStr("not at the top level of the for body ("+c.at(n.Pos())+")") + ")"
	}
	if tok == token.DEFINE {
		c.inLoop[name] = true
		return "InLoop"
	}
	if c.inLoop[name] {
		return "InLoop"
	}
	if c.outer[name] {
		return "Hoisted"
	}
	return "(ScopeOther " + lsnStr(name+" is declared neither in the for body nor before it ("+c.at(n.Pos())+")") + ")"
}

func (c *lsnCtx) block(list []ast.Stmt) []string {
	c.depth++
	var out []string
	for _, s := range list {
		out = append(out, c.stmt(s)...)
	}
	c.depth--
	return out
}

// protoBlock translates a block in which the names of `saved` may be rebound; restores afterwards
func (c *lsnCtx) scopedBlock(list []ast.Stmt) []string {
	saved := map[string]string{}
	for k, v := range c.protos {
		saved[k] = v
	}
	savedLocals := map[string]bool{}
	for k, v := range c.goLocals {
		savedLocals[k] = v
	}
	out := c.block(list)
	c.protos = saved
	if c.inGo {
		c.goLocals = savedLocals
	}
	return out
}

func (c *lsnCtx) elseBlock(s ast.Stmt) ([]string, bool) {
	switch x := s.(type) {
	case nil:
		return nil, true
	case *ast.BlockStmt:
		return c.scopedBlock(x.List), true
	}
	return nil, false
}

func (c *lsnCtx) stmt(s ast.Stmt) []string {
	switch x := s.(type) {
	case nil:
		return nil
	case *ast.EmptyStmt:
		return nil
	case *ast.ExprStmt:
		call, ok := x.X.(*ast.CallExpr)
		if !ok {
			break
		}
		if c.droppedCall(call) {
			return nil
		}
		if f := lsnIdent(call.Fun); f == "panic" && !c.shadowed("panic") {
			for _, a := range call.Args {
				if len(lsnImpureCalls(a)) > 0 {
					return c.other(x, "panic with a call in its argument: "+types.ExprString(call))
				}
			}
			return []string{"SPanic"}
		} else if f == "abort" && !c.shadowed("abort") {
			if len(call.Args) == 2 && c.isErr(lsnIdent(call.Args[1])) {
				if cl, ok := c.closers(call.Args[0]); ok {
					return []string{"SAbort " + lsnList(cl)}
				}
			}
			return c.other(x, "abort called with "+types.ExprString(call))
		}
		if sel, isSel := call.Fun.(*ast.SelectorExpr); isSel && sel.Sel.Name == "Close" && len(call.Args) == 0 && lsnIdent(sel.X) != "" {
			return []string{"SClose " + c.res(sel.X)}
		}
		return c.other(x, "call "+types.ExprString(call))
	case *ast.DeclStmt:
		gd, ok := x.Decl.(*ast.GenDecl)
		if !ok || gd.Tok != token.VAR {
			break
		}
		for _, sp := range gd.Specs {
			vs := sp.(*ast.ValueSpec)
			if len(vs.Values) > 0 {
				return c.other(x, "var declaration with values")
			}
		}
		for _, sp := range gd.Specs {
			for _, id := range sp.(*ast.ValueSpec).Names {
				switch {
				case c.inGo:
					c.goLocals[id.Name] = true
				case c.depth == 0:
					c.outer[id.Name] = true
				case c.depth == 1:
					c.inLoop[id.Name] = true
				default:
					if c.roles[id.Name] != "" {
						return c.other(x, "a variable with a role is redeclared in a nested block: "+id.Name)
					}
				}
			}
		}
		return nil
	case *ast.AssignStmt:
		return c.assign(x)
	case *ast.BranchStmt:
		if x.Label == nil {
			switch x.Tok {
			case token.CONTINUE:
				return []string{"SContinue"}
			case token.BREAK:
				return []string{"SBreak"}
			}
		}
	case *ast.ReturnStmt:
		if len(x.Results) == 0 {
			return []string{"SReturn"}
		}
	case *ast.IfStmt:
		return c.ifStmt(x)
	case *ast.RangeStmt:
		if c.inGo && x.Tok == token.DEFINE && (x.Key == nil || lsnIdent(x.Key) == "_") && lsnIdent(x.Value) != "" &&
			lsnIdent(x.Value) != "_" && lsnIdent(x.X) == c.param(1) && !c.goLocals[c.param(1)] {
			p := lsnIdent(x.Value)
			saved := map[string]string{}
			for k, v := range c.protos {
				saved[k] = v
			}
			savedLocals := map[string]bool{}
			for k, v := range c.goLocals {
				savedLocals[k] = v
			}
			c.protos[p] = "PRange"
			c.goLocals[p] = true
			body := c.block(x.Body.List)
			c.protos, c.goLocals = saved, savedLocals
			return []string{"SDetect " + lsnList(body)}
		}
		return c.other(x, "range over "+types.ExprString(x.X))
	case *ast.GoStmt:
		return c.goStmt(x)
	}
	return c.other(s, fmt.Sprintf("%T", s))
}

func (c *lsnCtx) ifStmt(x *ast.IfStmt) []string {
	if x.Init != nil {
		return c.other(x, "if with an init statement")
	}
	form, arg := "", ""
	switch cond := x.Cond.(type) {
	case *ast.BinaryExpr:
		l, r := lsnIdent(cond.X), cond.Y
		if cond.Op == token.NEQ && lsnIdent(r) == "nil" && !c.shadowed("nil") {
			if c.isErr(l) {
				form = "SIfErr"
			} else if c.roleOf(l) != "" {
				form, arg = "SIfNonNil", c.roleOf(l)
			}
		} else if cond.Op == token.EQL && c.isErr(l) {
			if sel, ok := r.(*ast.SelectorExpr); ok && lsnIdent(sel.X) == "io" && sel.Sel.Name == "EOF" && !c.shadowed("io") {
				form = "SIfEOF"
			}
		}
	case *ast.Ident:
		if c.inGo && cond.Name == c.matchVar && c.matchVar != "" {
			form = "SIfMatch"
		}
	case *ast.UnaryExpr:
		if n := lsnIdent(cond.X); c.inGo && cond.Op == token.NOT && n != "" && c.goLocals[n] && c.isMatchedVar(n) {
			form = "SIfUnmatched"
		}
	}
	body := c.scopedBlock(x.Body.List)
	els, elseOK := c.elseBlock(x.Else)
	if !elseOK {
		return c.other(x, "if "+types.ExprString(x.Cond)+" with an else-if chain")
	}
	if len(body) == 0 && len(els) == 0 && len(lsnImpureCalls(x.Cond)) == 0 {
		return nil
	}
	switch form {
	case "SIfEOF":
		return []string{fmt.Sprintf("SIfEOF %s %s", lsnList(body), lsnList(els))}
	case "SIfErr", "SIfMatch", "SIfUnmatched":
		if x.Else == nil {
			return []string{fmt.Sprintf("%s %s", form, lsnList(body))}
		}
	case "SIfNonNil":
		if x.Else == nil {
			return []string{fmt.Sprintf("SIfNonNil %s %s", arg, lsnList(body))}
		}
	}
	return c.other(x, fmt.Sprintf("if %s { %s } else { %s }", types.ExprString(x.Cond), strings.Join(body, "; "), strings.Join(els, "; ")))
}

// isMatchedVar: n is the variable that `n = true` assigns inside the goroutine (and nothing else does)
func (c *lsnCtx) isMatchedVar(n string) bool {
	if c.matched != "" {
		return n == c.matched
	}
	found := false
	ast.Inspect(c.goLit, func(m ast.Node) bool {
		if as, ok := m.(*ast.AssignStmt); ok && as.Tok == token.ASSIGN && len(as.Lhs) == 1 && len(as.Rhs) == 1 &&
			lsnIdent(as.Lhs[0]) == n && lsnIdent(as.Rhs[0]) == "true" {
			found = true
		}
		return true
	})
	return found
}

func (c *lsnCtx) assign(x *ast.AssignStmt) []string {
	if x.Tok != token.DEFINE && x.Tok != token.ASSIGN {
		return c.other(x, "assignment "+x.Tok.String())
	}
	if len(x.Lhs) == 2 && len(x.Rhs) == 1 {
		call, ok := x.Rhs[0].(*ast.CallExpr)
		v, e := lsnIdent(x.Lhs[0]), lsnIdent(x.Lhs[1])
		if !ok || v == "" || e == "" || v == "_" || e == "_" {
			return c.other(x, "assignment "+types.ExprString(x.Rhs[0]))
		}
		// match, err := p.NewDisambiguator(peeker).CanParse()
		if sel, isSel := call.Fun.(*ast.SelectorExpr); isSel && c.inGo && sel.Sel.Name == "CanParse" && len(call.Args) == 0 && x.Tok == token.DEFINE {
			if inner, isCall := sel.X.(*ast.CallExpr); isCall && len(inner.Args) == 1 {
				if isel, ok := inner.Fun.(*ast.SelectorExpr); ok && isel.Sel.Name == "NewDisambiguator" &&
					c.protos[lsnIdent(isel.X)] == "PRange" && c.peekers[lsnIdent(inner.Args[0])] == "RConn" {
					c.matchVar, c.detErr = v, e
					c.goLocals[v], c.goLocals[e] = true, true
					return []string{"SCanParse"}
				}
			}
			return c.other(x, "CanParse on "+types.ExprString(sel.X))
		}
		if c.inGo {
			return c.other(x, "assignment from "+types.ExprString(call.Fun)+" inside the goroutine")
		}
		// listener, err := l()
		if f := lsnIdent(call.Fun); f == c.param(0) && len(call.Args) == 0 && c.depth == 0 && x.Tok == token.DEFINE && c.listener == "" {
			c.listener, c.errVar = v, e
			c.outer[v], c.outer[e] = true, true
			return []string{"SListen"}
		} else if (f == c.param(4) || f == c.param(5)) && len(call.Args) == 0 && e == c.errVar {
			role := "RL1"
			if f == c.param(5) {
				role = "RL2"
			}
			if c.roles[v] != role {
				return c.other(x, "the result of "+f+"() is assigned to a variable that has another role: "+v)
			}
			return []string{fmt.Sprintf("SMake %s %s", role, c.scopeOf(x, v, x.Tok))}
		}
		if sel, isSel := call.Fun.(*ast.SelectorExpr); isSel && lsnIdent(sel.X) == c.listener && c.listener != "" && e == c.errVar {
			switch {
			case sel.Sel.Name == "Accept" && len(call.Args) == 0 && c.roles[v] == "RRemote":
				sc := c.scopeOf(x, v, x.Tok)
				if x.Tok == token.DEFINE {
					c.inLoop[e] = true
				}
				return []string{"SAccept " + sc}
			case sel.Sel.Name == "Configure" && len(call.Args) == 1 && c.roles[v] == "RRemote" && c.roleOf(lsnIdent(call.Args[0])) == "RRemote" && x.Tok == token.ASSIGN && c.depth == 1:
				return []string{"SConfigure"}
			}
		}
		return c.other(x, "assignment from "+types.ExprString(call))
	}
	if len(x.Lhs) != 1 || len(x.Rhs) != 1 || !c.inGo {
		return c.other(x, "assignment "+types.ExprString(x.Lhs[0])+" "+x.Tok.String()+" ...")
	}
	v := lsnIdent(x.Lhs[0])
	if v == "" || v == "_" {
		return c.other(x, "assignment to "+types.ExprString(x.Lhs[0]))
	}
	rhs := x.Rhs[0]
	if x.Tok == token.DEFINE {
		// pure definitions, inlined
		if pkg, name, args, ok := lsnPkgCall(rhs); ok && len(args) == 1 && !c.shadowed(pkg) && c.assignCount(v) == 1 {
			a := lsnIdent(args[0])
			switch {
			case pkg == "bufio" && name == "NewReader" && c.roleOf(a) != "":
				c.readers[v], c.goLocals[v] = c.roleOf(a), true
				return nil
			case pkg == "bufio" && name == "NewWriter" && c.roleOf(a) != "":
				c.writers[v], c.goLocals[v] = c.roleOf(a), true
				return nil
			case pkg == "protocol" && name == "Peeker" && c.readers[a] != "":
				c.peekers[v], c.goLocals[v] = c.readers[a], true
				return nil
			}
		}
		// p := ps[len(ps)-1]
		if ix, ok := rhs.(*ast.IndexExpr); ok && lsnIdent(ix.X) == c.param(1) && !c.goLocals[c.param(1)] {
			if b, isBin := ix.Index.(*ast.BinaryExpr); isBin && b.Op == token.SUB {
				if lit, isLit := b.Y.(*ast.BasicLit); isLit && lit.Value == "1" {
					if lc, isCall := b.X.(*ast.CallExpr); isCall && lsnIdent(lc.Fun) == "len" && len(lc.Args) == 1 && lsnIdent(lc.Args[0]) == c.param(1) {
						c.protos[v], c.goLocals[v] = "PLast", true
						return nil
					}
				}
			}
		}
		// server := s(closers, parser, o(a, b, responder))
		if call, ok := rhs.(*ast.CallExpr); ok && lsnIdent(call.Fun) == c.param(2) && !c.goLocals[c.param(2)] && len(call.Args) == 3 {
			cl, clOK := c.closers(call.Args[0])
			oc, ocOK := call.Args[2].(*ast.CallExpr)
			if clOK && ocOK && lsnIdent(call.Args[1]) == c.parserVar && c.parserVar != "" &&
				lsnIdent(oc.Fun) == c.param(3) && !c.goLocals[c.param(3)] && len(oc.Args) == 3 && lsnIdent(oc.Args[2]) == c.respVar && c.respVar != "" {
				c.serverVar, c.goLocals[v] = v, true
				return []string{fmt.Sprintf("SServer %s %s", lsnList(cl), lsnList([]string{c.res(oc.Args[0]), c.res(oc.Args[1])}))}
			}
		}
		return c.other(x, v+" := "+types.ExprString(rhs))
	}
	// plain assignments inside the goroutine
	if !c.goLocals[v] {
		return c.other(x, "assignment to "+v+", which is not a variable of the goroutine")
	}
	if lsnIdent(rhs) == "true" && !c.shadowed("true") && (c.matched == "" || c.matched == v) {
		c.matched = v
		return []string{"SSetMatched"}
	}
	if call, ok := rhs.(*ast.CallExpr); ok && len(call.Args) == 1 {
		if sel, isSel := call.Fun.(*ast.SelectorExpr); isSel && c.protos[lsnIdent(sel.X)] != "" {
			p, a := c.protos[lsnIdent(sel.X)], lsnIdent(call.Args[0])
			switch {
			case sel.Sel.Name == "NewRequestParser" && c.readers[a] != "" && (c.parserVar == "" || c.parserVar == v):
				c.parserVar = v
				return []string{fmt.Sprintf("SSetParser %s %s", p, c.readers[a])}
			case sel.Sel.Name == "NewResponder" && c.writers[a] != "" && (c.respVar == "" || c.respVar == v):
				c.respVar = v
				return []string{fmt.Sprintf("SSetResponder %s %s", p, c.writers[a])}
			}
		}
	}
	return c.other(x, v+" = "+types.ExprString(rhs))
}

func (c *lsnCtx) goStmt(x *ast.GoStmt) []string {
	if c.inGo {
		if sel, ok := x.Call.Fun.(*ast.SelectorExpr); ok && sel.Sel.Name == "Loop" && len(x.Call.Args) == 0 &&
			lsnIdent(sel.X) == c.serverVar && c.serverVar != "" {
			return []string{"SGoLoop"}
		}
		return c.other(x, "go "+types.ExprString(x.Call.Fun))
	}
	fl, ok := x.Call.Fun.(*ast.FuncLit)
	if !ok || fl.Type.Results != nil {
		return c.other(x, "go "+types.ExprString(x.Call.Fun))
	}
	var pnames []string
	for _, f := range fl.Type.Params.List {
		for _, n := range f.Names {
			pnames = append(pnames, n.Name)
		}
	}
	if len(pnames) != len(x.Call.Args) {
		return c.other(x, "go func with unnamed or variadic parameters")
	}
	c.goRoles, c.goLocals = map[string]string{}, map[string]bool{}
	c.readers, c.writers, c.peekers, c.protos = map[string]string{}, map[string]string{}, map[string]string{}, map[string]string{}
	var args []string
	for i, a := range x.Call.Args {
		args = append(args, c.res(a))
		r := c.roleOf(lsnIdent(a))
		if r == "RRemote" {
			r = "RConn"
		}
		c.goRoles[pnames[i]] = r // "" for a parameter without a role: it hides the outer name
		if r == "" {
			c.goRoles[pnames[i]] = "(RResOther " + lsnStr(pnames[i]) + ")"
		}
	}
	// free occurrences of the role variables (closure capture)
	free := map[string]bool{}
	var walk func(n ast.Node)
	walk = func(n ast.Node) {
		ast.Inspect(n, func(m ast.Node) bool {
			switch y := m.(type) {
			case *ast.SelectorExpr:
				walk(y.X)
				return false
			case *ast.KeyValueExpr:
				walk(y.Value)
				return false
			case *ast.Ident:
				if _, isParam := c.goRoles[y.Name]; !isParam && c.roles[y.Name] != "" {
					free[c.roles[y.Name]] = true
				}
			}
			return true
		})
	}
	walk(fl.Body)
	var caps []string
	for _, r := range []string{"RRemote", "RL1", "RL2"} {
		if free[r] {
			caps = append(caps, r)
		}
	}
	c.inGo, c.goLit = true, fl
	savedDepth := c.depth
	c.depth = 0
	var body []string
	for _, s := range fl.Body.List {
		c.depth = 1
		body = append(body, c.stmt(s)...)
	}
	c.depth = savedDepth
	c.inGo = false
	return []string{fmt.Sprintf("SGo %s %s [\n      %s]", lsnList(args), lsnList(caps), strings.Join(body, ";\n      "))}
}

// configureShape: does every return statement of a Configure method return its parameter first
func lsnConfigure(fd *ast.FuncDecl) string {
	recv := types.ExprString(fd.Recv.List[0].Type)
	okAll := false
	if ps := fd.Type.Params.List; len(ps) == 1 && len(ps[0].Names) == 1 {
		p := ps[0].Names[0].Name
		okAll = true
		nret := 0
		ast.Inspect(fd.Body, func(n ast.Node) bool {
			switch y := n.(type) {
			case *ast.FuncLit:
				return false
			case *ast.AssignStmt:
				for _, l := range y.Lhs {
					if lsnIdent(l) == p {
						okAll = false
					}
				}
			case *ast.ReturnStmt:
				nret++
				if len(y.Results) != 2 || lsnIdent(y.Results[0]) != p {
					okAll = false
				}
			}
			return true
		})
		okAll = okAll && nret > 0
	}
	return fmt.Sprintf("(%s, %v)", lsnStr(recv), okAll)
}

func listentrans(e *env) {
	repo := "/repo"
	if v := os.Getenv("VERIF_REPO"); v != "" {
		repo = v
	}
	fs := token.NewFileSet()
	c := &lsnCtx{fs: fs, roles: map[string]string{}, outer: map[string]bool{}, inLoop: map[string]bool{}}
	var setup, loop, after, confs []string
	af, err := parser.ParseFile(fs, filepath.Join(repo, "server", "listen.go"), nil, 0)
	var fn *ast.FuncDecl
	if err != nil {
		setup = append(setup, "SOther "+lsnStr(err.Error()))
	} else {
		for _, d := range af.Decls {
			fd, ok := d.(*ast.FuncDecl)
			if !ok || fd.Body == nil {
				continue
			}
			if fd.Recv == nil && fd.Name.Name == "ListenAndServe" {
				fn = fd
			}
			if fd.Recv != nil && len(fd.Recv.List) == 1 && fd.Name.Name == "Configure" {
				confs = append(confs, lsnConfigure(fd))
			}
		}
	}
	if fn == nil {
		setup = append(setup, "SOther \"func ListenAndServe not found in server/listen.go\"")
	} else {
		for _, f := range fn.Type.Params.List {
			for _, n := range f.Names {
				c.params = append(c.params, n.Name)
				c.outer[n.Name] = true
			}
		}
		if len(c.params) != 6 || fn.Type.Results != nil {
			setup = append(setup, c.other(fn, "ListenAndServe does not have six parameters and no result")...)
		}
		var forStmt *ast.ForStmt
		for _, s := range fn.Body.List {
			if f, ok := s.(*ast.ForStmt); ok && forStmt == nil {
				forStmt = f
				if f.Init != nil || f.Cond != nil || f.Post != nil {
					after = append(after, c.other(f, "the loop is not a bare for { }")...)
				}
				// the roles of the variables of the for body: by the call whose result they receive
				for _, t := range f.Body.List {
					as, ok := t.(*ast.AssignStmt)
					if !ok || len(as.Lhs) != 2 || len(as.Rhs) != 1 || lsnIdent(as.Lhs[0]) == "" || lsnIdent(as.Lhs[0]) == "_" {
						continue
					}
					call, ok := as.Rhs[0].(*ast.CallExpr)
					if !ok {
						continue
					}
					v, role := lsnIdent(as.Lhs[0]), ""
					if sel, isSel := call.Fun.(*ast.SelectorExpr); isSel && lsnIdent(sel.X) == c.listener && c.listener != "" && sel.Sel.Name == "Accept" {
						role = "RRemote"
					} else if lsnIdent(call.Fun) == c.param(4) {
						role = "RL1"
					} else if lsnIdent(call.Fun) == c.param(5) {
						role = "RL2"
					}
					if role != "" {
						if old, has := c.roles[v]; has && old != role {
							after = append(after, c.other(as, "the variable "+v+" receives the results of two different calls")...)
						}
						c.roles[v] = role
					}
				}
				c.depth = 0
				loop = c.block(f.Body.List)
				continue
			}
			c.depth = 0
			if forStmt == nil {
				if as, ok := s.(*ast.AssignStmt); ok && as.Tok == token.DEFINE {
					for _, l := range as.Lhs {
						if n := lsnIdent(l); n != "" {
							c.outer[n] = true
						}
					}
				}
				setup = append(setup, c.stmt(s)...)
			} else {
				after = append(after, c.stmt(s)...)
			}
		}
		if forStmt == nil {
			after = append(after, "SOther \"no for statement in ListenAndServe\"")
		}
	}

	var sb strings.Builder
	sb.WriteString("(* GENERATED by harness listentrans from the SOURCE of /repo/server/listen.go — do not edit.\n" +
		"   The shape of ListenAndServe as a value (rules: harness/cmd/rendharness/listentrans.go, types and\n" +
		"   meaning: server/ListenShape.v); gen/ListenLink.v proves it equal to server/ListenShape.v listen_model.\n" +
		"   Not translated: TCPListener / UnixListener and the Accept methods (the listener is abstract in\n" +
		"   server/Listen.v); of the Configure methods only what they return. *)\n")
	sb.WriteString("From Coq Require Import String.\nFrom Rend Require Import base.Bytes server.ListenShape.\n" +
		"Open Scope string_scope.\nOpen Scope list_scope.\n\n")
	sb.WriteString("Definition listen_src : listen_shape := {|\n")
	fmt.Fprintf(&sb, "  lsh_setup := %s;\n", lsnList(setup))
	fmt.Fprintf(&sb, "  lsh_loop := [\n    %s];\n", strings.Join(loop, ";\n    "))
	fmt.Fprintf(&sb, "  lsh_after := %s;\n", lsnList(after))
	fmt.Fprintf(&sb, "  lsh_configure := %s\n|}.\n", lsnList(confs))
	root := os.Getenv("VERIF_ROOT")
	if root == "" {
		root = "/verif"
	}
	outDir := e.out
	if outDir == "" || outDir == "." {
		outDir = filepath.Join(root, "coq", "gen")
	}
	writeIfChanged(filepath.Join(outDir, "Listen_gen.v"), []byte(sb.String()))
}
