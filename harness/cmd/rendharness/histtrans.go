package main

// histtrans: extracts the SEQUENCE OF SYNCHRONISATION OPERATIONS of the metrics functions that the
// concurrent histogram / counter models (coq/metrics/HistConc.v, Counter.v, Hist.v) are about from
// their source (go/parser, on every run) into coq/gen/Hist_gen.v:
//
//	ObserveHist, extractHist, newHist   /repo/metrics/histograms.go
//	IncCounter, IncCounterBy            /repo/metrics/counters.go
//
// as values of the statement types of coq/metrics/HistShape.v (which also gives them their meaning:
// one atomic primitive = one step of a goroutine). coq/gen/HistLink.v proves the generated values
// equal to the expected ones (observe_model ...), about which metrics/HistShapeProofs.v proves that
// they mean HistConc.tstep / Counter.counter_add / the period swap of Hist.extract_gen. A change to
// which cell is touched by which primitive, to the order, to the lock calls, to the CAS loops, to
// the sampling return or to the ring index changes the generated value and the link lemma stops
// compiling.
//
// The translation is by AST structure, statement by statement; it decides nothing. Rules:
//
// ObserveHist / IncCounter / IncCounterBy (hstmt). The first parameter is the handle ("id"), the
// second (if any) the uint64 argument (-> EArg). Locals are numbered in the order of their
// definition (Go scoping respected), so their names do not matter.
//   - h := &hists[id]                              -> SHistRef (h is remembered)
//   - h.lock.RLock() / h.lock.RUnlock()            -> SRLock / SRUnlock
//   - atomic.AddUint64(&C, e)                      -> SAtomicAdd C e
//   - x := atomic.AddUint64(&C, e)                 -> SAddBind x C e
//   - x := atomic.LoadUint64(&C)                   -> SLoadBind x C
//   - atomic.StoreUint64(&C, e)                    -> SAtomicStore C e
//   - for { x := atomic.LoadUint64(&C); if ARG op x || atomic.CompareAndSwapUint64(&C, x, ARG) { break } }
//     (exactly this: bare for, two statements, the same cell twice, the loaded local as the old
//     value, the argument as the new one; `x op' ARG` is read as `ARG op x`)  -> SCasLoop C op
//   - x := e with e pure                           -> SLet x e
//   - x := E[atomic.AddUint64(&C, a)] with exactly one atomic call inside an otherwise pure E
//     -> SAddBind t C a; SLet x E[t]  (t the next local: Go evaluates the call before using it)
//   - h.dat.buf[i] = e                             -> SStoreBuf i e
//   - if c { .. } (no init, no else)               -> SIf c [..];  return -> SReturn
//   - cells: &h.dat.total|max|min|count|kept -> CTotal.., &bhists[id].buckets[x] (x a local) ->
//     CBucket x, &counters[id] -> CCounter, anything else -> CCellOther "text"
//   - expressions: the argument, locals, integer literals, buflen (-> the constant of
//     gen/Consts_gen.v), &, -, +, getBucket(e), parentheses; anything else -> EOther "text"
//   - conditions: hSampled[id] -> CSampled, a op b (< > <= >= == !=) -> CCmp, && -> CAnd, anything
//     else -> CCondOther "text"
//   - anything else -> SOther "<text> (file:line)". Nothing is dropped.
//
// extractHist (xstmt), h its parameter:
//   - h.lock.Lock() / h.lock.Unlock() -> XLock / XUnlock; ret := h.dat -> XSave (ret remembered);
//     h.dat = hdat{buf: B, f: N, ..} -> XReset (Some B) [(f, N)..] (fields in the order of the
//     struct: count kept total min max); h.bakbuf = B -> XSetBak B; return ret -> XReturnSaved;
//     B: h.bakbuf | ret.buf | h.dat.buf; N: math.MaxUint64 | literal; anything else -> XOther.
//
// newHist: must be the single statement
//   return hist{lock: &sync.RWMutex{}, dat: hdat{buf: make([]uint64, L1), f: N..}, bakbuf: make([]uint64, L2)}
// -> mkNewHist true L1 [(f,N)..] L2 []; what does not fit goes to nh_extra.

import (
	"fmt"
	"go/ast"
	"go/parser"
	"go/token"
	"go/types"
	"os"
	"path/filepath"
	"strconv"
	"strings"
)

func init() { commands["histtrans"] = histtrans }

type htCtx struct {
	fs      *token.FileSet
	idVar   string // the handle parameter
	argVar  string // the uint64 parameter
	histVar string // bound by h := &hists[id]
	scopes  []map[string]int
	next    int
}

func htStr(s string) string {
	s = strings.Join(strings.Fields(s), " ")
	if len(s) > 200 {
		s = s[:200] + "..."
	}
	return "\"" + strings.ReplaceAll(s, "\"", "'") + "\""
}

func (c *htCtx) at(n ast.Node) string {
	pos := c.fs.Position(n.Pos())
	return fmt.Sprintf("%s:%d", filepath.Base(pos.Filename), pos.Line)
}

func (c *htCtx) nodeText(n ast.Node) string {
	switch x := n.(type) {
	case ast.Expr:
		return types.ExprString(x)
	case *ast.AssignStmt:
		var l, r []string
		for _, e := range x.Lhs {
			l = append(l, types.ExprString(e))
		}
		for _, e := range x.Rhs {
			r = append(r, types.ExprString(e))
		}
		return strings.Join(l, ", ") + " " + x.Tok.String() + " " + strings.Join(r, ", ")
	case *ast.ExprStmt:
		return types.ExprString(x.X)
	case *ast.ReturnStmt:
		var r []string
		for _, e := range x.Results {
			r = append(r, types.ExprString(e))
		}
		return "return " + strings.Join(r, ", ")
	case *ast.IfStmt:
		return "if " + types.ExprString(x.Cond) + " {...}"
	case *ast.DeferStmt:
		return "defer " + types.ExprString(x.Call)
	case *ast.GoStmt:
		return "go " + types.ExprString(x.Call)
	case *ast.BranchStmt:
		return x.Tok.String()
	case *ast.ForStmt:
		var parts []string
		for _, s := range x.Body.List {
			parts = append(parts, c.nodeText(s))
		}
		hd := "for"
		if x.Cond != nil {
			hd += " " + types.ExprString(x.Cond)
		}
		if x.Init != nil || x.Post != nil {
			hd += " (init/post)"
		}
		return hd + " { " + strings.Join(parts, "; ") + " }"
	case *ast.FuncType:
		return "unexpected signature"
	}
	return fmt.Sprintf("%T", n)
}

func (c *htCtx) other(ctor string, n ast.Node) string {
	return fmt.Sprintf("%s %s", ctor, htStr(fmt.Sprintf("%s (%s)", c.nodeText(n), c.at(n))))
}

func (c *htCtx) push() { c.scopes = append(c.scopes, map[string]int{}) }
func (c *htCtx) pop()  { c.scopes = c.scopes[:len(c.scopes)-1] }
func (c *htCtx) define(name string) int {
	n := c.next
	c.next++
	if name != "_" && name != "" {
		c.scopes[len(c.scopes)-1][name] = n
	}
	return n
}
func (c *htCtx) local(name string) (int, bool) {
	for i := len(c.scopes) - 1; i >= 0; i-- {
		if n, ok := c.scopes[i][name]; ok {
			return n, true
		}
	}
	return 0, false
}

func htParen(e ast.Expr) ast.Expr {
	for {
		p, ok := e.(*ast.ParenExpr)
		if !ok {
			return e
		}
		e = p.X
	}
}

func htIsIdent(e ast.Expr, name string) bool {
	id, ok := htParen(e).(*ast.Ident)
	return ok && name != "" && id.Name == name
}

// htSel matches a.b.c... as a list of names
func htSel(e ast.Expr) []string {
	switch x := htParen(e).(type) {
	case *ast.Ident:
		return []string{x.Name}
	case *ast.SelectorExpr:
		if p := htSel(x.X); p != nil {
			return append(p, x.Sel.Name)
		}
	}
	return nil
}

func htPath(p []string, names ...string) bool {
	if len(p) != len(names) {
		return false
	}
	for i := range p {
		if names[i] == "" || p[i] != names[i] {
			return false
		}
	}
	return true
}

// atomicCall matches atomic.F(args)
func htAtomicCall(e ast.Expr) (fn string, args []ast.Expr, ok bool) {
	call, isCall := htParen(e).(*ast.CallExpr)
	if !isCall {
		return "", nil, false
	}
	p := htSel(call.Fun)
	if len(p) == 2 && p[0] == "atomic" {
		return p[1], call.Args, true
	}
	return "", nil, false
}

// cell translates &X
func (c *htCtx) cell(e ast.Expr) string {
	u, ok := htParen(e).(*ast.UnaryExpr)
	if !ok || u.Op != token.AND {
		return "(" + c.other("CCellOther", e) + ")"
	}
	x := htParen(u.X)
	if p := htSel(x); p != nil && len(p) == 3 && p[0] == c.histVar && c.histVar != "" && p[1] == "dat" {
		switch p[2] {
		case "total":
			return "CTotal"
		case "max":
			return "CMax"
		case "min":
			return "CMin"
		case "count":
			return "CCount"
		case "kept":
			return "CKept"
		}
	}
	if ix, ok := x.(*ast.IndexExpr); ok {
		// counters[id]
		if htIsIdent(ix.X, "counters") && htIsIdent(ix.Index, c.idVar) {
			return "CCounter"
		}
		// bhists[id].buckets[x]
		if sel, ok := htParen(ix.X).(*ast.SelectorExpr); ok && sel.Sel.Name == "buckets" {
			if in, ok := htParen(sel.X).(*ast.IndexExpr); ok && htIsIdent(in.X, "bhists") && htIsIdent(in.Index, c.idVar) {
				if id, ok := htParen(ix.Index).(*ast.Ident); ok {
					if n, ok := c.local(id.Name); ok {
						return fmt.Sprintf("(CBucket %d)", n)
					}
				}
			}
		}
	}
	return "(" + c.other("CCellOther", e) + ")"
}

// hasAtomic: does e contain a call of package atomic
func htHasAtomic(e ast.Expr) bool {
	found := false
	ast.Inspect(e, func(n ast.Node) bool {
		if x, ok := n.(ast.Expr); ok {
			if _, _, isA := htAtomicCall(x); isA {
				found = true
			}
		}
		return !found
	})
	return found
}

// expr translates a pure expression. hole/holeVar: the one atomic call that was bound to a local
// before the expression (see the flattening rule).
func (c *htCtx) expr(e ast.Expr, hole ast.Expr, holeVar int) string {
	e = htParen(e)
	if hole != nil && e == hole {
		return fmt.Sprintf("(EVar %d)", holeVar)
	}
	switch x := e.(type) {
	case *ast.Ident:
		if n, ok := c.local(x.Name); ok {
			return fmt.Sprintf("(EVar %d)", n)
		}
		if x.Name == c.argVar && c.argVar != "" {
			return "EArg"
		}
		if x.Name == "buflen" {
			return "(EConst buflen)"
		}
	case *ast.BasicLit:
		if x.Kind == token.INT {
			if v, err := strconv.ParseUint(strings.ReplaceAll(x.Value, "_", ""), 0, 64); err == nil {
				return fmt.Sprintf("(EConst %d)", v)
			}
		}
	case *ast.BinaryExpr:
		op := ""
		switch x.Op {
		case token.AND:
			op = "EAnd"
		case token.SUB:
			op = "ESub"
		case token.ADD:
			op = "EAdd"
		}
		if op != "" {
			return fmt.Sprintf("(%s %s %s)", op, c.expr(x.X, hole, holeVar), c.expr(x.Y, hole, holeVar))
		}
	case *ast.CallExpr:
		if htIsIdent(x.Fun, "getBucket") && len(x.Args) == 1 {
			return fmt.Sprintf("(EGetBucket %s)", c.expr(x.Args[0], hole, holeVar))
		}
	}
	return "(" + c.other("EOther", e) + ")"
}

var htCmp = map[token.Token]string{token.LSS: "OpLt", token.GTR: "OpGt", token.LEQ: "OpLe", token.GEQ: "OpGe", token.EQL: "OpEq", token.NEQ: "OpNe"}
var htFlip = map[string]string{"OpLt": "OpGt", "OpGt": "OpLt", "OpLe": "OpGe", "OpGe": "OpLe", "OpEq": "OpEq", "OpNe": "OpNe"}

func (c *htCtx) cond(e ast.Expr) string {
	e = htParen(e)
	switch x := e.(type) {
	case *ast.IndexExpr:
		if htIsIdent(x.X, "hSampled") && htIsIdent(x.Index, c.idVar) {
			return "CSampled"
		}
	case *ast.BinaryExpr:
		if x.Op == token.LAND {
			return fmt.Sprintf("(CAnd %s %s)", c.cond(x.X), c.cond(x.Y))
		}
		if op, ok := htCmp[x.Op]; ok && !htHasAtomic(x) {
			return fmt.Sprintf("(CCmp %s %s %s)", op, c.expr(x.X, nil, 0), c.expr(x.Y, nil, 0))
		}
	}
	return "(" + c.other("CCondOther", e) + ")"
}

// casLoop matches the compare-and-swap idiom
func (c *htCtx) casLoop(f *ast.ForStmt) (string, bool) {
	if f.Init != nil || f.Cond != nil || f.Post != nil || len(f.Body.List) != 2 {
		return "", false
	}
	as, ok := f.Body.List[0].(*ast.AssignStmt)
	if !ok || as.Tok != token.DEFINE || len(as.Lhs) != 1 || len(as.Rhs) != 1 {
		return "", false
	}
	xid, ok := as.Lhs[0].(*ast.Ident)
	if !ok || xid.Name == "_" || xid.Name == c.argVar || xid.Name == c.idVar || xid.Name == c.histVar {
		return "", false
	}
	fn, args, ok := htAtomicCall(as.Rhs[0])
	if !ok || fn != "LoadUint64" || len(args) != 1 {
		return "", false
	}
	cellText := types.ExprString(args[0])
	iff, ok := f.Body.List[1].(*ast.IfStmt)
	if !ok || iff.Init != nil || iff.Else != nil || len(iff.Body.List) != 1 {
		return "", false
	}
	br, ok := iff.Body.List[0].(*ast.BranchStmt)
	if !ok || br.Tok != token.BREAK || br.Label != nil {
		return "", false
	}
	or, ok := htParen(iff.Cond).(*ast.BinaryExpr)
	if !ok || or.Op != token.LOR {
		return "", false
	}
	cmp, ok := htParen(or.X).(*ast.BinaryExpr)
	if !ok {
		return "", false
	}
	op, ok := htCmp[cmp.Op]
	if !ok {
		return "", false
	}
	if htIsIdent(cmp.X, xid.Name) && htIsIdent(cmp.Y, c.argVar) {
		op = htFlip[op]
	} else if !(htIsIdent(cmp.X, c.argVar) && htIsIdent(cmp.Y, xid.Name)) {
		return "", false
	}
	fn2, args2, ok := htAtomicCall(or.Y)
	if !ok || fn2 != "CompareAndSwapUint64" || len(args2) != 3 || types.ExprString(args2[0]) != cellText ||
		!htIsIdent(args2[1], xid.Name) || !htIsIdent(args2[2], c.argVar) {
		return "", false
	}
	return fmt.Sprintf("SCasLoop %s %s", c.cell(args[0]), op), true
}

func (c *htCtx) stmts(list []ast.Stmt) []string {
	var out []string
	for _, s := range list {
		out = append(out, c.stmt(s)...)
	}
	return out
}

func htList(items []string) string { return "[" + strings.Join(items, "; ") + "]" }

func (c *htCtx) stmt(s ast.Stmt) []string {
	switch x := s.(type) {
	case *ast.EmptyStmt:
		return nil
	case *ast.ExprStmt:
		call, ok := htParen(x.X).(*ast.CallExpr)
		if !ok {
			break
		}
		if p := htSel(call.Fun); len(call.Args) == 0 && c.histVar != "" && htPath(p, c.histVar, "lock", "RLock") {
			return []string{"SRLock"}
		} else if len(call.Args) == 0 && c.histVar != "" && htPath(p, c.histVar, "lock", "RUnlock") {
			return []string{"SRUnlock"}
		}
		if fn, args, ok := htAtomicCall(call); ok {
			if fn == "AddUint64" && len(args) == 2 && !htHasAtomic(args[1]) {
				return []string{fmt.Sprintf("SAtomicAdd %s %s", c.cell(args[0]), c.expr(args[1], nil, 0))}
			}
			if fn == "StoreUint64" && len(args) == 2 && !htHasAtomic(args[1]) {
				return []string{fmt.Sprintf("SAtomicStore %s %s", c.cell(args[0]), c.expr(args[1], nil, 0))}
			}
		}
	case *ast.AssignStmt:
		if len(x.Lhs) != 1 || len(x.Rhs) != 1 {
			break
		}
		if x.Tok == token.DEFINE {
			id, ok := x.Lhs[0].(*ast.Ident)
			if !ok {
				break
			}
			// h := &hists[id]
			if u, ok := htParen(x.Rhs[0]).(*ast.UnaryExpr); ok && u.Op == token.AND {
				if ix, ok := htParen(u.X).(*ast.IndexExpr); ok && htIsIdent(ix.X, "hists") && htIsIdent(ix.Index, c.idVar) &&
					c.histVar == "" && len(c.scopes) == 1 && id.Name != "_" {
					c.histVar = id.Name
					return []string{"SHistRef"}
				}
				break
			}
			rhs := htParen(x.Rhs[0])
			if fn, args, ok := htAtomicCall(rhs); ok {
				if fn == "AddUint64" && len(args) == 2 && !htHasAtomic(args[1]) {
					cl, ex := c.cell(args[0]), c.expr(args[1], nil, 0)
					return []string{fmt.Sprintf("SAddBind %d %s %s", c.define(id.Name), cl, ex)}
				}
				if fn == "LoadUint64" && len(args) == 1 {
					cl := c.cell(args[0])
					return []string{fmt.Sprintf("SLoadBind %d %s", c.define(id.Name), cl)}
				}
				break
			}
			if !htHasAtomic(rhs) {
				ex := c.expr(rhs, nil, 0)
				return []string{fmt.Sprintf("SLet %d %s", c.define(id.Name), ex)}
			}
			// exactly one atomic.AddUint64 inside an otherwise pure expression
			var holes []ast.Expr
			ast.Inspect(rhs, func(n ast.Node) bool {
				if e, ok := n.(ast.Expr); ok {
					if _, _, isA := htAtomicCall(e); isA {
						if _, isCall := e.(*ast.CallExpr); isCall {
							holes = append(holes, e)
							return false
						}
					}
				}
				return true
			})
			if len(holes) == 1 {
				fn, args, _ := htAtomicCall(holes[0])
				if fn == "AddUint64" && len(args) == 2 && !htHasAtomic(args[1]) {
					cl, ex := c.cell(args[0]), c.expr(args[1], nil, 0)
					t := c.define("")
					first := fmt.Sprintf("SAddBind %d %s %s", t, cl, ex)
					rest := c.expr(rhs, holes[0], t)
					return []string{first, fmt.Sprintf("SLet %d %s", c.define(id.Name), rest)}
				}
			}
			break
		}
		if x.Tok == token.ASSIGN {
			// h.dat.buf[i] = e
			if ix, ok := x.Lhs[0].(*ast.IndexExpr); ok && c.histVar != "" && htPath(htSel(ix.X), c.histVar, "dat", "buf") &&
				!htHasAtomic(ix.Index) && !htHasAtomic(x.Rhs[0]) {
				return []string{fmt.Sprintf("SStoreBuf %s %s", c.expr(ix.Index, nil, 0), c.expr(x.Rhs[0], nil, 0))}
			}
		}
	case *ast.ForStmt:
		if r, ok := c.casLoop(x); ok {
			return []string{r}
		}
		return []string{c.other("SOther", x)}
	case *ast.IfStmt:
		if x.Init != nil || x.Else != nil {
			break
		}
		cd := c.cond(x.Cond)
		c.push()
		body := c.stmts(x.Body.List)
		c.pop()
		return []string{fmt.Sprintf("SIf %s %s", cd, htList(body))}
	case *ast.ReturnStmt:
		if len(x.Results) == 0 {
			return []string{"SReturn"}
		}
	case *ast.BlockStmt:
		c.push()
		body := c.stmts(x.List)
		c.pop()
		return body
	}
	return []string{c.other("SOther", s)}
}

// ---- extractHist ----

var htFieldOrder = []string{"count", "kept", "total", "min", "max"}
var htFieldCtor = map[string]string{"count": "FCount", "kept": "FKept", "total": "FTotal", "min": "FMin", "max": "FMax"}

func (c *htCtx) xbuf(e ast.Expr, h, ret string) string {
	p := htSel(e)
	switch {
	case htPath(p, h, "bakbuf"):
		return "XBBak"
	case htPath(p, ret, "buf"):
		return "XBSaved"
	case htPath(p, h, "dat", "buf"):
		return "XBDat"
	}
	return "(" + c.other("XBOther", e) + ")"
}

func (c *htCtx) xnum(e ast.Expr) string {
	e = htParen(e)
	if htPath(htSel(e), "math", "MaxUint64") {
		return "XNMaxU64"
	}
	if l, ok := e.(*ast.BasicLit); ok && l.Kind == token.INT {
		if v, err := strconv.ParseUint(strings.ReplaceAll(l.Value, "_", ""), 0, 64); err == nil {
			return fmt.Sprintf("(XNConst %d)", v)
		}
	}
	return "(" + c.other("XNOther", e) + ")"
}

// hdatLit translates hdat{buf: B, f: N, ...}: the buffer element (nil if absent), the numeric
// fields in struct order, ok=false if it is not such a literal
func (c *htCtx) hdatLit(e ast.Expr) (buf ast.Expr, nums string, ok bool) {
	cl, isLit := htParen(e).(*ast.CompositeLit)
	if !isLit || !htIsIdent(cl.Type, "hdat") {
		return nil, "", false
	}
	vals := map[string][]ast.Expr{}
	for _, el := range cl.Elts {
		kv, isKV := el.(*ast.KeyValueExpr)
		if !isKV {
			return nil, "", false
		}
		k, isId := kv.Key.(*ast.Ident)
		if !isId {
			return nil, "", false
		}
		if k.Name != "buf" && htFieldCtor[k.Name] == "" {
			return nil, "", false
		}
		vals[k.Name] = append(vals[k.Name], kv.Value)
	}
	var items []string
	for _, f := range htFieldOrder {
		for _, v := range vals[f] {
			items = append(items, fmt.Sprintf("(%s, %s)", htFieldCtor[f], c.xnum(v)))
		}
	}
	if len(vals["buf"]) > 1 {
		return nil, "", false
	}
	if len(vals["buf"]) == 1 {
		buf = vals["buf"][0]
	}
	return buf, htList(items), true
}

func (c *htCtx) extract(fd *ast.FuncDecl) []string {
	if fd == nil {
		return []string{"XOther \"func extractHist not found in metrics/histograms.go\""}
	}
	ps := fd.Type.Params.List
	if fd.Recv != nil || len(ps) != 1 || len(ps[0].Names) != 1 || types.ExprString(ps[0].Type) != "*hist" ||
		fd.Type.Results == nil || len(fd.Type.Results.List) != 1 || types.ExprString(fd.Type.Results.List[0].Type) != "hdat" ||
		len(fd.Type.Results.List[0].Names) != 0 {
		return []string{c.other("XOther", fd.Type)}
	}
	h := ps[0].Names[0].Name
	ret := ""
	var out []string
	for _, s := range fd.Body.List {
		done := false
		switch x := s.(type) {
		case *ast.EmptyStmt:
			done = true
		case *ast.ExprStmt:
			if call, ok := htParen(x.X).(*ast.CallExpr); ok && len(call.Args) == 0 {
				if p := htSel(call.Fun); htPath(p, h, "lock", "Lock") {
					out, done = append(out, "XLock"), true
				} else if htPath(p, h, "lock", "Unlock") {
					out, done = append(out, "XUnlock"), true
				}
			}
		case *ast.AssignStmt:
			if len(x.Lhs) != 1 || len(x.Rhs) != 1 {
				break
			}
			if id, ok := x.Lhs[0].(*ast.Ident); ok && x.Tok == token.DEFINE && ret == "" && id.Name != "_" && id.Name != h &&
				htPath(htSel(x.Rhs[0]), h, "dat") {
				ret = id.Name
				out, done = append(out, "XSave"), true
			} else if x.Tok == token.ASSIGN && htPath(htSel(x.Lhs[0]), h, "dat") {
				if b, nums, ok := c.hdatLit(x.Rhs[0]); ok {
					bs := "None"
					if b != nil {
						bs = "(Some " + c.xbuf(b, h, ret) + ")"
					}
					out, done = append(out, fmt.Sprintf("XReset %s %s", bs, nums)), true
				}
			} else if x.Tok == token.ASSIGN && htPath(htSel(x.Lhs[0]), h, "bakbuf") {
				out, done = append(out, "XSetBak "+c.xbuf(x.Rhs[0], h, ret)), true
			}
		case *ast.ReturnStmt:
			if len(x.Results) == 1 && htIsIdent(x.Results[0], ret) {
				out, done = append(out, "XReturnSaved"), true
			}
		}
		if !done {
			out = append(out, c.other("XOther", s))
		}
	}
	return out
}

// ---- newHist ----

func (c *htCtx) makeLen(e ast.Expr) string {
	call, ok := htParen(e).(*ast.CallExpr)
	if ok && htIsIdent(call.Fun, "make") && len(call.Args) == 2 && types.ExprString(call.Args[0]) == "[]uint64" {
		return c.expr(call.Args[1], nil, 0)
	}
	return "(" + c.other("EOther", e) + ")"
}

func (c *htCtx) newHist(fd *ast.FuncDecl) string {
	bad := func(what string) string {
		return fmt.Sprintf("mkNewHist false (EOther \"\") [] (EOther \"\") [%s]", htStr(what))
	}
	if fd == nil {
		return bad("func newHist not found in metrics/histograms.go")
	}
	if fd.Recv != nil || len(fd.Type.Params.List) != 0 || len(fd.Body.List) != 1 {
		return bad("newHist is not a single return statement without parameters (" + c.at(fd) + ")")
	}
	r, ok := fd.Body.List[0].(*ast.ReturnStmt)
	if !ok || len(r.Results) != 1 {
		return bad("newHist is not a single return statement (" + c.at(fd) + ")")
	}
	cl, ok := htParen(r.Results[0]).(*ast.CompositeLit)
	if !ok || !htIsIdent(cl.Type, "hist") {
		return bad("newHist does not return a hist literal (" + c.at(r) + ")")
	}
	lock, bufLen, nums, bakLen := "false", "(EOther \"no dat field\")", "[]", "(EOther \"no bakbuf field\")"
	var extra []string
	seen := map[string]bool{}
	for _, el := range cl.Elts {
		kv, isKV := el.(*ast.KeyValueExpr)
		k, isId := (*ast.Ident)(nil), false
		if isKV {
			k, isId = kv.Key.(*ast.Ident)
		}
		if !isKV || !isId || seen[k.Name] {
			extra = append(extra, htStr(fmt.Sprintf("%s (%s)", types.ExprString(el), c.at(el))))
			continue
		}
		seen[k.Name] = true
		switch k.Name {
		case "lock":
			if types.ExprString(kv.Value) == "&sync.RWMutex{}" {
				lock = "true"
			} else {
				extra = append(extra, htStr(fmt.Sprintf("lock: %s (%s)", types.ExprString(kv.Value), c.at(el))))
			}
		case "dat":
			b, n, ok := c.hdatLit(kv.Value)
			if !ok {
				extra = append(extra, htStr(fmt.Sprintf("dat: %s (%s)", types.ExprString(kv.Value), c.at(el))))
				continue
			}
			nums = n
			if b != nil {
				bufLen = c.makeLen(b)
			} else {
				bufLen = "(EOther \"no buf field\")"
			}
		case "bakbuf":
			bakLen = c.makeLen(kv.Value)
		default:
			extra = append(extra, htStr(fmt.Sprintf("%s (%s)", types.ExprString(el), c.at(el))))
		}
	}
	return fmt.Sprintf("mkNewHist %s %s %s %s %s", lock, bufLen, nums, bakLen, htList(extra))
}

// ---- driver ----

// body translates a function with parameters (id uint32 [, arg uint64]) and no results
func (c *htCtx) body(fd *ast.FuncDecl, name, file string, wantArg bool) []string {
	if fd == nil {
		return []string{fmt.Sprintf("SOther \"func %s not found in %s\"", name, file)}
	}
	c.idVar, c.argVar, c.histVar, c.next = "", "", "", 0
	c.scopes = nil
	c.push()
	var names, tys []string
	for _, p := range fd.Type.Params.List {
		for _, n := range p.Names {
			names = append(names, n.Name)
			tys = append(tys, types.ExprString(p.Type))
		}
	}
	okSig := fd.Recv == nil && fd.Type.Results == nil && len(names) >= 1 && tys[0] == "uint32" && names[0] != "_"
	if wantArg {
		okSig = okSig && len(names) == 2 && tys[1] == "uint64" && names[1] != "_" && names[1] != names[0]
	} else {
		okSig = okSig && len(names) == 1
	}
	if !okSig {
		return []string{c.other("SOther", fd.Type)}
	}
	c.idVar = names[0]
	if wantArg {
		c.argVar = names[1]
	}
	return c.stmts(fd.Body.List)
}

func htFmtList(items []string) string {
	if len(items) == 0 {
		return "[]"
	}
	return "[\n  " + strings.Join(items, ";\n  ") + " ]"
}

func histtrans(e *env) {
	repo := "/repo"
	if v := os.Getenv("VERIF_REPO"); v != "" {
		repo = v
	}
	fs := token.NewFileSet()
	c := &htCtx{fs: fs}
	fns := map[string]*ast.FuncDecl{}
	var perrs []string
	for _, f := range []string{"metrics/histograms.go", "metrics/counters.go"} {
		af, err := parser.ParseFile(fs, filepath.Join(repo, f), nil, 0)
		if err != nil {
			perrs = append(perrs, err.Error())
			continue
		}
		for _, d := range af.Decls {
			if fd, ok := d.(*ast.FuncDecl); ok && fd.Body != nil && fd.Recv == nil {
				fns[filepath.Base(f)+":"+fd.Name.Name] = fd
			}
		}
	}
	observe := c.body(fns["histograms.go:ObserveHist"], "ObserveHist", "metrics/histograms.go", true)
	inc := c.body(fns["counters.go:IncCounter"], "IncCounter", "metrics/counters.go", false)
	incBy := c.body(fns["counters.go:IncCounterBy"], "IncCounterBy", "metrics/counters.go", true)
	extract := c.extract(fns["histograms.go:extractHist"])
	newHist := c.newHist(fns["histograms.go:newHist"])
	for _, pe := range perrs {
		observe = append(observe, "SOther "+htStr(pe))
	}

	var sb strings.Builder
	sb.WriteString("(* GENERATED by harness histtrans from the SOURCE of /repo/metrics/histograms.go and\n" +
		"   /repo/metrics/counters.go — do not edit. The synchronisation operations of ObserveHist, IncCounter,\n" +
		"   IncCounterBy, extractHist and the literal of newHist as values (rules:\n" +
		"   harness/cmd/rendharness/histtrans.go, types and meaning: metrics/HistShape.v); gen/HistLink.v proves\n" +
		"   them equal to the values the models are proved about. Not translated (nothing here ties them to the\n" +
		"   model): AddHistogram, getAllHistograms, hdatPercentiles, getAllBucketHistograms, extractBHist,\n" +
		"   AddCounter, getAllCounters; getBucket and lzcnt are translated by gotrans (gen/Funcs_gen.v). *)\n")
	sb.WriteString("From Coq Require Import String.\nFrom Rend Require Import base.Bytes gen.Consts_gen metrics.HistShape.\n" +
		"Open Scope string_scope.\nOpen Scope list_scope.\nOpen Scope N_scope.\n\n")
	fmt.Fprintf(&sb, "(* func ObserveHist(id uint32, value uint64) *)\nDefinition observe_src : list hstmt := %s.\n\n", htFmtList(observe))
	fmt.Fprintf(&sb, "(* func IncCounter(id uint32) *)\nDefinition inccounter_src : list hstmt := %s.\n\n", htFmtList(inc))
	fmt.Fprintf(&sb, "(* func IncCounterBy(id uint32, amount uint64) *)\nDefinition inccounterby_src : list hstmt := %s.\n\n", htFmtList(incBy))
	fmt.Fprintf(&sb, "(* func extractHist(h *hist) hdat *)\nDefinition extract_src : list xstmt := %s.\n\n", htFmtList(extract))
	fmt.Fprintf(&sb, "(* func newHist() hist *)\nDefinition newhist_src : newhist_shape :=\n  %s.\n", newHist)

	dir := e.out
	if dir == "" || dir == "." {
		root := os.Getenv("VERIF_ROOT")
		if root == "" {
			root = "/verif"
		}
		dir = filepath.Join(root, "coq", "gen")
	}
	writeIfChanged(filepath.Join(dir, "Hist_gen.v"), []byte(sb.String()))
}
