package main

import (
	"bytes"
	"fmt"
	"net"
	"sort"
	"sync"
	"time"

	"github.com/netflix/rend/common"
	"github.com/netflix/rend/handlers/memcached/cluster"
	"verifharness/fakemc"
	"verifharness/rig"
)

func init() { commands["c19n"] = c19n }

// c19n: the cluster handler as the server builds it (cluster.NewHandler over real connections to
// the nodes), several instances over the same node set. Go-side oracles: the ring of every
// instance is keyed on the configured node addresses; a key written through one instance is found
// through every other instance (same nodes in another order, a second instance in the same
// order), on the node the reference lookup over the instance's own ring names.
func c19n(e *env) {
	w := rig.NewWriter(e.out, "C19", e.tier, e.seed)
	r := rig.NewRand(e.seed*131 + 19)
	sizes := []int{1, 2, 3, 5, 8}
	nkeys := 150
	if e.tier == "thorough" {
		sizes = []int{1, 2, 3, 4, 5, 8, 13, 21, 32}
		nkeys = 1000
	}
	for _, n := range sizes {
		var fakes []*fakemc.Server
		var addrs []string
		byAddr := map[string]*fakemc.Server{}
		var closers []func()
		var listeners []net.Listener
		for i := 0; i < n; i++ {
			f := fakemc.New()
			f.LogOn = false
			l, err := f.ListenTCP()
			if err != nil {
				rig.Die("listen: %v", err)
			}
			fakes = append(fakes, f)
			addrs = append(addrs, l.Addr().String())
			byAddr[l.Addr().String()] = f
			listeners = append(listeners, l)
			ll, ff := l, f
			closers = append(closers, func() { ll.Close(); ff.CloseAll() })
		}
		perm := append([]string(nil), addrs...)
		for i := len(perm) - 1; i > 0; i-- {
			j := r.Intn(i + 1)
			perm[i], perm[j] = perm[j], perm[i]
		}
		in := map[string]interface{}{"cmd": "c19n", "nodes": n}
		var hs []cluster.Handler
		for _, lst := range [][]string{addrs, perm, addrs} {
			h, err := cluster.NewHandler(lst, "c19n")
			if err != nil {
				rig.Die("cluster.NewHandler: %v", err)
			}
			hs = append(hs, h)
			var labels []string
			for _, b := range h.Continuum.Buckets() {
				labels = append(labels, b.Label())
			}
			want := append([]string(nil), lst...)
			sort.Strings(labels)
			sort.Strings(want)
			if fmt.Sprint(labels) != fmt.Sprint(want) {
				w.Fail(rig.GoFailure{Kind: "counterexample", What: "the ring of a cluster handler is not keyed on the configured node addresses", Input: in,
					Detail: fmt.Sprintf("configured %v, bucket labels %v", want, labels)})
			}
		}
		bad := 0
		for k := 0; k < nkeys && bad < 3; k++ {
			key := []byte(fmt.Sprintf("key-%d-%d", n, r.Intn(1<<30)))
			val := []byte(fmt.Sprintf("value-of-%s", key))
			if err := hs[0].Set(common.SetRequest{Key: key, Data: val, Flags: 3}); err != nil {
				w.Fail(rig.GoFailure{Kind: "broken-correspondence", What: "cluster set failed on healthy nodes", Input: in, Detail: err.Error()})
				bad++
				continue
			}
			// where it landed
			var holders []string
			for a, f := range byAddr {
				if _, ok := f.Dump()[string(key)]; ok {
					holders = append(holders, a)
				}
			}
			ring := cluster.VerifRing(hs[0].Continuum)
			owner, _ := c19Ref(ring, c19md5le(key))
			if len(holders) != 1 || holders[0] != owner {
				w.Fail(rig.GoFailure{Kind: "counterexample", What: "a key was not stored on the node that owns its ring location", Input: in,
					Detail: fmt.Sprintf("key %q: stored on %v, owner of hash %d is %q", key, holders, c19md5le(key), owner)})
				bad++
			}
			for hi, h := range hs[1:] {
				dc, ec := h.Get(common.GetRequest{Keys: [][]byte{key}, Opaques: []uint32{1}, Quiet: []bool{false}})
				hit := false
				for g := range dc {
					if !g.Miss && bytes.Equal(g.Data, val) {
						hit = true
					}
				}
				for range ec {
				}
				if !hit {
					w.Fail(rig.GoFailure{Kind: "counterexample", What: "a key written through one cluster handler is not found through another handler over the same nodes", Input: in,
						Detail: fmt.Sprintf("key %q, second handler %d (1 = nodes listed in another order, 2 = same order, other connections)", key, hi+1)})
					bad++
				}
			}
			w.Count("key-probe")
		}
		// a node refuses connections exactly while a new client connection builds its handler: that
		// connection is refused as a whole, or it routes like every other connection - never on a
		// ring of its own
		if n >= 3 {
			down := r.Intn(n)
			lsn := listeners[down]
			lsn.Close()
			hB, errB := cluster.NewHandler(addrs, "c19n-down")
			nl, lerr := fakes[down].ListenTCPAt(addrs[down])
			for try := 0; lerr != nil && try < 50; try++ {
				time.Sleep(20 * time.Millisecond)
				nl, lerr = fakes[down].ListenTCPAt(addrs[down])
			}
			if lerr != nil {
				rig.Die("re-listen on %s: %v", addrs[down], lerr)
			}
			listeners[down] = nl
			closers = append(closers, func() { nl.Close() })
			if errB == nil {
				w.Count("handler-built-while-a-node-was-down")
				miss := 0
				var first string
				for k := 0; k < 200; k++ {
					key := []byte(fmt.Sprintf("down-%d-%d", n, k))
					val := []byte("v-" + string(key))
					if err := hB.Set(common.SetRequest{Key: key, Data: val}); err != nil {
						continue // an error is an honest outcome
					}
					dc, ec := hs[0].Get(common.GetRequest{Keys: [][]byte{key}, Opaques: []uint32{1}, Quiet: []bool{false}})
					hit := false
					for g := range dc {
						if !g.Miss && bytes.Equal(g.Data, val) {
							hit = true
						}
					}
					for range ec {
					}
					if !hit {
						miss++
						if first == "" {
							first = string(key)
						}
					}
				}
				if miss > 0 {
					w.Fail(rig.GoFailure{Kind: "counterexample", What: "a client connection whose cluster handler was built while one node refused connections routes keys differently from the other connections of the same proxy: what it stores they do not find",
						Input: map[string]interface{}{"cmd": "c19n", "nodes": n, "node_down_during_setup": down}, Detail: fmt.Sprintf("%d of 200 keys acknowledged through the new connection are misses through an older one (first: %q)", miss, first)})
				}
			} else {
				w.Count("handler-refused-while-a-node-was-down")
			}
		}
		// several client connections (each with its own cluster handler over the same node set)
		// route keys at the same time: every lookup is still the function of key and node set
		if n >= 2 {
			const workers, per = 12, 4000
			var wg sync.WaitGroup
			var mu sync.Mutex
			var cprob []string
			ring := cluster.VerifRing(hs[0].Continuum)
			for wk := 0; wk < workers; wk++ {
				wg.Add(1)
				go func(wk int) {
					defer wg.Done()
					defer func() {
						if p := recover(); p != nil {
							mu.Lock()
							cprob = append(cprob, fmt.Sprintf("worker %d: routing a key panicked: %v", wk, p))
							mu.Unlock()
						}
					}()
					h, err := cluster.NewHandler(addrs, "c19n-conc")
					if err != nil {
						return
					}
					defer h.Close()
					for k := 0; k < per; k++ {
						key := []byte(fmt.Sprintf("conc-%d-%d-%d", n, wk, k))
						b := h.Continuum.Hash(key)
						owner, _ := c19Ref(ring, c19md5le(key))
						if b == nil || b.Label() != owner {
							lbl := "<nil>"
							if b != nil {
								lbl = b.Label()
							}
							mu.Lock()
							if len(cprob) < 5 {
								cprob = append(cprob, fmt.Sprintf("worker %d: key %q routed to %s, the key and the node set determine %s", wk, key, lbl, owner))
							}
							mu.Unlock()
						}
						if k%500 == 0 {
							h.Set(common.SetRequest{Key: key, Data: []byte("x")})
						}
					}
				}(wk)
			}
			wg.Wait()
			if len(cprob) > 0 {
				w.Fail(rig.GoFailure{Kind: "counterexample", What: "with several connections routing keys at the same time a key was not routed to the node that the key and the node set determine", Input: in, Detail: fmt.Sprint(cprob)})
			}
			w.Count("concurrent-routing-round")
		}
		for _, h := range hs {
			h.Close()
		}
		for _, c := range closers {
			c()
		}
		w.Count(fmt.Sprintf("nodes=%d", n))
		w.Add(rig.Case{Desc: in, Coq: "tt", Nontrivial: n >= 2})
	}
	w.Res.Rule = "cluster.NewHandler over 1..8 (thorough ..32) fake memcached nodes on loopback TCP, three handler instances per node set (as listed, permuted, as listed again): bucket labels = configured addresses; each of 150 (1000) keys set through the first instance is stored on exactly the node the reference lookup over the instance's ring names and is a hit through the other two instances; then 12 connections with their own handlers route 4000 keys each at the same time (every lookup equals the reference lookup); for >= 3 nodes a handler is built while one node refuses connections (refused as a whole, or it must route like the others: 200 keys stored through it are read through an older handler); Go-side oracles only"
	if err := w.Finish([]string{"base.Bytes", "base.Harness"}, "unit", "(fun _ => 0%N)"); err != nil {
		rig.Die("%v", err)
	}
}
