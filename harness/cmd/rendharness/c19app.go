package main

// c19app (C19): the cluster proxy as app/memcached_cluster_proxy.go wires it — the REAL binary,
// built from the working tree, in front of fake memcached nodes on loopback TCP ports. Package
// main decides how the node list given on the command line becomes the handler's node set; the
// library-level runs (c19, c19n) build cluster handlers themselves and cannot see that. Several
// proxy processes are started on the same node set listed in different orders, and on the set
// with one node removed. Oracle (the statement of C19 itself): a key stored through one process
// is found through every process with the same node set, whatever the order of the list and
// whichever connection asks; every node receives a share of the keys; after a node is removed
// the keys of the other nodes are still found where they were.

import (
	"bytes"
	"encoding/binary"
	"fmt"
	"io"
	"net"
	"os"
	"os/exec"
	"path/filepath"
	"strings"
	"time"

	"verifharness/fakemc"
	"verifharness/rig"
	"verifharness/stack"
)

func init() { commands["c19app"] = c19app }

type binClient struct{ c net.Conn }

func dialBin(port int) (*binClient, error) {
	var c net.Conn
	var err error
	for i := 0; i < 200; i++ {
		c, err = net.DialTimeout("tcp", fmt.Sprintf("127.0.0.1:%d", port), time.Second)
		if err == nil {
			return &binClient{c: c}, nil
		}
		time.Sleep(50 * time.Millisecond)
	}
	return nil, err
}

// do sends one non-quiet binary request and reads one reply frame: status, value (without extras)
func (b *binClient) do(q stack.Req) (status uint16, value []byte, err error) {
	b.c.SetDeadline(time.Now().Add(10 * time.Second))
	if _, err = b.c.Write(q.EncodeBin()); err != nil {
		return
	}
	hdr := make([]byte, 24)
	if _, err = io.ReadFull(b.c, hdr); err != nil {
		return
	}
	if hdr[0] != 0x81 {
		return 0, nil, fmt.Errorf("reply magic %#x", hdr[0])
	}
	status = binary.BigEndian.Uint16(hdr[6:8])
	body := make([]byte, binary.BigEndian.Uint32(hdr[8:12]))
	if _, err = io.ReadFull(b.c, body); err != nil {
		return
	}
	ext := int(hdr[4]) + int(binary.BigEndian.Uint16(hdr[2:4]))
	if ext <= len(body) {
		value = body[ext:]
	}
	return
}

func c19app(e *env) {
	w := rig.NewWriter(e.out, "C19", e.tier, e.seed)
	w.Res.Cases = []rig.Case{}
	finish := func() {
		w.Res.Rule = "the real cluster proxy binary (go build app/memcached_cluster_proxy.go from the working tree, -destination-cluster-type noop) in front of 3..5 fake memcached nodes on loopback TCP ports: processes started with the node list in different orders and with one node removed; keys stored through the first process are read through the others and through a second connection; every node must receive keys"
		if err := w.Finish([]string{"base.Bytes", "base.Harness"}, "unit", "(fun _ => 0%N)"); err != nil {
			rig.Die("%v", err)
		}
	}
	repo := c18Repo()
	bin := filepath.Join(e.out, "cluster-proxy-real")
	bld := exec.Command("go", "build", "-o", bin, "app/memcached_cluster_proxy.go")
	bld.Dir = repo
	bld.Env = append(os.Environ(), "GOFLAGS=-mod=mod", "GOPROXY=off", "GOSUMDB=off", "GOTOOLCHAIN=local")
	if out, err := bld.CombinedOutput(); err != nil {
		w.Fail(rig.GoFailure{Kind: "broken-correspondence", What: "app/memcached_cluster_proxy.go does not build", Input: map[string]string{"cmd": "c19app"}, Detail: string(out)})
		finish()
		return
	}
	defer os.Remove(bin)
	sizes := []int{3}
	nkeys := 300
	if e.tier == "thorough" {
		sizes = []int{2, 3, 5}
		nkeys = 1500
	}
	r := rig.NewRand(e.seed*31 + 19)
	for _, n := range sizes {
		var nodes []*fakemc.Server
		var addrs []string
		var listeners []net.Listener
		for i := 0; i < n; i++ {
			f := fakemc.New()
			f.LogOn = false
			l, err := f.ListenTCP()
			if err != nil {
				rig.Die("c19app: %v", err)
			}
			listeners = append(listeners, l)
			nodes = append(nodes, f)
			addrs = append(addrs, l.Addr().String())
		}
		type proxy struct {
			order []int
			port  int
			proc  *exec.Cmd
		}
		start := func(order []int) *proxy {
			var hs []string
			for _, i := range order {
				hs = append(hs, addrs[i])
			}
			p := &proxy{order: order, port: freePort()}
			p.proc = exec.Command(bin, "-p", fmt.Sprint(p.port), "-admin-port", fmt.Sprint(freePort()),
				"-source-hostnames", strings.Join(hs, ","), "-source-cluster-name", "verif", "-destination-cluster-type", "noop", "-destination-hostnames", "unused")
			p.proc.Stdout, p.proc.Stderr = nil, nil
			if err := p.proc.Start(); err != nil {
				rig.Die("c19app: cannot start the proxy: %v", err)
			}
			return p
		}
		ident := make([]int, n)
		rot := make([]int, n)
		rev := make([]int, n)
		for i := 0; i < n; i++ {
			ident[i], rot[i], rev[i] = i, (i+1)%n, n-1-i
		}
		removed := r.Intn(n)
		var without []int
		for i := n - 1; i >= 0; i-- { // also listed in another order
			if i != removed {
				without = append(without, i)
			}
		}
		procs := []*proxy{start(ident), start(rot), start(rev), start(without)}
		kill := func() {
			for _, p := range procs {
				p.proc.Process.Kill()
				p.proc.Wait()
			}
			for _, l := range listeners {
				l.Close()
			}
		}
		in := func(extra map[string]interface{}) map[string]interface{} {
			m := map[string]interface{}{"cmd": "c19app", "nodes": n, "removed": removed}
			for k, v := range extra {
				m[k] = v
			}
			return m
		}
		c0, err := dialBin(procs[0].port)
		if err != nil {
			w.Fail(rig.GoFailure{Kind: "counterexample", What: "the cluster proxy does not accept connections", Input: in(nil), Detail: err.Error()})
			kill()
			continue
		}
		keys := make([]string, nkeys)
		for i := range keys {
			keys[i] = fmt.Sprintf("user:%d:%x", i, r.U64()&0xffff)
			st, _, err := c0.do(stack.Req{Kind: "set", Key: []byte(keys[i]), Data: []byte("v-" + keys[i]), Opaque: uint32(i)})
			if err != nil || st != 0 {
				w.Fail(rig.GoFailure{Kind: "counterexample", What: "a set through the cluster proxy failed", Input: in(map[string]interface{}{"key": keys[i]}), Detail: fmt.Sprint(st, err)})
				break
			}
		}
		owner := map[string]int{}
		share := make([]int, n)
		for i, f := range nodes {
			for k := range f.Dump() {
				if _, dup := owner[k]; dup {
					w.Fail(rig.GoFailure{Kind: "counterexample", What: "one key was stored on two nodes", Input: in(map[string]interface{}{"key": k})})
				}
				owner[k] = i
				share[i]++
			}
		}
		for i, s := range share {
			if s == 0 {
				w.Fail(rig.GoFailure{Kind: "counterexample", What: "a node of the cluster received none of the keys", Input: in(map[string]interface{}{"node": i, "keys": nkeys}), Detail: fmt.Sprint(share)})
			}
		}
		readAll := func(p *proxy, what string, only func(k string) bool) {
			c, err := dialBin(p.port)
			if err != nil {
				w.Fail(rig.GoFailure{Kind: "counterexample", What: "the cluster proxy does not accept connections", Input: in(map[string]interface{}{"order": p.order}), Detail: err.Error()})
				return
			}
			defer c.c.Close()
			bad := 0
			var first string
			for i, k := range keys {
				if _, stored := owner[k]; !stored || !only(k) {
					continue
				}
				st, v, err := c.do(stack.Req{Kind: "get", Items: []stack.GItem{{Key: []byte(k), Opaque: uint32(i)}}})
				if err != nil || st != 0 || !bytes.Equal(v, []byte("v-"+k)) {
					bad++
					if first == "" {
						first = fmt.Sprintf("key %q stored on node %d (%s): status %d value %q err %v", k, owner[k], addrs[owner[k]], st, v, err)
					}
				}
			}
			if bad > 0 {
				w.Fail(rig.GoFailure{Kind: "counterexample", What: what, Input: in(map[string]interface{}{"stored_via_order": procs[0].order, "read_via_order": p.order}),
					Detail: fmt.Sprintf("%d of %d keys not found; first: %s", bad, len(keys), first)})
			}
		}
		all := func(string) bool { return true }
		readAll(procs[0], "a key stored through one connection is not found through another connection of the same process", all)
		readAll(procs[1], "a key stored through one process is not found through a process given the same nodes in another order", all)
		readAll(procs[2], "a key stored through one process is not found through a process given the same nodes in another order", all)
		readAll(procs[3], "after a node was removed from the list, keys that the removed node did not own are no longer found", func(k string) bool { return owner[k] != removed })
		// a node that refuses connections exactly while a client connection is being set up: that
		// client is refused, or - once the node is back - it must find every key where the others do
		{
			down := (removed + 1) % n
			listeners[down].Close()
			c2, err := dialBin(procs[1].port)
			var early error
			if err == nil {
				_, _, early = c2.do(stack.Req{Kind: "noop", Opaque: 5})
			}
			l2, lerr := nodes[down].ListenTCPAt(addrs[down])
			if lerr != nil {
				rig.Die("c19app: cannot bring node %d back on %s: %v", down, addrs[down], lerr)
			}
			listeners[down] = l2
			if err == nil && early == nil {
				bad := 0
				var first string
				for i, k := range keys {
					if _, stored := owner[k]; !stored {
						continue
					}
					st, v, gerr := c2.do(stack.Req{Kind: "get", Items: []stack.GItem{{Key: []byte(k), Opaque: uint32(i)}}})
					if gerr != nil {
						break // the connection was given up after all: allowed
					}
					if st != 0 || !bytes.Equal(v, []byte("v-"+k)) {
						bad++
						if first == "" {
							first = fmt.Sprintf("key %q stored on node %d (%s): status %d value %q", k, owner[k], addrs[owner[k]], st, v)
						}
					}
				}
				if bad > 0 {
					w.Fail(rig.GoFailure{Kind: "counterexample", What: "a client connection set up while one node refused connections routes keys differently from the other connections once the node is back",
						Input: in(map[string]interface{}{"node_down_during_setup": down}), Detail: fmt.Sprintf("%d keys not found; first: %s", bad, first)})
				}
				w.Count("node-down-during-setup=served")
			} else {
				w.Count("node-down-during-setup=refused")
			}
			if err == nil {
				c2.c.Close()
			}
		}
		c0.c.Close()
		kill()
		w.Count(fmt.Sprintf("cluster-proxy-nodes=%d", n))
		w.Add(rig.Case{Desc: in(map[string]interface{}{"share": share}), Coq: "tt", Nontrivial: true})
	}
	finish()
}
