package main

import (
	"bytes"
	"encoding/binary"
	"encoding/json"
	"fmt"
	"os"
	"os/exec"
	"path/filepath"
	"regexp"
	"strings"
	"sync"
	"sync/atomic"
	"time"

	"github.com/netflix/rend/handlers/memcached/batched"
	"github.com/netflix/rend/metrics"
	"verifharness/gal"
	"verifharness/rig"
	"verifharness/stack"
)

func init() {
	commands["c14par"] = c14par
	commands["c14child"] = c14child
}

// c14par: many real connections in parallel on private key sets (run under the race detector
// in the thorough tier). The traffic runs in a child process so that race reports and runtime
// crashes are observations instead of harness failures.
func c14par(e *env) {
	exe, _ := os.Executable()
	args := []string{"c14child", "-tier", e.tier, "-seed", fmt.Sprint(e.seed), "-out", e.out}
	cmd := exec.Command(exe, args...)
	var stderr bytes.Buffer
	cmd.Stderr = &stderr
	cmd.Env = append(os.Environ(), "GORACE=halt_on_error=0 history_size=2")
	err := cmd.Run()
	rp := filepath.Join(e.out, "result.json")
	b, rerr := os.ReadFile(rp)
	var res rig.Result
	if rerr != nil || json.Unmarshal(b, &res) != nil {
		rig.Die("child did not produce a result (%v): %s", err, tailStr(stderr.String(), 3000))
	}
	// race reports
	reports := strings.Split(stderr.String(), "==================")
	seen := map[string]bool{}
	nraces := 0
	for _, rep := range reports {
		if !strings.Contains(rep, "WARNING: DATA RACE") {
			continue
		}
		nraces++
		sig := raceSignature(rep)
		if seen[sig] {
			continue
		}
		seen[sig] = true
		inRepo := strings.Contains(rep, "github.com/netflix/rend/")
		kind := "counterexample"
		what := "data race between connections in repository code (race detector): " + sig
		if !inRepo {
			kind = "broken-correspondence"
			what = "data race reported outside repository code: " + sig
		}
		res.GoFailures = append(res.GoFailures, rig.GoFailure{Kind: kind, What: what, Input: map[string]interface{}{"cmd": "c14par", "tier": e.tier, "seed": e.seed},
			Detail: tailStr(rep, 2500), Tags: []string{"race:" + sig}})
	}
	if strings.Contains(stderr.String(), "fatal error:") || strings.Contains(stderr.String(), "panic:") {
		res.GoFailures = append(res.GoFailures, rig.GoFailure{Kind: "counterexample", What: "the server process crashed under concurrent connections",
			Input: map[string]interface{}{"cmd": "c14par", "tier": e.tier, "seed": e.seed}, Detail: tailStr(stderr.String(), 3000)})
	}
	if res.Stats == nil {
		res.Stats = map[string]interface{}{}
	}
	res.Stats["race_reports"] = nraces
	res.Stats["race_detector"] = raceEnabled
	out, _ := json.MarshalIndent(res, "", " ")
	os.WriteFile(rp, out, 0o644)
}

var frameRe = regexp.MustCompile(`github\.com/netflix/rend/[^\s(]+`)

// raceSignature: the repository functions involved, in order of appearance (addresses dropped)
func raceSignature(rep string) string {
	m := frameRe.FindAllString(rep, -1)
	var fs []string
	seen := map[string]bool{}
	for _, f := range m {
		f = strings.TrimPrefix(f, "github.com/netflix/rend/")
		if !seen[f] && !strings.HasSuffix(f, ".go") {
			seen[f] = true
			fs = append(fs, f)
		}
		if len(fs) >= 4 {
			break
		}
	}
	if len(fs) == 0 {
		return "(no repository frame)"
	}
	return strings.Join(fs, " | ")
}

func tailStr(s string, n int) string {
	if len(s) > n {
		return s[len(s)-n:]
	}
	return s
}

func c14child(e *env) {
	w := rig.NewWriter(e.out, "C14", e.tier, e.seed)
	w.Shards = 16
	r := rig.NewRand(e.seed*977 + 14)
	rounds := 12
	if e.tier == "thorough" {
		rounds = 60
	}
	// metrics are shared by all connections: gauges are published and /metrics is scraped while the
	// connections work (what the batching pool's monitor and a monitoring agent do)
	ig := metrics.AddIntGauge("verifc14_int_gauge", nil)
	fg := metrics.AddFloatGauge("verifc14_float_gauge", nil)
	var mstop int32
	var mwg sync.WaitGroup
	mwg.Add(2)
	go func() {
		defer mwg.Done()
		for k := uint64(1); atomic.LoadInt32(&mstop) == 0; k++ {
			metrics.SetIntGauge(ig, k)
			metrics.SetFloatGauge(fg, float64(k))
			time.Sleep(50 * time.Microsecond)
		}
	}()
	go func() {
		defer mwg.Done()
		for atomic.LoadInt32(&mstop) == 0 {
			fetchMetrics()
			time.Sleep(2 * time.Millisecond)
		}
	}()
	defer func() { atomic.StoreInt32(&mstop, 1); mwg.Wait() }()
	for round := 0; round < rounds; round++ {
		nconn := []int{2, 4, 8, 16, 32, 64}[round%6]
		// every third round: both tiers through batching pools (shared backend connections and
		// reader goroutines, handlers/memcached/batched) instead of one std handler per connection
		pooled := round%3 == 2
		if pooled && nconn < 8 {
			nconn = 8
		}
		// every fourth round: the chunked handler as the per-connection L1 handler (real clock)
		chunkedRound := round%4 == 3 && !pooled
		nowRound := int64(t0)
		if e.tier != "thorough" && nconn > 16 {
			nconn = 16
		}
		deploy := []string{"l1l2+batch", "l1only", "l1l2"}[round%3]
		locked := round%2 == 0
		proto := []string{"bin", "text"}[(round/2)%2]
		b := stack.NewBackends()
		b.L1.LogOn, b.L2.LogOn = false, false
		b.L1.SetNow(t0)
		b.L2.SetNow(t0)
		if chunkedRound {
			nowRound = time.Now().Unix()
			b.L1.RealClock = func() int64 { return time.Now().Unix() }
			b.L2.RealClock = b.L1.RealClock
			chunkedL1 = true // TTL classes and request kinds the chunked stack supports (see c01c)
			w.Count("round=chunked-L1")
		}
		sock1, sock2 := "", ""
		if pooled {
			sock1, sock2 = newSock(e), newSock(e)
			ln1, err1 := b.L1.ListenUnix(sock1)
			ln2, err2 := b.L2.ListenUnix(sock2)
			if err1 != nil || err2 != nil {
				rig.Die("listen: %v %v", err1, err2)
			}
			defer ln1.Close()
			defer ln2.Close()
			// two backend connections per pool
			batched.NewHandler(sock1, stack.BatchOpts)
			batched.VerifAddConn(sock1)
			batched.NewHandler(sock2, stack.BatchOpts)
			batched.VerifAddConn(sock2)
			w.Count("round=batching-pools")
		} else {
			w.Count("round=std-handlers")
		}
		// every third round: the connections go through rend's accept loop (server.ListenAndServe)
		// and are all accepted before any of them sends its first byte
		viaListen := round%3 == 1
		type connRun struct {
			c     fsCase
			steps []string
			fail  *rig.GoFailure
			pre   *stack.Conn // main-port connection accepted before the start (viaListen)
		}
		runs := make([]*connRun, nconn)
		for i := range runs {
			// private keys for connection i; the generator draws from fsKeys, so swap them per connection
			c := genCaseKeys(r, deploy, locked, proto, 10+r.Intn(25), w, []string{fmt.Sprintf("c%d-a", i), fmt.Sprintf("c%d-b", i), fmt.Sprintf("c%d-c", i)})
			if chunkedRound {
				// the round may straddle a second of the real clock: no TTL that could run out meanwhile
				for si := range c.Steps {
					if t := c.Steps[si].Req.TTL; t > 0 && t < 1000 {
						c.Steps[si].Req.TTL = 0
					}
				}
			}
			runs[i] = &connRun{c: c}
		}
		chunkedL1 = false
		if viaListen {
			mainOrca := "l1l2"
			if deploy == "l1only" {
				mainOrca = "l1only"
			}
			ln := listenerFor(stack.Config{Orca: mainOrca, Locked: locked, MultiRd: true, L1: "std", Proto: proto})
			ln.SetBackends(b)
			for _, cr := range runs {
				cn, err := ln.Dial(proto)
				if err != nil {
					rig.Die("%v", err)
				}
				cr.pre = cn
			}
			w.Count("round=via-accept-loop")
		}
		var wg sync.WaitGroup
		start := make(chan struct{})
		for i := range runs {
			wg.Add(1)
			go func(cr *connRun) {
				defer wg.Done()
				<-start
				mainOrca := "l1l2"
				if cr.c.Deploy == "l1only" {
					mainOrca = "l1only"
				}
				orcaOf := map[string]string{"main": mainOrca, "batch": "l1l2batch"}
				conns := map[string]*stack.Conn{}
				if cr.pre != nil {
					conns["main"] = cr.pre
				}
				defer func() {
					for _, cn := range conns {
						cn.Close()
					}
				}()
				for si, st := range cr.c.Steps {
					cn, ok := conns[st.Port]
					if !ok {
						l1k := "std"
						if chunkedRound {
							l1k = "chunked"
						}
						cn = stack.Dial(b, stack.Config{Orca: orcaOf[st.Port], Locked: cr.c.Locked, MultiRd: true, L1: l1k, Proto: cr.c.Proto, L1Sock: sock1, L2Sock: sock2})
						// every request arrives in two pieces: the parser holds its state across reads
						cn.SplitAt = 5 + (si*7)%40
						conns[st.Port] = cn
					}
					var req []byte
					if cr.c.Proto == "text" {
						req = st.Req.EncodeText()
					} else {
						req = st.Req.EncodeBin()
					}
					reply, closed, err := cn.Exchange(req, 20*time.Second)
					if err != nil {
						cr.fail = &rig.GoFailure{Kind: "counterexample", What: "a connection got no complete reply within 20 s while other connections were active",
							Input: truncCase(cr.c, si+1), Detail: fmt.Sprintf("step %d", si)}
						return
					}
					if closed {
						delete(conns, st.Port)
					}
					cr.steps = append(cr.steps, gal.App("mkStep", cfgGallina(orcaOf[st.Port], cr.c.Locked), gal.N(uint64(nowRound)), "[]",
						st.Req.Gallina(), gal.Bytes(reply), gal.Bytes(reply), gal.Bool(closed), "[]", "[]"))
				}
			}(runs[i])
		}
		close(start)
		wg.Wait()
		for _, cr := range runs {
			if cr.fail != nil {
				w.Fail(*cr.fail)
				continue
			}
			keys := make([]string, len(cr.c.Keys))
			for i, k := range cr.c.Keys {
				keys[i] = gal.Bytes([]byte(k))
			}
			p := "Bin"
			if cr.c.Proto == "text" {
				p = "Text"
			}
			w.Count(fmt.Sprintf("connections=%d", nconn))
			w.Add(rig.Case{Desc: cr.c, Coq: gal.App("mkCase01", p, gal.Bool(cr.c.Deploy != "l1only"), gal.List(keys), gal.List(cr.steps)),
				Nontrivial: nconn >= 2 && len(cr.steps) > 3, Tags: caseTags(cr.c)})
		}
	}
	c14HitStorm(w, e)
	w.Res.Rule = "rounds of 2..64 real connections (full stack: parser, server loop, orchestrator, std handlers or - every third round - the batching pools of handlers/memcached/batched for both tiers, shared fake backends; every fourth round the chunked handler is the per-connection L1 handler (real clock); requests arrive split in two pieces; every third round the connections pass through rend's accept loop and are all accepted before the first byte of any) started together, each running a random command sequence on its own private keys; every connection's replies are compared with the sequential model of that connection alone; in the thorough tier the binary is built with -race and every race report naming repository code is a finding; then a hit storm: 8 connections (one-tier deployment, binary, plain and locked) each reading its own key with get, gete and gat 1200 times at once - every reply must carry that key's own flags, expiry and data (Go-side oracle on the reply bytes)"
	if err := w.Finish([]string{"base.Bytes", "base.Harness", "spec.MapSpec", "orca.Types", "proto.Resp", "checks.Check01"}, "case01", "check01 14"); err != nil {
		rig.Die("%v", err)
	}
}

// genCaseKeys is genCase with a private key alphabet and a fixed clock.
func genCaseKeys(r *rig.Rand, deploy string, locked bool, proto string, n int, w *rig.Writer, keys []string) fsCase {
	saved := fsKeys
	fsKeys = keys
	defer func() { fsKeys = saved }()
	c := genCase(r, 1, deploy, locked, proto, n, w)
	c.Keys = keys
	for i := range c.Steps {
		c.Steps[i].Now = t0
		c.Steps[i].Evict = nil
	}
	return c
}

// c14HitStorm: many connections receive hit replies at the same instant, each for its own key
// with its own flags / expiry / data. Whatever the responders, handlers and orchestrators share
// (scratch buffers, pools) must not leak one connection's reply fields into another's: every
// reply is compared byte for byte with the first reply that connection got for that request and
// its flags with the flags that were stored.
func c14HitStorm(w *rig.Writer, e *env) {
	iters := 1200
	if raceEnabled {
		iters = 300
	}
	if e.tier == "thorough" {
		iters *= 4
	}
	for _, locked := range []bool{false, true} {
		b := stack.NewBackends()
		b.L1.LogOn, b.L2.LogOn = false, false
		b.L1.SetNow(t0)
		b.L2.SetNow(t0)
		const nconn = 8
		var wg sync.WaitGroup
		var mu sync.Mutex
		var fail *rig.GoFailure
		start := make(chan struct{})
		for i := 0; i < nconn; i++ {
			wg.Add(1)
			go func(i int) {
				defer wg.Done()
				cn := stack.Dial(b, stack.Config{Orca: "l1only", Locked: locked, MultiRd: true, L1: "std", Proto: "bin"})
				defer cn.Close()
				key := []byte(fmt.Sprintf("storm-%d", i))
				flags := uint32(i+1) * 0x01010101
				ttl := uint32(1000 * (i + 1))
				data := bytes.Repeat([]byte{byte('A' + i)}, 3+i)
				set := stack.Req{Kind: "set", Key: key, Data: data, Flags: flags, TTL: ttl, Opaque: uint32(i)}
				if _, closed, err := cn.Exchange(set.EncodeBin(), 20*time.Second); err != nil || closed {
					return
				}
				reqs := []stack.Req{
					{Kind: "gete", Items: []stack.GItem{{Key: key, Opaque: uint32(100 + i)}}},
					{Kind: "get", Items: []stack.GItem{{Key: key, Opaque: uint32(200 + i)}}},
					{Kind: "gat", Key: key, TTL: ttl, Opaque: uint32(300 + i)},
				}
				first := make([][]byte, len(reqs))
				<-start
				for n := 0; n < iters; n++ {
					for ri, q := range reqs {
						rep, closed, err := cn.Exchange(q.EncodeBin(), 20*time.Second)
						if err != nil || closed {
							mu.Lock()
							if fail == nil {
								fail = &rig.GoFailure{Kind: "counterexample", What: "a connection reading its own key got no reply (or was closed) while other connections were reading theirs",
									Input: map[string]interface{}{"cmd": "c14par", "part": "hit-storm", "locked": locked, "request": q.Kind}}
							}
							mu.Unlock()
							return
						}
						bad := ""
						if len(rep) < 28 || rep[0] != 0x81 || rep[6] != 0 || rep[7] != 0 {
							bad = "not a hit reply"
						} else if got := binary.BigEndian.Uint32(rep[24:28]); got != flags {
							bad = fmt.Sprintf("flags %#x instead of the stored %#x", got, flags)
						} else if !bytes.HasSuffix(rep, data) {
							bad = "data differs from the stored value"
						} else if first[ri] == nil {
							first[ri] = rep
						} else if !bytes.Equal(first[ri], rep) {
							bad = "reply differs from the first reply to the same request on this connection"
						}
						if bad != "" {
							mu.Lock()
							if fail == nil {
								fail = &rig.GoFailure{Kind: "counterexample", What: "a hit reply carried fields that are not those of the connection's own key while other connections were being answered: " + bad,
									Input:  map[string]interface{}{"cmd": "c14par", "part": "hit-storm", "locked": locked, "request": q.Kind, "connection": i, "iteration": n},
									Detail: fmt.Sprintf("reply % x; first reply % x", rep, first[ri])}
							}
							mu.Unlock()
							return
						}
					}
				}
			}(i)
		}
		close(start)
		wg.Wait()
		if fail != nil {
			w.Fail(*fail)
		}
		w.Count("hit-storm-rounds")
	}
}
